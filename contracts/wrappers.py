"""Functional contracts of the wrapping / delimiting / look-ahead constructs, stated over the interface functions of their
sub-constructs (P_ok/P_val/P_end/..., B_ok/B_ret/B_bytes/B_len/..., Z_ok/Z_val: pyvc/constructs.py), with sequential
sub-constructs (sub_seq=True).  Consumed by C03 (length/padding/alignment arithmetic), C05 (exact sizes), C08 (regions and
absolute offsets), C09 (look-ahead and restore), C13 (constants), C14 (RawCopy)."""
from pyvc import terms as t, prelude, streams
from pyvc.terms import I, S
from pyvc.values import *  # noqa
from pyvc.contract import FnContract, Case, register, rk_dyn, rk_none
from pyvc.exec import LoopSpec
from .classes import method_setup, path_clause, CORE
from .prims import size_is, fcontract, S_, _param_int, _param_truth, _avail, result_int, stream_error, buffer_same, generic_raise
from .specs import forall_range

T = ('C03', 'C01', 'C02', 'C05', 'C06', 'C08')


class Region:
    """a substream over bytes [start, start+n) of a buffer, positioned at 0, whose tell() adds `base` (C08)"""
    model = 'offsets'

    def __init__(self, buf, start, n, base):
        self.buf = streams.shift(buf, start)
        self.len, self.pos, self.base, self.offset = n, t.ZERO, base, base


class Sub:
    """interface function applications for one sub-construct call at a given stream / heap state"""

    def __init__(self, view, field, o=None, heap=None, ctx=None, obj=None, kind='parse', pos=None):
        sc = view.self.fields[field]
        self.sc = sc
        H, D = heap if heap is not None else (view.st.ghost['H'], view.st.ghost['D'])
        c = ctx if ctx is not None else view.obj('context').addr
        if kind == 'parse':
            o = o if o is not None else view.obj('stream')
            base = o.offset if o.model == 'offsets' else t.ZERO
            if isinstance(o, Region):
                base = o.base
            a = (sc.ident, o.buf, o.len, o.pos if pos is None else pos, base, H, D, c)
            self.ok = t.app('P_ok', t.BOOL, *a)
            self.val = t.app('P_val', t.VAL, *a)
            self.end = t.app('P_end', t.INT, *a)
            self.exc = t.app('P_exc', t.INT, *a)
            self.H, self.D = t.app('P_H', 'Heap', *a), t.app('P_D', 'Dom', *a)
        elif kind == 'build':
            o = o if o is not None else view.obj('stream')
            base = o.offset if o.model == 'offsets' else t.ZERO
            a = (sc.ident, obj, t.add(o.pos if pos is None else pos, base), H, D, c)
            self.ok = t.app('B_ok', t.BOOL, *a)
            self.exc = t.app('B_exc', t.INT, *a)
            self.ret = t.app('B_ret', t.VAL, *a)
            self.bytes = t.app('B_bytes', t.ARR, *a)
            self.len = t.app('B_len', t.INT, *a)
            self.H, self.D = t.app('B_H', 'Heap', *a), t.app('B_D', 'Dom', *a)
        else:
            a = (sc.ident, H, D, c)
            self.ok = t.app('Z_ok', t.BOOL, *a)
            self.val = t.app('Z_val', t.INT, *a)


def result_is(post, valterm):
    return t.eq(post.eng.to_dyn(post.result, post.st), valterm)


def heap_is(post, H, D):
    return t.and_(t.eq(post.st.ghost['H'], H), t.eq(post.st.ghost['D'], D))


# ================================================================================================ Padded
def _padded_parse_guard(pre):
    o = S_(pre)
    L = _param_int(pre, 'length')
    s = Sub(pre, 'subcon')
    return t.and_(t.ge(L, t.ZERO), s.ok, t.le(t.sub(s.end, o.pos), L), t.le(t.add(o.pos, L), t.imax(o.len, s.end)))


def _padded_parse_ok(pre, post):
    o, o2 = S_(pre), post.obj('stream')
    L = _param_int(pre, 'length')
    s = Sub(pre, 'subcon')
    return [('returns-inner-value', result_is(post, s.val)),
            ('consumes-exactly-length', t.eq(o2.pos, t.add(o.pos, L))),
            ('buffer-unchanged', buffer_same(pre, post), ('C17', 'C08')),
            ('context-as-the-inner-parse-left-it', heap_is(post, s.H, s.D), ('C07',))]


def _padded_parse_bad(pre, post):
    o = S_(pre)
    L = _param_int(pre, 'length')
    s = Sub(pre, 'subcon')
    trunc = t.and_(t.ge(L, t.ZERO), s.ok, t.le(t.sub(s.end, o.pos), L), t.gt(t.add(o.pos, L), t.imax(o.len, s.end)))
    return [('padding-cut-short-is-StreamError', t.implies(trunc, stream_error(post)), ('C06', 'C03'))] + generic_raise(pre, post)


fcontract('Padded', '_parse', [
    Case('ok', 'return', _padded_parse_guard, ensures=_padded_parse_ok, rkind=rk_dyn, modifies=['stream']),
    Case('rejects', 'raise', lambda pre: t.not_(_padded_parse_guard(pre)), ensures=_padded_parse_bad, modifies=['stream']),
], tags=T)


def _written(o, o2, n, elem, label):
    """o2.buf[o.pos + i] == elem(i) for i < n"""
    i = t.var('i!', t.INT)
    return (label, forall_range(i, o.pos, t.add(o.pos, n), t.eq(t.select(o2.buf, i), elem(t.sub(i, o.pos))), [[t.select(o2.buf, i)]]))


def _padded_build_guard(pre):
    L = _param_int(pre, 'length')
    s = Sub(pre, 'subcon', obj=pre['obj'].t, kind='build')
    return t.and_(t.ge(L, t.ZERO), s.ok, t.le(s.len, L))


def _padded_build_ok(pre, post):
    o, o2 = S_(pre), post.obj('stream')
    L = _param_int(pre, 'length')
    s = Sub(pre, 'subcon', obj=pre['obj'].t, kind='build')
    pat = pre.self.fields['pattern'].at(t.ZERO)
    return [('advances-exactly-length', t.eq(o2.pos, t.add(o.pos, L))),
            _written(o, o2, L, lambda i: t.ite(t.lt(i, s.len), t.select(s.bytes, i), pat), 'inner-bytes-then-pattern'),
            ('returns-inner-build-value', result_is(post, s.ret))]


fcontract('Padded', '_build', [
    Case('ok', 'return', _padded_build_guard, ensures=_padded_build_ok, rkind=rk_dyn, modifies=['stream']),
    Case('rejects', 'raise', lambda pre: t.not_(_padded_build_guard(pre)), ensures=generic_raise, modifies=['stream']),
], tags=T)

fcontract('Padded', '_sizeof', [
    Case('ok', 'return', lambda pre: t.ge(_param_int(pre, 'length'), t.ZERO),
         ensures=lambda pre, post: [('size-is-length', size_is(post, _param_int(pre, 'length')), ('C05',))], rkind=rk_dyn),
    Case('negative', 'raise', lambda pre: t.lt(_param_int(pre, 'length'), t.ZERO)),
], tags=('C05',))


# ================================================================================================ Aligned
def _pad_to(n, m):
    return t.pymod(t.neg(n), m)


from pyvc.lemma import Lemma
# the pad computed as (-n) mod m is the least non-negative amount that makes the extent a multiple of m
Lemma('pad_to_modulus', [('n', t.INT), ('m', t.INT)],
      lambda v: t.implies(t.and_(t.ge(v['n'], t.ZERO), t.ge(v['m'], I(2))),
                          t.and_(t.le(t.ZERO, _pad_to(v['n'], v['m'])), t.lt(_pad_to(v['n'], v['m']), v['m']),
                                 t.eq(t.pymod(t.add(v['n'], _pad_to(v['n'], v['m'])), v['m']), t.ZERO))),
      tags=('C03', 'C05'), doc='alignment arithmetic: n + ((-n) mod m) is a multiple of m and the pad is smaller than m')


def _aligned_parse_guard(pre):
    o = S_(pre)
    m = _param_int(pre, 'modulus')
    s = Sub(pre, 'subcon')
    return t.and_(t.ge(m, I(2)), s.ok, t.le(t.add(s.end, _pad_to(t.sub(s.end, o.pos), m)), t.imax(o.len, s.end)))


def _aligned_parse_ok(pre, post):
    o, o2 = S_(pre), post.obj('stream')
    m = _param_int(pre, 'modulus')
    s = Sub(pre, 'subcon')
    used = t.sub(s.end, o.pos)
    return [('returns-inner-value', result_is(post, s.val)),
            ('consumes-inner-extent-plus-pad-to-modulus', t.eq(o2.pos, t.add(s.end, _pad_to(used, m)))),
            ('buffer-unchanged', buffer_same(pre, post), ('C17', 'C08'))]


fcontract('Aligned', '_parse', [
    Case('ok', 'return', _aligned_parse_guard, ensures=_aligned_parse_ok, rkind=rk_dyn, modifies=['stream']),
    Case('rejects', 'raise', lambda pre: t.not_(_aligned_parse_guard(pre)), ensures=generic_raise, modifies=['stream']),
], tags=T)


def _aligned_build_guard(pre):
    m = _param_int(pre, 'modulus')
    s = Sub(pre, 'subcon', obj=pre['obj'].t, kind='build')
    return t.and_(t.ge(m, I(2)), s.ok)


def _aligned_build_ok(pre, post):
    o, o2 = S_(pre), post.obj('stream')
    m = _param_int(pre, 'modulus')
    s = Sub(pre, 'subcon', obj=pre['obj'].t, kind='build')
    pat = pre.self.fields['pattern'].at(t.ZERO)
    total = t.add(s.len, _pad_to(s.len, m))
    return [('advances-inner-length-plus-pad-to-modulus', t.eq(o2.pos, t.add(o.pos, total))),
            _written(o, o2, total, lambda i: t.ite(t.lt(i, s.len), t.select(s.bytes, i), pat), 'inner-bytes-then-pattern'),
            ('returns-inner-build-value', result_is(post, s.ret))]


fcontract('Aligned', '_build', [
    Case('ok', 'return', _aligned_build_guard, ensures=_aligned_build_ok, rkind=rk_dyn, modifies=['stream']),
    Case('rejects', 'raise', lambda pre: t.not_(_aligned_build_guard(pre)), ensures=generic_raise, modifies=['stream']),
], tags=T)


def _aligned_sizeof_ok(pre, post):
    m = _param_int(pre, 'modulus')
    z = Sub(pre, 'subcon', kind='sizeof')
    return [('size-is-inner-size-rounded-up-to-modulus', size_is(post, t.add(z.val, _pad_to(z.val, m))), ('C05',))]


fcontract('Aligned', '_sizeof', [
    Case('ok', 'return', lambda pre: t.and_(t.ge(_param_int(pre, 'modulus'), I(2)), Sub(pre, 'subcon', kind='sizeof').ok), ensures=_aligned_sizeof_ok, rkind=rk_dyn),
    Case('no-size', 'raise', lambda pre: t.not_(t.and_(t.ge(_param_int(pre, 'modulus'), I(2)), Sub(pre, 'subcon', kind='sizeof').ok))),
], tags=('C05',))


# ================================================================================================ Const
def _const_parse_guard(pre):
    s = Sub(pre, 'subcon')
    return t.and_(s.ok, t.app('pyeq', t.BOOL, s.val, pre.self.fields['value'].t))


def _const_parse_ok(pre, post):
    o2 = post.obj('stream')
    s = Sub(pre, 'subcon')
    return [('returns-the-parsed-constant', result_is(post, s.val), ('C13', 'C03')),
            ('parsed-value-equals-the-constant', t.app('pyeq', t.BOOL, post.eng.to_dyn(post.result, post.st), pre.self.fields['value'].t), ('C13',)),
            ('consumes-inner-extent', t.eq(o2.pos, s.end), ('C03', 'C05'))]


def _const_parse_bad(pre, post):
    s = Sub(pre, 'subcon')
    mism = t.and_(s.ok, t.not_(t.app('pyeq', t.BOOL, s.val, pre.self.fields['value'].t)))
    return [('other-value-is-ConstError', t.implies(mism, t.eq(post.exc.cls, I(post.eng.src.exc_code['ConstError']))), ('C13',))] + generic_raise(pre, post)


fcontract('Const', '_parse', [
    Case('ok', 'return', _const_parse_guard, ensures=_const_parse_ok, rkind=rk_dyn, modifies=['stream']),
    Case('rejects', 'raise', lambda pre: t.not_(_const_parse_guard(pre)), ensures=_const_parse_bad, modifies=['stream']),
], tags=('C13', 'C03', 'C01', 'C02'))


def _const_build_guard(pre):
    v = pre.self.fields['value'].t
    s = Sub(pre, 'subcon', obj=v, kind='build')
    given = pre['obj'].t
    return t.and_(t.or_(t.app('(_ is VNone)', t.BOOL, given), t.app('pyeq', t.BOOL, given, v)), s.ok)


def _const_build_ok(pre, post):
    o, o2 = S_(pre), post.obj('stream')
    v = pre.self.fields['value'].t
    s = Sub(pre, 'subcon', obj=v, kind='build')
    return [('always-emits-the-encoding-of-the-constant', t.and_(t.eq(o2.pos, t.add(o.pos, s.len)),
                                                                _written(o, o2, s.len, lambda i: t.select(s.bytes, i), 'w')[1]), ('C13', 'C03')),
            ('returns-what-the-inner-build-returns', result_is(post, s.ret), ('C13',))]


def _const_build_bad(pre, post):
    v = pre.self.fields['value'].t
    given = pre['obj'].t
    refused = t.not_(t.or_(t.app('(_ is VNone)', t.BOOL, given), t.app('pyeq', t.BOOL, given, v)))
    return [('any-other-supplied-value-is-ConstError', t.implies(refused, t.eq(post.exc.cls, I(post.eng.src.exc_code['ConstError']))), ('C13',))] + generic_raise(pre, post)


fcontract('Const', '_build', [
    Case('ok', 'return', _const_build_guard, ensures=_const_build_ok, rkind=rk_dyn, modifies=['stream']),
    Case('rejects', 'raise', lambda pre: t.not_(_const_build_guard(pre)), ensures=_const_build_bad, modifies=['stream']),
], tags=('C13', 'C03', 'C01', 'C02'))


# ================================================================================================ Peek / Pointer (C09)
def _peek_parse_ok(pre, post):
    o, o2 = S_(pre), post.obj('stream')
    s = Sub(pre, 'subcon')
    ce = post.eng.exc_sub_term(s.exc, 'ConstructError')
    return [('position-restored', t.eq(o2.pos, o.pos), ('C09',)),
            ('value-of-inner-parse-or-None', result_is(post, t.ite(s.ok, s.val, t.app('VNone', t.VAL))), ('C09',)),
            ('buffer-unchanged', buffer_same(pre, post), ('C17', 'C09'))]


def _peek_guard_ok(pre):
    s = Sub(pre, 'subcon')
    explicit = t.eq(s.exc, I(pre.eng.src.exc_code['ExplicitError']))
    return t.or_(s.ok, t.not_(explicit))


def _peek_bad(pre, post):
    o, o2 = S_(pre), post.obj('stream')
    return [('position-restored-even-when-ExplicitError-propagates', t.eq(o2.pos, o.pos), ('C09',)),
            ('only-ExplicitError-propagates', t.eq(post.exc.cls, I(post.eng.src.exc_code['ExplicitError'])), ('C13', 'C09'))] + generic_raise(pre, post)


fcontract('Peek', '_parse', [
    Case('ok', 'return', _peek_guard_ok, ensures=_peek_parse_ok, rkind=rk_dyn, modifies=['stream']),
    Case('explicit-error', 'raise', lambda pre: t.not_(_peek_guard_ok(pre)), ensures=_peek_bad, modifies=['stream']),
], tags=('C09', 'C13'))


class _Eff:
    """the stream a Pointer works on: the one named by its stream= parameter when given, else the enclosing one"""
    model = 'bytesio'

    def __init__(self, pre):
        o = S_(pre)
        g = pre.st.ghost['redirected']
        x = pre.st.get(pre.st.ghost['otherstream'])
        self.buf, self.len, self.pos = t.ite(g, x.buf, o.buf), t.ite(g, x.len, o.len), t.ite(g, x.pos, o.pos)


def _ptr_target(pre):
    o = _Eff(pre)
    off = _param_int(pre, 'offset')
    return t.ite(t.lt(off, t.ZERO), t.imax(t.add(o.len, off), t.ZERO), off)


def _ptr_sub(pre):
    return Sub(pre, 'subcon', o=_Eff(pre), pos=_ptr_target(pre))


def _ptr_parse_ok(pre, post):
    o, o2 = S_(pre), post.obj('stream')
    x, x2 = pre.st.get(pre.st.ghost['otherstream']), post.st.get(pre.st.ghost['otherstream'])
    s = _ptr_sub(pre)
    return [('position-restored', t.eq(o2.pos, o.pos), ('C09',)),
            ('position-of-the-designated-stream-restored', t.eq(x2.pos, x.pos), ('C09',)),
            ('value-parsed-at-absolute-or-end-relative-offset', result_is(post, s.val), ('C09', 'C08')),
            ('buffer-unchanged', t.and_(buffer_same(pre, post), t.eq(x2.buf, x.buf), t.eq(x2.len, x.len)), ('C17', 'C09'))]


fcontract('Pointer', '_parse', [
    Case('ok', 'return', lambda pre: _ptr_sub(pre).ok, ensures=_ptr_parse_ok, rkind=rk_dyn, modifies=['stream']),
    Case('inner-fails', 'raise', lambda pre: t.not_(_ptr_sub(pre).ok), ensures=generic_raise, modifies=['stream']),
], tags=('C09', 'C08'), models=('bytesio',))


# ================================================================================================ RawCopy (C14)
prelude.declare_fun('cget', ['Heap', t.INT, t.STR], t.VAL)


def _rc_field(post, key):
    """field `key` of the returned container"""
    r = post.result
    addr = post.st.get(r).addr if isinstance(r, VRef) else t.app('ref', t.INT, r.t)
    H = post.st.ghost['H']
    return t.T(t.VAL, 'select', (t.T('Fields', 'select', (H, addr)), S(key)))


def _rawcopy_parse_ok(pre, post):
    o, o2 = S_(pre), post.obj('stream')
    s = Sub(pre, 'subcon')
    base = o.offset if o.model == 'offsets' else t.ZERO
    data = _rc_field(post, 'data')
    return [('final-position-is-end-of-inner-parse', t.eq(o2.pos, s.end), ('C14', 'C09')),
            ('value-is-inner-value', t.eq(_rc_field(post, 'value'), s.val), ('C14',)),
            ('offsets-are-the-absolute-positions-before-and-after', t.and_(t.eq(_rc_field(post, 'offset1'), t.app('VInt', t.VAL, t.add(o.pos, base))),
                                                                         t.eq(_rc_field(post, 'offset2'), t.app('VInt', t.VAL, t.add(s.end, base)))), ('C14', 'C08')),
            ('length-is-offset-difference', t.eq(_rc_field(post, 'length'), t.app('VInt', t.VAL, t.sub(s.end, o.pos))), ('C14',)),
            ('data-is-exactly-the-stream-slice-between-the-offsets', t.and_(t.app('(_ is VBytes)', t.BOOL, data), t.eq(t.app('barr', t.ARR, data), o.buf),
                                                                           t.eq(t.app('boff', t.INT, data), o.pos), t.eq(t.app('blen', t.INT, data), t.sub(s.end, o.pos))), ('C14',)),
            ('buffer-unchanged', buffer_same(pre, post), ('C17', 'C14'))]


fcontract('RawCopy', '_parse', [
    Case('ok', 'return', lambda pre: Sub(pre, 'subcon').ok, ensures=_rawcopy_parse_ok, rkind=rk_dyn, modifies=['stream']),
    Case('inner-fails', 'raise', lambda pre: t.not_(Sub(pre, 'subcon').ok), ensures=generic_raise, modifies=['stream']),
], tags=('C14', 'C08', 'C09'))


# ================================================================================================ BytesIOWithOffsets (C08)
# The real subclass of io.BytesIO is verified against the abstract view used everywhere else ('offsets' stream model):
# tell() = inner position + parent offset;  seek(o, 0) positions at absolute o;  other whences behave like BytesIO.
def bwo_setup(eng, st, node, stream_model):
    ref = streams.symbolic_stream(eng, st, 'self', 'bytesio')
    o = st.get(ref)
    off = fresh('parent_stream_offset', t.INT)
    st.put(ref, o.replace(extra={'parent_stream_offset': VInt(off), 'parent_stream': NONE, '__class': 'BytesIOWithOffsets'}))
    args = {}
    for a in node.args.args[1:]:
        args[a.arg] = VInt(fresh(a.arg, t.INT))
    return ref, args


def _bwo(view):
    return view.st.get(view.self)


def _bwo_off(view):
    return _bwo(view).extra['parent_stream_offset'].t


BWO = 'construct.core:BytesIOWithOffsets'
register(FnContract(BWO + '.tell', setup=bwo_setup, tags=('C08', 'C17'), cases=[
    Case('ok', 'return', lambda pre: t.TRUE, rkind=rk_dyn,
         ensures=lambda pre, post: [('tell-is-inner-position-plus-parent-offset', size_is(post, t.add(_bwo(pre).pos, _bwo_off(pre))), ('C08', 'C17')),
                                    ('position-unchanged', t.eq(_bwo(post).pos, _bwo(pre).pos), ('C08', 'C17'))])]))


def _bwo_seek_target(pre):
    o = _bwo(pre)
    off, wh = pre.int('offset'), pre.int('whence')
    return t.ite(t.eq(wh, t.ZERO), t.sub(off, _bwo_off(pre)), t.ite(t.eq(wh, t.ONE), t.imax(t.add(o.pos, off), t.ZERO), t.imax(t.add(o.len, off), t.ZERO)))


def _bwo_seek_ok(pre):
    off, wh = pre.int('offset'), pre.int('whence')
    return t.or_(t.and_(t.eq(wh, t.ZERO), t.ge(t.sub(off, _bwo_off(pre)), t.ZERO)), t.eq(wh, t.ONE), t.eq(wh, I(2)))


# (C17: a construct inside a delimited region gives the same result wherever the region starts in the outer stream - parse(bytes) and
# parse_stream at offset k agree - exactly because the substream translates absolute positions and nothing else)
register(FnContract(BWO + '.seek', setup=bwo_setup, tags=('C08', 'C17'), cases=[
    Case('ok', 'return', _bwo_seek_ok, rkind=rk_dyn,
         ensures=lambda pre, post: [('absolute-seek-subtracts-the-parent-offset', t.eq(_bwo(post).pos, _bwo_seek_target(pre)), ('C08', 'C17')),
                                    ('returns-the-new-absolute-position', size_is(post, t.add(_bwo_seek_target(pre), _bwo_off(pre))), ('C08', 'C17')),
                                    ('buffer-unchanged', t.and_(t.eq(_bwo(post).buf, _bwo(pre).buf), t.eq(_bwo(post).len, _bwo(pre).len)), ('C08',))]),
    Case('invalid', 'raise', lambda pre: t.not_(_bwo_seek_ok(pre)), exc='ValueError')]))


# ------------------------------------------------------------------------------------------------ from_reading (real body vs the model used at call sites)
def fr_setup(eng, st, node, stream_model):
    return None, {'stream': streams.symbolic_stream(eng, st, 'stream', stream_model), 'length': VInt(fresh('length', t.INT)), 'path': VStr(fresh('path', t.STR))}


def _fr_ok(pre):
    o = pre.obj('stream')
    return t.and_(t.ge(pre.int('length'), t.ZERO), t.le(pre.int('length'), _avail(o)))


def _fr_ensures(pre, post):
    o, o2 = pre.obj('stream'), post.obj('stream')
    n = pre.int('length')
    r = post.st.get(post.result)
    base = o.offset if o.model == 'offsets' else t.ZERO
    i = t.var('i!', t.INT)
    return [('substream-holds-exactly-the-next-length-bytes', t.and_(t.eq(r.len, n), t.eq(r.pos, t.ZERO),
                                                                  forall_range(i, t.ZERO, n, t.eq(t.select(r.buf, i), t.select(o.buf, t.add(o.pos, i))), [[t.select(r.buf, i)]])), ('C08',)),
            ('substream-tell-starts-at-the-absolute-outer-position', t.eq(r.offset, t.add(o.pos, base)), ('C08',)),
            ('outer-stream-stands-at-region-end', t.eq(o2.pos, t.add(o.pos, n)), ('C08',)),
            ('outer-buffer-unchanged', t.and_(t.eq(o2.buf, o.buf), t.eq(o2.len, o.len)), ('C08', 'C17'))]


from .streams import FromReading  # noqa
from pyvc import contract as _contract
_fr = _contract.REGISTRY['construct.core:BytesIOWithOffsets.from_reading']
_fr.setup = fr_setup
_fr.stream_models = ('bytesio', 'offsets')
_fr.cases = [Case('ok', 'return', _fr_ok, ensures=_fr_ensures, rkind=rk_dyn, modifies=['stream']),
             Case('short', 'raise', lambda pre: t.not_(_fr_ok(pre)), exc='StreamError', path='path', modifies=['stream'])]
_fr.tags = ('C08', 'C06', 'C18')


# ================================================================================================ FixedSized / Prefixed / OffsettedEnd (C08)
def _abs_base(o):
    return o.offset if o.model == 'offsets' else t.ZERO


def _fixed_region(pre, start=None, n=None):
    o = S_(pre)
    start = o.pos if start is None else start
    return Region(o.buf, start, n, t.add(start, _abs_base(o)))


def _fs_guard(pre):
    o = S_(pre)
    L = _param_int(pre, 'length')
    inner = Sub(pre, 'subcon', o=_fixed_region(pre, n=L))
    return t.and_(t.ge(L, t.ZERO), t.le(L, _avail(o)), inner.ok)


def _fs_parse_ok(pre, post):
    o, o2 = S_(pre), post.obj('stream')
    L = _param_int(pre, 'length')
    inner = Sub(pre, 'subcon', o=_fixed_region(pre, n=L))
    return [('inner-construct-sees-exactly-the-region-and-its-value-is-returned', result_is(post, inner.val), ('C08', 'C03')),
            ('outer-stream-at-region-end-whatever-the-inner-construct-consumed', t.eq(o2.pos, t.add(o.pos, L)), ('C08', 'C05', 'C03')),
            ('buffer-unchanged', buffer_same(pre, post), ('C17', 'C08'))]


def _fs_bad(pre, post):
    o = S_(pre)
    L = _param_int(pre, 'length')
    return [('region-cut-short-is-StreamError', t.implies(t.and_(t.ge(L, t.ZERO), t.gt(L, _avail(o))), stream_error(post)), ('C06', 'C08'))] + generic_raise(pre, post)


fcontract('FixedSized', '_parse', [
    Case('ok', 'return', _fs_guard, ensures=_fs_parse_ok, rkind=rk_dyn, modifies=['stream']),
    Case('rejects', 'raise', lambda pre: t.not_(_fs_guard(pre)), ensures=_fs_bad, modifies=['stream']),
], tags=T)


class Empty:
    """a fresh, empty io.BytesIO (the stream2 of delimiting builders)"""
    model = 'bytesio'
    buf, len, pos, offset = t.const_arr(t.ZERO), t.ZERO, t.ZERO, None


def _fs_build_guard(pre):
    L = _param_int(pre, 'length')
    s = Sub(pre, 'subcon', o=Empty, obj=pre['obj'].t, kind='build')
    return t.and_(t.ge(L, t.ZERO), s.ok, t.le(s.len, L))


def _fs_build_ok(pre, post):
    o, o2 = S_(pre), post.obj('stream')
    L = _param_int(pre, 'length')
    s = Sub(pre, 'subcon', o=Empty, obj=pre['obj'].t, kind='build')
    return [('advances-exactly-length', t.eq(o2.pos, t.add(o.pos, L)), ('C05', 'C03', 'C08')),
            _written(o, o2, L, lambda i: t.ite(t.lt(i, s.len), t.select(s.bytes, i), t.ZERO), 'inner-bytes-then-zero-padding'),
            ('returns-inner-build-value', result_is(post, s.ret))]


fcontract('FixedSized', '_build', [
    Case('ok', 'return', _fs_build_guard, ensures=_fs_build_ok, rkind=rk_dyn, modifies=['stream']),
    Case('rejects', 'raise', lambda pre: t.not_(_fs_build_guard(pre)), ensures=generic_raise, modifies=['stream']),
], tags=T)

fcontract('FixedSized', '_sizeof', [
    Case('ok', 'return', lambda pre: t.ge(_param_int(pre, 'length'), t.ZERO),
         ensures=lambda pre, post: [('size-is-length', size_is(post, _param_int(pre, 'length')), ('C05',))], rkind=rk_dyn),
    Case('negative', 'raise', lambda pre: t.lt(_param_int(pre, 'length'), t.ZERO)),
], tags=('C05',))


# ------------------------------------------------------------------------------------------------ Prefixed
def _pf_parts(pre):
    """(length-field outcome, payload length, payload start, inner outcome on the payload region)"""
    o = S_(pre)
    lf = Sub(pre, 'lengthfield')
    incl = pre.eng.truth(pre.self.fields['includelength'], pre.st)
    z = Sub(pre, 'lengthfield', heap=(lf.H, lf.D), kind='sizeof')
    n = t.sub(t.app('toint', t.INT, lf.val), t.ite(incl, z.val, t.ZERO))
    region = Region(o.buf, lf.end, n, t.add(lf.end, _abs_base(o)))
    inner = Sub(pre, 'subcon', o=region, heap=(lf.H, lf.D))
    return lf, incl, z, n, inner


def _pf_guard(pre):
    o = S_(pre)
    lf, incl, z, n, inner = _pf_parts(pre)
    return t.and_(lf.ok, t.implies(incl, z.ok), t.ge(n, t.ZERO), t.le(t.add(lf.end, n), t.imax(o.len, lf.end)), inner.ok)


def _pf_parse_ok(pre, post):
    o, o2 = S_(pre), post.obj('stream')
    lf, incl, z, n, inner = _pf_parts(pre)
    return [('payload-region-is-exactly-the-prefixed-length-and-the-inner-value-is-returned', result_is(post, inner.val), ('C08', 'C03')),
            ('outer-stream-at-end-of-payload-whatever-the-inner-construct-consumed', t.eq(o2.pos, t.add(lf.end, n)), ('C08', 'C03', 'C05')),
            ('buffer-unchanged', buffer_same(pre, post), ('C17', 'C08'))]


fcontract('Prefixed', '_parse', [
    Case('ok', 'return', _pf_guard, ensures=_pf_parse_ok, rkind=rk_dyn, modifies=['stream']),
    Case('rejects', 'raise', lambda pre: t.not_(_pf_guard(pre)), ensures=generic_raise, modifies=['stream']),
], tags=T)


def _pf_build_parts(pre):
    o = S_(pre)
    s = Sub(pre, 'subcon', o=Empty, obj=pre['obj'].t, kind='build')
    incl = pre.eng.truth(pre.self.fields['includelength'], pre.st)
    z = Sub(pre, 'lengthfield', heap=(s.H, s.D), kind='sizeof')
    total = t.add(s.len, t.ite(incl, z.val, t.ZERO))
    lf = Sub(pre, 'lengthfield', heap=(s.H, s.D), obj=t.app('VInt', t.VAL, total), kind='build')
    return s, incl, z, total, lf


def _pf_build_guard(pre):
    s, incl, z, total, lf = _pf_build_parts(pre)
    return t.and_(s.ok, t.implies(incl, z.ok), lf.ok)


def _pf_build_ok(pre, post):
    o, o2 = S_(pre), post.obj('stream')
    s, incl, z, total, lf = _pf_build_parts(pre)
    n = t.add(lf.len, s.len)
    return [('advances-by-prefix-plus-payload', t.eq(o2.pos, t.add(o.pos, n)), ('C03', 'C05')),
            _written(o, o2, n, lambda i: t.ite(t.lt(i, lf.len), t.select(lf.bytes, i), t.select(s.bytes, t.sub(i, lf.len))), 'length-prefix-then-payload'),
            ('returns-inner-build-value', result_is(post, s.ret))]


fcontract('Prefixed', '_build', [
    Case('ok', 'return', _pf_build_guard, ensures=_pf_build_ok, rkind=rk_dyn, modifies=['stream']),
    Case('rejects', 'raise', lambda pre: t.not_(_pf_build_guard(pre)), ensures=generic_raise, modifies=['stream']),
], tags=T)


# ------------------------------------------------------------------------------------------------ more _sizeof contracts (C05)
fcontract('Const', '_sizeof', [
    Case('ok', 'return', lambda pre: Sub(pre, 'subcon', kind='sizeof').ok,
         ensures=lambda pre, post: [('size-is-inner-size', size_is(post, Sub(pre, 'subcon', kind='sizeof').val), ('C05',))], rkind=rk_dyn),
    Case('no-size', 'raise', lambda pre: t.not_(Sub(pre, 'subcon', kind='sizeof').ok)),
], tags=('C05',))

fcontract('Flag', '_sizeof', [
    Case('ok', 'return', lambda pre: t.TRUE, ensures=lambda pre, post: [('size-is-one', size_is(post, t.ONE), ('C05',))], rkind=rk_dyn)], tags=('C05',))


def _pf_sizeof_ok(pre):
    return t.and_(Sub(pre, 'lengthfield', kind='sizeof').ok, Sub(pre, 'subcon', kind='sizeof').ok)


fcontract('Prefixed', '_sizeof', [
    Case('ok', 'return', _pf_sizeof_ok,
         ensures=lambda pre, post: [('size-is-prefix-plus-payload', size_is(post, t.add(Sub(pre, 'lengthfield', kind='sizeof').val, Sub(pre, 'subcon', kind='sizeof').val)), ('C05',))], rkind=rk_dyn),
    Case('no-size', 'raise', lambda pre: t.not_(_pf_sizeof_ok(pre))),
], tags=('C05',))


# ------------------------------------------------------------------------------------------------ RawCopy._build (C14)
from .composites import hsel as _hsel, dsel as _dsel  # noqa


def _rcb_addr(pre):
    return t.app('ref', t.INT, pre['obj'].t)


def _rcb_isdict(pre):
    v = pre['obj'].t
    return t.and_(t.app('(_ is VRef)', t.BOOL, v), t.le(t.ZERO, _rcb_addr(pre)), t.lt(_rcb_addr(pre), pre.st.ghost['alloc']))


def _rcb_value_sub(pre):
    H0, D0 = pre.st.ghost['H'], pre.st.ghost['D']
    return Sub(pre, 'subcon', obj=_hsel(H0, _rcb_addr(pre), 'value'), kind='build')


def _rcb_from_value(pre):
    D0 = pre.st.ghost['D']
    a = _rcb_addr(pre)
    return t.and_(_rcb_isdict(pre), t.not_(_dsel(D0, a, 'data')), _dsel(D0, a, 'value'), _rcb_value_sub(pre).ok)


def _rcb_value_ok(pre, post):
    o, o2 = S_(pre), post.obj('stream')
    s = _rcb_value_sub(pre)
    given = _hsel(pre.st.ghost['H'], _rcb_addr(pre), 'value')
    data = _rc_field(post, 'data')
    return [('stream-stands-right-after-the-bytes-the-inner-build-wrote', t.eq(o2.pos, t.add(o.pos, s.len)), ('C14', 'C09')),
            _written(o, o2, s.len, lambda i: t.select(s.bytes, i), 'writes-exactly-the-inner-bytes'),
            ('offsets-are-the-positions-before-and-after-the-inner-build', t.and_(t.eq(_rc_field(post, 'offset1'), t.app('VInt', t.VAL, o.pos)),
                                                                               t.eq(_rc_field(post, 'offset2'), t.app('VInt', t.VAL, t.add(o.pos, s.len))),
                                                                               t.eq(_rc_field(post, 'length'), t.app('VInt', t.VAL, s.len))), ('C14', 'C08')),
            ('data-is-exactly-the-bytes-between-the-offsets', t.and_(t.app('(_ is VBytes)', t.BOOL, data), t.eq(t.app('barr', t.ARR, data), o2.buf),
                                                                    t.eq(t.app('boff', t.INT, data), o.pos), t.eq(t.app('blen', t.INT, data), s.len)), ('C14',)),
            ('value-is-what-the-inner-build-returned-or-the-given-value', t.eq(_rc_field(post, 'value'), t.ite(t.app('(_ is VNone)', t.BOOL, s.ret), given, s.ret)), ('C14',))]


def _rcb_data(pre):
    return _hsel(pre.st.ghost['H'], _rcb_addr(pre), 'data')


def _rcb_from_data(pre):
    D0 = pre.st.ghost['D']
    d = _rcb_data(pre)
    return t.and_(_rcb_isdict(pre), _dsel(D0, _rcb_addr(pre), 'data'), t.app('(_ is VBytes)', t.BOOL, d))


def _rcb_data_ok(pre, post):
    o, o2 = S_(pre), post.obj('stream')
    d = _rcb_data(pre)
    n = t.app('blen', t.INT, d)
    return [('stream-advances-by-the-given-bytes', t.eq(o2.pos, t.add(o.pos, n)), ('C14', 'C09')),
            _written(o, o2, n, lambda i: t.select(t.app('barr', t.ARR, d), t.add(t.app('boff', t.INT, d), i)), 'writes-exactly-the-given-bytes'),
            ('offsets-are-the-positions-before-and-after', t.and_(t.eq(_rc_field(post, 'offset1'), t.app('VInt', t.VAL, o.pos)),
                                                                t.eq(_rc_field(post, 'offset2'), t.app('VInt', t.VAL, t.add(o.pos, n))),
                                                                t.eq(_rc_field(post, 'length'), t.app('VInt', t.VAL, n))), ('C14', 'C08')),
            ('data-is-the-given-bytes', t.eq(_rc_field(post, 'data'), d), ('C14',))]


fcontract('RawCopy', '_build', [
    Case('from-data', 'return', _rcb_from_data, ensures=_rcb_data_ok, rkind=rk_dyn, modifies=['stream']),
    Case('from-value', 'return', _rcb_from_value, ensures=_rcb_value_ok, rkind=rk_dyn, modifies=['stream']),
    Case('none-with-buildnone-inner', 'return', lambda pre: t.not_(_rcb_isdict(pre)), rkind=rk_dyn, modifies=['stream']),
    Case('fails', 'raise', lambda pre: t.not_(t.or_(_rcb_from_data(pre), _rcb_from_value(pre))), modifies=['stream']),
], tags=('C14', 'C08', 'C09'), sequential_build=False)
