"""Functional contracts of the wrapping / delimiting / look-ahead constructs, stated over the interface functions of their
sub-constructs (P_ok/P_val/P_end/..., B_ok/B_ret/B_bytes/B_len/..., Z_ok/Z_val: pyvc/constructs.py), with sequential
sub-constructs (sub_seq=True).  Consumed by C03 (length/padding/alignment arithmetic), C05 (exact sizes), C08 (regions and
absolute offsets), C09 (look-ahead and restore), C13 (constants), C14 (RawCopy)."""
from pyvc import terms as t, prelude, streams
from pyvc.terms import I, S
from pyvc.values import *  # noqa
from pyvc.contract import FnContract, Case, register, rk_dyn, rk_none
from pyvc.exec import LoopSpec
from .classes import method_setup, path_clause, CORE
from .prims import fcontract, S_, _param_int, _param_truth, _avail, result_int, stream_error, buffer_same, generic_raise
from .specs import forall_range

T = ('C03', 'C01', 'C02', 'C05', 'C06', 'C08')


class Sub:
    """interface function applications for one sub-construct call at a given stream / heap state"""

    def __init__(self, view, field, o=None, heap=None, ctx=None, obj=None, kind='parse', pos=None):
        sc = view.self.fields[field]
        self.sc = sc
        H, D = heap if heap is not None else (view.st.ghost['H'], view.st.ghost['D'])
        c = ctx if ctx is not None else view.obj('context').addr
        if kind == 'parse':
            o = o if o is not None else view.obj('stream')
            a = (sc.ident, o.buf, o.len, o.pos if pos is None else pos, H, D, c)
            self.ok = t.app('P_ok', t.BOOL, *a)
            self.val = t.app('P_val', t.VAL, *a)
            self.end = t.app('P_end', t.INT, *a)
            self.exc = t.app('P_exc', t.INT, *a)
            self.H, self.D = t.app('P_H', 'Heap', *a), t.app('P_D', 'Dom', *a)
        elif kind == 'build':
            o = o if o is not None else view.obj('stream')
            base = o.offset if o.model == 'offsets' else t.ZERO
            a = (sc.ident, obj, t.add(o.pos if pos is None else pos, base), H, D, c)
            self.ok = t.app('B_ok', t.BOOL, *a)
            self.ret = t.app('B_ret', t.VAL, *a)
            self.bytes = t.app('B_bytes', t.ARR, *a)
            self.len = t.app('B_len', t.INT, *a)
            self.H, self.D = t.app('B_H', 'Heap', *a), t.app('B_D', 'Dom', *a)
        else:
            a = (sc.ident, H, D, c)
            self.ok = t.app('Z_ok', t.BOOL, *a)
            self.val = t.app('Z_val', t.INT, *a)


def result_is(post, valterm):
    return t.eq(post.eng.to_dyn(post.result, post.st), valterm)


def heap_is(post, H, D):
    return t.and_(t.eq(post.st.ghost['H'], H), t.eq(post.st.ghost['D'], D))


# ================================================================================================ Padded
def _padded_parse_guard(pre):
    o = S_(pre)
    L = _param_int(pre, 'length')
    s = Sub(pre, 'subcon')
    return t.and_(t.ge(L, t.ZERO), s.ok, t.le(t.sub(s.end, o.pos), L), t.le(t.add(o.pos, L), t.imax(o.len, s.end)))


def _padded_parse_ok(pre, post):
    o, o2 = S_(pre), post.obj('stream')
    L = _param_int(pre, 'length')
    s = Sub(pre, 'subcon')
    return [('returns-inner-value', result_is(post, s.val)),
            ('consumes-exactly-length', t.eq(o2.pos, t.add(o.pos, L))),
            ('buffer-unchanged', buffer_same(pre, post), ('C17', 'C08')),
            ('context-as-the-inner-parse-left-it', heap_is(post, s.H, s.D), ('C07',))]


def _padded_parse_bad(pre, post):
    o = S_(pre)
    L = _param_int(pre, 'length')
    s = Sub(pre, 'subcon')
    trunc = t.and_(t.ge(L, t.ZERO), s.ok, t.le(t.sub(s.end, o.pos), L), t.gt(t.add(o.pos, L), t.imax(o.len, s.end)))
    return [('padding-cut-short-is-StreamError', t.implies(trunc, stream_error(post)), ('C06', 'C03'))] + generic_raise(pre, post)


fcontract('Padded', '_parse', [
    Case('ok', 'return', _padded_parse_guard, ensures=_padded_parse_ok, rkind=rk_dyn, modifies=['stream']),
    Case('rejects', 'raise', lambda pre: t.not_(_padded_parse_guard(pre)), ensures=_padded_parse_bad, modifies=['stream']),
], tags=T)


def _written(o, o2, n, elem, label):
    """o2.buf[o.pos + i] == elem(i) for i < n"""
    i = t.var('i!', t.INT)
    return (label, forall_range(i, o.pos, t.add(o.pos, n), t.eq(t.select(o2.buf, i), elem(t.sub(i, o.pos))), [[t.select(o2.buf, i)]]))


def _padded_build_guard(pre):
    L = _param_int(pre, 'length')
    s = Sub(pre, 'subcon', obj=pre['obj'].t, kind='build')
    return t.and_(t.ge(L, t.ZERO), s.ok, t.le(s.len, L))


def _padded_build_ok(pre, post):
    o, o2 = S_(pre), post.obj('stream')
    L = _param_int(pre, 'length')
    s = Sub(pre, 'subcon', obj=pre['obj'].t, kind='build')
    pat = pre.self.fields['pattern'].at(t.ZERO)
    return [('advances-exactly-length', t.eq(o2.pos, t.add(o.pos, L))),
            _written(o, o2, L, lambda i: t.ite(t.lt(i, s.len), t.select(s.bytes, i), pat), 'inner-bytes-then-pattern'),
            ('returns-inner-build-value', result_is(post, s.ret))]


fcontract('Padded', '_build', [
    Case('ok', 'return', _padded_build_guard, ensures=_padded_build_ok, rkind=rk_dyn, modifies=['stream']),
    Case('rejects', 'raise', lambda pre: t.not_(_padded_build_guard(pre)), ensures=generic_raise, modifies=['stream']),
], tags=T)

fcontract('Padded', '_sizeof', [
    Case('ok', 'return', lambda pre: t.ge(_param_int(pre, 'length'), t.ZERO),
         ensures=lambda pre, post: [('size-is-length', t.eq(result_int(post)[0], _param_int(pre, 'length')), ('C05',))], rkind=rk_dyn),
    Case('negative', 'raise', lambda pre: t.lt(_param_int(pre, 'length'), t.ZERO)),
], tags=('C05',))


# ================================================================================================ Aligned
def _pad_to(n, m):
    return t.pymod(t.neg(n), m)


from pyvc.lemma import Lemma
# the pad computed as (-n) mod m is the least non-negative amount that makes the extent a multiple of m
Lemma('pad_to_modulus', [('n', t.INT), ('m', t.INT)],
      lambda v: t.implies(t.and_(t.ge(v['n'], t.ZERO), t.ge(v['m'], I(2))),
                          t.and_(t.le(t.ZERO, _pad_to(v['n'], v['m'])), t.lt(_pad_to(v['n'], v['m']), v['m']),
                                 t.eq(t.pymod(t.add(v['n'], _pad_to(v['n'], v['m'])), v['m']), t.ZERO))),
      tags=('C03', 'C05'), doc='alignment arithmetic: n + ((-n) mod m) is a multiple of m and the pad is smaller than m')


def _aligned_parse_guard(pre):
    o = S_(pre)
    m = _param_int(pre, 'modulus')
    s = Sub(pre, 'subcon')
    return t.and_(t.ge(m, I(2)), s.ok, t.le(t.add(s.end, _pad_to(t.sub(s.end, o.pos), m)), t.imax(o.len, s.end)))


def _aligned_parse_ok(pre, post):
    o, o2 = S_(pre), post.obj('stream')
    m = _param_int(pre, 'modulus')
    s = Sub(pre, 'subcon')
    used = t.sub(s.end, o.pos)
    return [('returns-inner-value', result_is(post, s.val)),
            ('consumes-inner-extent-plus-pad-to-modulus', t.eq(o2.pos, t.add(s.end, _pad_to(used, m)))),
            ('buffer-unchanged', buffer_same(pre, post), ('C17', 'C08'))]


fcontract('Aligned', '_parse', [
    Case('ok', 'return', _aligned_parse_guard, ensures=_aligned_parse_ok, rkind=rk_dyn, modifies=['stream']),
    Case('rejects', 'raise', lambda pre: t.not_(_aligned_parse_guard(pre)), ensures=generic_raise, modifies=['stream']),
], tags=T)


def _aligned_build_guard(pre):
    m = _param_int(pre, 'modulus')
    s = Sub(pre, 'subcon', obj=pre['obj'].t, kind='build')
    return t.and_(t.ge(m, I(2)), s.ok)


def _aligned_build_ok(pre, post):
    o, o2 = S_(pre), post.obj('stream')
    m = _param_int(pre, 'modulus')
    s = Sub(pre, 'subcon', obj=pre['obj'].t, kind='build')
    pat = pre.self.fields['pattern'].at(t.ZERO)
    total = t.add(s.len, _pad_to(s.len, m))
    return [('advances-inner-length-plus-pad-to-modulus', t.eq(o2.pos, t.add(o.pos, total))),
            _written(o, o2, total, lambda i: t.ite(t.lt(i, s.len), t.select(s.bytes, i), pat), 'inner-bytes-then-pattern'),
            ('returns-inner-build-value', result_is(post, s.ret))]


fcontract('Aligned', '_build', [
    Case('ok', 'return', _aligned_build_guard, ensures=_aligned_build_ok, rkind=rk_dyn, modifies=['stream']),
    Case('rejects', 'raise', lambda pre: t.not_(_aligned_build_guard(pre)), ensures=generic_raise, modifies=['stream']),
], tags=T)


def _aligned_sizeof_ok(pre, post):
    m = _param_int(pre, 'modulus')
    z = Sub(pre, 'subcon', kind='sizeof')
    return [('size-is-inner-size-rounded-up-to-modulus', t.eq(result_int(post)[0], t.add(z.val, _pad_to(z.val, m))), ('C05',))]


fcontract('Aligned', '_sizeof', [
    Case('ok', 'return', lambda pre: t.and_(t.ge(_param_int(pre, 'modulus'), I(2)), Sub(pre, 'subcon', kind='sizeof').ok), ensures=_aligned_sizeof_ok, rkind=rk_dyn),
    Case('no-size', 'raise', lambda pre: t.not_(t.and_(t.ge(_param_int(pre, 'modulus'), I(2)), Sub(pre, 'subcon', kind='sizeof').ok))),
], tags=('C05',))


# ================================================================================================ Const
def _const_parse_guard(pre):
    s = Sub(pre, 'subcon')
    return t.and_(s.ok, t.app('pyeq', t.BOOL, s.val, pre.self.fields['value'].t))


def _const_parse_ok(pre, post):
    o2 = post.obj('stream')
    s = Sub(pre, 'subcon')
    return [('returns-the-parsed-constant', result_is(post, s.val), ('C13', 'C03')),
            ('parsed-value-equals-the-constant', t.app('pyeq', t.BOOL, post.eng.to_dyn(post.result, post.st), pre.self.fields['value'].t), ('C13',)),
            ('consumes-inner-extent', t.eq(o2.pos, s.end), ('C03', 'C05'))]


def _const_parse_bad(pre, post):
    s = Sub(pre, 'subcon')
    mism = t.and_(s.ok, t.not_(t.app('pyeq', t.BOOL, s.val, pre.self.fields['value'].t)))
    return [('other-value-is-ConstError', t.implies(mism, t.eq(post.exc.cls, I(post.eng.src.exc_code['ConstError']))), ('C13',))] + generic_raise(pre, post)


fcontract('Const', '_parse', [
    Case('ok', 'return', _const_parse_guard, ensures=_const_parse_ok, rkind=rk_dyn, modifies=['stream']),
    Case('rejects', 'raise', lambda pre: t.not_(_const_parse_guard(pre)), ensures=_const_parse_bad, modifies=['stream']),
], tags=('C13', 'C03', 'C01', 'C02'))


def _const_build_guard(pre):
    v = pre.self.fields['value'].t
    s = Sub(pre, 'subcon', obj=v, kind='build')
    given = pre['obj'].t
    return t.and_(t.or_(t.app('(_ is VNone)', t.BOOL, given), t.app('pyeq', t.BOOL, given, v)), s.ok)


def _const_build_ok(pre, post):
    o, o2 = S_(pre), post.obj('stream')
    v = pre.self.fields['value'].t
    s = Sub(pre, 'subcon', obj=v, kind='build')
    return [('always-emits-the-encoding-of-the-constant', t.and_(t.eq(o2.pos, t.add(o.pos, s.len)),
                                                                _written(o, o2, s.len, lambda i: t.select(s.bytes, i), 'w')[1]), ('C13', 'C03')),
            ('returns-what-the-inner-build-returns', result_is(post, s.ret), ('C13',))]


def _const_build_bad(pre, post):
    v = pre.self.fields['value'].t
    given = pre['obj'].t
    refused = t.not_(t.or_(t.app('(_ is VNone)', t.BOOL, given), t.app('pyeq', t.BOOL, given, v)))
    return [('any-other-supplied-value-is-ConstError', t.implies(refused, t.eq(post.exc.cls, I(post.eng.src.exc_code['ConstError']))), ('C13',))] + generic_raise(pre, post)


fcontract('Const', '_build', [
    Case('ok', 'return', _const_build_guard, ensures=_const_build_ok, rkind=rk_dyn, modifies=['stream']),
    Case('rejects', 'raise', lambda pre: t.not_(_const_build_guard(pre)), ensures=_const_build_bad, modifies=['stream']),
], tags=('C13', 'C03', 'C01', 'C02'))


# ================================================================================================ Peek / Pointer (C09)
def _peek_parse_ok(pre, post):
    o, o2 = S_(pre), post.obj('stream')
    s = Sub(pre, 'subcon')
    ce = post.eng.exc_sub_term(s.exc, 'ConstructError')
    return [('position-restored', t.eq(o2.pos, o.pos), ('C09',)),
            ('value-of-inner-parse-or-None', result_is(post, t.ite(s.ok, s.val, t.app('VNone', t.VAL))), ('C09',)),
            ('buffer-unchanged', buffer_same(pre, post), ('C17', 'C09'))]


def _peek_guard_ok(pre):
    s = Sub(pre, 'subcon')
    explicit = t.eq(s.exc, I(pre.eng.src.exc_code['ExplicitError']))
    return t.or_(s.ok, t.not_(explicit))


def _peek_bad(pre, post):
    o, o2 = S_(pre), post.obj('stream')
    return [('position-restored-even-when-ExplicitError-propagates', t.eq(o2.pos, o.pos), ('C09',)),
            ('only-ExplicitError-propagates', t.eq(post.exc.cls, I(post.eng.src.exc_code['ExplicitError'])), ('C13', 'C09'))] + generic_raise(pre, post)


fcontract('Peek', '_parse', [
    Case('ok', 'return', _peek_guard_ok, ensures=_peek_parse_ok, rkind=rk_dyn, modifies=['stream']),
    Case('explicit-error', 'raise', lambda pre: t.not_(_peek_guard_ok(pre)), ensures=_peek_bad, modifies=['stream']),
], tags=('C09', 'C13'))


def _ptr_target(pre):
    o = S_(pre)
    off = _param_int(pre, 'offset')
    return t.ite(t.lt(off, t.ZERO), t.imax(t.add(o.len, off), t.ZERO), off)


def _ptr_parse_ok(pre, post):
    o, o2 = S_(pre), post.obj('stream')
    s = Sub(pre, 'subcon', pos=_ptr_target(pre))
    return [('position-restored', t.eq(o2.pos, o.pos), ('C09',)),
            ('value-parsed-at-absolute-or-end-relative-offset', result_is(post, s.val), ('C09', 'C08')),
            ('buffer-unchanged', buffer_same(pre, post), ('C17', 'C09'))]


fcontract('Pointer', '_parse', [
    Case('ok', 'return', lambda pre: Sub(pre, 'subcon', pos=_ptr_target(pre)).ok, ensures=_ptr_parse_ok, rkind=rk_dyn, modifies=['stream']),
    Case('inner-fails', 'raise', lambda pre: t.not_(Sub(pre, 'subcon', pos=_ptr_target(pre)).ok), ensures=generic_raise, modifies=['stream']),
], tags=('C09', 'C08'), models=('bytesio',))


# ================================================================================================ RawCopy (C14)
prelude.declare_fun('cget', ['Heap', t.INT, t.STR], t.VAL)


def _rc_field(post, key):
    """field `key` of the returned container"""
    r = post.result
    addr = post.st.get(r).addr if isinstance(r, VRef) else t.app('ref', t.INT, r.t)
    H = post.st.ghost['H']
    return t.T(t.VAL, 'select', (t.T('Fields', 'select', (H, addr)), S(key)))


def _rawcopy_parse_ok(pre, post):
    o, o2 = S_(pre), post.obj('stream')
    s = Sub(pre, 'subcon')
    base = o.offset if o.model == 'offsets' else t.ZERO
    data = _rc_field(post, 'data')
    return [('final-position-is-end-of-inner-parse', t.eq(o2.pos, s.end), ('C14', 'C09')),
            ('value-is-inner-value', t.eq(_rc_field(post, 'value'), s.val), ('C14',)),
            ('offsets-are-the-absolute-positions-before-and-after', t.and_(t.eq(_rc_field(post, 'offset1'), t.app('VInt', t.VAL, t.add(o.pos, base))),
                                                                         t.eq(_rc_field(post, 'offset2'), t.app('VInt', t.VAL, t.add(s.end, base)))), ('C14', 'C08')),
            ('length-is-offset-difference', t.eq(_rc_field(post, 'length'), t.app('VInt', t.VAL, t.sub(s.end, o.pos))), ('C14',)),
            ('data-is-exactly-the-stream-slice-between-the-offsets', t.and_(t.app('(_ is VBytes)', t.BOOL, data), t.eq(t.app('barr', t.ARR, data), o.buf),
                                                                           t.eq(t.app('boff', t.INT, data), o.pos), t.eq(t.app('blen', t.INT, data), t.sub(s.end, o.pos))), ('C14',)),
            ('buffer-unchanged', buffer_same(pre, post), ('C17', 'C14'))]


fcontract('RawCopy', '_parse', [
    Case('ok', 'return', lambda pre: Sub(pre, 'subcon').ok, ensures=_rawcopy_parse_ok, rkind=rk_dyn, modifies=['stream']),
    Case('inner-fails', 'raise', lambda pre: t.not_(Sub(pre, 'subcon').ok), ensures=generic_raise, modifies=['stream']),
], tags=('C14', 'C08', 'C09'))
