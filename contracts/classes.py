"""Generic (cross-cutting) contracts for every _parse/_build/_sizeof/_decode/_encode method of the core classes:

  C06  only ConstructError subclasses escape _parse/_build (given total parameter expressions, E5); under the
       adversarial stream model no foreign exception escapes and no short read/write is silently accepted
  C05  only SizeofError escapes _sizeof even when parameter expressions raise KeyError/AttributeError; result int >= 0
  C18  every escaping error carries a path that extends the method's path argument
  C17  frame: no store to self / sub-constructs / classes / globals; parse leaves the buffer unchanged; the context
       argument is modified only at '_index'; other pre-existing containers are unchanged

Each class is verified assuming only these clauses of its sub-constructs (pyvc/constructs.py): structural induction.
The field table below says how `self` is modelled; an attribute not listed makes the method out of reach.
"""
from pyvc import terms as t, prelude, streams
from pyvc.terms import I, S
from pyvc.values import *  # noqa
from pyvc.contract import FnContract, Case, register, rk_dyn
from pyvc.constructs import VSubList
from pyvc.exec import LoopSpec

CORE = 'construct.core'


# ------------------------------------------------------------------------------------------------ field kinds
class F:
    def __init__(self, kind, **kw):
        self.kind = kind
        self.kw = kw


def Sub(**kw):
    return F('sub', **kw)


def Param(pkind='dyn'):
    return F('param', pkind=pkind)


def SubList():
    return F('sublist')


def Bytes1():
    return F('bytes', length=1)


def BytesF(minlen=0):
    return F('bytes', minlen=minlen)


def Bool():
    return F('bool')


def Dyn():
    return F('dyn')


def Int():
    return F('int')


def StrF():
    return F('str')


def NameF():
    return F('name')


def Func(returns='dyn'):
    return F('func', returns=returns)


def Map(values='dyn', keys='dyn'):
    return F('map', values=values, keys=keys)


def Opaque():
    return F('opaque')


COMMON = {'name': NameF(), 'flagbuildnone': Bool(), 'docs': Opaque(), 'parsed': F('none')}

FIELDS = {
    'Construct': {},
    'Subconstruct': {'subcon': Sub()},
    'Adapter': {'subcon': Sub()},
    'SymmetricAdapter': {'subcon': Sub()},
    'Validator': {'subcon': Sub()},
    'Tunnel': {'subcon': Sub()},
    'Bytes': {'length': Param('int')},
    'GreedyBytes': {},
    'BytesInteger': {'length': Param('int'), 'signed': Bool(), 'swapped': Param('bool')},
    'BitsInteger': {'length': Param('int'), 'signed': Bool(), 'swapped': Param('bool')},
    'VarInt': {},
    'ZigZag': {},
    'Flag': {},
    'StringEncoded': {'subcon': Sub(), 'encoding': StrF()},
    'Enum': {'subcon': Sub(returns='int'), 'encmapping': Map(), 'decmapping': Map(), 'ksymapping': Map()},
    'FlagsEnum': {'subcon': Sub(returns='int'), 'flags': Map('int', keys='str'), 'reverseflags': Map()},
    'Mapping': {'subcon': Sub(), 'encmapping': Map(), 'decmapping': Map()},
    'Struct': {'subcons': SubList(), '_subcons': Opaque()},
    'Sequence': {'subcons': SubList(), '_subcons': Opaque()},
    'Array': {'subcon': Sub(), 'count': Param('int'), 'discard': Bool()},
    'GreedyRange': {'subcon': Sub(), 'discard': Bool()},
    'RepeatUntil': {'subcon': Sub(), 'predicate': Param('predicate3'), 'discard': Bool()},
    'Renamed': {'subcon': Sub()},
    'Const': {'subcon': Sub(), 'value': Dyn()},
    'Computed': {'func': Param('dyn')},
    'Index': {},
    'Rebuild': {'subcon': Sub(), 'func': Param('dyn')},
    'Default': {'subcon': Sub(), 'value': Param('dyn')},
    'Check': {'func': Param('dyn')},
    'Error': {},
    'FocusedSeq': {'subcons': SubList(), '_subcons': Opaque(), 'parsebuildfrom': Param('membername')},
    'Union': {'subcons': SubList(), '_subcons': Opaque(), 'parsefrom': Param('unionfrom')},
    'Select': {'subcons': SubList()},
    'IfThenElse': {'condfunc': Param('dyn'), 'thensubcon': Sub(), 'elsesubcon': Sub()},
    'Switch': {'keyfunc': Param('hashable'), 'cases': Map('sub'), 'default': Sub()},
    'StopIf': {'condfunc': Param('dyn')},
    'Padded': {'subcon': Sub(), 'length': Param('int'), 'pattern': Bytes1()},
    'Aligned': {'subcon': Sub(), 'modulus': Param('modulus'), 'pattern': Bytes1()},
    'Pointer': {'subcon': Sub(), 'offset': Param('int'), 'stream': Param('optstream')},
    'Peek': {'subcon': Sub()},
    'OffsettedEnd': {'subcon': Sub(), 'endoffset': Param('int')},
    'Seek': {'at': Param('int'), 'whence': Param('int')},
    'Tell': {},
    'Pass': {},
    'Terminated': {},
    'RawCopy': {'subcon': Sub()},
    'Prefixed': {'subcon': Sub(), 'lengthfield': Sub(returns='int'), 'includelength': Bool()},
    'FixedSized': {'subcon': Sub(), 'length': Param('int')},
    'NullTerminated': {'subcon': Sub(), 'term': BytesF(), 'include': Bool(), 'consume': Bool(), 'require': Bool()},
    'NullStripped': {'subcon': Sub(), 'pad': BytesF()},
    'RestreamData': {'subcon': Sub(), 'datafunc': Param('restreamdata')},
    'Transformed': {'subcon': Sub(), 'decodefunc': Func('bytes'), 'decodeamount': F('intornone'), 'encodefunc': Func('bytes'), 'encodeamount': F('intornone')},
    'Restreamed': {'subcon': Sub(), 'decoder': Func('bytes'), 'decoderunit': Int(), 'encoder': Func('bytes'), 'encoderunit': Int(), 'sizecomputer': F('funcornone', returns='nat')},
    'ProcessXor': {'subcon': Sub(), 'padfunc': Param('xorpad')},
    'ProcessRotateLeft': {'subcon': Sub(), 'amount': Param('int'), 'group': Param('int')},
    'Checksum': {'checksumfield': Sub(), 'hashfunc': Func('dyn'), 'bytesfunc': Func('dyn')},
    'Lazy': {'subcon': Sub()},
    'LazyStruct': {'subcons': SubList(), '_subcons': Opaque(), '_subconsindexes': Map('int', keys='str')},
    'LazyArray': {'subcon': Sub(), 'count': Param('int')},
    'LazyBound': {'subconfunc': Func('sub')},
    'Hex': {'subcon': Sub()},
    'HexDump': {'subcon': Sub()},
    'Compiled': {'parsefunc': Func('dyn'), 'buildfunc': Func('dyn'), 'defersubcon': Sub(), 'source': Opaque()},
    'FormatField': {'fmtstr': F('fmt'), 'length': F('fmtlen')},
    'Compressed': {'subcon': Sub(), 'encoding': StrF(), 'level': Dyn(), 'lib': Opaque()},
}

prelude.declare_fun('fn_bytes_arr', [t.INT, t.ARR, t.INT, t.INT], t.ARR)
prelude.declare_fun('fn_bytes_len', [t.INT, t.ARR, t.INT, t.INT], t.INT)
prelude.declare_fun('fn_val', [t.INT, t.VAL], t.VAL)


def make_field(eng, st, iface, cls, name, f):
    k = f.kind
    if k == 'sub':
        v = VSub(fresh('sc_' + name, t.INT), name)
        v.returns = f.kw.get('returns')
        return v
    if k == 'param':
        if f.kw['pkind'] == 'optstream':
            # Pointer(..., stream=): None, or (a context lambda giving) another stream.  The other stream is a second,
            # unrelated stream object in an arbitrary state; 'redirected' says whether the parameter designates it.
            st.ghost['otherstream'] = streams.symbolic_stream(eng, st, 'otherstream', getattr(eng, 'setup_stream_model', 'bytesio'))
            st.ghost['redirected'] = fresh('redirected', t.BOOL)
        var = getattr(eng, 'variant', None)
        if isinstance(var, dict) and name in var:
            # a concrete parameter value (finite parameter domain enumerated by variants)
            return VParam(name, f.kw['pkind'], fresh('param_' + name, t.INT), callable_t=t.FALSE, const=VInt(I(var[name])))
        return VParam(name, f.kw['pkind'], fresh('param_' + name, t.INT))
    if k == 'sublist':
        v = VSubList(fresh('subcons', t.INT))
        iface.current_sublist = v.ident
        return v
    if k == 'bytes':
        var = getattr(eng, 'variant', None)
        if isinstance(var, dict) and (name + '_len') in var:
            return eng.fresh_bytes(st, 'self_' + name, ln=I(var[name + '_len']))
        if 'length' in f.kw:
            return eng.fresh_bytes(st, 'self_' + name, ln=I(f.kw['length']))
        return eng.fresh_bytes(st, 'self_' + name)
    if k == 'bool':
        return VBool(fresh('self_' + name, t.BOOL))
    if k == 'int':
        return VInt(fresh('self_' + name, t.INT))
    if k == 'dyn':
        return VDyn(fresh('self_' + name, t.VAL))
    if k == 'str':
        return VStr(fresh('self_' + name, t.STR))
    if k == 'name':
        v = fresh('self_name', t.VAL)
        st.assume(t.or_(t.app('(_ is VNone)', t.BOOL, v), t.app('(_ is VStr)', t.BOOL, v)))
        return VDyn(v)
    if k == 'none':
        return NONE
    if k == 'opaque':
        return VDyn(t.app('VOpq', t.VAL, fresh('opq_' + name, t.INT)))
    if k == 'intornone':
        v = fresh('self_' + name, t.VAL)
        st.assume(t.or_(t.app('(_ is VNone)', t.BOOL, v), t.and_(t.app('(_ is VInt)', t.BOOL, v), t.ge(t.app('ival', t.INT, v), t.ZERO))))
        return VDyn(v)
    if k == 'func' or k == 'funcornone':
        ident = fresh('fn_' + name, t.INT)
        fv = VFunc('self.' + name, model=('model', lambda m, e, a, kw, s, n, _i=ident, _r=f.kw.get('returns', 'dyn'): iface.user_function(e, _i, _r, a, kw, s)))
        fv.ident = ident          # contracts name the function's results through fn_bytes_arr/fn_bytes_len/fn_val(ident, ...)
        return fv
    if k == 'map':
        m = iface.new_map(eng, st, name, f.kw.get('values', 'dyn'))
        m.keys = f.kw.get('keys', 'dyn')
        return m
    if k in ('fmt', 'fmtlen'):
        return iface.fmt_field(eng, st, k)
    raise KeyError(k)


class VariantDict(dict):
    def __str__(self):
        return ','.join('%s=%s' % kv for kv in sorted(self.items()))
    __repr__ = __str__

    def __hash__(self):
        return hash(str(self))


def class_fields(src, cls):
    out = dict(COMMON)
    for c in reversed(src.mro(cls)):
        out.update(FIELDS.get(c, {}))
    return out


def method_setup(cls, extra_fields=None):
    def setup(eng, st, node, stream_model):
        iface = eng.models.interface
        fields = {}
        table = class_fields(eng.src, cls)
        if extra_fields:
            table.update(extra_fields)
        iface.fmt_cache = {}
        iface.current_sublist = None
        eng.setup_stream_model = stream_model
        for name, f in sorted(table.items(), key=lambda kv: kv[1].kind != 'sublist'):
            fields[name] = make_field(eng, st, iface, cls, name, f)
        selfv = VObj(cls, fields, ident=fresh('self', t.INT))
        args = {}
        for a in node.args.args[1:]:
            n = a.arg
            if n == 'stream':
                args[n] = streams.symbolic_stream(eng, st, 'stream', stream_model)
            elif n in ('context', 'ctx'):
                args[n] = iface.new_context(eng, st, 'context')
            elif n == 'path':
                args[n] = VStr(fresh('path', t.STR))
            else:
                args[n] = VDyn(fresh(n, t.VAL))
                eng.assume_val_invariant(st, args[n].t)
        # a second, unrelated pre-existing container: the frame says it is left alone
        other = iface.new_context(eng, st, 'othercontainer', wf=False)
        st.ghost['other'] = st.get(other).addr
        return selfv, args
    setup.kinds = {'obj': 'dyn', 'data': 'dyn'}
    return setup


# ------------------------------------------------------------------------------------------------ generic clauses
def _path_str(v):
    if isinstance(v, VStr) and v.t is not None:
        return t.TRUE, v.t
    if isinstance(v, VDyn):
        return t.app('(_ is VStr)', t.BOOL, v.t), t.app('sval', t.STR, v.t)
    return None, None


def derived_path_clause(pre, post):
    """C18: an error raised while handling a member's ConstructError (a wrapper translating the failure) still names the
    failing member: its path extends the path of the error it replaces"""
    e = post.exc
    c = getattr(e, 'context', None)
    label = 'error-replacing-a-members-error-keeps-the-members-path'
    if c is None:
        return [(label, t.TRUE, ('C18',))]       # not raised while handling another error (kept so that the obligation exists on every tree)
    isstr_c, pc = _path_str(c.path)
    isstr_e, pe = _path_str(e.path)
    if pc is None:
        return [(label, t.TRUE, ('C18',))]
    is_ce = post.eng.exc_sub_term(c.cls, 'ConstructError')
    goal = t.FALSE if pe is None else t.and_(isstr_e, t.str_prefixof(pc, pe))
    return [(label, t.implies(t.and_(is_ce, isstr_c), goal), ('C18',))]


def path_clause(pre, post):
    e = post.exc
    pv = pre['path']
    if isinstance(e.path, VStr) and e.path.t is not None:
        return t.str_prefixof(pv.t, e.path.t)
    if isinstance(e.path, VNone):
        return t.FALSE
    if isinstance(e.path, VDyn):
        return t.and_(t.app('(_ is VStr)', t.BOOL, e.path.t), t.str_prefixof(pv.t, t.app('sval', t.STR, e.path.t)))
    return t.FALSE


def heap_frame(pre, post):
    eng = post.eng
    iface = eng.models.interface
    out = []
    cname = 'context' if 'context' in pre.args else ('ctx' if 'ctx' in pre.args else None)
    if cname is None:
        return out
    H0, D0 = pre.st.ghost['H'], pre.st.ghost['D']
    H1, D1 = post.st.ghost['H'], post.st.ghost['D']
    c = pre.obj(cname).addr
    f0, f1 = t.T('Fields', 'select', (H0, c)), t.T('Fields', 'select', (H1, c))
    d0, d1 = t.T('Keys', 'select', (D0, c)), t.T('Keys', 'select', (D1, c))
    out.append(('context-modified-only-at-_index', t.and_(
        t.eq(f1, t.T('Fields', 'store', (f0, S('_index'), t.T(t.VAL, 'select', (f1, S('_index')))))),
        t.eq(d1, t.T('Keys', 'store', (d0, S('_index'), t.T(t.BOOL, 'select', (d1, S('_index'))))))), ('C17',)))
    b = pre.st.ghost['other']
    out.append(('other-containers-unchanged', t.implies(t.ne(b, c), t.and_(
        t.eq(t.T('Fields', 'select', (H1, b)), t.T('Fields', 'select', (H0, b))),
        t.eq(t.T('Keys', 'select', (D1, b)), t.T('Keys', 'select', (D0, b))))), ('C17',)))
    return out


# Terminated probes for end of stream by asking for one byte: getting none is its normal, documented outcome
NO_SHORT_EXEMPT = {'Terminated'}
# classes whose documented job is to recover from a failure inside them (filled from the pinned tree, see DESIGN 9.4)
# and under which parameters: a failure there cannot be told from the end of the data and ends the element range / the unterminated string.
IO_RECOVERING = {'GreedyRange': lambda pre: t.TRUE,
                 'NullTerminated': lambda pre: t.not_(pre.eng.truth(pre.self.fields['require'], pre.st))}


def stream_frame(kind):
    def f(pre, post):
        out = []
        if 'stream' not in pre.args:
            return out
        a, b = pre.obj('stream'), post.obj('stream')
        if a.model == 'adv' and post.exc is None:
            # a stream operation that failed during this call must surface (as StreamError): returning normally afterwards would turn the
            # fault into a silently wrong result
            exempt = IO_RECOVERING.get(pre.self.cls, lambda pre_: t.FALSE)(pre)
            out.append(('no-failed-stream-operation-is-swallowed', t.implies(t.not_(exempt), t.not_(post.st.ghost.get('io_failed', t.FALSE))), ('C06',)))
        if a.model == 'adv' and pre.self.cls in NO_SHORT_EXEMPT:
            return out
        if a.model == 'adv':
            out.append(('no-silent-short-io', t.implies(t.not_(a.extra['__short'].t), t.not_(b.extra['__short'].t)), ('C06',)))
        elif kind == 'parse':
            out.append(('parse-leaves-buffer-unchanged', t.and_(t.eq(a.buf, b.buf), t.eq(a.len, b.len)), ('C17', 'C08', 'C09')))
        return out
    return f


SCOPED = {'Struct', 'Sequence', 'FocusedSeq', 'Union', 'LazyStruct'}


def scope_clause(pre, post):
    """C07 for every composite that opens a scope, in parse, build and sizeof alike: the scope handed to the members is a
    child of the scope the composite was given (checked on the scope as it stands before the first member runs; the loop
    invariant 'local scope keeps its structural entries' carries it to every later member)"""
    if pre.self.cls not in SCOPED or 'context' not in pre.args:
        return []
    snap = post.st.ghost.get('first_sub_ctx')
    LE = post.st.ghost.get('LE')
    H0, D0, a0 = pre.st.ghost['H'], pre.st.ghost['D'], pre.st.ghost['alloc']
    c0 = pre.obj('context').addr
    if LE is not None and 'context' in LE.env and isinstance(LE.env['context'], VRef) and 'H' in LE.ghost:
        c1, H1, D1 = LE.get(LE.env['context']).addr, LE.ghost['H'], LE.ghost['D']
    elif snap is not None:
        c1, H1, D1 = snap
    else:
        return []
    from .composites import child_of, dsel
    co = child_of(H1, D1, c1, H0, D0, c0)
    if 'obj' in pre.args:
        # building: all supplied siblings are copied into the scope (context.update(obj)); the supplied mapping is keyed
        # by member names, none of which is a structural entry (the hypothesis already made on member names)
        ov = pre.eng.to_dyn(pre['obj'], pre.st) if not hasattr(pre['obj'], 't') else pre['obj'].t
        oa = t.app('ref', t.INT, ov)
        co = t.implies(t.implies(t.app('(_ is VRef)', t.BOOL, ov), t.and_(*[t.not_(dsel(D0, oa, k)) for k in pre.eng.models.interface.RESERVED])), co)
    out = [('nested-scope-is-a-child-of-the-enclosing-scope', co, ('C07',)),
           ('nested-scope-is-a-fresh-container', t.and_(t.ge(c1, a0), t.ne(c1, c0)), ('C07', 'C17'))]
    if snap is not None:
        out.append(('members-are-handed-the-nested-scope', t.eq(snap[0], c1), ('C07',)))
    return out


def generic_cases(kind, result_kind=None):
    sf = stream_frame(kind)

    def ret_ensures(pre, post):
        out = sf(pre, post) + heap_frame(pre, post) + scope_clause(pre, post)
        if kind in ('parse', 'build'):
            out.append(('no-ExplicitError-swallowed', t.not_(post.st.ghost.get('swallowed_explicit', t.FALSE)), ('C13',)))
        if result_kind is not None:
            rv = post.eng.to_dyn(post.result, post.st)
            tester = {'int': 'isint', 'bool': '(_ is VBool)', 'bytes': '(_ is VBytes)'}[result_kind]
            out.append(('result-is-%s' % result_kind, t.app(tester, t.BOOL, rv), ('C06',)))
        if kind == 'sizeof':
            r = post.result
            iv, ok = post.eng.as_int(r, post.st)
            out.append(('sizeof-returns-nonnegative-int', t.and_(ok, t.ge(iv, t.ZERO)) if iv is not None else t.FALSE, ('C05',)))
        return out

    def raise_ensures(pre, post):
        if getattr(post.exc, 'user', False):
            # raised by a user-supplied callable (outside every property): nothing is claimed about it
            return heap_frame(pre, post)
        base = 'SizeofError' if kind == 'sizeof' else 'ConstructError'
        tag = ('C05',) if kind == 'sizeof' else ('C06',)
        ce = post.eng.exc_sub_term(post.exc.cls, base)
        if kind in ('build', 'encode'):
            # build side: the value supplied by the caller may be of any type, so TypeError & co. caused by the *value* are
            # outside C06; what C06 fixes for building is that a failing stream operation never surfaces as a foreign exception
            out = [('no-foreign-exception-from-a-stream-operation', t.TRUE if not getattr(post.exc, 'from_stream', False) else ce, tag)]
            if getattr(post.exc, 'from_stream', False) or post.exc.explicit_path or True:
                pc = path_clause(pre, post)
                # errors raised by the construct itself (ConstructError subclasses) must carry the path
                out.append(('error-path-extends-path-argument', t.implies(ce, pc), ('C18',)))
            return out + heap_frame(pre, post)
        out = [('only-%s-escapes' % base, ce, tag),
               ('error-path-extends-path-argument', path_clause(pre, post), ('C18',))] + derived_path_clause(pre, post)
        return out + heap_frame(pre, post) + scope_clause(pre, post)
    mods = ['stream'] if kind in ('parse', 'build') else []
    return [Case('returns', 'return', lambda pre: t.TRUE, ensures=ret_ensures, rkind=rk_dyn, modifies=mods),
            Case('raises', 'raise', lambda pre: t.TRUE, ensures=raise_ensures, modifies=mods)]


def _focused_inv(L):
    """once the member named by parsebuildfrom has been processed, `finalret` is bound"""
    iface = L.eng.models.interface
    pbf = L['parsebuildfrom']
    if not isinstance(pbf, VDyn) or iface.current_sublist is None:
        return []
    w = t.app('member_index', t.INT, iface.current_sublist, pbf.t)
    return [('selected-member-seen-implies-finalret-bound', t.implies(t.gt(L.k, w), L.bound('finalret')))]


def _union_inv(L):
    """forwards holds an entry for every member index processed so far and for every (non-empty) member name"""
    iface = L.eng.models.interface
    fw = L.obj('forwards')
    if fw.items is not None:
        return []          # still the empty literal at loop entry: nothing to state
    sl = iface.current_sublist
    j = t.var('j!', t.INT)
    name = t.app('sc_name', t.VAL, t.app('sl_at', t.INT, sl, j))
    return [('index-entries', t.forall([j], t.implies(t.and_(t.le(t.ZERO, j), t.lt(j, L.k)), t.T(t.BOOL, 'select', (fw.has, t.app('VInt', t.VAL, j)))),
                                       pats=[[t.app('VInt', t.VAL, j)]])),
            ('name-entries', t.forall([j], t.implies(t.and_(t.le(t.ZERO, j), t.lt(j, L.k), t.app('truthy', t.BOOL, name)), t.T(t.BOOL, 'select', (fw.has, name))),
                                      pats=[[name]]))]


def _remaining(L):
    """termination measure of a loop that consumes the stream: the bytes left (bytesio model; an adversarial stream has no length,
    there termination is not claimed)"""
    o = L.obj('stream')
    if getattr(o, 'model', None) == 'adv' or o.len is None:
        return None
    return t.sub(t.imax(o.len, o.pos), o.pos)


CLASS_LOOPS = {
    'construct.core:GreedyRange._parse': {'for i in itertools.count()': LoopSpec(lambda L: [], variant=_remaining, tags=('C06',), variant_tags=('C06',))},
    'construct.core:Union._parse': {'for (i, sc) in enumerate(self.subcons)': LoopSpec(_union_inv, tags=('C06',))},
    'construct.core:FocusedSeq._parse': {'for (i, sc) in enumerate(self.subcons)': LoopSpec(_focused_inv, tags=('C06',))},
    'construct.core:FocusedSeq._build': {'for (i, sc) in enumerate(self.subcons)': LoopSpec(_focused_inv, tags=('C06',))},
}

KIND_OF = {'_parse': 'parse', '_parsereport': 'parse', '_build': 'build', '_sizeof': 'sizeof', '_decode': 'adapt', '_encode': 'encode',
           '_validate': 'adapt', '_actualsize': 'parse'}

# what a successful _parse returns, for classes whose callers rely on it (ZigZag on VarInt, ...)
RESULT_KIND = {'VarInt': 'int', 'ZigZag': 'int', 'BytesInteger': 'int', 'BitsInteger': 'int', 'Flag': 'bool', 'Bytes': 'bytes', 'GreedyBytes': 'bytes'}


def is_abstract(node):
    import ast
    body = [n for n in node.body if not (isinstance(n, ast.Expr) and isinstance(n.value, ast.Constant))]
    return len(body) == 1 and isinstance(body[0], ast.Raise) and 'NotImplementedError' in ast.unparse(body[0])

# value-domain preconditions of adapter hooks (what the sub-construct they wrap returns when validly parameterised)
ADAPTER_REQUIRES = {
    ('Enum', '_decode'): lambda pre: [('obj-is-int', t.app('isint', t.BOOL, pre['obj'].t))],
    ('FlagsEnum', '_decode'): lambda pre: [('obj-is-int', t.app('isint', t.BOOL, pre['obj'].t))],
}

OUT_OF_SCOPE = {'Pickled', 'Numpy', 'NamedTuple', 'TimestampAdapter', 'Slicing', 'Indexing', 'CompressedLZ4', 'EncryptedSym',
                'EncryptedSymAead', 'Rebuffered', 'ExprAdapter', 'ExprSymmetricAdapter', 'ExprValidator'}


def generic_contracts(src):
    """one contract per (class, method) defined in core.py for the run-time family"""
    out = []
    for cls, (mod, node, bases) in src.classes.items():
        if mod != CORE or cls in OUT_OF_SCOPE:
            continue
        if not src.is_subclass(cls, 'Construct'):
            continue
        for m in src.methods_of(cls):
            if m not in KIND_OF:
                continue
            kind = KIND_OF[m]
            qual = '%s:%s.%s' % (CORE, cls, m)
            abstract = is_abstract(src.find(qual))
            c = FnContract(qual, generic_cases(kind, RESULT_KIND.get(cls) if m in ('_parse', '_parsereport') else None), setup=method_setup(cls), stream_models=('bytesio', 'adv') if kind in ('parse', 'build') else ('bytesio',),
                           tags=('C05', 'C06', 'C07', 'C13', 'C17', 'C18'))
            c.iface = dict(sub_seq=False, params_total=(kind != 'sizeof'), nat_params=(kind == 'sizeof'))
            if (cls, m) in ADAPTER_REQUIRES:
                c.requires = ADAPTER_REQUIRES[(cls, m)]
            c.generic = True
            c.modifies_heap = True
            c.kind = kind
            pm = () if kind in ('parse', 'adapt', 'sizeof') else None
            c.default_loop = LoopSpec(lambda L: [], tags=('C06',), modifies=pm)
            if qual in CLASS_LOOPS:
                c.loops = {k2: LoopSpec(v2.inv, variant=v2.variant, variant_tags=v2.variant_tags, tags=v2.tags, modifies=pm) for k2, v2 in CLASS_LOOPS[qual].items()}
            if abstract:
                # subclass responsibility: used at call sites as the interface clause, never verified against the raise-stub
                c.setup = None
                c.abstract = True
            if cls == 'FormatField':
                c.variants = [e + f for e in '<>=' for f in 'BHLQbhlqefd?']
            if cls == 'ProcessRotateLeft' and m in ('_parse', '_build'):
                # one representative per branch (no-op, single-byte table, whole-byte permutation, bit pairs, negative, over-wide);
                # the full parameter domain of C15 is enumerated by the functional contract
                c.variants = [VariantDict(amount=a, group=g) for a, g in ((0, 1), (3, 1), (8, 2), (16, 4), (5, 2), (-3, 3), (13, 4), (70, 8), (1, 0))]
            out.append(c)
    return out
