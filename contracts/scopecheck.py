"""Native witness search for the scope (C07) clauses: after a 'nested-scope…' obligation failed, run the REAL composite
with a recording member under enclosing scopes of several shapes and evaluate the child-scope relation on the scope the
member actually received.  Used only to attach a failing input to a failed obligation (directed, bounded search)."""
import io

SCOPED = ('Struct', 'Sequence', 'FocusedSeq', 'Union', 'LazyStruct')
FLAGS = {'_parse': (True, False, False), '_build': (False, True, False), '_sizeof': (False, False, True)}


def _probe(C, seen):
    class Probe(C.Construct):
        def _parse(self, stream, context, path):
            seen.append(context)
            return 7

        def _build(self, obj, stream, context, path):
            seen.append(context)
            return obj

        def _sizeof(self, context, path):
            seen.append(context)
            return 0
    return Probe()


def _instance(C, cls, p):
    if cls == 'Struct':
        return C.Struct('a' / p), {'a': 1}
    if cls == 'LazyStruct':
        return C.LazyStruct('a' / p), {'a': 1}
    if cls == 'Sequence':
        return C.Sequence(p), [1]
    if cls == 'FocusedSeq':
        return C.FocusedSeq('a', 'a' / p), 1
    if cls == 'Union':
        return C.Union(None, 'a' / p), {'a': 1}
    raise KeyError(cls)


def _outer_scopes(C, flags):
    P = C.Container(k=1)
    pa, bu, si = flags
    top = C.Container(_params=P, _root=None, _parsing=pa, _building=bu, _sizing=si, _subcons=None, _io=None, _index=None)
    del top['_root']
    del top['_index']
    yield 'outermost scope (no _root, no _index)', top
    top2 = C.Container(_params=P, _parsing=pa, _building=bu, _sizing=si)
    mid = C.Container(_=top2, _params=P, _root=top2, _parsing=pa, _building=bu, _sizing=si, _subcons=None, _io=None, _index=None, x=5)
    yield 'scope of a structure nested once (_root is the outermost scope)', mid
    deep = C.Container(_=mid, _params=P, _root=top2, _parsing=pa, _building=bu, _sizing=si, _subcons=None, _io=None, _index=4, y=6)
    yield 'scope nested twice, inside a repeater (_index=4)', deep


def search(C, qual):
    """qual: 'construct.core:Cls._method' -> description of a failing input or None"""
    name = qual.split(':', 1)[1]
    cls, method = name.split('.', 1)
    if cls not in SCOPED or method not in FLAGS:
        return None
    for what, c0 in _outer_scopes(C, FLAGS[method]):
        seen = []
        try:
            inst, obj = _instance(C, cls, _probe(C, seen))
            if method == '_parse':
                inst._parse(io.BytesIO(b''), c0, 'p')
            elif method == '_build':
                inst._build(obj, io.BytesIO(), c0, 'p')
            else:
                inst._sizeof(c0, 'p')
        except Exception as e:  # the member was not reached
            if not seen:
                continue
        if not seen:
            continue
        c1 = seen[0]
        bad = []
        if c1.get('_') is not c0:
            bad.append('_ is not the enclosing scope')
        if c1.get('_params') is not c0['_params']:
            bad.append('_params differs from the enclosing scope\'s')
        want_root = c0['_root'] if '_root' in c0 else c1
        if c1.get('_root') is not want_root:
            bad.append('_root is %s' % ('the enclosing scope' if c1.get('_root') is c0 else 'not the outermost scope'))
        for f in ('_parsing', '_building', '_sizing'):
            if c1.get(f) is not c0[f]:
                bad.append('%s=%r' % (f, c1.get(f)))
        if c1.get('_index', 'missing') != c0.get('_index', None):
            bad.append('_index=%r' % (c1.get('_index', 'missing'),))
        if bad:
            return '%s.%s called under the %s: the scope handed to the member has %s' % (cls, method, what, '; '.join(bad))
    return None
