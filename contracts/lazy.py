"""C16 (partial): Lazy._parse - the member is skipped by its actual size and the returned thunk, whenever it is called later
(the stream anywhere in the same buffer), yields what parsing the member at the remembered offset yields and puts the
stream back where it found it."""
from pyvc import terms as t, prelude
from pyvc.terms import I, S
from pyvc.values import *  # noqa
from pyvc.contract import Case, rk_dyn
from .prims import fcontract, S_, generic_raise, buffer_same
from .wrappers import Sub, _abs_base

T = ('C16',)
for _fn, _srt in (('A_ok', t.BOOL), ('A_val', t.INT), ('A_exc', t.INT)):
    prelude.declare_fun(_fn, [t.INT, t.ARR, t.INT, t.INT, t.INT, 'Heap', 'Dom', t.INT], _srt)


def actual(pre, field='subcon'):
    o = S_(pre)
    sc = pre.self.fields[field]
    a = (sc.ident, o.buf, o.len, o.pos, _abs_base(o), pre.st.ghost['H'], pre.st.ghost['D'], pre.obj('context').addr)
    return t.app('A_ok', t.BOOL, *a), t.app('A_val', t.INT, *a)


def thunk_clauses(pre, post):
    """run the returned closure symbolically from the post state with the stream moved to an arbitrary position"""
    eng = post.eng
    fv = post.result
    if not isinstance(fv, VFunc) or fv.node is None:
        return [('returns-a-thunk', t.FALSE, T)]
    st = post.st.clone()
    sref = post.args['stream']
    o = st.get(sref)
    later = fresh('later_pos', t.INT)
    st.put(sref, o.replace(pos=later))
    base_pc = len(st.pc)
    st.assume(t.ge(later, t.ZERO))          # part of the condition of every outcome: a stream position is never negative
    o0 = S_(pre)
    inner = Sub(pre, 'subcon', heap=(st.ghost['H'], st.ghost['D']))        # parsing the member at the remembered offset, in the scope as it is when the thunk runs
    out = []
    n_ret = 0
    for k, (s2, res) in enumerate(eng.call_closure(fv, [], {}, st)):
        cond = t.and_(*s2.pc[base_pc:])
        o2 = s2.get(sref)
        if isinstance(res, Raised):
            out.append(('thunk-fails-only-when-parsing-the-member-fails[outcome %d: %s]' % (k, res.exc.origin), t.implies(cond, t.not_(inner.ok)), T))
        else:
            n_ret += 1
            out.append(('thunk-returns-what-parsing-the-member-at-the-remembered-offset-returns', t.implies(cond, t.and_(inner.ok, t.eq(eng.to_dyn(res, s2), inner.val))), T))
            out.append(('thunk-puts-the-stream-back-where-it-found-it', t.implies(cond, t.and_(t.eq(o2.pos, later), t.eq(o2.buf, o0.buf), t.eq(o2.len, o0.len))), T))
    if not n_ret:
        out.append(('thunk-can-return', t.FALSE, T))
    return out


def _lazy_ok(pre, post):
    o, o2 = S_(pre), post.obj('stream')
    aok, aval = actual(pre)
    return [('member-skipped-by-exactly-its-actual-size', t.eq(o2.pos, t.add(o.pos, aval)), T),
            ('buffer-unchanged', buffer_same(pre, post), ('C17', 'C16'))] + thunk_clauses(pre, post)


fcontract('Lazy', '_parse', [
    Case('ok', 'return', lambda pre: actual(pre)[0], ensures=_lazy_ok, rkind=rk_dyn, modifies=['stream']),
    Case('no-size', 'raise', lambda pre: t.not_(actual(pre)[0]), ensures=generic_raise, modifies=['stream']),
], tags=T, sub_seq=True)


# ================================================================================================ LazyContainer / LazyListContainer
# Representation invariant of a lazy result (what LazyStruct._parse / LazyArray._parse hand over and every access keeps):
#   I1  every cached entry _values[i] is the value member i yields when parsed at _offsets[i]
#   I2  _offsets has an integer entry for every member index
# Per-access contract: __getitem__(i) returns the value member i yields when parsed at its offset - cached or not, whatever was
# accessed before -, caches it, keeps I1/I2 and puts the stream back.  By induction over the access history every access
# returns the eager value, in any order and any number of times (given that parsing a member does not depend on the
# context: the property excludes cross references).
from pyvc.contract import FnContract, register
from pyvc import streams as _streams
from .classes import make_field, SubList, Map, Sub as SubF
from .composites import _base
from pyvc.constructs import VSubList

prelude.declare_fun('lz_H', [], 'Heap') if False else None


def _vint(i):
    return t.app('VInt', t.VAL, i)


def _member_value(view, sc_ident, off_abs, star=True):
    """value of the member parsed at absolute offset off_abs of the stream as it is in `view`, in the scope as it is in `view`"""
    o = view.st.get(view.st.get(view.self).fields['_stream'])
    if star:
        # a fixed reference scope: by the hypothesis "members do not depend on the scope" (no cross references) a member's parse
        # in any scope equals its parse in this one; the hypothesis is instantiated in `requires` for the member being accessed
        H, D, c = t.var('lz_refH', 'Heap'), t.var('lz_refD', 'Dom'), t.var('lz_refc', t.INT)
    else:
        H, D = view.st.ghost['H'], view.st.ghost['D']
        c = view.st.get(view.st.get(view.self).fields['_context']).addr
    base = _base(o)
    a = (sc_ident, o.buf, o.len, t.sub(off_abs, base), base, H, D, c)
    return t.app('P_ok', t.BOOL, *a), t.app('P_val', t.VAL, *a), a


def lazy_setup(kind):
    def setup(eng, st, node, stream_model):
        iface = eng.models.interface
        sref = _streams.symbolic_stream(eng, st, 'stream', stream_model)
        ctx = iface.new_context(eng, st, 'context')
        offs = st.alloc(ODict(has=fresh('offsets_has', 'VMapHas'), get=fresh('offsets_get', 'VMapGet')), 'dict')
        vals = st.alloc(ODict(has=fresh('values_has', 'VMapHas'), get=fresh('values_get', 'VMapGet')), 'dict')
        fields = {'_stream': sref, '_offsets': offs, '_values': vals, '_context': ctx, '_path': VStr(fresh('path', t.STR))}
        if kind == 'struct':
            sl = VSubList(fresh('subcons', t.INT))
            iface.current_sublist = sl.ident
            idx = iface.new_map(eng, st, '_subconsindexes', 'int')
            idx.keys = 'str'
            fields['_struct'] = VObj('LazyStruct', {'subcons': sl, '_subconsindexes': idx, 'name': NONE, 'flagbuildnone': VBool(t.FALSE), 'docs': VStr(S('')), 'parsed': NONE}, ident=fresh('struct', t.INT))
        else:
            fields['_subcon'] = VSub(fresh('sc_subcon', t.INT), 'subcon')
            fields['_count'] = VInt(fresh('count', t.INT))
            st.assume(t.ge(fields['_count'].t, t.ZERO))
        selfv = st.alloc(OObject('LazyContainer' if kind == 'struct' else 'LazyListContainer', fields), 'object')
        other = iface.new_context(eng, st, 'othercontainer', wf=False)
        st.ghost['other'] = st.get(other).addr
        return selfv, {'index': VDyn(fresh('index', t.VAL))}
    return setup


def _fields(view):
    return view.st.get(view.self).fields


def _sc_at(view, i):
    f = _fields(view)
    if '_struct' in f:
        return t.app('sl_at', t.INT, f['_struct'].fields['subcons'].ident, i), t.app('sl_len', t.INT, f['_struct'].fields['subcons'].ident)
    return f['_subcon'].ident, f['_count'].t


def _invariant(view, label='representation-invariant'):
    f = _fields(view)
    offs, vals = view.st.get(f['_offsets']), view.st.get(f['_values'])
    i = t.var('lz!', t.INT)
    sc, n = _sc_at(view, i)
    offv = t.T(t.VAL, 'select', (offs.get, _vint(i)))
    ok, val, a = _member_value(view, sc, t.app('ival', t.INT, offv))
    cached = t.T(t.BOOL, 'select', (vals.has, _vint(i)))
    I1 = t.forall([i], t.implies(cached, t.and_(t.le(t.ZERO, i), t.lt(i, n), ok, t.eq(t.T(t.VAL, 'select', (vals.get, _vint(i))), val))), pats=[[t.T(t.BOOL, 'select', (vals.has, _vint(i)))]])
    I2 = t.forall([i], t.implies(t.and_(t.le(t.ZERO, i), t.lt(i, n)),
                                 t.and_(t.T(t.BOOL, 'select', (offs.has, _vint(i))), t.app('(_ is VInt)', t.BOOL, offv), t.ge(t.app('ival', t.INT, offv), _base(view.st.get(f['_stream']))))),
                  pats=[[t.T(t.BOOL, 'select', (offs.has, _vint(i)))], [offv]])
    I3 = t.forall([i], t.implies(t.T(t.BOOL, 'select', (offs.has, _vint(i))), t.and_(t.le(t.ZERO, i), t.le(i, n))), pats=[[t.T(t.BOOL, 'select', (offs.has, _vint(i)))]])
    return [(label + '/cached-values-are-the-members-values', I1), (label + '/every-member-has-an-offset', I2), (label + '/offsets-are-keyed-by-member-positions-only', I3)]


def _index(pre):
    """the member index the access designates: an int (negative counted from the end for the list), or a member name"""
    f = _fields(pre)
    v = pre['index'].t
    if '_struct' in f:
        m = f['_struct'].fields['_subconsindexes']
        return t.ite(t.app('(_ is VStr)', t.BOOL, v), t.app('ival', t.INT, t.app('map_get', t.VAL, m.ident, v)), t.app('toint', t.INT, v))
    n = f['_count'].t
    iv = t.app('toint', t.INT, v)
    return t.ite(t.lt(iv, t.ZERO), t.add(iv, n), iv)


def _valid_index(pre):
    f = _fields(pre)
    v = pre['index'].t
    i = _index(pre)
    sc, n = _sc_at(pre, i)
    rng = t.and_(t.le(t.ZERO, i), t.lt(i, n))
    if '_struct' in f:
        m = f['_struct'].fields['_subconsindexes']
        return t.and_(t.or_(t.and_(t.app('(_ is VStr)', t.BOOL, v), t.app('map_has', t.BOOL, m.ident, v)), t.app('(_ is VInt)', t.BOOL, v)), rng)
    return t.and_(t.app('(_ is VInt)', t.BOOL, v), rng)


def _getitem_ok(pre, post):
    f = _fields(pre)
    i = _index(pre)
    sc, n = _sc_at(pre, i)
    offs = pre.st.get(f['_offsets'])
    ok, val, a = _member_value(pre, sc, t.app('ival', t.INT, t.T(t.VAL, 'select', (offs.get, _vint(i)))))
    o, o2 = pre.st.get(f['_stream']), post.st.get(f['_stream'])
    vals2 = post.st.get(_fields(post)['_values'])
    # the member's parse does not depend on the scope (no cross references): its value in the scope of this access is its value in any scope
    return [('returns-the-value-the-member-yields-when-parsed-at-its-offset', t.eq(post.eng.to_dyn(post.result, post.st), val), T),
            ('the-value-is-cached', t.and_(t.T(t.BOOL, 'select', (vals2.has, _vint(i))), t.eq(t.T(t.VAL, 'select', (vals2.get, _vint(i))), val)), T),
            ('stream-put-back-where-it-was', t.and_(t.eq(o2.pos, o.pos), t.eq(o2.buf, o.buf), t.eq(o2.len, o.len)), T)] + \
        [(lab, cl, T) for lab, cl in _invariant(post, 'keeps-the-representation-invariant')]


def _getitem_guard(pre):
    f = _fields(pre)
    i = _index(pre)
    sc, n = _sc_at(pre, i)
    offs, vals = pre.st.get(f['_offsets']), pre.st.get(f['_values'])
    ok, val, a = _member_value(pre, sc, t.app('ival', t.INT, t.T(t.VAL, 'select', (offs.get, _vint(i)))))
    return t.and_(_valid_index(pre), t.or_(t.T(t.BOOL, 'select', (vals.has, _vint(i))), ok))


def _lazy_requires(pre):
    f = _fields(pre)
    H, D = pre.st.ghost['H'], pre.st.ghost['D']
    out = [(lab, cl) for lab, cl in _invariant(pre)]
    v = pre['index'].t
    out.append(('the-index-is-an-integer' + ('-or-a-member-name' if '_struct' in f else ''),
                t.or_(t.app('(_ is VInt)', t.BOOL, v), t.app('(_ is VStr)', t.BOOL, v)) if '_struct' in f else t.app('(_ is VInt)', t.BOOL, v)))
    if '_struct' not in f:
        iv = t.app('toint', t.INT, v)
        out.append(('the-index-designates-an-element', t.and_(t.le(t.neg(f['_count'].t), iv), t.lt(iv, f['_count'].t))))
    # scope independence of the members (the property's "no cross references"): stated where it is used, on the parse of this access
    i = _index(pre)
    sc, n = _sc_at(pre, i)
    offs = pre.st.get(f['_offsets'])
    off = t.app('ival', t.INT, t.T(t.VAL, 'select', (offs.get, _vint(i))))
    ok_s, val_s, a_s = _member_value(pre, sc, off, star=True)
    ok_a, val_a, a_a = _member_value(pre, sc, off, star=False)
    out.append(('hypothesis: parsing the accessed member does not depend on the scope', t.and_(t.eq(ok_a, ok_s), t.eq(val_a, val_s))))
    if '_struct' in f:
        m = f['_struct'].fields['_subconsindexes']
        k = t.var('lzk!', t.VAL)
        out.append(('member-name-table-maps-names-to-member-indexes', t.forall([k], t.implies(t.app('map_has', t.BOOL, m.ident, k),
                    t.and_(t.app('(_ is VInt)', t.BOOL, t.app('map_get', t.VAL, m.ident, k)), t.le(t.ZERO, t.app('ival', t.INT, t.app('map_get', t.VAL, m.ident, k))),
                           t.lt(t.app('ival', t.INT, t.app('map_get', t.VAL, m.ident, k)), n))), pats=[[t.app('map_get', t.VAL, m.ident, k)]])))
    return out


for _cls, _kind in (('LazyContainer', 'struct'), ('LazyListContainer', 'list')):
    _c = FnContract('construct.core:%s.__getitem__' % _cls, [
        Case('ok', 'return', _getitem_guard, ensures=_getitem_ok, rkind=rk_dyn),
        Case('fails', 'raise', lambda pre: t.not_(_getitem_guard(pre))),
    ], setup=lazy_setup(_kind), tags=T, requires=_lazy_requires, stream_models=('bytesio',))
    _c.iface = dict(sub_seq=True, params_total=True)
    _c.modifies_heap = False
    register(_c)
