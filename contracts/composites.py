"""Struct-like composites against specification folds over their member list (C03 declaration-order concatenation, C07
context construction and sibling visibility, C01/C02 through the fold lemmas).

The member list has unknown length; the parse loop is shown equal to the specification fold `pfold` by the invariant
"the state (position, heap) after k members is pfold(k)" - one unfolding per iteration.  Members are sub-constructs known
only through the interface functions P_* (pyvc/constructs.py)."""
from pyvc import terms as t, prelude
from pyvc.terms import I, S
from pyvc.values import *  # noqa
from pyvc.contract import Case, rk_dyn, rk_container
from pyvc.exec import LoopSpec
from .prims import fcontract, S_, generic_raise, buffer_same
from .classes import path_clause

T = ('C03', 'C07', 'C01', 'C02')

prelude.DATATYPES += """(declare-datatypes ((PS 0)) (((mkPS (ps_ok Bool) (ps_stop Bool) (ps_pos Int) (ps_H (Array Int (Array String Val))) (ps_D (Array Int (Array String Bool)))))))
"""
t.SORT_SMT['PS'] = 'PS'
STOP = None


def define_folds(src):
    stop = src.exc_code['StopFieldError']
    # one parse step of member m from state s: context c, result container r
    prelude.define('pstep', """(define-fun pstep ((m Int) (s PS) (buf (Array Int Int)) (len Int) (base Int) (c Int) (r Int)) PS
  (ite (or (not (ps_ok s)) (ps_stop s)) s
  (ite (P_ok m buf len (ps_pos s) base (ps_H s) (ps_D s) c)
    (let ((H1 (P_H m buf len (ps_pos s) base (ps_H s) (ps_D s) c)) (D1 (P_D m buf len (ps_pos s) base (ps_H s) (ps_D s) c))
          (v (P_val m buf len (ps_pos s) base (ps_H s) (ps_D s) c)) (e (P_end m buf len (ps_pos s) base (ps_H s) (ps_D s) c)))
      (ite (truthy (sc_name m))
        (let ((H2 (store H1 r (store (select H1 r) (sval (sc_name m)) v))) (D2 (store D1 r (store (select D1 r) (sval (sc_name m)) true))))
          (mkPS true false e (store H2 c (store (select H2 c) (sval (sc_name m)) v)) (store D2 c (store (select D2 c) (sval (sc_name m)) true))))
        (mkPS true false e H1 D1)))
    (ite (= (P_exc m buf len (ps_pos s) base (ps_H s) (ps_D s) c) %d)
      (mkPS true true (P_fpos m buf len (ps_pos s) base (ps_H s) (ps_D s) c) (P_fH m buf len (ps_pos s) base (ps_H s) (ps_D s) c) (P_fD m buf len (ps_pos s) base (ps_H s) (ps_D s) c))
      (mkPS false false (P_fpos m buf len (ps_pos s) base (ps_H s) (ps_D s) c) (P_fH m buf len (ps_pos s) base (ps_H s) (ps_D s) c) (P_fD m buf len (ps_pos s) base (ps_H s) (ps_D s) c))))))""" % stop,
                   deps=['P_ok', 'P_H', 'P_D', 'P_val', 'P_end', 'P_exc', 'P_fpos', 'P_fH', 'P_fD', 'truthy', 'sc_name'])
    prelude.define('pfold', """(define-fun-rec pfold ((sl Int) (k Int) (s0 PS) (buf (Array Int Int)) (len Int) (base Int) (c Int) (r Int)) PS
  (ite (<= k 0) s0 (pstep (sl_at sl (- k 1)) (pfold sl (- k 1) s0 buf len base c r) buf len base c r)))""", deps=['pstep', 'sl_at'])


def fold_lemmas():
    from pyvc.lemma import Lemma
    V = [('sl', t.INT), ('i', t.INT), ('j', t.INT), ('s0', 'PS'), ('buf', t.ARR), ('len', t.INT), ('base', t.INT), ('c', t.INT), ('r', t.INT)]

    def pf(v, k):
        return t.app('pfold', 'PS', v['sl'], k, v['s0'], v['buf'], v['len'], v['base'], v['c'], v['r'])

    def stmt(v):
        fi = pf(v, v['i'])
        stuck = t.or_(t.not_(ps('ps_ok', fi)), ps('ps_stop', fi))
        return t.implies(t.and_(t.le(t.ZERO, v['i']), t.le(v['i'], v['j']), stuck), t.eq(pf(v, v['j']), fi))
    # once a member failed or StopIf fired, the rest of the fold changes nothing
    return Lemma('fold_stuck_persists', V, stmt, induct=('j', 0),
                 ih_instances=lambda v: [{k: v[k] for k in ('sl', 'i', 's0', 'buf', 'len', 'base', 'c', 'r')}], tags=T)


def stuck_instance(sl, i, j, s0, o, base, c, r):
    fi = t.app('pfold', 'PS', sl, i, s0, o.buf, o.len, base, c, r)
    fj = t.app('pfold', 'PS', sl, j, s0, o.buf, o.len, base, c, r)
    stuck = t.or_(t.not_(ps('ps_ok', fi)), ps('ps_stop', fi))
    return t.implies(t.and_(t.le(t.ZERO, i), t.le(i, j), stuck), t.eq(fj, fi))


def unfold_instance(sl, k, s0, o, base, c, r):
    """pfold(k) = pstep(member k-1, pfold(k-1)) for k >= 1 (definition of the fold)"""
    prev = t.app('pfold', 'PS', sl, t.sub(k, t.ONE), s0, o.buf, o.len, base, c, r)
    step = t.app('pstep', 'PS', t.app('sl_at', t.INT, sl, t.sub(k, t.ONE)), prev, o.buf, o.len, base, c, r)
    return t.implies(t.ge(k, t.ONE), t.eq(t.app('pfold', 'PS', sl, k, s0, o.buf, o.len, base, c, r), step))


def mkPS(ok, stop, pos, H, D):
    return t.app('mkPS', 'PS', ok, stop, pos, H, D)


def pfold(sl, k, s0, o, base, c, r):
    return t.app('pfold', 'PS', sl, k, s0, o.buf, o.len, base, c, r)


def ps(field, s):
    sort = {'ps_ok': t.BOOL, 'ps_stop': t.BOOL, 'ps_pos': t.INT, 'ps_H': 'Heap', 'ps_D': 'Dom'}[field]
    return t.app(field, sort, s)


def _base(o):
    return o.offset if o.model == 'offsets' else t.ZERO


def _addr(st, name):
    v = st.env[name]
    if isinstance(v, VDyn):
        return t.app('ref', t.INT, v.t)      # a user-supplied container
    return st.get(v).addr


def _struct_fold(LE, o0, sl, k):
    """pfold(k) from the loop-entry state LE of Struct._parse"""
    s0 = mkPS(t.TRUE, t.FALSE, LE.get(LE.env['stream']).pos, LE.ghost['H'], LE.ghost['D'])
    return pfold(sl, k, s0, o0, _base(o0), _addr(LE, 'context'), _addr(LE, 'obj'))


def _struct_parse_inv(L):
    pre = L.extra['pre']
    o0 = pre.obj('stream')
    sl = pre.self.fields['subcons'].ident
    F = _struct_fold(L.entry, o0, sl, L.k)
    o = L.obj('stream')
    hints = []
    if L.k.op != 'int':
        # definitional unfolding of the fold at k (k >= 1 at the end of an iteration)
        prev = _struct_fold(L.entry, o0, sl, t.sub(L.k, t.ONE))
        step = t.app('pstep', 'PS', t.app('sl_at', t.INT, sl, t.sub(L.k, t.ONE)), prev, o0.buf, o0.len, _base(o0), _addr(L.entry, 'context'), _addr(L.entry, 'obj'))
        hints.append(t.implies(t.ge(L.k, t.ONE), t.eq(F, step)))
    return [('state-after-k-members-is-the-specification-fold', t.and_(ps('ps_ok', F), t.not_(ps('ps_stop', F)), t.eq(o.pos, ps('ps_pos', F)),
                                                                    t.eq(L.st.ghost['H'], ps('ps_H', F)), t.eq(L.st.ghost['D'], ps('ps_D', F))), None, hints),
            ('buffer-unchanged', t.and_(t.eq(o.buf, o0.buf), t.eq(o.len, o0.len))),
            ('locals-keep-their-identity', t.and_(t.eq(_addr(L.st, 'context'), _addr(L.entry, 'context')), t.eq(_addr(L.st, 'obj'), _addr(L.entry, 'obj'))))]


def _le(view):
    """loop-entry state; at a call site (use mode) it is an unknown state described only by the clauses"""
    LE = view.st.ghost.get('LE')
    if LE is None:
        from pyvc.state import State
        LE = State()
        iface = view.eng.models.interface
        LE.ghost = {'H': fresh('LE_H', 'Heap'), 'D': fresh('LE_D', 'Dom'), 'alloc': fresh('LE_alloc', t.INT)}
        LE.env = {'context': LE.alloc(OContainer(fresh('LE_ctx', t.INT)), 'container'), 'obj': LE.alloc(OContainer(fresh('LE_obj', t.INT)), 'container')}
        o = view.obj('stream')
        LE.env['stream'] = LE.alloc(o.replace(pos=fresh('LE_pos', t.INT)), 'stream')
        view.st.ghost['LE'] = LE
    return LE


def hsel(H, a, key):
    return t.T(t.VAL, 'select', (t.T('Fields', 'select', (H, a)), S(key)))


def dsel(D, a, key):
    return t.T(t.BOOL, 'select', (t.T('Keys', 'select', (D, a)), S(key)))


def child_of(H1, D1, c1, H0, D0, c0):
    """C07: c1 is the scope of a structure nested directly inside scope c0"""
    cl = [t.eq(hsel(H1, c1, '_'), t.app('VRef', t.VAL, c0)),
          t.eq(hsel(H1, c1, '_params'), hsel(H0, c0, '_params')),
          t.eq(hsel(H1, c1, '_root'), t.ite(dsel(D0, c0, '_root'), hsel(H0, c0, '_root'), t.app('VRef', t.VAL, c1))),
          t.eq(hsel(H1, c1, '_index'), t.ite(dsel(D0, c0, '_index'), hsel(H0, c0, '_index'), t.app('VNone', t.VAL)))]
    for f in ('_parsing', '_building', '_sizing'):
        cl.append(t.eq(hsel(H1, c1, f), hsel(H0, c0, f)))
    for f in ('_', '_params', '_root', '_parsing', '_building', '_sizing', '_index'):
        cl.append(dsel(D1, c1, f))
    return t.and_(*cl)


def _struct_parse_ok(pre, post):
    o0, o2 = pre.obj('stream'), post.obj('stream')
    sl = pre.self.fields['subcons'].ident
    n = t.app('sl_len', t.INT, sl)
    LE = _le(post)
    F = _struct_fold(LE, o0, sl, n)
    c0 = pre.obj('context').addr
    c1, r = _addr(LE, 'context'), _addr(LE, 'obj')
    H0, D0, a0 = pre.st.ghost['H'], pre.st.ghost['D'], pre.st.ghost['alloc']
    # lemma / definition instances for the path that leaves the loop early (StopIf): the fold is stuck from that member on
    kk = post.st.ghost.get('loop_k')
    hints = []
    if kk is not None:
        s0 = mkPS(t.TRUE, t.FALSE, LE.get(LE.env['stream']).pos, LE.ghost['H'], LE.ghost['D'])
        hints = [('def', unfold_instance(sl, t.add(kk, t.ONE), s0, o0, _base(o0), c1, r)), stuck_instance(sl, t.add(kk, t.ONE), n, s0, o0, _base(o0), c1, r)]
    return [('nested-scope-is-a-child-of-the-enclosing-scope', child_of(LE.ghost['H'], LE.ghost['D'], c1, H0, D0, c0), ('C07',)),
            ('scope-and-result-are-fresh-distinct-containers', t.and_(t.ge(c1, a0), t.ge(r, a0), t.ne(c1, r), t.ne(c1, c0)), ('C07', 'C17')),
            ('enclosing-scope-untouched-before-the-first-member', t.and_(t.eq(t.T('Fields', 'select', (LE.ghost['H'], c0)), t.T('Fields', 'select', (H0, c0))),
                                                                         t.eq(t.T('Keys', 'select', (LE.ghost['D'], c0)), t.T('Keys', 'select', (D0, c0)))), ('C07', 'C17')),
            ('members-start-at-the-entry-position', t.eq(LE.get(LE.env['stream']).pos, o0.pos), ('C03',)),
            ('members-parsed-in-declaration-order-each-from-the-end-of-the-previous', t.and_(ps('ps_ok', F), t.eq(o2.pos, ps('ps_pos', F))), ('C03', 'C07'), hints),
            ('context-and-result-hold-every-named-member-value', t.and_(t.eq(post.st.ghost['H'], ps('ps_H', F)), t.eq(post.st.ghost['D'], ps('ps_D', F))), ('C07', 'C03')),
            ('returns-the-result-container', t.eq(post.eng.to_dyn(post.result, post.st), t.app('VRef', t.VAL, r)), ('C03',)),
            ('buffer-unchanged', buffer_same(pre, post), ('C17', 'C08'))]


def _struct_parse_bad(pre, post):
    LE = post.st.ghost.get('LE')
    out = list(generic_raise(pre, post))
    if LE is None and post.eng.models.ghost_mode is False and not hasattr(post, '_use'):
        return out
    LE = _le(post)
    o0 = pre.obj('stream')
    sl = pre.self.fields['subcons'].ident
    n = t.app('sl_len', t.INT, sl)
    kk = post.st.ghost.get('loop_k')
    if kk is None:
        kk = fresh('failed_member', t.INT)
        post.st.ghost['loop_k'] = kk
    F = _struct_fold(LE, o0, sl, t.add(kk, t.ONE))
    c0 = pre.obj('context').addr
    c1, r = _addr(LE, 'context'), _addr(LE, 'obj')
    out.append(('members-start-at-the-entry-position', t.eq(LE.get(LE.env['stream']).pos, o0.pos), ('C03',)))
    out.append(('scope-and-result-are-fresh-distinct-containers', t.and_(t.ge(c1, pre.st.ghost['alloc']), t.ge(r, pre.st.ghost['alloc']), t.ne(c1, r), t.ne(c1, c0)), ('C07', 'C17')))
    out.append(('some-member-fails-in-the-specification-fold', t.and_(t.le(t.ZERO, kk), t.lt(kk, n), t.not_(ps('ps_ok', F))), ('C03',)))
    return out


def register_composites(src):
    define_folds(src)
    fold_lemmas()
    fcontract('Struct', '_parse', [
        Case('ok', 'return', lambda pre: t.TRUE, ensures=_struct_parse_ok, rkind=rk_container, modifies=['stream']),
        Case('fails', 'raise', lambda pre: t.TRUE, ensures=_struct_parse_bad, modifies=['stream']),
    ], loops={'for sc in self.subcons': LoopSpec(_struct_parse_inv, tags=T, modifies=())}, tags=T)
    register_struct_build(src)


# ================================================================================================ Struct._build
prelude.DATATYPES += """(declare-datatypes ((BS 0)) (((mkBS (bs_ok Bool) (bs_buf (Array Int Int)) (bs_len Int) (bs_pos Int) (bs_H (Array Int (Array String Val))) (bs_D (Array Int (Array String Bool)))))))
"""
t.SORT_SMT['BS'] = 'BS'


def define_build_folds(src):
    # value handed to member m when building from the container at address oa (None for flagbuildnone members that are absent)
    prelude.define('bval', """(define-fun bval ((m Int) (H (Array Int (Array String Val))) (D (Array Int (Array String Bool))) (oa Int)) Val
  (ite (and ((_ is VStr) (sc_name m)) (select (select D oa) (sval (sc_name m)))) (select (select H oa) (sval (sc_name m))) VNone))""", deps=['sc_name'])
    prelude.define('bhas', """(define-fun bhas ((m Int) (D (Array Int (Array String Bool))) (oa Int)) Bool
  (or (sc_fbn m) (and ((_ is VStr) (sc_name m)) (select (select D oa) (sval (sc_name m))))))""", deps=['sc_name', 'sc_fbn'])
    prelude.define('bstep', """(define-fun bstep ((m Int) (s BS) (base Int) (c Int) (oa Int)) BS
  (ite (not (bs_ok s)) s
  (let ((v (bval m (bs_H s) (bs_D s) oa)))
  (let ((H1 (ite (truthy (sc_name m)) (store (bs_H s) c (store (select (bs_H s) c) (sval (sc_name m)) v)) (bs_H s)))
        (D1 (ite (truthy (sc_name m)) (store (bs_D s) c (store (select (bs_D s) c) (sval (sc_name m)) true)) (bs_D s))))
  (ite (and (bhas m (bs_D s) oa) (B_ok m v (+ (bs_pos s) base) H1 D1 c))
    (let ((n (B_len m v (+ (bs_pos s) base) H1 D1 c)) (W (B_bytes m v (+ (bs_pos s) base) H1 D1 c)) (ret (B_ret m v (+ (bs_pos s) base) H1 D1 c))
          (H2 (B_H m v (+ (bs_pos s) base) H1 D1 c)) (D2 (B_D m v (+ (bs_pos s) base) H1 D1 c)))
      (mkBS true (ite (> n 0) (awrite (bs_buf s) (bs_len s) (bs_pos s) W 0 n) (bs_buf s))
            (ite (> n 0) (ite (>= (bs_len s) (+ (bs_pos s) n)) (bs_len s) (+ (bs_pos s) n)) (bs_len s))
            (+ (bs_pos s) n)
            (ite (truthy (sc_name m)) (store H2 c (store (select H2 c) (sval (sc_name m)) ret)) H2)
            (ite (truthy (sc_name m)) (store D2 c (store (select D2 c) (sval (sc_name m)) true)) D2)))
    (mkBS false (bs_buf s) (bs_len s) (bs_pos s) (bs_H s) (bs_D s)))))))""",
                   deps=['bval', 'bhas', 'B_ok', 'B_len', 'B_bytes', 'B_ret', 'B_H', 'B_D', 'truthy', 'sc_name', 'awrite'])
    prelude.define('bfold', """(define-fun-rec bfold ((sl Int) (k Int) (s0 BS) (base Int) (c Int) (oa Int)) BS
  (ite (<= k 0) s0 (bstep (sl_at sl (- k 1)) (bfold sl (- k 1) s0 base c oa) base c oa)))""", deps=['bstep', 'sl_at'])


def bs(field, s):
    sort = {'bs_ok': t.BOOL, 'bs_buf': t.ARR, 'bs_len': t.INT, 'bs_pos': t.INT, 'bs_H': 'Heap', 'bs_D': 'Dom'}[field]
    return t.app(field, sort, s)


def _bfold(LE, sl, k, base):
    o = LE.get(LE.env['stream'])
    s0 = t.app('mkBS', 'BS', t.TRUE, o.buf, o.len, o.pos, LE.ghost['H'], LE.ghost['D'])
    return t.app('bfold', 'BS', sl, k, s0, base, _addr(LE, 'context'), _addr(LE, 'obj'))


def _bunfold(LE, sl, k, base):
    o = LE.get(LE.env['stream'])
    s0 = t.app('mkBS', 'BS', t.TRUE, o.buf, o.len, o.pos, LE.ghost['H'], LE.ghost['D'])
    c, oa = _addr(LE, 'context'), _addr(LE, 'obj')
    prev = t.app('bfold', 'BS', sl, t.sub(k, t.ONE), s0, base, c, oa)
    step = t.app('bstep', 'BS', t.app('sl_at', t.INT, sl, t.sub(k, t.ONE)), prev, base, c, oa)
    return t.implies(t.ge(k, t.ONE), t.eq(t.app('bfold', 'BS', sl, k, s0, base, c, oa), step))


def _struct_build_inv(L):
    pre = L.extra['pre']
    o0 = pre.obj('stream')
    sl = pre.self.fields['subcons'].ident
    base = _base(o0)
    F = _bfold(L.entry, sl, L.k, base)
    o = L.obj('stream')
    hints = [_bunfold(L.entry, sl, L.k, base)] if L.k.op != 'int' else []
    return [('state-after-k-members-is-the-specification-fold', t.and_(bs('bs_ok', F), t.eq(o.buf, bs('bs_buf', F)), t.eq(o.len, bs('bs_len', F)), t.eq(o.pos, bs('bs_pos', F)),
                                                                    t.eq(L.st.ghost['H'], bs('bs_H', F)), t.eq(L.st.ghost['D'], bs('bs_D', F))), None, hints),
            ('locals-keep-their-identity', t.and_(t.eq(_addr(L.st, 'context'), _addr(L.entry, 'context')), t.eq(_addr(L.st, 'obj'), _addr(L.entry, 'obj'))))]


def _le_build(view):
    LE = view.st.ghost.get('LE')
    if LE is None:
        from pyvc.state import State
        LE = State()
        LE.ghost = {'H': fresh('LE_H', 'Heap'), 'D': fresh('LE_D', 'Dom'), 'alloc': fresh('LE_alloc', t.INT)}
        LE.env = {'context': LE.alloc(OContainer(fresh('LE_ctx', t.INT)), 'container'), 'obj': LE.alloc(OContainer(fresh('LE_obj', t.INT)), 'container')}
        o = view.obj('stream')
        LE.env['stream'] = LE.alloc(o.replace(pos=fresh('LE_pos', t.INT), buf=fresh('LE_buf', t.ARR), ln=fresh('LE_len', t.INT)), 'stream')
        view.st.ghost['LE'] = LE
    return LE


def _stopped(pre, post, fold, member, n):
    """whether the member loop was left early by a StopFieldError.  Under verification this is the engine's ghost flag; at a call
    site it is an unknown the caller learns about only through the clause returned here: an early end means that some member k,
    reached with every earlier member built, refused to build with StopFieldError"""
    eng = post.eng
    ghost_mode = getattr(eng.models, 'ghost_mode', False)
    use_mode = ghost_mode or not post.st.ghost.get('LE')
    stopped = fresh('stopped', t.BOOL) if use_mode else post.st.ghost.get('stopped', t.FALSE)
    kk = post.st.ghost.get('loop_k')
    if use_mode or kk is None:
        kk = fresh('stopping_member', t.INT)
    ok, exc = member(kk)
    clause = t.implies(stopped, t.and_(t.le(t.ZERO, kk), t.lt(kk, n), bs('bs_ok', fold(kk)), t.not_(ok), eng.exc_sub_term(exc, 'StopFieldError')))
    return stopped, [('an-early-end-is-a-member-refusing-to-build-with-StopFieldError', clause, ('C07', 'C01', 'C03'))]


def _struct_member_build(LE, sl, k, o0):
    """(B_ok, B_exc) of member k in the state the fold reached before it (mirror of the step function)"""
    s = _bfold(LE, sl, k, _base(o0))
    m = t.app('sl_at', t.INT, sl, k)
    c, oa = _addr(LE, 'context'), _addr(LE, 'obj')
    H, D = bs('bs_H', s), bs('bs_D', s)
    v = t.app('bval', t.VAL, m, H, D, oa)
    nm = t.app('sc_name', t.VAL, m)
    named = t.app('truthy', t.BOOL, nm)
    key = t.app('sval', t.STR, nm)
    H1 = t.ite(named, t.T('Heap', 'store', (H, c, t.T('Fields', 'store', (t.T('Fields', 'select', (H, c)), key, v)))), H)
    D1 = t.ite(named, t.T('Dom', 'store', (D, c, t.T('Keys', 'store', (t.T('Keys', 'select', (D, c)), key, t.TRUE)))), D)
    a = (m, v, t.add(bs('bs_pos', s), _base(o0)), H1, D1, c)
    return t.and_(t.app('bhas', t.BOOL, m, D, oa), t.app('B_ok', t.BOOL, *a)), t.app('B_exc', t.INT, *a)


def _struct_build_ok(pre, post):
    o0, o2 = pre.obj('stream'), post.obj('stream')
    sl = pre.self.fields['subcons'].ident
    n = t.app('sl_len', t.INT, sl)
    LE = _le_build(post)
    if post.st.ghost.get('loop_k') is not None and post.st.ghost.get('left_by_break'):
        return []
    F = _bfold(LE, sl, n, _base(o0))
    c0 = pre.obj('context').addr
    c1, oa = _addr(LE, 'context'), _addr(LE, 'obj')
    H0, D0, a0 = pre.st.ghost['H'], pre.st.ghost['D'], pre.st.ghost['alloc']
    le_o = LE.get(LE.env['stream'])
    key = t.var('key!', t.STR)
    f_le = t.T('Fields', 'select', (LE.ghost['H'], c1))
    d_le = t.T('Keys', 'select', (LE.ghost['D'], c1))
    f_ob = t.T('Fields', 'select', (LE.ghost['H'], oa))
    d_ob = t.T('Keys', 'select', (LE.ghost['D'], oa))
    supplied = t.forall([key], t.implies(t.T(t.BOOL, 'select', (d_ob, key)),
                                         t.and_(t.T(t.BOOL, 'select', (d_le, key)), t.eq(t.T(t.VAL, 'select', (f_le, key)), t.T(t.VAL, 'select', (f_ob, key))))),
                        pats=[[t.T(t.BOOL, 'select', (d_ob, key))]])
    stopped, early = _stopped(pre, post, lambda k: _bfold(LE, sl, k, _base(o0)), lambda k: _struct_member_build(LE, sl, k, o0), n)
    return early + [('all-supplied-siblings-are-in-the-scope-before-the-first-member-is-built', supplied, ('C07',)),
            ('nested-scope-is-fresh', t.and_(t.ge(c1, a0), t.ne(c1, c0), t.ne(c1, oa)), ('C07', 'C17')),
            ('stream-untouched-before-the-first-member', t.and_(t.eq(le_o.buf, o0.buf), t.eq(le_o.len, o0.len), t.eq(le_o.pos, o0.pos)), ('C03',)),
            ('members-built-in-declaration-order-each-appending-after-the-previous',
             t.implies(t.not_(stopped), t.and_(bs('bs_ok', F), t.eq(o2.buf, bs('bs_buf', F)), t.eq(o2.len, bs('bs_len', F)), t.eq(o2.pos, bs('bs_pos', F)))), ('C03', 'C07', 'C01')),
            ('scope-holds-what-each-member-build-returned', t.implies(t.not_(stopped), t.and_(t.eq(post.st.ghost['H'], bs('bs_H', F)), t.eq(post.st.ghost['D'], bs('bs_D', F)))), ('C07', 'C01')),
            ('returns-the-scope', t.eq(post.eng.to_dyn(post.result, post.st), t.app('VRef', t.VAL, c1)), ('C03', 'C01'))]


def register_struct_build(src):
    define_build_folds(src)
    for _cls in ('Struct', 'LazyStruct'):
      fcontract(_cls, '_build', [
        Case('ok', 'return', lambda pre: t.TRUE, ensures=_struct_build_ok, rkind=rk_container, modifies=['stream']),
        Case('fails', 'raise', lambda pre: t.TRUE, modifies=['stream']),
    ], loops={'for sc in self.subcons': LoopSpec(_struct_build_inv, tags=T)}, tags=T, sequential_build=False,
        requires=lambda pre: [('a-supplied-container-already-exists', t.implies(t.app('(_ is VRef)', t.BOOL, pre['obj'].t),
                                                                                   t.and_(t.le(t.ZERO, t.app('ref', t.INT, pre['obj'].t)), t.lt(t.app('ref', t.INT, pre['obj'].t), pre.st.ghost['alloc']))))])
