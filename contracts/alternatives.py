"""C09: Select._parse and GreedyRange._parse leave no trace of a failed alternative / element.

Select: the alternatives are tried in declaration order, every one from the SAME start position (the scope as the failed
earlier ones left it); the first that succeeds gives the value and the final position; an ExplicitError stops the search.
GreedyRange: elements are parsed like Array's (same specification step) until one fails; the result holds exactly the elements
before it and the stream is put back to where that element started."""
from pyvc import terms as t, prelude
from pyvc.terms import I, S
from pyvc.values import *  # noqa
from pyvc.contract import Case, rk_dyn
from pyvc.exec import LoopSpec
from .prims import fcontract, S_, generic_raise, buffer_same
from .composites import ps, mkPS, _base
from .wrappers import result_is
from . import repeaters as rp

T = ('C09', 'C03')


def define_select_folds(src):
    explicit = src.exc_code['ExplicitError']
    # state: ps_ok = still searching, ps_stop = an ExplicitError was met; position is always the common start; the scope is what the
    # failed alternatives left behind
    prelude.define('sstep', """(define-fun sstep ((m Int) (s PS) (buf (Array Int Int)) (len Int) (base Int) (c Int) (p0 Int)) PS
  (ite (or (not (ps_ok s)) (ps_stop s)) s
  (ite (P_ok m buf len p0 base (ps_H s) (ps_D s) c) (mkPS false false p0 (ps_H s) (ps_D s))
  (mkPS true (= (P_exc m buf len p0 base (ps_H s) (ps_D s) c) %d) p0 (P_fH m buf len p0 base (ps_H s) (ps_D s) c) (P_fD m buf len p0 base (ps_H s) (ps_D s) c)))))""" % explicit,
                   deps=['P_ok', 'P_exc', 'P_fH', 'P_fD'])
    prelude.define('sfold', """(define-fun-rec sfold ((sl Int) (k Int) (s0 PS) (buf (Array Int Int)) (len Int) (base Int) (c Int) (p0 Int)) PS
  (ite (<= k 0) s0 (sstep (sl_at sl (- k 1)) (sfold sl (- k 1) s0 buf len base c p0) buf len base c p0)))""", deps=['sstep', 'sl_at'])


def sfold(pre, k):
    o = S_(pre)
    s0 = mkPS(t.TRUE, t.FALSE, o.pos, pre.st.ghost['H'], pre.st.ghost['D'])
    return t.app('sfold', 'PS', pre.self.fields['subcons'].ident, k, s0, o.buf, o.len, _base(o), pre.obj('context').addr, o.pos)


def _sunfold(pre, k):
    o = S_(pre)
    prev = sfold(pre, t.sub(k, t.ONE))
    step = t.app('sstep', 'PS', t.app('sl_at', t.INT, pre.self.fields['subcons'].ident, t.sub(k, t.ONE)), prev, o.buf, o.len, _base(o), pre.obj('context').addr, o.pos)
    return t.implies(t.ge(k, t.ONE), t.eq(sfold(pre, k), step))


def _select_inv(L):
    pre = L.extra['pre']
    o0 = pre.obj('stream')
    if o0.model == 'adv':
        return []
    o = L.obj('stream')
    F = sfold(pre, L.k)
    hints = [_sunfold(pre, L.k)] if L.k.op != 'int' else []
    return [('every-earlier-alternative-failed-and-left-the-stream-at-the-start', t.and_(ps('ps_ok', F), t.not_(ps('ps_stop', F)), t.eq(o.pos, o0.pos), t.eq(o.buf, o0.buf), t.eq(o.len, o0.len),
                                                                                      t.eq(L.st.ghost['H'], ps('ps_H', F)), t.eq(L.st.ghost['D'], ps('ps_D', F))), None, hints)]


def _alt(pre, k):
    """interface terms of alternative k tried from the start in the scope the earlier failures left"""
    o = S_(pre)
    F = sfold(pre, k)
    a = (t.app('sl_at', t.INT, pre.self.fields['subcons'].ident, k), o.buf, o.len, o.pos, _base(o), ps('ps_H', F), ps('ps_D', F), pre.obj('context').addr)
    return t.app('P_ok', t.BOOL, *a), t.app('P_val', t.VAL, *a), t.app('P_end', t.INT, *a), t.app('P_exc', t.INT, *a)


def _select_ok(pre, post):
    o, o2 = S_(pre), post.obj('stream')
    k = post.st.ghost.get('loop_k')
    if k is None:
        if not getattr(post.eng.models, 'ghost_mode', False) and post.st.ghost.get('LE'):
            return []
        k = fresh('chosen_alternative', t.INT)
    n = t.app('sl_len', t.INT, pre.self.fields['subcons'].ident)
    F = sfold(pre, k)
    ok, val, end, exc = _alt(pre, k)
    return [('the-first-alternative-that-parses-from-the-start-is-chosen-all-earlier-ones-failed', t.and_(t.le(t.ZERO, k), t.lt(k, n), ps('ps_ok', F), t.not_(ps('ps_stop', F)), ok), T),
            ('returns-what-that-alternative-alone-returns-from-the-start', result_is(post, val), T),
            ('stream-stands-at-the-end-of-the-successful-alternative', t.eq(o2.pos, end), T),
            ('buffer-unchanged', buffer_same(pre, post), ('C17', 'C09'))]


def _select_bad(pre, post):
    o, o2 = S_(pre), post.obj('stream')
    n = t.app('sl_len', t.INT, pre.self.fields['subcons'].ident)
    sel = t.eq(post.exc.cls, I(post.eng.src.exc_code['SelectError']))
    return [('no-alternative-matching-is-SelectError-with-the-stream-back-at-the-start',
             t.implies(sel, t.and_(ps('ps_ok', sfold(pre, n)), t.not_(ps('ps_stop', sfold(pre, n))), t.eq(o2.pos, o.pos))), T),
            ('a-failed-alternative-leaves-no-trace-only-ExplicitError-or-SelectError-escapes',
             t.or_(sel, post.eng.exc_sub_term(post.exc.cls, 'ExplicitError')), T)] + list(generic_raise(pre, post))


# ================================================================================================ GreedyRange
def _gr_inv(L):
    return rp._parse_inv(L) + ([] if L.extra['pre'].obj('stream').model == 'adv' else
                               [('fallback-is-unset-only-before-the-first-element', t.TRUE)])


def _gr_ok(pre, post):
    o, o2 = S_(pre), post.obj('stream')
    k = post.st.ghost.get('loop_k')
    if k is None:
        return []
    F = rp.afold(pre, k)
    r = post.st.get(post.result) if isinstance(post.result, VRef) else None
    out = [('every-element-before-the-failing-one-was-parsed-in-order', t.and_(t.ge(k, t.ZERO), ps('ps_ok', F)), T),
           ('the-element-after-them-fails', t.not_(ps('ps_ok', rp.afold(pre, t.add(k, t.ONE)))), T, [('def', rp._unfold(pre, t.add(k, t.ONE)))]),
           ('buffer-unchanged', buffer_same(pre, post), ('C17', 'C09'))]
    if r is not None and r.items is None:
        j = t.var('gj!', t.INT)
        discard = post.eng.truth(pre.self.fields['discard'], pre.st)
        out.append(('returns-exactly-the-elements-before-the-failing-one', t.and_(t.eq(r.len, t.ite(discard, t.ZERO, k)),
                    t.forall([j], t.implies(t.and_(t.le(t.ZERO, j), t.lt(j, r.len)), t.eq(t.T(t.VAL, 'select', (r.arr, j)), rp.aval(pre, j))), pats=[[t.T(t.VAL, 'select', (r.arr, j))]])), T))
    return out


def _gr_pos(pre, post):
    o, o2 = S_(pre), post.obj('stream')
    k = post.st.ghost.get('loop_k')
    if k is None:
        return []
    stop = post.st.ghost.get('gr_stopfield')
    return [('stream-put-back-to-where-the-failing-element-started', t.implies(t.not_(t.eq(_failing_exc(pre, k), I(post.eng.src.exc_code['StopFieldError']))), t.eq(o2.pos, ps('ps_pos', rp.afold(pre, k)))), T)]


def _failing_exc(pre, k):
    o = S_(pre)
    F = rp.afold(pre, k)
    c = pre.obj('context').addr
    H0 = t.T('Heap', 'store', (ps('ps_H', F), c, t.T('Fields', 'store', (t.T('Fields', 'select', (ps('ps_H', F), c)), S('_index'), t.app('VInt', t.VAL, k)))))
    D0 = t.T('Dom', 'store', (ps('ps_D', F), c, t.T('Keys', 'store', (t.T('Keys', 'select', (ps('ps_D', F), c)), S('_index'), t.TRUE))))
    return t.app('P_exc', t.INT, pre.self.fields['subcon'].ident, o.buf, o.len, ps('ps_pos', F), _base(o), H0, D0, c)


def register_alternatives(src):
    define_select_folds(src)
    fcontract('Select', '_parse', [
        Case('ok', 'return', lambda pre: t.TRUE, ensures=_select_ok, rkind=rk_dyn, modifies=['stream']),
        Case('fails', 'raise', lambda pre: t.TRUE, ensures=_select_bad, modifies=['stream']),
    ], loops={'for sc in self.subcons': LoopSpec(_select_inv, tags=T, modifies=())}, tags=T, foreign_errors=True)
    fcontract('GreedyRange', '_parse', [
        Case('ok', 'return', lambda pre: t.TRUE, ensures=lambda pre, post: _gr_ok(pre, post) + _gr_pos(pre, post), rkind=rk_dyn, modifies=['stream']),
        Case('fails', 'raise', lambda pre: t.TRUE, ensures=lambda pre, post: [
            ('a-failed-element-ends-the-range-only-ExplicitError-escapes', post.eng.exc_sub_term(post.exc.cls, 'ExplicitError'), T)] + list(generic_raise(pre, post)), modifies=['stream']),
    ], loops={'for i in itertools.count()': LoopSpec(_gr_inv, tags=T, modifies=())}, tags=T, foreign_errors=True)


# ================================================================================================ Select._build
# The alternatives are tried in declaration order through their PUBLIC build (a stream of their own, a copy of the context);
# the bytes of the first that accepts the value are written at the current position and the value is returned unchanged; an
# alternative that fails leaves no trace; an ExplicitError stops the search.
from .wrappers import _written  # noqa
for _fn, _so in (('Q_ok', t.BOOL), ('Q_len', t.INT), ('Q_exc', t.INT)):
    prelude.declare_fun(_fn, [t.INT, t.VAL, 'Heap', 'Dom', t.INT], _so)
prelude.declare_fun('Q_bytes', [t.INT, t.VAL, 'Heap', 'Dom', t.INT], t.ARR)


def define_select_build_folds(src):
    explicit = sorted(src.exc_code[n] for n in src.exc_descendants('ExplicitError'))
    isexp = '(or %s)' % ' '.join('(= (Q_exc (sl_at sl (- k 1)) v H D c) %d)' % c for c in explicit) if len(explicit) > 1 else '(= (Q_exc (sl_at sl (- k 1)) v H D c) %d)' % explicit[0]
    prelude.define('sbsearch', """(define-fun-rec sbsearch ((sl Int) (k Int) (v Val) (H (Array Int (Array String Val))) (D (Array Int (Array String Bool))) (c Int)) Bool
  (ite (<= k 0) true (and (sbsearch sl (- k 1) v H D c) (not (Q_ok (sl_at sl (- k 1)) v H D c)) (not %s))))""" % isexp, deps=['Q_ok', 'Q_exc', 'sl_at'])


def _sb(pre, k):
    return t.app('sbsearch', t.BOOL, pre.self.fields['subcons'].ident, k, pre['obj'].t, pre.st.ghost['H'], pre.st.ghost['D'], pre.obj('context').addr)


def _sb_unfold(pre, k, eng):
    sl = pre.self.fields['subcons'].ident
    a = (t.app('sl_at', t.INT, sl, t.sub(k, t.ONE)), pre['obj'].t, pre.st.ghost['H'], pre.st.ghost['D'], pre.obj('context').addr)
    return t.implies(t.ge(k, t.ONE), t.eq(_sb(pre, k), t.and_(_sb(pre, t.sub(k, t.ONE)), t.not_(t.app('Q_ok', t.BOOL, *a)), t.not_(eng.exc_sub_term(t.app('Q_exc', t.INT, *a), 'ExplicitError')))))


def _select_build_inv(L):
    pre = L.extra['pre']
    o0 = pre.obj('stream')
    if o0.model == 'adv':
        return []
    o = L.obj('stream')
    hints = [_sb_unfold(pre, L.k, L.eng)] if L.k.op != 'int' else []
    return [('every-earlier-alternative-refused-the-value-and-left-no-trace', t.and_(_sb(pre, L.k), t.eq(o.pos, o0.pos), t.eq(o.buf, o0.buf), t.eq(o.len, o0.len),
                                                                                   t.eq(L.st.ghost['H'], pre.st.ghost['H']), t.eq(L.st.ghost['D'], pre.st.ghost['D'])), None, hints)]


def _select_build_ok(pre, post):
    o, o2 = S_(pre), post.obj('stream')
    k = post.st.ghost.get('loop_k')
    if k is None:
        if not getattr(post.eng.models, 'ghost_mode', False) and post.st.ghost.get('LE'):
            return []
        k = fresh('chosen_alternative', t.INT)
    sl = pre.self.fields['subcons'].ident
    n = t.app('sl_len', t.INT, sl)
    a = (t.app('sl_at', t.INT, sl, k), pre['obj'].t, pre.st.ghost['H'], pre.st.ghost['D'], pre.obj('context').addr)
    ln, W = t.app('Q_len', t.INT, *a), t.app('Q_bytes', t.ARR, *a)
    return [('the-first-alternative-whose-own-build-accepts-the-value-is-chosen', t.and_(t.le(t.ZERO, k), t.lt(k, n), _sb(pre, k), t.app('Q_ok', t.BOOL, *a)), T + ('C02', 'C12')),
            ('advances-by-the-length-of-its-bytes', t.eq(o2.pos, t.add(o.pos, ln)), T + ('C02', 'C12')),
            _written(o, o2, ln, lambda i: t.select(W, i), 'emits-exactly-the-bytes-that-alternative-built') + (T + ('C02', 'C12'),),
            ('returns-the-value-unchanged', result_is(post, pre['obj'].t), T + ('C02',))]


def _select_build_bad(pre, post):
    n = t.app('sl_len', t.INT, pre.self.fields['subcons'].ident)
    sel = t.eq(post.exc.cls, I(post.eng.src.exc_code['SelectError']))
    o, o2 = S_(pre), post.obj('stream')
    out = list(generic_raise(pre, post))
    if o.model != 'adv':
        out = [('no-alternative-accepting-the-value-is-SelectError-with-nothing-written', t.implies(sel, t.and_(_sb(pre, n), t.eq(o2.pos, o.pos), t.eq(o2.buf, o.buf), t.eq(o2.len, o.len))), T + ('C13', 'C02')),
               ('a-refusing-alternative-leaves-no-trace-only-ExplicitError-or-SelectError-escapes', t.or_(sel, post.eng.exc_sub_term(post.exc.cls, 'ExplicitError')), T + ('C13', 'C02'))] + out
    return out


def register_select_build(src):
    define_select_build_folds(src)
    fcontract('Select', '_build', [
        Case('ok', 'return', lambda pre: t.TRUE, ensures=_select_build_ok, rkind=rk_dyn, modifies=['stream']),
        Case('fails', 'raise', lambda pre: t.TRUE, ensures=_select_build_bad, modifies=['stream']),
    ], loops={'for sc in self.subcons': LoopSpec(_select_build_inv, tags=T)}, tags=T + ('C02', 'C12', 'C13'), sequential_build=False, foreign_errors=True)
