"""Ghost programs: Layer-B lemmas written as ordinary Python over the public shape of a construct.  They are executed
symbolically by pyvc with every call replaced by the callee's CONTRACT (never its body); `assert` is a proof obligation and
an exception escaping a ghost program is a failed obligation.  The same text runs natively as the replay oracle.

`self` ranges over the classes listed for each program in contracts/ghostreg.py; sub-constructs satisfy the interface
traits (round-trip, sized) as induction hypotheses.
"""
import io


def roundtrip(self, obj, context, path, tail):
    """C01: parsing the bytes produced by build (followed by arbitrary data) yields the value build returned and consumes
    exactly the bytes built."""
    s = io.BytesIO()
    try:
        r = self._build(obj, s, context, path)
    except Exception:
        return                      # nothing is claimed for values build rejects
    data = s.getvalue()
    whole = data + tail
    lemma_hints(self, obj, data, whole)
    s2 = io.BytesIO(whole)
    v = self._parse(s2, context, path)
    assert v == r, "parse returns the value build returned"
    assert s2.tell() == len(data), "parse consumes exactly the built bytes"


def roundtrip_list(self, obj, context, path, tail, j):
    """C01 for constructs whose value is a list (list equality is element-wise equality of equally long lists; j is an
    arbitrary index): parsing the built bytes followed by arbitrary data yields as many elements as build returned, each equal
    to what its build returned, and consumes exactly the built bytes"""
    s = io.BytesIO()
    try:
        r = self._build(obj, s, context, path)
    except Exception:
        return
    data = s.getvalue()
    whole = data + tail
    lemma_hints(self, obj, data, whole)
    s2 = io.BytesIO(whole)
    v = self._parse(s2, context, path)
    assert len(v) == len(r), "parse returns as many elements as build returned"
    if 0 <= j < len(v):
        assert v[j] == r[j], "each parsed element equals what its build returned"
    assert s2.tell() == len(data), "parse consumes exactly the built bytes"


def roundtrip_greedy(self, obj, context, path):
    """C01 for constructs that read to the end of the stream: the built bytes alone parse back"""
    s = io.BytesIO()
    try:
        r = self._build(obj, s, context, path)
    except Exception:
        return
    data = s.getvalue()
    lemma_hints(self, obj, data, data)
    s2 = io.BytesIO(data)
    v = self._parse(s2, context, path)
    assert v == r, "parse returns the value build returned"
    assert s2.tell() == len(data), "parse consumes exactly the built bytes"


def sized(self, obj, context, path, tail):
    """C05: when sizeof answers n, a successful build advances the stream by exactly n and parsing those bytes followed by
    arbitrary trailing data advances by exactly n."""
    try:
        n = self._sizeof(context, path)
    except Exception:
        return
    s = io.BytesIO()
    try:
        self._build(obj, s, context, path)
    except Exception:
        return
    data = s.getvalue()
    assert len(data) == n, "build advances the stream by exactly sizeof"
    whole = data + tail
    lemma_hints(self, obj, data, whole)
    s2 = io.BytesIO(whole)
    try:
        self._parse(s2, context, path)
    except Exception:
        return
    assert s2.tell() == n, "parse advances the stream by exactly sizeof"


def canonical(self, data0, context, path):
    """C02: whenever parse accepts a byte string, build accepts the value; the rebuilt bytes parse to an equal value and
    building that again gives identical bytes.  The first two assertions re-establish, for this class, the hypotheses the
    lemma makes about sub-constructs (build returns an equal value; the canonical encoding is not longer than the accepted
    input), so that the induction over construct trees is complete."""
    s0 = io.BytesIO(data0)
    try:
        v = self._parse(s0, context, path)
    except Exception:
        return
    used = s0.tell()
    lemma_hints(self, v, data0, data0)
    s1 = io.BytesIO()
    r1 = self._build(v, s1, context, path)
    b1 = s1.getvalue()
    assert r1 == v, "build returns a value equal to the parsed one"
    assert len(b1) <= used, "the canonical encoding is not longer than the accepted input"
    lemma_hints(self, v, b1, b1)
    s2 = io.BytesIO(b1)
    v2 = self._parse(s2, context, path)
    assert v2 == v, "re-parsing the rebuilt bytes gives an equal value"
    s3 = io.BytesIO()
    self._build(v2, s3, context, path)
    b3 = s3.getvalue()
    lemma_hints(self, v2, b3, b1)
    assert b3 == b1, "building again gives identical bytes"


def lazy_list(self, eager, data0, context, path, j):
    """C16 for LazyArray: whenever the eager Array (same element construct, same count) parses the data, the lazy parse
    succeeds, leaves the stream at the same position, and the access to any element j returns the eager value.  (Every access
    keeps the representation invariant - contract of LazyListContainer.__getitem__ - so this holds for every access history.)"""
    s2 = io.BytesIO(data0)
    try:
        ev = eager._parse(s2, context, path)
    except Exception:
        return
    end = s2.tell()
    s = io.BytesIO(data0)
    lz = self._parse(s, context, path)
    assert s.tell() == end, "lazy parsing leaves the stream where eager parsing leaves it"
    if 0 <= j < len(ev):
        v = lz[j]
        assert v == ev[j], "an accessed element is the value eager parsing returns"


def roundtrip_struct(self, obj, context, path, tail, j):
    """C01 for Struct (container equality is equality of the entries: j is an arbitrary member): parsing the built bytes
    followed by arbitrary data consumes exactly the built bytes, and every named member of the parsed container equals what the
    build of that member returned (which is what build puts into the container it returns)"""
    s = io.BytesIO()
    try:
        r = self._build(obj, s, context, path)
    except Exception:
        return
    data = s.getvalue()
    whole = data + tail
    lemma_hints(self, obj, data, whole)
    s2 = io.BytesIO(whole)
    v = self._parse(s2, context, path)
    assert s2.tell() == len(data), "parse consumes exactly the built bytes"
    if 0 <= j < len(self.subcons):
        nm = self.subcons[j].name
        if nm:
            assert v[nm] == r[nm], "each named member of the parsed container equals what its build returned"


def lazy_struct(self, eager, data0, context, path, j):
    """C16 for LazyStruct: whenever the eager Struct over the same members parses the data, the lazy parse succeeds, leaves the
    stream at the same position, and the access to any named member j (here by index) returns what the eager container holds
    under that name."""
    s2 = io.BytesIO(data0)
    try:
        ev = eager._parse(s2, context, path)
    except Exception:
        return
    end = s2.tell()
    s = io.BytesIO(data0)
    lz = self._parse(s, context, path)
    assert s.tell() == end, "lazy parsing leaves the stream where eager parsing leaves it"
    if 0 <= j < len(self.subcons):
        nm = self.subcons[j].name
        if nm:
            v = lz[j]
            assert v == ev[nm], "an accessed member is the value eager parsing returns"


def labels_accepted(self, x, context, path):
    """C02 / C13 for the label tables (Enum, Mapping): whatever _decode returns for a parsed value, _encode accepts, and gives the
    parsed value back - under the hypothesis that the two tables are the ones the constructor builds from one mapping (constructor
    contract: the encode table sends each label that decoding can yield to the value it was decoded from)."""
    try:
        v = self._decode(x, context, path)
    except Exception:
        return
    y = self._encode(v, context, path)
    assert y == x, "encoding the decoded label gives the parsed value back"


def flags_accepted(self, x, context, path):
    """C02 / C13 for FlagsEnum: the container of flags that _decode returns is accepted by _encode (every key it holds is a label of
    the table or the private _flagsenum marker, which encode ignores)"""
    try:
        v = self._decode(x, context, path)
    except Exception:
        return
    self._encode(v, context, path)


def canonical_list(self, data0, context, path, j):
    """C02 for constructs whose value is a list (j is an arbitrary index; list equality is element-wise): whenever parse accepts a
    byte string, build accepts the value and returns an equal one, the rebuilt bytes are not longer than the accepted input, they
    parse to an equal value, and building that again gives identical bytes."""
    s0 = io.BytesIO(data0)
    try:
        v = self._parse(s0, context, path)
    except Exception:
        return
    used = s0.tell()
    s1 = io.BytesIO()
    r1 = self._build(v, s1, context, path)
    b1 = s1.getvalue()
    assert len(r1) == len(v), "build returns as many elements as were parsed"
    if 0 <= j < len(v):
        assert r1[j] == v[j], "build returns a value equal to the parsed one"
    assert len(b1) <= used, "the canonical encoding is not longer than the accepted input"
    s2 = io.BytesIO(b1)
    v2 = self._parse(s2, context, path)
    assert len(v2) == len(v), "re-parsing the rebuilt bytes gives as many elements"
    if 0 <= j < len(v):
        assert v2[j] == v[j], "re-parsing the rebuilt bytes gives an equal value"
    s3 = io.BytesIO()
    self._build(v2, s3, context, path)
    b3 = s3.getvalue()
    assert b3 == b1, "building again gives identical bytes"


def canonical_accepts(self, data0, context, path):
    """the first clause of C02 on its own: whenever parse accepts a byte string, build accepts the value parse returned"""
    s0 = io.BytesIO(data0)
    try:
        v = self._parse(s0, context, path)
    except Exception:
        return
    s1 = io.BytesIO()
    self._build(v, s1, context, path)
