"""Contracts of the stream helpers  construct.core:stream_read / stream_read_entire / stream_write / stream_seek /
stream_tell  under both stream models (DESIGN.md 2.4).

bytesio model: exact extent/position clauses (C03, C05, C08, C09 consume them).
adv model:     C06 - the helper returns normally only with exact-length data / a full write, and otherwise raises
               StreamError carrying path= (C18); no foreign exception escapes whatever the stream does.
"""
from pyvc import terms as t
from pyvc.terms import I
from pyvc.values import *  # noqa
from pyvc.contract import FnContract, Case, register, rk_bytes, rk_int, rk_none, rk_dyn, rk_bool
from pyvc import streams

P = ('C06', 'C18')
F = ('C03', 'C01', 'C02', 'C05', 'C08', 'C09', 'C10', 'C14', 'C15', 'C16')


def setup_helper(kinds):
    def setup(eng, st, node, stream_model):
        args = {}
        for name, kind in kinds.items():
            if kind == 'stream':
                args[name] = streams.symbolic_stream(eng, st, name, stream_model)
            elif kind == 'int':
                args[name] = VInt(fresh(name, t.INT))
            elif kind == 'dyn':
                args[name] = VDyn(fresh(name, t.VAL))
            elif kind == 'path':
                args[name] = VStr(fresh(name, t.STR))
            elif kind == 'bytes':
                args[name] = eng.fresh_bytes(st, name)
        return None, args
    setup.kinds = dict(kinds)
    return setup


def avail(o):
    return t.imax(t.sub(o.len, o.pos), t.ZERO)


def no_silent_short(pre, post, name='stream'):
    """adversarial model ghost: a normal return never hides a short read / short write of the underlying stream"""
    a, b = pre.obj(name), post.obj(name)
    return [('no-silent-short-io', t.implies(t.not_(a.extra['__short'].t), t.not_(b.extra['__short'].t)), ('C06',))]


def same_buffer(pre, post, name='stream'):
    a, b = pre.obj(name), post.obj(name)
    return [('buffer-unchanged', t.and_(t.eq(a.buf, b.buf), t.eq(a.len, b.len)), ('C08', 'C09', 'C17'))]


# ------------------------------------------------------------------------------------------------ stream_read
def _sr_ok_ensures(pre, post):
    o, o2, r = pre.obj('stream'), post.obj('stream'), post.result
    n = pre.int('length')
    return [('result-is-buffer-slice', t.and_(t.eq(r.arr, o.buf), t.eq(r.off, o.pos), t.eq(r.len, n)), F),
            ('position-advances-by-length', t.eq(o2.pos, t.add(o.pos, n)), F)] + same_buffer(pre, post)


def _sr_fail_ensures(pre, post):
    o, o2 = pre.obj('stream'), post.obj('stream')
    n = pre.int('length')
    # a short read has consumed what was left (io.BytesIO.read); a negative length is refused before reading
    return [('short-read-consumes-the-rest', t.eq(o2.pos, t.ite(t.lt(n, t.ZERO), o.pos, t.imax(o.pos, o.len))), F)] + same_buffer(pre, post)


register(FnContract(
    'construct.core:stream_read',
    requires=lambda pre: [('length-is-int', pre.isint('length'))],
    setup=setup_helper({'stream': 'stream', 'length': 'int', 'path': 'path'}),
    stream_models=('bytesio', 'adv'),
    tags=P + F,
    cases=[
        Case('ok', 'return', lambda pre: t.and_(t.ge(pre.int('length'), t.ZERO), t.le(pre.int('length'), avail(pre.obj('stream')))),
             ensures=_sr_ok_ensures, rkind=rk_bytes, modifies=['stream'], model='bytesio'),
        Case('short-or-negative', 'raise', lambda pre: t.or_(t.lt(pre.int('length'), t.ZERO), t.gt(pre.int('length'), avail(pre.obj('stream')))),
             ensures=_sr_fail_ensures, exc='StreamError', path='path', modifies=['stream'], model='bytesio'),
        Case('ok', 'return', lambda pre: t.ge(pre.int('length'), t.ZERO),
             ensures=lambda pre, post: [('exact-length', t.eq(post.result.len, pre.int('length')), ('C06',))] + no_silent_short(pre, post),
             rkind=rk_bytes, modifies=['stream'], model='adv'),
        Case('fails', 'raise', lambda pre: t.TRUE, exc='StreamError', path='path', model='adv'),
    ]))


# ------------------------------------------------------------------------------------------------ stream_read_entire
def _sre_ensures(pre, post):
    o, o2, r = pre.obj('stream'), post.obj('stream'), post.result
    return [('result-is-rest-of-buffer', t.and_(t.eq(r.arr, o.buf), t.eq(r.off, o.pos), t.eq(r.len, avail(o))), F),
            ('position-at-end', t.eq(o2.pos, t.add(o.pos, avail(o))), F)] + same_buffer(pre, post)


register(FnContract(
    'construct.core:stream_read_entire',
    setup=setup_helper({'stream': 'stream', 'path': 'path'}),
    stream_models=('bytesio', 'adv'),
    tags=P + F,
    cases=[
        Case('ok', 'return', lambda pre: t.TRUE, ensures=_sre_ensures, rkind=rk_bytes, modifies=['stream'], model='bytesio'),
        Case('ok', 'return', lambda pre: t.TRUE, rkind=rk_bytes, model='adv'),
        Case('fails', 'raise', lambda pre: t.TRUE, exc='StreamError', path='path', model='adv'),
    ]))


# ------------------------------------------------------------------------------------------------ stream_write
def _is_bytes(pre):
    d = pre['data']
    if isinstance(d, VBytes):
        return t.TRUE
    if isinstance(d, VDyn):
        return t.app('(_ is VBytes)', t.BOOL, d.t)
    return t.FALSE


def _dlen(pre):
    d = pre['data']
    if isinstance(d, VBytes):
        return d.len
    return t.app('blen', t.INT, d.t)


def _dat(pre, i):
    d = pre['data']
    if isinstance(d, VBytes):
        return d.at(i)
    return t.select(t.app('barr', t.ARR, d.t), t.add(t.app('boff', t.INT, d.t), i))


def _sw_guard_ok(pre):
    return t.and_(_is_bytes(pre), t.ge(pre.int('length'), t.ZERO), t.eq(_dlen(pre), pre.int('length')))


def _sw_ok_ensures(pre, post):
    o, o2 = pre.obj('stream'), post.obj('stream')
    n = pre.int('length')
    i = t.var('i!', t.INT)
    # absolute index form: the pattern (select buf' i) fires for every index term
    written = t.forall([i], t.implies(t.and_(t.le(o.pos, i), t.lt(i, t.add(o.pos, n))), t.eq(t.select(o2.buf, i), _dat(pre, t.sub(i, o.pos)))),
                       pats=[[t.select(o2.buf, i)]])
    j = t.var('j!', t.INT)
    kept = t.forall([j], t.implies(t.and_(t.le(t.ZERO, j), t.lt(j, t.imin(o.pos, o.len))), t.eq(t.select(o2.buf, j), t.select(o.buf, j))),
                    pats=[[t.select(o2.buf, j)]])
    out = [('data-written-at-position', written, F),
           ('earlier-bytes-kept', kept, F),
           ('position-advances-by-length', t.eq(o2.pos, t.add(o.pos, n)), F),
           ('length-extends', t.eq(o2.len, t.ite(t.gt(n, t.ZERO), t.imax(o.len, t.add(o.pos, n)), o.len)), F)]
    # derived: every specification function reads the same value from the written region as from the data (congruence lemmas)
    from .specs import cong_instance
    d = pre['data']
    if isinstance(d, VBytes):
        darr, doff = d.arr, d.off
    else:
        darr, doff = t.app('barr', t.ARR, d.t), t.app('boff', t.INT, d.t)
    for fn in ('be_val', 'le_val', 'bits_val', 'val7'):
        out.append(('written-region-has-same-%s-as-data' % fn,
                    t.eq(t.app(fn, t.INT, o2.buf, o.pos, t.add(o.pos, n)), t.app(fn, t.INT, darr, doff, t.add(doff, n))), F,
                    [cong_instance(fn, o2.buf, o.pos, darr, doff, n)]))
    return out


register(FnContract(
    'construct.core:stream_write',
    requires=lambda pre: [('length-is-int', pre.isint('length'))],
    setup=setup_helper({'stream': 'stream', 'data': 'dyn', 'length': 'int', 'path': 'path'}),
    stream_models=('bytesio', 'adv'),
    tags=P + F,
    cases=[
        Case('ok', 'return', _sw_guard_ok, ensures=_sw_ok_ensures, rkind=rk_none, modifies=['stream'], model='bytesio'),
        Case('not-bytes', 'raise', lambda pre: t.not_(_is_bytes(pre)), exc='StringError', path='path'),
        Case('wrong-length', 'raise', lambda pre: t.and_(_is_bytes(pre), t.or_(t.lt(pre.int('length'), t.ZERO), t.ne(_dlen(pre), pre.int('length')))),
             exc='StreamError', path='path'),
        Case('ok', 'return', _sw_guard_ok, ensures=no_silent_short, rkind=rk_none, modifies=['stream'], model='adv'),
        Case('fails', 'raise', lambda pre: _is_bytes(pre), exc='StreamError', path='path', model='adv'),
    ]))


# ------------------------------------------------------------------------------------------------ stream_seek / stream_tell
def _seek_target(pre):
    o = pre.obj('stream')
    off, wh = pre.int('offset'), pre.int('whence')
    base = o.offset if o.model == 'offsets' else t.ZERO
    return t.ite(t.eq(wh, t.ZERO), t.sub(off, base), t.ite(t.eq(wh, t.ONE), t.imax(t.add(o.pos, off), t.ZERO), t.imax(t.add(o.len, off), t.ZERO)))


def _seek_ok(pre):
    off, wh = pre.int('offset'), pre.int('whence')
    o = pre.obj('stream')
    base = o.offset if o.model == 'offsets' else t.ZERO
    return t.and_(pre.isint('offset'), pre.isint('whence'),
                  t.or_(t.and_(t.eq(wh, t.ZERO), t.ge(t.sub(off, base), t.ZERO)), t.eq(wh, t.ONE), t.eq(wh, I(2))))


def _seek_ensures(pre, post):
    o, o2 = pre.obj('stream'), post.obj('stream')
    base = o.offset if o.model == 'offsets' else t.ZERO
    tgt = _seek_target(pre)
    r = post.result
    return [('position-is-target', t.eq(o2.pos, tgt), F),
            ('returns-new-absolute-position', t.and_(t.app('isint', t.BOOL, post.eng.to_dyn(r, post.st)) if not isinstance(r, VInt) else t.TRUE,
                                                     t.eq(post.eng.as_int(r, post.st)[0], t.add(tgt, base))), F)] + same_buffer(pre, post)


register(FnContract(
    'construct.core:stream_seek',
    setup=setup_helper({'stream': 'stream', 'offset': 'dyn', 'whence': 'dyn', 'path': 'path'}),
    stream_models=('bytesio', 'offsets', 'adv'),
    tags=P + F,
    cases=[
        Case('ok', 'return', _seek_ok, ensures=_seek_ensures, rkind=rk_int, modifies=['stream'], model='bytesio'),
        Case('invalid', 'raise', lambda pre: t.not_(_seek_ok(pre)), ensures=lambda pre, post: same_buffer(pre, post) + [
            ('position-unchanged', t.eq(post.obj('stream').pos, pre.obj('stream').pos), F)],
            exc='StreamError', path='path', model='bytesio'),
        Case('ok', 'return', lambda pre: t.TRUE, rkind=rk_int, model='adv'),
        Case('fails', 'raise', lambda pre: t.TRUE, exc='StreamError', path='path', model='adv'),
    ]))


def _tell_ensures(pre, post):
    o = pre.obj('stream')
    base = o.offset if o.model == 'offsets' else t.ZERO
    return [('returns-absolute-position', t.eq(post.eng.as_int(post.result, post.st)[0], t.add(o.pos, base)), F)] + same_buffer(pre, post) + [
        ('position-unchanged', t.eq(post.obj('stream').pos, o.pos), F)]


register(FnContract(
    'construct.core:stream_tell',
    setup=setup_helper({'stream': 'stream', 'path': 'path'}),
    stream_models=('bytesio', 'offsets', 'adv'),
    tags=P + F,
    cases=[
        Case('ok', 'return', lambda pre: t.TRUE, ensures=_tell_ensures, rkind=rk_int, model='bytesio'),
        Case('ok', 'return', lambda pre: t.TRUE, rkind=rk_int, model='adv'),
        Case('fails', 'raise', lambda pre: t.TRUE, exc='StreamError', path='path', model='adv'),
    ]))


# ------------------------------------------------------------------------------------------------ evaluate (E5)
class EvaluateContract(FnContract):
    """evaluate(param, context) = param(context) if callable(param) else param.   At call sites the parameter model of
    pyvc/interface.py is used (value of the declared kind, or KeyError/AttributeError on a missing key); the body is
    verified against the same model."""

    def use(self, eng, st, selfv, args, kws):
        return eng.models.interface.eval_param(eng, args[0], args[1], st)


def _eval_setup(eng, st, node, stream_model):
    iface = eng.models.interface
    iface.configure(params_total=False)
    p = VParam('param', 'dyn', fresh('param', t.INT))
    return None, {'param': p, 'context': iface.new_context(eng, st, 'context')}


def _eval_ret(pre, post):
    eng, p = post.eng, pre['param']
    iface = eng.models.interface
    H, D = pre.st.ghost['H'], pre.st.ghost['D']
    c = pre.obj('context').addr
    expect = t.ite(p.callable_t, t.app('ev_val', t.VAL, p.ident, H, D, c), eng.to_dyn(iface.param_const(eng, p, post.st), post.st))
    return [('value-of-parameter', t.eq(eng.to_dyn(post.result, post.st), expect), ('C07', 'C05'))]


register(EvaluateContract(
    'construct.core:evaluate', setup=_eval_setup, tags=('C05', 'C06', 'C07'),
    cases=[Case('value', 'return', lambda pre: t.TRUE, ensures=_eval_ret, rkind=rk_dyn),
           Case('missing-key', 'raise', lambda pre: t.and_(pre['param'].callable_t, t.app('ev_raises', t.BOOL, pre['param'].ident, pre.st.ghost['H'], pre.st.ghost['D'], pre.obj('context').addr)),
                exc=['KeyError', 'AttributeError'])]))


# ------------------------------------------------------------------------------------------------ BytesIOWithOffsets.from_reading
class FromReading(FnContract):
    """substream over exactly the next `length` bytes whose tell() reports absolute offsets (C08)"""

    def use(self, eng, st, selfv, args, kws):
        from pyvc.contract import REGISTRY
        stream, length, path = args
        out = []
        for s1, off in REGISTRY['construct.core:stream_tell'].use(eng, st, None, [stream, path], {}):
            if isinstance(off, Raised):
                out.append((s1, off))
                continue
            for s2, data in REGISTRY['construct.core:stream_read'].use(eng, s1, None, [stream, length, path], {}):
                if isinstance(data, Raised):
                    out.append((s2, data))
                    continue
                ov, _ = eng.as_int(off, s2)
                o = s2.get(stream)
                model = 'offsets'
                out.append((s2, streams.new_bytesio(eng, s2, data, model=model, parent=stream, offset=ov)))
        return out


register(FromReading('construct.core:BytesIOWithOffsets.from_reading', cases=[], setup=None, tags=('C08',)))


# ------------------------------------------------------------------------------------------------ stream_size / stream_iseof
# Probing helpers: they look at the stream and put it back.  Exact io.BytesIO: the answer is the length / "no byte left",
# buffer and position unchanged; adversarial stream: whatever the stream does, only StreamError escapes.
def _size_ensures(pre, post):
    o = pre.obj('stream')
    return [('returns-the-length-of-the-stream', t.eq(post.eng.as_int(post.result, post.st)[0], o.len), F)] + same_buffer(pre, post) + [
        ('position-unchanged', t.eq(post.obj('stream').pos, o.pos), F)]


register(FnContract(
    'construct.core:stream_size',
    setup=setup_helper({'stream': 'stream'}),
    stream_models=('bytesio', 'adv'),
    tags=P + F,
    cases=[
        Case('ok', 'return', lambda pre: t.TRUE, ensures=_size_ensures, rkind=rk_int, modifies=['stream'], model='bytesio'),
        Case('ok', 'return', lambda pre: t.TRUE, rkind=rk_int, modifies=['stream'], model='adv'),
        Case('fails', 'raise', lambda pre: t.TRUE, exc='StreamError', modifies=['stream'], model='adv'),
    ]))


def _iseof_ensures(pre, post):
    o = pre.obj('stream')
    return [('true-exactly-when-no-byte-is-left', t.eq(post.eng.truth(post.result, post.st), t.ge(o.pos, o.len)), F)] + same_buffer(pre, post) + [
        ('position-unchanged', t.eq(post.obj('stream').pos, o.pos), F)]


register(FnContract(
    'construct.core:stream_iseof',
    setup=setup_helper({'stream': 'stream'}),
    stream_models=('bytesio', 'adv'),
    tags=P + F,
    cases=[
        Case('ok', 'return', lambda pre: t.TRUE, ensures=_iseof_ensures, rkind=rk_bool, modifies=['stream'], model='bytesio'),
        Case('ok', 'return', lambda pre: t.TRUE, rkind=rk_bool, modifies=['stream'], model='adv'),
        Case('fails', 'raise', lambda pre: t.TRUE, exc='StreamError', modifies=['stream'], model='adv'),
    ]))
