"""The public entry points of Construct (C07, C17, C18): parse / parse_stream / parse_file / build / build_stream / build_file /
sizeof.  `self` is an arbitrary construct, known - like every sub-construct - only through the interface functions of its
_parse/_build/_sizeof.  The contracts say which context the construct is started with (exactly one operation flag, _params is
the scope itself and holds the call's keyword arguments, nothing else), with which path tag, on which stream, and that the
convenience forms forward their arguments unchanged to the *_stream forms (so all entry points agree)."""
from pyvc import terms as t, prelude
from pyvc.terms import I, S
from pyvc.values import *  # noqa
from pyvc.contract import FnContract, Case, register, rk_dyn, rk_none, rk_bytes
from .classes import method_setup
from .composites import hsel, dsel
from .wrappers import Sub, result_is, _abs_base

CORE = 'construct.core'
T = ('C07', 'C17', 'C18')
FLAGS = {'parse': ('_parsing', 'parsing'), 'build': ('_building', 'building'), 'sizeof': ('_sizing', 'sizeof')}


def entry_setup(eng, st, node, stream_model):
    selfv, args = method_setup('Construct')(eng, st, node, stream_model)
    if node.args.kwarg is not None:
        args[node.args.kwarg.arg] = eng.models.interface.new_context(eng, st, 'contextkw', wf=False)
    return selfv, args
entry_setup.kinds = {'obj': 'dyn', 'data': 'bytes'}


class _Sc:
    def __init__(self, ident):
        self.ident = ident


def self_sub(view, kind, heap=None, ctx=None, **kw):
    class V:
        pass
    v = V()
    v.self = type('S', (), {'fields': {'x': _Sc(view.self.ident)}})()
    v.st, v.obj, v.eng = view.st, view.obj, view.eng
    return Sub(v, 'x', kind=kind, heap=heap, ctx=ctx, **kw)


def _snap(post):
    """the scope, heap and path with which the construct was started (recorded at the call in VERIFY mode; unknowns described
    only by the clauses at a call site)"""
    g = post.st.ghost
    if 'first_sub_ctx' not in g:
        g['first_sub_ctx'] = (fresh('top_ctx', t.INT), fresh('top_H', 'Heap'), fresh('top_D', 'Dom'))
        g['first_sub_path'] = VStr(fresh('top_path', t.STR))
    return g['first_sub_ctx'], g.get('first_sub_path')


def _kw(pre):
    return pre.obj('contextkw').addr


def scope_clauses(pre, post, op):
    (c, H, D), path = _snap(post)
    H0, D0 = pre.st.ghost['H'], pre.st.ghost['D']
    k = _kw(pre)
    flag, tag = FLAGS[op]
    cl = []
    for f, _ in FLAGS.values():
        cl.append(t.and_(dsel(D, c, f), t.eq(hsel(H, c, f), t.app('VBool', t.VAL, t.TRUE if f == flag else t.FALSE))))
    key = t.var('kw!', t.STR)
    reserved = ('_parsing', '_building', '_sizing', '_params')
    notres = t.and_(*[t.ne(key, S(r)) for r in reserved])
    fk, dk = t.T('Fields', 'select', (H0, k)), t.T('Keys', 'select', (D0, k))
    fc, dc = t.T('Fields', 'select', (H, c)), t.T('Keys', 'select', (D, c))
    copied = t.forall([key], t.implies(notres, t.and_(t.eq(t.T(t.BOOL, 'select', (dc, key)), t.T(t.BOOL, 'select', (dk, key))),
                                                      t.implies(t.T(t.BOOL, 'select', (dk, key)), t.eq(t.T(t.VAL, 'select', (fc, key)), t.T(t.VAL, 'select', (fk, key)))))),
                      pats=[[t.T(t.BOOL, 'select', (dc, key))], [t.T(t.VAL, 'select', (fc, key))]])
    out = [('exactly-the-flag-of-the-operation-is-true', t.and_(*cl), ('C07', 'C17')),
           ('_params-is-the-top-scope-itself', t.and_(dsel(D, c, '_params'), t.eq(hsel(H, c, '_params'), t.app('VRef', t.VAL, c))), ('C07',)),
           ('top-scope-holds-exactly-the-keyword-arguments-besides-the-flags', copied, ('C07', 'C17')),
           ('top-scope-is-a-fresh-container', t.and_(t.ge(c, pre.st.ghost['alloc']), t.ne(c, k)), ('C17',))]
    if path is not None:
        pt = path.t if isinstance(path, VStr) else t.app('sval', t.STR, path.t)
        out.append(('path-starts-with-the-operation-tag', t.eq(pt, S('(%s)' % tag)), ('C18',)))
    return out, (c, H, D)


# ------------------------------------------------------------------------------------------------ *_stream and sizeof
def _ps_ret(pre, post):
    out, (c, H, D) = scope_clauses(pre, post, 'parse')
    s = self_sub(pre, 'parse', heap=(H, D), ctx=c)
    cancel = t.eq(s.exc, I(post.eng.src.exc_code['CancelParsing']))
    o2 = post.obj('stream')
    return out + [('returns-what-the-construct-parses-from-the-stream-as-it-stands', result_is(post, t.ite(s.ok, s.val, t.app('VNone', t.VAL))), ('C17', 'C03')),
                  ('a-normal-return-means-success-or-CancelParsing', t.or_(s.ok, cancel), ('C17',)),
                  ('stream-stands-where-the-construct-left-it', t.implies(s.ok, t.eq(o2.pos, s.end)), ('C17', 'C09'))]


def _ps_raise(pre, post):
    out, (c, H, D) = scope_clauses(pre, post, 'parse')
    s = self_sub(pre, 'parse', heap=(H, D), ctx=c)
    return out + [('raises-exactly-when-the-construct-fails', t.and_(t.not_(s.ok), t.eq(post.exc.cls, s.exc)), ('C17', 'C06'))]


_IF = dict(sub_seq=True, params_total=True, self_as_sub=True)


def entry(name, cases, tags=T, models=('bytesio',)):
    req = (lambda pre: [('data-is-a-bytes-object', t.app('(_ is VBytes)', t.BOOL, pre['data'].t) if isinstance(pre['data'], VDyn) else t.TRUE)]) if name == 'parse' else None
    c = FnContract('%s:Construct.%s' % (CORE, name), cases, setup=entry_setup, tags=tags, stream_models=models, requires=req)
    c.iface = dict(_IF)
    return register(c)


entry('parse_stream', [Case('returns', 'return', lambda pre: t.TRUE, ensures=_ps_ret, rkind=rk_dyn, modifies=['stream']),
                       Case('raises', 'raise', lambda pre: t.TRUE, ensures=_ps_raise, modifies=['stream'])])


def _bs_ret(pre, post):
    out, (c, H, D) = scope_clauses(pre, post, 'build')
    s = self_sub(pre, 'build', heap=(H, D), ctx=c, obj=pre['obj'].t)
    o, o2 = pre.obj('stream'), post.obj('stream')
    return out + [('the-construct-built-the-given-value-successfully', s.ok, ('C17',)),
                  ('stream-advanced-by-what-the-construct-wrote', t.eq(o2.pos, t.add(o.pos, s.len)), ('C17', 'C03'))]


def _bs_raise(pre, post):
    out, (c, H, D) = scope_clauses(pre, post, 'build')
    s = self_sub(pre, 'build', heap=(H, D), ctx=c, obj=pre['obj'].t)
    return out + [('raises-exactly-when-the-construct-fails', t.and_(t.not_(s.ok), t.eq(post.exc.cls, s.exc)), ('C17', 'C06'))]


entry('build_stream', [Case('returns', 'return', lambda pre: t.TRUE, ensures=_bs_ret, rkind=rk_none, modifies=['stream']),
                       Case('raises', 'raise', lambda pre: t.TRUE, ensures=_bs_raise, modifies=['stream'])])


def _sz_ret(pre, post):
    out, (c, H, D) = scope_clauses(pre, post, 'sizeof')
    s = self_sub(pre, 'sizeof', heap=(H, D), ctx=c)
    iv, ok = post.eng.as_int(post.result, post.st)
    return out + [('returns-the-size-the-construct-reports', t.and_(s.ok, ok, t.eq(iv, s.val)), ('C17', 'C05'))]


def _sz_raise(pre, post):
    out, (c, H, D) = scope_clauses(pre, post, 'sizeof')
    s = self_sub(pre, 'sizeof', heap=(H, D), ctx=c)
    return out + [('raises-exactly-when-the-construct-has-no-size', t.not_(s.ok), ('C17', 'C05'))]


entry('sizeof', [Case('returns', 'return', lambda pre: t.TRUE, ensures=_sz_ret, rkind=rk_dyn),
                 Case('raises', 'raise', lambda pre: t.TRUE, ensures=_sz_raise)])


# ------------------------------------------------------------------------------------------------ convenience forms forward unchanged
def _the_call(post, name):
    calls = [c for c in post.st.ghost.get('calls', ()) if c[0].endswith('Construct.' + name)]
    return calls


def forwards(pre, post, callee, stream_is=None, obj=False):
    calls = _the_call(post, callee)
    if len(calls) != 1:
        return [('calls-%s-exactly-once' % callee, t.FALSE, ('C17',))]
    q, bound, res = calls[0]
    kw = bound.get('contextkw')
    same_kw = t.eq(post.st.get(kw).addr, _kw(pre)) if isinstance(kw, VRef) else t.FALSE
    out = [('keyword-context-forwarded-unchanged-to-%s' % callee, same_kw, ('C17', 'C07'))]
    if obj:
        out.append(('value-forwarded-unchanged', t.eq(post.eng.to_dyn(bound['obj'], post.st), pre['obj'].t), ('C17',)))
    if stream_is is not None:
        out.append(stream_is(bound['stream']))
    return out, res, bound


def _parse_ret(pre, post):
    r = forwards(pre, post, 'parse_stream', stream_is=None)
    if isinstance(r, list):
        return r
    out, res, bound = r
    out.append(('returns-what-parse_stream-returns', t.eq(post.eng.to_dyn(post.result, post.st), post.eng.to_dyn(res, post.st)), ('C17',)))
    return out


entry('parse', [Case('returns', 'return', lambda pre: t.TRUE, ensures=_parse_ret, rkind=rk_dyn),
                Case('raises', 'raise', lambda pre: t.TRUE, ensures=lambda pre, post: (lambda r: r if isinstance(r, list) else r[0])(forwards(pre, post, 'parse_stream')))])
entry('parse_file', [Case('returns', 'return', lambda pre: t.TRUE, ensures=_parse_ret, rkind=rk_dyn),
                     Case('raises', 'raise', lambda pre: t.TRUE, ensures=lambda pre, post: (lambda r: r if isinstance(r, list) else r[0])(forwards(pre, post, 'parse_stream')))])


def _build_ret(pre, post):
    r = forwards(pre, post, 'build_stream', obj=True)
    if isinstance(r, list):
        return r
    out, res, bound = r
    o = post.st.get(bound['stream'])
    rv = post.result
    if isinstance(rv, VBytes):
        out.append(('returns-everything-written-to-the-fresh-stream', t.and_(t.eq(rv.len, o.len), t.eq(rv.arr, o.buf), t.eq(rv.off, t.ZERO)), ('C17', 'C03')))
    return out


entry('build', [Case('returns', 'return', lambda pre: t.TRUE, ensures=_build_ret, rkind=rk_bytes),
                Case('raises', 'raise', lambda pre: t.TRUE, ensures=lambda pre, post: (lambda r: r if isinstance(r, list) else r[0])(forwards(pre, post, 'build_stream', obj=True)))])
entry('build_file', [Case('returns', 'return', lambda pre: t.TRUE, ensures=lambda pre, post: (lambda r: r if isinstance(r, list) else r[0])(forwards(pre, post, 'build_stream', obj=True)), rkind=rk_none),
                     Case('raises', 'raise', lambda pre: t.TRUE, ensures=lambda pre, post: (lambda r: r if isinstance(r, list) else r[0])(forwards(pre, post, 'build_stream', obj=True)))])
