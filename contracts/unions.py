"""C09: Union._parse against a specification fold: every member is parsed from the SAME start position (with the scope as the
earlier members left it), the stream is put back after each, and parsing ends at the start (parsefrom None) or at the end of
the member selected by index or by name.  Hypotheses: the selector is valid (None, an index, or a member's name) and
member names are pairwise distinct."""
from pyvc import terms as t, prelude
from pyvc.terms import I, S
from pyvc.values import *  # noqa
from pyvc.contract import Case, rk_dyn
from pyvc.exec import LoopSpec
from .prims import fcontract, S_, generic_raise, buffer_same
from .composites import ps, mkPS, _addr, _base, _le, child_of
from .wrappers import _abs_base

T = ('C09', 'C03', 'C07')


def define_union_folds():
    # like pstep, but the member is parsed at the fixed position p0; the state's position records where that member ENDED
    prelude.define('ustep', """(define-fun ustep ((m Int) (s PS) (buf (Array Int Int)) (len Int) (base Int) (c Int) (r Int) (p0 Int)) PS
  (ite (not (ps_ok s)) s
  (ite (P_ok m buf len p0 base (ps_H s) (ps_D s) c)
    (let ((H1 (P_H m buf len p0 base (ps_H s) (ps_D s) c)) (D1 (P_D m buf len p0 base (ps_H s) (ps_D s) c))
          (v (P_val m buf len p0 base (ps_H s) (ps_D s) c)) (e (P_end m buf len p0 base (ps_H s) (ps_D s) c)))
      (ite (truthy (sc_name m))
        (let ((H2 (store H1 r (store (select H1 r) (sval (sc_name m)) v))) (D2 (store D1 r (store (select D1 r) (sval (sc_name m)) true))))
          (mkPS true false e (store H2 c (store (select H2 c) (sval (sc_name m)) v)) (store D2 c (store (select D2 c) (sval (sc_name m)) true))))
        (mkPS true false e H1 D1)))
    (mkPS false false p0 (ps_H s) (ps_D s)))))""", deps=['P_ok', 'P_H', 'P_D', 'P_val', 'P_end', 'truthy', 'sc_name'])
    prelude.define('ufold', """(define-fun-rec ufold ((sl Int) (k Int) (s0 PS) (buf (Array Int Int)) (len Int) (base Int) (c Int) (r Int) (p0 Int)) PS
  (ite (<= k 0) s0 (ustep (sl_at sl (- k 1)) (ufold sl (- k 1) s0 buf len base c r p0) buf len base c r p0)))""", deps=['ustep', 'sl_at'])


def ufold(sl, k, LE, o0):
    p0 = LE.get(LE.env['stream']).pos
    s0 = mkPS(t.TRUE, t.FALSE, p0, LE.ghost['H'], LE.ghost['D'])
    return t.app('ufold', 'PS', sl, k, s0, o0.buf, o0.len, _base(o0), _addr(LE, 'context'), _addr(LE, 'obj'), p0)


def _unfold(sl, k, LE, o0):
    p0 = LE.get(LE.env['stream']).pos
    prev = ufold(sl, t.sub(k, t.ONE), LE, o0)
    step = t.app('ustep', 'PS', t.app('sl_at', t.INT, sl, t.sub(k, t.ONE)), prev, o0.buf, o0.len, _base(o0), _addr(LE, 'context'), _addr(LE, 'obj'), p0)
    return t.implies(t.ge(k, t.ONE), t.eq(ufold(sl, k, LE, o0), step))


def _end(sl, j, LE, o0):
    """absolute offset at which member j ended (what stream_tell reported)"""
    return t.add(ps('ps_pos', ufold(sl, t.add(j, t.ONE), LE, o0)), _base(o0))


def _names_distinct(sl, k):
    """member names are pairwise distinct, stated through the inverse function (one bound variable, one trigger): the index of
    member j's name is j"""
    a = t.var('na!', t.INT)
    na = t.app('sc_name', t.VAL, t.app('sl_at', t.INT, sl, a))
    return t.forall([a], t.and_(t.or_(t.app('(_ is VNone)', t.BOOL, na), t.app('(_ is VStr)', t.BOOL, na)),       # a name is None or a str (Construct.name)
                                t.implies(t.and_(t.le(t.ZERO, a), t.lt(a, k), t.app('truthy', t.BOOL, na)), t.eq(t.app('member_index', t.INT, sl, na), a))), pats=[[na]])


def _union_inv(L):
    pre = L.extra['pre']
    o0 = pre.obj('stream')
    if o0.model == 'adv':
        return []
    sl = pre.self.fields['subcons'].ident
    LE = L.entry
    o = L.obj('stream')
    F = ufold(sl, L.k, LE, o0)
    fw = L.obj('forwards')
    hints = [_unfold(sl, L.k, LE, o0)] if L.k.op != 'int' else []
    out = [('state-after-k-members-is-the-specification-fold', t.and_(ps('ps_ok', F), t.eq(L.st.ghost['H'], ps('ps_H', F)), t.eq(L.st.ghost['D'], ps('ps_D', F))), None, hints),
           ('stream-put-back-to-the-common-start-after-every-member', t.and_(t.eq(o.pos, LE.get(LE.env['stream']).pos), t.eq(o.buf, o0.buf), t.eq(o.len, o0.len))),
           ('locals-keep-their-identity', t.and_(t.eq(_addr(L.st, 'context'), _addr(LE, 'context')), t.eq(_addr(L.st, 'obj'), _addr(LE, 'obj')))),
           ('fallback-is-the-common-start', t.eq(L.eng.as_int(L['fallback'], L.st)[0], t.add(LE.get(LE.env['stream']).pos, _base(o0))))]
    if fw.items is None:
        j = t.var('uj!', t.INT)
        kj = t.app('VInt', t.VAL, j)
        name = t.app('sc_name', t.VAL, t.app('sl_at', t.INT, sl, j))
        want = t.app('VInt', t.VAL, _end(sl, j, LE, o0))
        out.append(('forwards-by-index-is-where-that-member-ended', t.forall([j], t.implies(t.and_(t.le(t.ZERO, j), t.lt(j, L.k)),
                    t.and_(t.T(t.BOOL, 'select', (fw.has, kj)), t.eq(t.T(t.VAL, 'select', (fw.get, kj)), want))), pats=[[kj]])))
        out.append(('forwards-by-name-is-where-that-member-ended', t.forall([j], t.implies(t.and_(t.le(t.ZERO, j), t.lt(j, L.k), t.app('truthy', t.BOOL, name)),
                    t.and_(t.T(t.BOOL, 'select', (fw.has, name)), t.eq(t.T(t.VAL, 'select', (fw.get, name)), want))), pats=[[name]])))
    return out


def _selector(pre):
    eng = pre.eng
    p = pre.self.fields['parsefrom']
    iface = eng.models.interface
    H, D = pre.st.ghost['H'], pre.st.ghost['D']
    return p


def _u_ok(pre, post):
    o0, o2 = pre.obj('stream'), post.obj('stream')
    sl = pre.self.fields['subcons'].ident
    n = t.app('sl_len', t.INT, sl)
    LE = _le(post)
    F = ufold(sl, n, LE, o0)
    c0 = pre.obj('context').addr
    c1, r = _addr(LE, 'context'), _addr(LE, 'obj')
    p = pre.self.fields['parsefrom']
    iface = post.eng.models.interface
    sel = t.ite(p.callable_t, t.app('ev_val', t.VAL, p.ident, post.st.ghost['H'], post.st.ghost['D'], c1), post.eng.to_dyn(iface.param_const(post.eng, p, post.st), post.st))
    out = [('members-start-at-the-entry-position', t.eq(LE.get(LE.env['stream']).pos, o0.pos), ('C09',)),
           ('every-member-parsed-from-the-same-start-in-the-scope-the-earlier-members-left', t.and_(ps('ps_ok', F), t.eq(post.st.ghost['H'], ps('ps_H', F)), t.eq(post.st.ghost['D'], ps('ps_D', F))), T),
           ('returns-the-result-container', t.eq(post.eng.to_dyn(post.result, post.st), t.app('VRef', t.VAL, r)), ('C03',)),
           ('buffer-unchanged', buffer_same(pre, post), ('C17', 'C09'))]
    if sel is not None:
        isnone = t.app('(_ is VNone)', t.BOOL, sel)
        isint = t.app('(_ is VInt)', t.BOOL, sel)
        w = t.ite(isint, t.app('ival', t.INT, sel), t.app('member_index', t.INT, sl, sel))
        endw = ps('ps_pos', ufold(sl, t.add(w, t.ONE), LE, o0))
        out.append(('ends-at-the-start-or-at-the-end-of-the-selected-member', t.eq(o2.pos, t.ite(isnone, o0.pos, endw)), ('C09',)))
    return out


def register_unions(src):
    define_union_folds()
    prelude.declare_fun('member_index', [t.INT, t.VAL], t.INT)

    def requires(pre):
        sl = pre.self.fields['subcons'].ident
        return [('member-names-are-pairwise-distinct', _names_distinct(sl, t.app('sl_len', t.INT, sl)))]
    c = fcontract('Union', '_parse', [
        Case('ok', 'return', lambda pre: t.TRUE, ensures=_u_ok, rkind=rk_dyn, modifies=['stream']),
        Case('fails', 'raise', lambda pre: t.TRUE, ensures=generic_raise, modifies=['stream']),
    ], loops={'for (i, sc) in enumerate(self.subcons)': LoopSpec(_union_inv, tags=T, modifies=())}, tags=T, requires=requires)
    return c
