"""C09: Union._parse against a specification fold: every member is parsed from the SAME start position (with the scope as the
earlier members left it), the stream is put back after each, and parsing ends at the start (parsefrom None) or at the end of
the member selected by index or by name.  Hypotheses: the selector is valid (None, an index, or a member's name) and
member names are pairwise distinct."""
from pyvc import terms as t, prelude
from pyvc.terms import I, S
from pyvc.values import *  # noqa
from pyvc.contract import Case, rk_dyn
from pyvc.exec import LoopSpec
from .prims import fcontract, S_, generic_raise, buffer_same
from .composites import ps, mkPS, _addr, _base, _le, child_of
from .wrappers import _abs_base

T = ('C09', 'C03', 'C07')


def define_union_folds():
    # like pstep, but the member is parsed at the fixed position p0; the state's position records where that member ENDED
    prelude.define('ustep', """(define-fun ustep ((m Int) (s PS) (buf (Array Int Int)) (len Int) (base Int) (c Int) (r Int) (p0 Int)) PS
  (ite (not (ps_ok s)) s
  (ite (P_ok m buf len p0 base (ps_H s) (ps_D s) c)
    (let ((H1 (P_H m buf len p0 base (ps_H s) (ps_D s) c)) (D1 (P_D m buf len p0 base (ps_H s) (ps_D s) c))
          (v (P_val m buf len p0 base (ps_H s) (ps_D s) c)) (e (P_end m buf len p0 base (ps_H s) (ps_D s) c)))
      (ite (truthy (sc_name m))
        (let ((H2 (store H1 r (store (select H1 r) (sval (sc_name m)) v))) (D2 (store D1 r (store (select D1 r) (sval (sc_name m)) true))))
          (mkPS true false e (store H2 c (store (select H2 c) (sval (sc_name m)) v)) (store D2 c (store (select D2 c) (sval (sc_name m)) true))))
        (mkPS true false e H1 D1)))
    (mkPS false false p0 (ps_H s) (ps_D s)))))""", deps=['P_ok', 'P_H', 'P_D', 'P_val', 'P_end', 'truthy', 'sc_name'])
    prelude.define('ufold', """(define-fun-rec ufold ((sl Int) (k Int) (s0 PS) (buf (Array Int Int)) (len Int) (base Int) (c Int) (r Int) (p0 Int)) PS
  (ite (<= k 0) s0 (ustep (sl_at sl (- k 1)) (ufold sl (- k 1) s0 buf len base c r p0) buf len base c r p0)))""", deps=['ustep', 'sl_at'])


def ufold(sl, k, LE, o0):
    p0 = LE.get(LE.env['stream']).pos
    s0 = mkPS(t.TRUE, t.FALSE, p0, LE.ghost['H'], LE.ghost['D'])
    return t.app('ufold', 'PS', sl, k, s0, o0.buf, o0.len, _base(o0), _addr(LE, 'context'), _addr(LE, 'obj'), p0)


def _unfold(sl, k, LE, o0):
    p0 = LE.get(LE.env['stream']).pos
    prev = ufold(sl, t.sub(k, t.ONE), LE, o0)
    step = t.app('ustep', 'PS', t.app('sl_at', t.INT, sl, t.sub(k, t.ONE)), prev, o0.buf, o0.len, _base(o0), _addr(LE, 'context'), _addr(LE, 'obj'), p0)
    return t.implies(t.ge(k, t.ONE), t.eq(ufold(sl, k, LE, o0), step))


def _end(sl, j, LE, o0):
    """absolute offset at which member j ended (what stream_tell reported)"""
    return t.add(ps('ps_pos', ufold(sl, t.add(j, t.ONE), LE, o0)), _base(o0))


def _names_distinct(sl, k):
    """member names are pairwise distinct, stated through the inverse function (one bound variable, one trigger): the index of
    member j's name is j"""
    a = t.var('na!', t.INT)
    na = t.app('sc_name', t.VAL, t.app('sl_at', t.INT, sl, a))
    return t.forall([a], t.and_(t.or_(t.app('(_ is VNone)', t.BOOL, na), t.app('(_ is VStr)', t.BOOL, na)),       # a name is None or a str (Construct.name)
                                t.implies(t.and_(t.le(t.ZERO, a), t.lt(a, k), t.app('truthy', t.BOOL, na)), t.eq(t.app('member_index', t.INT, sl, na), a))), pats=[[na]])


def _union_inv(L):
    pre = L.extra['pre']
    o0 = pre.obj('stream')
    if o0.model == 'adv':
        return []
    sl = pre.self.fields['subcons'].ident
    LE = L.entry
    o = L.obj('stream')
    F = ufold(sl, L.k, LE, o0)
    fw = L.obj('forwards')
    hints = [_unfold(sl, L.k, LE, o0)] if L.k.op != 'int' else []
    out = [('state-after-k-members-is-the-specification-fold', t.and_(ps('ps_ok', F), t.eq(L.st.ghost['H'], ps('ps_H', F)), t.eq(L.st.ghost['D'], ps('ps_D', F))), None, hints),
           ('stream-put-back-to-the-common-start-after-every-member', t.and_(t.eq(o.pos, LE.get(LE.env['stream']).pos), t.eq(o.buf, o0.buf), t.eq(o.len, o0.len))),
           ('locals-keep-their-identity', t.and_(t.eq(_addr(L.st, 'context'), _addr(LE, 'context')), t.eq(_addr(L.st, 'obj'), _addr(LE, 'obj')))),
           ('fallback-is-the-common-start', t.eq(L.eng.as_int(L['fallback'], L.st)[0], t.add(LE.get(LE.env['stream']).pos, _base(o0))))]
    if fw.items is None:
        j = t.var('uj!', t.INT)
        kj = t.app('VInt', t.VAL, j)
        name = t.app('sc_name', t.VAL, t.app('sl_at', t.INT, sl, j))
        want = t.app('VInt', t.VAL, _end(sl, j, LE, o0))
        out.append(('forwards-by-index-is-where-that-member-ended', t.forall([j], t.implies(t.and_(t.le(t.ZERO, j), t.lt(j, L.k)),
                    t.and_(t.T(t.BOOL, 'select', (fw.has, kj)), t.eq(t.T(t.VAL, 'select', (fw.get, kj)), want))), pats=[[kj]])))
        out.append(('forwards-by-name-is-where-that-member-ended', t.forall([j], t.implies(t.and_(t.le(t.ZERO, j), t.lt(j, L.k), t.app('truthy', t.BOOL, name)),
                    t.and_(t.T(t.BOOL, 'select', (fw.has, name)), t.eq(t.T(t.VAL, 'select', (fw.get, name)), want))), pats=[[name]])))
    return out


def _selector(pre):
    eng = pre.eng
    p = pre.self.fields['parsefrom']
    iface = eng.models.interface
    H, D = pre.st.ghost['H'], pre.st.ghost['D']
    return p


def _u_ok(pre, post):
    o0, o2 = pre.obj('stream'), post.obj('stream')
    sl = pre.self.fields['subcons'].ident
    n = t.app('sl_len', t.INT, sl)
    LE = _le(post)
    F = ufold(sl, n, LE, o0)
    c0 = pre.obj('context').addr
    c1, r = _addr(LE, 'context'), _addr(LE, 'obj')
    p = pre.self.fields['parsefrom']
    iface = post.eng.models.interface
    sel = t.ite(p.callable_t, t.app('ev_val', t.VAL, p.ident, post.st.ghost['H'], post.st.ghost['D'], c1), post.eng.to_dyn(iface.param_const(post.eng, p, post.st), post.st))
    out = [('members-start-at-the-entry-position', t.eq(LE.get(LE.env['stream']).pos, o0.pos), ('C09',)),
           ('every-member-parsed-from-the-same-start-in-the-scope-the-earlier-members-left', t.and_(ps('ps_ok', F), t.eq(post.st.ghost['H'], ps('ps_H', F)), t.eq(post.st.ghost['D'], ps('ps_D', F))), T),
           ('returns-the-result-container', t.eq(post.eng.to_dyn(post.result, post.st), t.app('VRef', t.VAL, r)), ('C03',)),
           ('buffer-unchanged', buffer_same(pre, post), ('C17', 'C09'))]
    if sel is not None:
        isnone = t.app('(_ is VNone)', t.BOOL, sel)
        isint = t.app('(_ is VInt)', t.BOOL, sel)
        w = t.ite(isint, t.app('ival', t.INT, sel), t.app('member_index', t.INT, sl, sel))
        endw = ps('ps_pos', ufold(sl, t.add(w, t.ONE), LE, o0))
        out.append(('ends-at-the-start-or-at-the-end-of-the-selected-member', t.eq(o2.pos, t.ite(isnone, o0.pos, endw)), ('C09',)))
    return out


def register_unions(src):
    define_union_folds()
    prelude.declare_fun('member_index', [t.INT, t.VAL], t.INT)

    def requires(pre):
        sl = pre.self.fields['subcons'].ident
        return [('member-names-are-pairwise-distinct', _names_distinct(sl, t.app('sl_len', t.INT, sl)))]
    c = fcontract('Union', '_parse', [
        Case('ok', 'return', lambda pre: t.TRUE, ensures=_u_ok, rkind=rk_dyn, modifies=['stream']),
        Case('fails', 'raise', lambda pre: t.TRUE, ensures=generic_raise, modifies=['stream']),
    ], loops={'for (i, sc) in enumerate(self.subcons)': LoopSpec(_union_inv, tags=T, modifies=())}, tags=T, requires=requires)
    return c


# ================================================================================================ Union._build
# The first member that can be built - one that builds from nothing (flagbuildnone) or one whose name is a key of the supplied
# mapping - is built from the supplied value (None when absent) at the current position, with that value in the nested scope
# under its name; the result is a container holding what its build returned under its name.  No such member: UnionError.
from .composites import bs  # noqa
from .wrappers import _written  # noqa


def define_union_build_folds():
    prelude.define('ubskip', """(define-fun-rec ubskip ((sl Int) (k Int) (D (Array Int (Array String Bool))) (oa Int)) Bool
  (ite (<= k 0) true (and (ubskip sl (- k 1) D oa) (not (bhas (sl_at sl (- k 1)) D oa)))))""", deps=['bhas', 'sl_at'])


def _ubskip(LE, sl, k):
    return t.app('ubskip', t.BOOL, sl, k, LE.ghost['D'], _addr(LE, 'obj'))


def _ub_unfold(LE, sl, k):
    m = t.app('sl_at', t.INT, sl, t.sub(k, t.ONE))
    return t.implies(t.ge(k, t.ONE), t.eq(_ubskip(LE, sl, k), t.and_(_ubskip(LE, sl, t.sub(k, t.ONE)), t.not_(t.app('bhas', t.BOOL, m, LE.ghost['D'], _addr(LE, 'obj'))))))


def _ub_inv(L):
    pre = L.extra['pre']
    o0 = pre.obj('stream')
    if o0.model == 'adv':
        return []
    sl = pre.self.fields['subcons'].ident
    o = L.obj('stream')
    LE = L.entry
    hints = [_ub_unfold(LE, sl, L.k)] if L.k.op != 'int' else []
    return [('every-earlier-member-is-absent-from-the-mapping-and-cannot-build-from-nothing',
             t.and_(_ubskip(LE, sl, L.k), t.eq(o.pos, o0.pos), t.eq(o.buf, o0.buf), t.eq(o.len, o0.len), t.eq(L.st.ghost['H'], LE.ghost['H']), t.eq(L.st.ghost['D'], LE.ghost['D']),
                    t.eq(_addr(L.st, 'context'), _addr(LE, 'context')), t.eq(_addr(L.st, 'obj'), _addr(LE, 'obj'))), None, hints)]


def _ub_le(post):
    from .composites import _le_build
    return _le_build(post)


def _ub_member(pre, LE, k):
    sl = pre.self.fields['subcons'].ident
    o0 = pre.obj('stream')
    m = t.app('sl_at', t.INT, sl, k)
    c1, oa = _addr(LE, 'context'), _addr(LE, 'obj')
    H, D = LE.ghost['H'], LE.ghost['D']
    v = t.app('bval', t.VAL, m, H, D, oa)
    nm = t.app('sc_name', t.VAL, m)
    named = t.app('truthy', t.BOOL, nm)
    key = t.app('sval', t.STR, nm)
    H1 = t.ite(named, t.T('Heap', 'store', (H, c1, t.T('Fields', 'store', (t.T('Fields', 'select', (H, c1)), key, v)))), H)
    D1 = t.ite(named, t.T('Dom', 'store', (D, c1, t.T('Keys', 'store', (t.T('Keys', 'select', (D, c1)), key, t.TRUE)))), D)
    a = (m, v, t.add(o0.pos, _base(o0)), H1, D1, c1)
    return m, named, key, a


def _ub_ok(pre, post):
    o, o2 = S_(pre), post.obj('stream')
    k = post.st.ghost.get('loop_k')
    ghost_mode = getattr(post.eng.models, 'ghost_mode', False)
    if k is None:
        if not ghost_mode and post.st.ghost.get('LE'):
            return []
        k = fresh('chosen_member', t.INT)
    LE = _ub_le(post)
    sl = pre.self.fields['subcons'].ident
    n = t.app('sl_len', t.INT, sl)
    m, named, key, a = _ub_member(pre, LE, k)
    ln, W, ret = t.app('B_len', t.INT, *a), t.app('B_bytes', t.ARR, *a), t.app('B_ret', t.VAL, *a)
    out = [('the-first-member-present-in-the-mapping-or-buildable-from-nothing-is-built',
            t.and_(t.le(t.ZERO, k), t.lt(k, n), _ubskip(LE, sl, k), t.app('bhas', t.BOOL, m, LE.ghost['D'], _addr(LE, 'obj')), t.app('B_ok', t.BOOL, *a)), T + ('C01',)),
           ('advances-by-what-that-member-wrote', t.eq(o2.pos, t.add(o.pos, ln)), T + ('C01',)),
           _written(o, o2, ln, lambda i: t.select(W, i), 'emits-exactly-the-bytes-that-member-built') + (T + ('C01',),)]
    r = post.st.get(post.result) if isinstance(post.result, VRef) else None
    if r is not None and hasattr(r, 'addr'):
        H2, D2 = post.st.ghost['H'], post.st.ghost['D']
        out.append(('returns-a-container-holding-what-the-member-build-returned-under-its-name',
                    t.implies(named, t.and_(t.T(t.BOOL, 'select', (t.T('Keys', 'select', (D2, r.addr)), key)), t.eq(t.T(t.VAL, 'select', (t.T('Fields', 'select', (H2, r.addr)), key)), ret))), T + ('C01',)))
    return out


def _ub_bad(pre, post):
    out = list(generic_raise(pre, post))
    o0 = pre.obj('stream')
    if o0.model == 'adv' or not (post.st.ghost.get('LE') or getattr(post.eng.models, 'ghost_mode', False)):
        return out
    LE = _ub_le(post)
    sl = pre.self.fields['subcons'].ident
    n = t.app('sl_len', t.INT, sl)
    k = post.st.ghost.get('loop_k')
    if k is None or getattr(post.eng.models, 'ghost_mode', False):
        k = fresh('failed_member', t.INT)
    m, named, key, a = _ub_member(pre, LE, k)
    ue = t.eq(post.exc.cls, I(post.eng.src.exc_code['UnionError']))
    out.append(('a-failure-is-the-chosen-member-failing-or-UnionError-when-no-member-can-be-built',
                t.or_(t.and_(ue, _ubskip(LE, sl, n)), t.and_(t.le(t.ZERO, k), t.lt(k, n), _ubskip(LE, sl, k), t.not_(t.app('B_ok', t.BOOL, *a)))), T + ('C13',)))
    return out


def register_union_build(src):
    define_union_build_folds()
    fcontract('Union', '_build', [
        Case('ok', 'return', lambda pre: t.TRUE, ensures=_ub_ok, rkind=rk_dyn, modifies=['stream']),
        Case('fails', 'raise', lambda pre: t.TRUE, ensures=_ub_bad, modifies=['stream']),
    ], loops={'for sc in self.subcons': LoopSpec(_ub_inv, tags=T)}, tags=T + ('C01', 'C13'), sequential_build=False,
        requires=lambda pre: [('the-supplied-value-is-an-existing-mapping', t.and_(t.app('(_ is VRef)', t.BOOL, pre['obj'].t), t.le(t.ZERO, t.app('ref', t.INT, pre['obj'].t)),
                                                                                  t.lt(t.app('ref', t.INT, pre['obj'].t), pre.st.ghost['alloc'])))])
