"""C12, laws between different implementations, as lemmas over the specification terms of the verified contracts.

Law A   BytesInteger(n, signed, swapped)  <-->  Bitwise(BitsInteger(8n, signed, swapped))       (and Bytewise the other way round)
        LHS contract: value = two's complement of be_val / le_val of the n bytes (sign by the top byte); writes bytes Y with be/le value u.
        RHS: Transformed hands BitsInteger the array bytes2bits(region) (macro table + Transformed + bytes2bits contracts), whose value is the
        two's complement of bits_val of it (sign by the first bit); swapped: of the 8-bit groups in reverse order.
        Lemmas: unpacking (bits_val of bytes2bits(X) = be_val(X)), unpacking_swapped (groups reversed = le_val(X)), sign bits agree.
Law B   Int24ul <--> ByteSwapped(Int24ub) <--> BytesInteger(3, swapped=True): swapbytes reverses (its contract); be_of_reversal_is_le.
        The first <--> is by construction (equivs.structural_laws).
Build sides: both emit n bytes with the same big-endian value; be_injective: two byte strings of equal length and equal value are equal."""
from pyvc import terms as t
from pyvc.terms import I
from pyvc.lemma import Lemma, LEMMAS
from .specs import bits_val, be_val, pow2, forall_range
from .intlemmas import unfold_be, unfold_bits, le_val, inst
from . import bitregions  # noqa (bits_append_byte, packing)

T = ('C12', 'C10')


def bit_of(x, j):
    """bit j (0 = most significant) of the byte term x"""
    return t.pymod(t.pyfloordiv(x, I(2 ** (7 - j))), I(2))


def bytes_in(X, lo, n, name='bx!'):
    i = t.var(name, t.INT)
    return t.forall([i], t.implies(t.and_(t.le(lo, i), t.lt(i, t.add(lo, n))), t.and_(t.le(t.ZERO, t.select(X, i)), t.lt(t.select(X, i), I(256)))), pats=[[t.select(X, i)]])


def bits_of_bytes(B, bo, X, xo, n):
    """B = bytes2bits(X): B[bo + 8i + j] = bit j of X[xo + i]   (the postcondition of bytes2bits, stated over the absolute index of X)"""
    i = t.var('ub!', t.INT)
    cl = [t.eq(t.select(B, t.add(bo, t.add(t.mul(I(8), t.sub(i, xo)), I(j)))), bit_of(t.select(X, i), j)) for j in range(8)]
    return t.forall([i], t.implies(t.and_(t.le(xo, i), t.lt(i, t.add(xo, n))), t.and_(*cl)), pats=[[t.select(X, i)]])


def _unpack_stmt(v):
    B, bo, X, xo, n = v['B'], v['bo'], v['X'], v['xo'], v['n']
    return t.implies(t.and_(t.ge(n, t.ZERO), bytes_in(X, xo, n), bits_of_bytes(B, bo, X, xo, n)),
                     t.eq(bits_val(B, bo, t.add(bo, t.mul(I(8), n))), be_val(X, xo, t.add(xo, n))))


def _unpack_defs(v):
    B, bo, X, xo, n = v['B'], v['bo'], v['X'], v['xo'], v['n']
    m = t.add(bo, t.mul(I(8), t.sub(n, t.ONE)))
    return [unfold_be(X, xo, t.add(xo, n)), unfold_be(X, xo, xo), unfold_bits(B, bo, bo)] + [unfold_bits(B, m, t.add(m, I(k))) for k in range(8, -1, -1)]


Lemma('unpacking', [('B', t.ARR), ('bo', t.INT), ('X', t.ARR), ('xo', t.INT), ('n', t.INT)], _unpack_stmt, induct=('n', 0),
      ih_instances=lambda v: [{'B': v['B'], 'bo': v['bo'], 'X': v['X'], 'xo': v['xo']}], tags=T,
      hints=lambda v: [inst('bits_append_byte', B=v['B'], lo=v['bo'], mid=t.add(v['bo'], t.mul(I(8), t.sub(v['n'], t.ONE))))],
      defs=_unpack_defs, doc='MSB-first value of the bits of a byte string = its big-endian value')


def _sign_stmt(v):
    B, bo, X, xo, n = v['B'], v['bo'], v['X'], v['xo'], v['n']
    return t.implies(t.and_(t.ge(n, t.ONE), bytes_in(X, xo, n), bits_of_bytes(B, bo, X, xo, n)),
                     t.eq(t.ne(t.select(B, bo), t.ZERO), t.ge(t.select(X, xo), I(128))))


Lemma('first_bit_is_sign_of_first_byte', [('B', t.ARR), ('bo', t.INT), ('X', t.ARR), ('xo', t.INT), ('n', t.INT)], _sign_stmt, tags=T)


def value_unsigned_or_signed(u, neg, width_bits, signed):
    return t.ite(t.and_(signed, neg), t.sub(u, pow2(width_bits)), u)


def _lawA_parse(v):
    """the value BitsInteger(8n, signed) reads from bytes2bits(X) is the value BytesInteger(n, signed) reads from X"""
    B, bo, X, xo, n, s = v['B'], v['bo'], v['X'], v['xo'], v['n'], v['signed']
    lhs = value_unsigned_or_signed(be_val(X, xo, t.add(xo, n)), t.ge(t.select(X, xo), I(128)), t.mul(I(8), n), s)
    rhs = value_unsigned_or_signed(bits_val(B, bo, t.add(bo, t.mul(I(8), n))), t.ne(t.select(B, bo), t.ZERO), t.mul(I(8), n), s)
    return t.implies(t.and_(t.ge(n, t.ONE), bytes_in(X, xo, n), bits_of_bytes(B, bo, X, xo, n)), t.eq(lhs, rhs))


Lemma('law_BytesInteger_eq_Bitwise_BitsInteger_parse', [('B', t.ARR), ('bo', t.INT), ('X', t.ARR), ('xo', t.INT), ('n', t.INT), ('signed', t.BOOL)], _lawA_parse, tags=T,
      hints=lambda v: [inst('unpacking', B=v['B'], bo=v['bo'], X=v['X'], xo=v['xo'], n=v['n']),
                       inst('first_bit_is_sign_of_first_byte', B=v['B'], bo=v['bo'], X=v['X'], xo=v['xo'], n=v['n'])])


# ---- swapped: the bit groups in reverse order are the bits of the reversed byte string, whose big-endian value is le_val(X)
def reversed_bytes(R, ro, X, xo, n):
    j = t.var('rv!', t.INT)
    return t.forall([j], t.implies(t.and_(t.le(ro, j), t.lt(j, t.add(ro, n))), t.eq(t.select(R, j), t.select(X, t.sub(t.sub(t.add(xo, n), t.ONE), t.sub(j, ro))))), pats=[[t.select(R, j)]])


def _rev_rel(v):
    j = t.var('rj!', t.INT)
    return forall_range(j, t.ZERO, v['n'], t.eq(t.select(v['R'], t.add(v['ro'], j)), t.select(v['X'], t.sub(t.sub(t.add(v['xo'], v['n']), t.ONE), j))),
                        [[t.select(v['R'], t.add(v['ro'], j))]])


def _lawA_swapped(v):
    """G = the bits of R, R = X reversed (what swapbytesinbits(bytes2bits(X)) is): BitsInteger(8n, swapped) reads what BytesInteger(n, swapped) reads"""
    G, go, R, ro, X, xo, n, s = v['G'], v['go'], v['R'], v['ro'], v['X'], v['xo'], v['n'], v['signed']
    lhs = value_unsigned_or_signed(le_val(X, xo, t.add(xo, n)), t.ge(t.select(X, t.sub(t.add(xo, n), t.ONE)), I(128)), t.mul(I(8), n), s)
    rhs = value_unsigned_or_signed(bits_val(G, go, t.add(go, t.mul(I(8), n))), t.ne(t.select(G, go), t.ZERO), t.mul(I(8), n), s)
    return t.implies(t.and_(t.ge(n, t.ONE), bytes_in(X, xo, n), bytes_in(R, ro, n, 'by!'), _rev_rel(v), bits_of_bytes(G, go, R, ro, n)), t.eq(lhs, rhs))


Lemma('law_BytesInteger_eq_Bitwise_BitsInteger_parse_swapped',
      [('G', t.ARR), ('go', t.INT), ('R', t.ARR), ('ro', t.INT), ('X', t.ARR), ('xo', t.INT), ('n', t.INT), ('signed', t.BOOL)], _lawA_swapped, tags=T,
      hints=lambda v: [inst('unpacking', B=v['G'], bo=v['go'], X=v['R'], xo=v['ro'], n=v['n']),
                       inst('first_bit_is_sign_of_first_byte', B=v['G'], bo=v['go'], X=v['R'], xo=v['ro'], n=v['n']),
                       inst('be_of_reversal_is_le', a=v['X'], b=v['R'], alo=v['xo'], blo=v['ro'], n=v['n'])])


# ---- Law B: ByteSwapped(Int24ub) reads be_val of the reversed bytes = le_val of the bytes = what BytesInteger(3, swapped=True) reads
def _lawB(v):
    R, ro, X, xo, n = v['R'], v['ro'], v['X'], v['xo'], v['n']
    return t.implies(t.and_(t.ge(n, t.ONE), _rev_rel(v)),
                     t.and_(t.eq(be_val(R, ro, t.add(ro, n)), le_val(X, xo, t.add(xo, n))),
                            t.eq(t.select(R, ro), t.select(X, t.sub(t.add(xo, n), t.ONE)))))


Lemma('law_ByteSwapped_big_endian_eq_little_endian', [('R', t.ARR), ('ro', t.INT), ('X', t.ARR), ('xo', t.INT), ('n', t.INT)], _lawB, tags=T + ('C15',),
      hints=lambda v: [inst('be_of_reversal_is_le', a=v['X'], b=v['R'], alo=v['xo'], blo=v['ro'], n=v['n'])])


# ---- build sides emit identical bytes: equal length and equal big-endian value => equal content
def _inj_stmt(v):
    A, ao, Bq, bo, n, i = v['A'], v['ao'], v['Bq'], v['bo'], v['n'], v['i']
    return t.implies(t.and_(t.ge(n, t.ZERO), bytes_in(A, ao, n), bytes_in(Bq, bo, n, 'by!'), t.eq(be_val(A, ao, t.add(ao, n)), be_val(Bq, bo, t.add(bo, n))),
                            t.le(t.ZERO, i), t.lt(i, n)),
                     t.eq(t.select(A, t.add(ao, i)), t.select(Bq, t.add(bo, i))))


Lemma('be_injective', [('A', t.ARR), ('ao', t.INT), ('Bq', t.ARR), ('bo', t.INT), ('n', t.INT), ('i', t.INT)], _inj_stmt, induct=('n', 0),
      ih_instances=lambda v: [{'A': v['A'], 'ao': v['ao'], 'Bq': v['Bq'], 'bo': v['bo'], 'i': v['i']}], tags=T + ('C01',),
      hints=lambda v: [inst('be_top', a=v['A'], lo=v['ao'], n=t.sub(v['n'], t.ONE)), inst('be_top', a=v['Bq'], lo=v['bo'], n=t.sub(v['n'], t.ONE))],
      defs=lambda v: [unfold_be(v['A'], v['ao'], t.add(v['ao'], v['n'])), unfold_be(v['Bq'], v['bo'], t.add(v['bo'], v['n']))],
      doc='byte strings of equal length with equal big-endian value are equal byte for byte')


# ---- little-endian twin of be_injective, and value bounds (used by the canonical lemma of BytesInteger, C02)
from .intlemmas import unfold_le, unfold_pow2, P


def _linj_stmt(v):
    A, ao, Bq, bo, n, i = v['A'], v['ao'], v['Bq'], v['bo'], v['n'], v['i']
    return t.implies(t.and_(t.ge(n, t.ZERO), bytes_in(A, ao, n), bytes_in(Bq, bo, n, 'by!'), t.eq(le_val(A, ao, t.add(ao, n)), le_val(Bq, bo, t.add(bo, n))),
                            t.le(t.ZERO, i), t.lt(i, n)),
                     t.eq(t.select(A, t.add(ao, i)), t.select(Bq, t.add(bo, i))))


def _le_nonneg(v):
    return t.implies(t.and_(t.ge(v['n'], t.ZERO), bytes_in(v['A'], v['ao'], v['n'])), t.ge(le_val(v['A'], v['ao'], t.add(v['ao'], v['n'])), t.ZERO))


Lemma('le_nonneg', [('A', t.ARR), ('ao', t.INT), ('n', t.INT)], _le_nonneg, induct=('n', 0), ih_instances=lambda v: [{'A': v['A'], 'ao': t.add(v['ao'], t.ONE)}], tags=T + ('C02',),
      defs=lambda v: [unfold_le(v['A'], v['ao'], t.add(v['ao'], v['n']))])
Lemma('le_injective', [('A', t.ARR), ('ao', t.INT), ('Bq', t.ARR), ('bo', t.INT), ('n', t.INT), ('i', t.INT)], _linj_stmt, induct=('n', 0),
      ih_instances=lambda v: [{'A': v['A'], 'ao': t.add(v['ao'], t.ONE), 'Bq': v['Bq'], 'bo': t.add(v['bo'], t.ONE), 'i': t.sub(v['i'], t.ONE)}], tags=T + ('C02',),
      hints=lambda v: [inst('le_nonneg', A=v['A'], ao=t.add(v['ao'], t.ONE), n=t.sub(v['n'], t.ONE)), inst('le_nonneg', A=v['Bq'], ao=t.add(v['bo'], t.ONE), n=t.sub(v['n'], t.ONE))],
      defs=lambda v: [unfold_le(v['A'], v['ao'], t.add(v['ao'], v['n'])), unfold_le(v['Bq'], v['bo'], t.add(v['bo'], v['n']))])

Lemma('pow2_add8', [('k', t.INT)], lambda v: t.implies(t.ge(v['k'], t.ZERO), t.eq(P(t.add(v['k'], I(8))), t.mul(I(256), P(v['k'])))), tags=T + ('C02',),
      defs=lambda v: [unfold_pow2(t.add(v['k'], I(j))) for j in range(8, 0, -1)])


def _be_bound(v):
    A, ao, n = v['A'], v['ao'], v['n']
    V = be_val(A, ao, t.add(ao, n))
    return t.implies(t.and_(t.ge(n, t.ZERO), bytes_in(A, ao, n)), t.and_(t.le(t.ZERO, V), t.lt(V, P(t.mul(I(8), n)))))


def _le_bound(v):
    A, ao, n = v['A'], v['ao'], v['n']
    V = le_val(A, ao, t.add(ao, n))
    return t.implies(t.and_(t.ge(n, t.ZERO), bytes_in(A, ao, n)), t.and_(t.le(t.ZERO, V), t.lt(V, P(t.mul(I(8), n)))))


Lemma('be_bound', [('A', t.ARR), ('ao', t.INT), ('n', t.INT)], _be_bound, induct=('n', 0), ih_instances=lambda v: [{'A': v['A'], 'ao': v['ao']}], tags=T + ('C02',),
      hints=lambda v: [inst('pow2_add8', k=t.mul(I(8), t.sub(v['n'], t.ONE)))],
      defs=lambda v: [unfold_be(v['A'], v['ao'], t.add(v['ao'], v['n'])), unfold_pow2(t.ZERO)])
Lemma('le_bound', [('A', t.ARR), ('ao', t.INT), ('n', t.INT)], _le_bound, induct=('n', 0), ih_instances=lambda v: [{'A': v['A'], 'ao': t.add(v['ao'], t.ONE)}], tags=T + ('C02',),
      hints=lambda v: [inst('pow2_add8', k=t.mul(I(8), t.sub(v['n'], t.ONE)))],
      defs=lambda v: [unfold_le(v['A'], v['ao'], t.add(v['ao'], v['n'])), unfold_pow2(t.ZERO)])
