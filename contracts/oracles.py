"""Native oracles: independent executable reference semantics for the functions under functional contract, used
(1) to replay a solver counter-model on the real code, (2) to search for a failing input when an obligation fails
without a model, (3) in the thorough tier to differential-test the specifications against CPython.

Each oracle:  gen(rng) -> iterable of argument dicts;  from_model(vals) -> argument dict or None;
              run(construct_module, args) -> None if the real code agrees with the reference, else a description.
Outcomes are compared as ('ok', value, consumed/bytes) or ('err', category) where category is the exception class
the properties fix (StreamError for truncation, ConstructError otherwise) - messages and exact subclasses are not pinned.
"""
import io
import random

from pyvc.replay import by_stem

ORACLES = {}


def oracle(qual):
    def deco(cls):
        ORACLES[qual] = cls()
        return cls
    return deco


def ints_biased(rng, lo=-2 ** 70, hi=2 ** 70):
    edge = [0, 1, -1, 2, 127, 128, 129, 255, 256, 16383, 16384, 2 ** 21 - 1, 2 ** 21, 2 ** 31, 2 ** 32, 2 ** 63, 2 ** 64, -128, -129, -2 ** 31, -2 ** 63]
    while True:
        if rng.random() < 0.5:
            v = rng.choice(edge) + rng.choice([0, 0, 1, -1])
        else:
            v = rng.randint(-2 ** rng.randint(1, 70), 2 ** rng.randint(1, 70))
        if lo <= v <= hi:
            yield v


def outcome(fn, *a, **kw):
    try:
        return ('ok', fn(*a, **kw))
    except Exception as e:  # noqa
        return ('err', type(e).__name__, e)


# ------------------------------------------------------------------------------------------------ lib.binary
@oracle('construct.lib.binary:integer2bits')
class I2B:
    def gen(self, rng):
        g = ints_biased(rng)
        for _ in range(100000):
            w = rng.choice([1, 2, 3, 7, 8, 9, 15, 16, 24, 31, 32, 33, 64, 65, rng.randint(-1, 80)])
            n = next(g) if rng.random() < 0.5 else rng.choice([0, 1, -1, 2 ** w - 1 if w > 0 else 0, 2 ** w if w > 0 else 1, -(2 ** (w - 1)) if w > 0 else -1,
                                                               2 ** (w - 1) - 1 if w > 0 else 0, 2 ** (w - 1) if w > 0 else 1, -(2 ** (w - 1)) - 1 if w > 0 else -2])
            yield {'number': n, 'width': w, 'signed': rng.random() < 0.5}

    def from_model(self, vals):
        a = {k: by_stem(vals, k) for k in ('number', 'width', 'signed')}
        return a if all(v is not None for v in a.values()) and abs(a['width']) < 4096 else None

    def ref(self, a):
        n, w, s = a['number'], a['width'], a['signed']
        if w < 1:
            return ('err',)
        lo, hi = (-(2 ** (w - 1)), 2 ** (w - 1) - 1) if s else (0, 2 ** w - 1)
        if not lo <= n <= hi:
            return ('err',)
        m = n % (2 ** w)
        return ('ok', bytes((m >> (w - 1 - j)) & 1 for j in range(w)))

    def run(self, C, a):
        from construct.lib import binary
        got = outcome(binary.integer2bits, a['number'], a['width'], a['signed'])
        exp = self.ref(a)
        if exp[0] == 'err':
            return None if got[0] == 'err' and got[1] == 'ValueError' else 'expected ValueError, got %r' % (got[:2],)
        return None if got[:2] == exp else 'expected %r, got %r' % (exp, got[:2])


@oracle('construct.lib.binary:bits2integer')
class B2I:
    def gen(self, rng):
        for _ in range(100000):
            n = rng.choice([0, 1, 2, 7, 8, 9, 16, 17, 33, rng.randint(0, 70)])
            yield {'data': bytes(rng.randint(0, 1) for _ in range(n)), 'signed': rng.random() < 0.5}

    def from_model(self, vals):
        d, s = by_stem(vals, 'data_arr'), by_stem(vals, 'signed')
        return None if d is None or s is None else {'data': bytes(x % 256 for x in d), 'signed': s}

    def run(self, C, a):
        from construct.lib import binary
        d, s = a['data'], a['signed']
        got = outcome(binary.bits2integer, d, s)
        if len(d) == 0:
            return None if got[0] == 'err' and got[1] == 'ValueError' else 'expected ValueError on empty data, got %r' % (got[:2],)
        if any(b > 1 for b in d):
            return None if got[0] == 'ok' else 'unexpected %r' % (got[:2],)
        v = sum(b << (len(d) - 1 - i) for i, b in enumerate(d))
        if s and d[0]:
            v -= 1 << len(d)
        return None if got[:2] == ('ok', v) else 'expected %r, got %r' % (v, got[:2])


@oracle('construct.lib.binary:integer2bytes')
class I2BY:
    def gen(self, rng):
        g = ints_biased(rng)
        for _ in range(100000):
            w = rng.choice([1, 2, 3, 4, 8, 9, 16, rng.randint(-1, 20)])
            yield {'number': next(g), 'width': w, 'signed': rng.random() < 0.5}

    def from_model(self, vals):
        a = {k: by_stem(vals, k) for k in ('number', 'width', 'signed')}
        return a if all(v is not None for v in a.values()) and abs(a['width']) < 4096 else None

    def run(self, C, a):
        from construct.lib import binary
        n, w, s = a['number'], a['width'], a['signed']
        got = outcome(binary.integer2bytes, n, w, s)
        lo, hi = (-(2 ** (8 * w - 1)), 2 ** (8 * w - 1) - 1) if (s and w >= 1) else (0, 2 ** (8 * max(w, 0)) - 1)
        if w < 1 or not lo <= n <= hi:
            return None if got[0] == 'err' and got[1] == 'ValueError' else 'expected ValueError, got %r' % (got[:2],)
        m = n % (256 ** w)
        exp = bytes((m >> (8 * (w - 1 - j))) & 255 for j in range(w))
        return None if got[:2] == ('ok', exp) else 'expected %r, got %r' % (exp, got[:2])


@oracle('construct.lib.binary:bytes2integer')
class BY2I:
    def gen(self, rng):
        for _ in range(100000):
            n = rng.choice([0, 1, 2, 3, 4, 8, 9, rng.randint(0, 20)])
            yield {'data': bytes(rng.choice([0, 1, 127, 128, 255, rng.randint(0, 255)]) for _ in range(n)), 'signed': rng.random() < 0.5}

    def from_model(self, vals):
        d, s = by_stem(vals, 'data_arr'), by_stem(vals, 'signed')
        return None if d is None or s is None else {'data': bytes(x % 256 for x in d), 'signed': s}

    def run(self, C, a):
        from construct.lib import binary
        d, s = a['data'], a['signed']
        got = outcome(binary.bytes2integer, d, s)
        if not d:
            return None if got[0] == 'err' and got[1] == 'ValueError' else 'expected ValueError on empty data, got %r' % (got[:2],)
        v = sum(b << (8 * (len(d) - 1 - i)) for i, b in enumerate(d))
        if s and d[0] >= 128:
            v -= 1 << (8 * len(d))
        return None if got[:2] == ('ok', v) else 'expected %r, got %r' % (v, got[:2])


@oracle('construct.lib.binary:swapbytes')
class SWB:
    def gen(self, rng):
        for _ in range(100000):
            yield {'data': bytes(rng.randint(0, 255) for _ in range(rng.randint(0, 20)))}

    def from_model(self, vals):
        d = by_stem(vals, 'data_arr')
        return None if d is None else {'data': bytes(x % 256 for x in d)}

    def run(self, C, a):
        from construct.lib import binary
        got = outcome(binary.swapbytes, a['data'])
        exp = bytes(reversed(a['data']))
        return None if got[:2] == ('ok', exp) else 'expected %r, got %r' % (exp, got[:2])


@oracle('construct.lib.py3compat:byte2int')
class B2INT:
    def gen(self, rng):
        for _ in range(1000):
            yield {'character': bytes(rng.randint(0, 255) for _ in range(rng.randint(0, 3)))}

    def from_model(self, vals):
        d = by_stem(vals, 'character_arr')
        return None if d is None else {'character': bytes(x % 256 for x in d)}

    def run(self, C, a):
        from construct.lib import py3compat
        got = outcome(py3compat.byte2int, a['character'])
        if not a['character']:
            return None if got[0] == 'err' and got[1] == 'IndexError' else 'expected IndexError'
        return None if got[:2] == ('ok', a['character'][0]) else 'expected %r, got %r' % (a['character'][0], got[:2])


# ------------------------------------------------------------------------------------------------ primitives (C03)
def parse_outcome(C, con, data, pos, **ctx):
    s = io.BytesIO(data)
    s.seek(pos)
    try:
        v = con.parse_stream(s, **ctx)
        return ('ok', v, s.tell())
    except C.StreamError:
        return ('err', 'StreamError')
    except C.ConstructError as e:
        return ('err', 'ConstructError', type(e).__name__)
    except Exception as e:  # noqa
        return ('err', 'FOREIGN', type(e).__name__)


def build_outcome(C, con, obj, **ctx):
    try:
        return ('ok', con.build(obj, **ctx))
    except C.ConstructError as e:
        return ('err', 'ConstructError', type(e).__name__)
    except Exception as e:  # noqa
        return ('err', 'FOREIGN', type(e).__name__)


def stream_from_model(vals, cap=48):
    buf, ln, pos = by_stem(vals, 'stream_buf'), by_stem(vals, 'stream_len'), by_stem(vals, 'stream_pos')
    if buf is None or ln is None or pos is None or ln > cap or pos > cap:
        return None
    return bytes(x % 256 for x in buf[:ln]).ljust(ln, b'\x00'), pos


def obj_from_model(vals):
    v = by_stem(vals, 'obj')
    if isinstance(v, tuple):
        return {'bytes': b'x', 'str': 'x', 'opaque': [1]}[v[0]]
    return v


def leb_ref_parse(data, pos):
    acc = 0
    shift = 0
    i = pos
    while True:
        if i >= len(data):
            return ('err', 'StreamError')
        b = data[i]
        acc |= (b & 127) << shift
        shift += 7
        i += 1
        if b < 128:
            return ('ok', acc, i)


def leb_ref_build(x):
    out = bytearray()
    while True:
        g = x & 127
        x >>= 7
        if x:
            out.append(g | 128)
        else:
            out.append(g)
            return bytes(out)


class ParseOracle:
    construct_name = None

    def con(self, C):
        return getattr(C, self.construct_name)

    def gen(self, rng):
        for _ in range(100000):
            n = rng.randint(0, 12)
            data = bytes(rng.choice([0, 1, 127, 128, 129, 255, rng.randint(0, 255)]) for _ in range(n))
            yield {'data': data, 'pos': rng.randint(0, n + 1)}

    def from_model(self, vals):
        s = stream_from_model(vals)
        return None if s is None else {'data': s[0], 'pos': s[1]}

    def run(self, C, a):
        got = parse_outcome(C, self.con(C), a['data'], a['pos'])
        exp = self.ref(a['data'], a['pos'])
        if exp[0] == 'err':
            return None if got[:2] == exp[:2] else 'expected %r, got %r' % (exp, got)
        return None if got == exp else 'expected %r, got %r' % (exp, got)


class BuildOracle:
    construct_name = None

    def con(self, C):
        return getattr(C, self.construct_name)

    def gen(self, rng):
        g = ints_biased(rng)
        for _ in range(100000):
            yield {'obj': next(g) if rng.random() < 0.9 else rng.choice([None, b'x', 'x', True, False])}

    def from_model(self, vals):
        return {'obj': obj_from_model(vals)}

    def run(self, C, a):
        got = build_outcome(C, self.con(C), a['obj'])
        exp = self.ref(a['obj'])
        if exp[0] == 'err':
            return None if got[0] == 'err' and got[1] == 'ConstructError' else 'expected a ConstructError, got %r' % (got,)
        return None if got == exp else 'expected %r, got %r' % (exp, got)


@oracle('construct.core:VarInt._parse')
class VarIntParse(ParseOracle):
    construct_name = 'VarInt'

    def ref(self, data, pos):
        return leb_ref_parse(data, pos)


@oracle('construct.core:VarInt._build')
class VarIntBuild(BuildOracle):
    construct_name = 'VarInt'

    def ref(self, obj):
        if not isinstance(obj, int) or obj < 0:
            return ('err',)
        return ('ok', leb_ref_build(int(obj)))


@oracle('construct.core:ZigZag._parse')
class ZigZagParse(ParseOracle):
    construct_name = 'ZigZag'

    def ref(self, data, pos):
        r = leb_ref_parse(data, pos)
        if r[0] == 'err':
            return r
        u = r[1]
        return ('ok', (u >> 1) if u % 2 == 0 else -((u >> 1) + 1), r[2])


@oracle('construct.core:ZigZag._build')
class ZigZagBuild(BuildOracle):
    construct_name = 'ZigZag'

    def ref(self, obj):
        if not isinstance(obj, int):
            return ('err',)
        x = int(obj)
        return ('ok', leb_ref_build(2 * x if x >= 0 else -2 * x - 1))


@oracle('construct.core:Flag._parse')
class FlagParse(ParseOracle):
    construct_name = 'Flag'

    def ref(self, data, pos):
        if pos >= len(data):
            return ('err', 'StreamError')
        return ('ok', data[pos] != 0, pos + 1)


@oracle('construct.core:Flag._build')
class FlagBuild(BuildOracle):
    construct_name = 'Flag'

    def ref(self, obj):
        return ('ok', b'\x01' if obj else b'\x00')


@oracle('construct.core:GreedyBytes._parse')
class GreedyBytesParse(ParseOracle):
    construct_name = 'GreedyBytes'

    def ref(self, data, pos):
        return ('ok', data[pos:], max(pos, len(data)) if pos <= len(data) else pos)
