"""C16: LazyStruct._parse establishes the representation invariant of its result (contracts/lazy.py) and records, for every
member, the offset at which an eager Struct parse of the same data would find it.  Same specification as for LazyArray
(contracts/lazyarray.py), with member j of the member list in place of the one element construct."""
from pyvc import terms as t, prelude
from pyvc.terms import I, S
from pyvc.values import *  # noqa
from pyvc.contract import Case, rk_dyn
from pyvc.exec import LoopSpec
from .prims import fcontract, S_, generic_raise, buffer_same
from .composites import _base, _addr, _le, child_of
from .lazyarray import REF, _vint, _dict_terms

T = ('C16',)


def define_folds(src):
    prelude.define('lzspos', """(define-fun-rec lzspos ((sl Int) (j Int) (p0 Int) (buf (Array Int Int)) (len Int) (base Int) (H (Array Int (Array String Val))) (D (Array Int (Array String Bool))) (c Int)) Int
  (ite (<= j 0) p0 (lzstep_pos (sl_at sl (- j 1)) (lzspos sl (- j 1) p0 buf len base H D c) buf len base H D c)))""", deps=['lzstep_pos', 'sl_at'])
    prelude.define('lzsok', """(define-fun-rec lzsok ((sl Int) (j Int) (p0 Int) (buf (Array Int Int)) (len Int) (base Int) (H (Array Int (Array String Val))) (D (Array Int (Array String Bool))) (c Int)) Bool
  (ite (<= j 0) true (and (lzsok sl (- j 1) p0 buf len base H D c) (lzstep_ok (sl_at sl (- j 1)) (lzspos sl (- j 1) p0 buf len base H D c) buf len base H D c))))""", deps=['lzstep_ok', 'lzspos', 'sl_at'])


def _sl(pre):
    return pre.self.fields['subcons'].ident


def lzspos(pre, j):
    o = S_(pre)
    return t.app('lzspos', t.INT, _sl(pre), j, o.pos, o.buf, o.len, _base(o), *REF)


def lzsok(pre, j):
    o = S_(pre)
    return t.app('lzsok', t.BOOL, _sl(pre), j, o.pos, o.buf, o.len, _base(o), *REF)


def _at(pre, fn, sort, j, p):
    o = S_(pre)
    return t.app(fn, sort, t.app('sl_at', t.INT, _sl(pre), j), o.buf, o.len, p, _base(o), *REF)


def _unfold(pre, k):
    o = S_(pre)
    prev = lzspos(pre, t.sub(k, t.ONE))
    a = (t.app('sl_at', t.INT, _sl(pre), t.sub(k, t.ONE)), prev, o.buf, o.len, _base(o)) + REF
    return t.implies(t.ge(k, t.ONE), t.and_(t.eq(lzspos(pre, k), t.app('lzstep_pos', t.INT, *a)),
                                            t.eq(lzsok(pre, k), t.and_(lzsok(pre, t.sub(k, t.ONE)), t.app('lzstep_ok', t.BOOL, *a)))))


def scope_independence_of_members(sl):
    """hypothesis of C16 (no cross references), for every member of the list"""
    j = t.var('lzm!', t.INT)
    m = t.app('sl_at', t.INT, sl, j)
    buf, ln, base = t.var('lzb!', t.ARR), t.var('lzl!', t.INT), t.var('lzs!', t.INT)
    p, H, D, c = t.var('lzp!', t.INT), t.var('lzH!', 'Heap'), t.var('lzD!', 'Dom'), t.var('lzc!', t.INT)
    out = []
    for fn, sort in (('P_ok', t.BOOL), ('P_val', t.VAL), ('P_end', t.INT), ('P_exc', t.INT), ('A_ok', t.BOOL), ('A_val', t.INT), ('A_exc', t.INT)):
        a = t.app(fn, sort, m, buf, ln, p, base, H, D, c)
        b = t.app(fn, sort, m, buf, ln, p, base, *REF)
        out.append(t.forall([j, buf, ln, p, base, H, D, c], t.eq(a, b), pats=[[a]]))
    return t.and_(*out)


def offsets_clause(pre, has, get, k):
    o = S_(pre)
    j = t.var('lzj!', t.INT)
    inr = t.and_(t.le(t.ZERO, j), t.le(j, k))
    return t.and_(t.forall([j], t.implies(inr, t.and_(t.T(t.BOOL, 'select', (has, _vint(j))), t.eq(t.T(t.VAL, 'select', (get, _vint(j))), _vint(t.add(lzspos(pre, j), _base(o)))),
                                                      t.ge(lzspos(pre, j), t.ZERO))),
                           pats=[[t.T(t.BOOL, 'select', (has, _vint(j)))], [t.T(t.VAL, 'select', (get, _vint(j)))]]),
                  t.forall([j], t.implies(t.T(t.BOOL, 'select', (has, _vint(j))), inr), pats=[[t.T(t.BOOL, 'select', (has, _vint(j)))]]))


def values_clause(pre, has, get, k):
    j = t.var('lzv!', t.INT)
    p = lzspos(pre, j)
    return t.forall([j], t.implies(t.T(t.BOOL, 'select', (has, _vint(j))),
                                   t.and_(t.le(t.ZERO, j), t.lt(j, k), _at(pre, 'P_ok', t.BOOL, j, p), t.eq(t.T(t.VAL, 'select', (get, _vint(j))), _at(pre, 'P_val', t.VAL, j, p)))),
                    pats=[[t.T(t.BOOL, 'select', (has, _vint(j)))]])


def _inv(L):
    pre = L.extra['pre']
    o0 = pre.obj('stream')
    if o0.model == 'adv':
        return []
    o = L.obj('stream')
    eng = L.eng
    oh, og = _dict_terms(eng, L.st, L.st.env['offsets'])
    vh, vg = _dict_terms(eng, L.st, L.st.env['values'])
    off = L['offset']
    hints = [_unfold(pre, L.k)] if L.k.op != 'int' else []
    return [('after-k-members-the-stream-stands-where-member-k-starts', t.and_(lzsok(pre, L.k), t.eq(o.pos, lzspos(pre, L.k)), t.eq(eng.as_int(off, L.st)[0], t.add(lzspos(pre, L.k), _base(o0))),
                                                                             t.eq(o.buf, o0.buf), t.eq(o.len, o0.len)), None, hints),
            ('offsets-records-where-every-member-so-far-starts', offsets_clause(pre, oh, og, L.k)),
            ('values-caches-what-the-parsed-members-yield-at-their-offsets', values_clause(pre, vh, vg, L.k)),
            ('scope-keeps-its-identity', t.eq(_addr(L.st, 'context'), _addr(L.entry, 'context')))]


def _ok(pre, post):
    o, o2 = S_(pre), post.obj('stream')
    n = t.app('sl_len', t.INT, _sl(pre))
    r = post.st.get(post.result) if isinstance(post.result, VRef) else None
    out = [('every-member-was-skipped-by-its-actual-size-or-parsed', lzsok(pre, n), T),
           ('stream-stands-where-a-member-after-the-last-would-start', t.eq(o2.pos, lzspos(pre, n)), T),
           ('buffer-unchanged', buffer_same(pre, post), ('C17', 'C16'))]
    if r is None or not hasattr(r, 'fields'):
        if getattr(post.eng.models, 'ghost_mode', False):
            return out
        return out + [('returns-a-lazy-container', t.FALSE, T)]
    f = r.fields
    oh, og = _dict_terms(post.eng, post.st, f['_offsets'])
    vh, vg = _dict_terms(post.eng, post.st, f['_values'])
    st_ = f['_struct']
    out += [('the-result-knows-its-struct', t.eq(st_.fields['subcons'].ident, _sl(pre)) if isinstance(st_, VObj) and 'subcons' in st_.fields else t.FALSE, T),
            ('offsets-records-where-every-member-starts', offsets_clause(pre, oh, og, n), T),
            ('values-caches-what-the-parsed-members-yield-at-their-offsets', values_clause(pre, vh, vg, n), T)]
    return out


def _bad(pre, post):
    out = list(generic_raise(pre, post))
    if pre.obj('stream').model == 'adv':
        return out
    n = t.app('sl_len', t.INT, _sl(pre))
    kk = post.st.ghost.get('loop_k')
    ghost_mode = getattr(post.eng.models, 'ghost_mode', False)
    if kk is None or ghost_mode:
        if not ghost_mode:
            return out
        kk = fresh('failed_member', t.INT)
    out.append(('a-failure-is-a-member-that-could-neither-be-skipped-nor-parsed', t.and_(t.le(t.ZERO, kk), t.lt(kk, n), t.not_(lzsok(pre, t.add(kk, t.ONE)))), T,
                [('def', _unfold(pre, t.add(kk, t.ONE)))]))
    return out


def rk_lazycontainer(eng, st, pre):
    offs = st.alloc(ODict(has=fresh('res_offsets_has', 'VMapHas'), get=fresh('res_offsets_get', 'VMapGet')), 'dict')
    vals = st.alloc(ODict(has=fresh('res_values_has', 'VMapHas'), get=fresh('res_values_get', 'VMapGet')), 'dict')
    fields = {'_struct': pre.self, '_stream': pre.args['stream'], '_offsets': offs, '_values': vals, '_context': pre.args['context'], '_path': pre.args['path']}
    return st.alloc(OObject('LazyContainer', fields), 'object')


def register_lazystruct(src):
    define_folds(src)
    fcontract('LazyStruct', '_parse', [
        Case('ok', 'return', lambda pre: t.TRUE, ensures=_ok, rkind=rk_lazycontainer, modifies=['stream']),
        Case('fails', 'raise', lambda pre: t.TRUE, ensures=_bad, modifies=['stream']),
    ], loops={'for (i, sc) in enumerate(self.subcons)': LoopSpec(_inv, tags=T, modifies=())}, tags=T,
        requires=lambda pre: [('hypothesis: parsing a member and asking its size do not depend on the scope', scope_independence_of_members(_sl(pre)))])
