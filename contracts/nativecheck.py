"""Contract-driven native checking of class methods on the real code (replay / directed search).

For a contract built with method_setup: choose concrete values for every input symbol (stream bytes and position, value to
build, parameters, stub sub-constructs taken from the real library), instantiate the REAL class, call the REAL method, and
evaluate the contract's guards and ensures clauses natively (pyvc/native.py) with the interface functions interpreted by
running the real stub sub-constructs.  Returns a description of the first violated clause, or None.
"""
import os
import io
import random

from pyvc import terms as t
from pyvc import native
from pyvc.native import Arr, Evaluator, Unsupported, val_of, py_of
from pyvc.values import *  # noqa
from pyvc.state import State, OutOfReach
from pyvc.exec import Engine
from pyvc.contract import View
from pyvc.models import CallModels
from pyvc.constructs import ConstructInterface, VSubList
from pyvc import contract as _contract
from . import classes as cc


def stub_pool(C, int_only=False):
    pool = [('Byte', C.Byte), ('Int16ub', C.Int16ub), ('VarInt', C.VarInt), ('Int8sb', C.Int8sb), ("'m'/Int16ub", 'm' / C.Int16ub)]
    if not int_only:
        pool += [('GreedyBytes', C.GreedyBytes), ('Bytes2', C.Bytes(2)), ('Pass', C.Pass), ('Flag', C.Flag), ('Tell', C.Tell),
                 ('Error', C.Error), ('Bytes0', C.Bytes(0)), ('CStringAscii', C.CString('ascii')), ('Const', C.Const(b'\x07'))]
    return pool


def fresh_context(C, kind):
    ctx = C.Container(_parsing=(kind == 'parse'), _building=(kind in ('build', 'encode')), _sizing=(kind == 'sizeof'))
    ctx._params = ctx
    return ctx


def rand_value(rng):
    return rng.choice([None, 0, 1, -1, 5, 127, 128, 255, 256, 70000, -129, True, False, b'', b'\x00', b'ab', b'\x07', 'x', '', rng.randint(-2 ** 40, 2 ** 40)])


class Unsuitable(Exception):
    pass


class NativeCase:
    def __init__(self, contract, src, C, rng, model='bytesio', variant=None):
        self.c, self.src, self.C, self.rng, self.model, self.variant = contract, src, C, rng, model, variant
        self.env = {}
        self.stubs = {}
        self.params = {}
        self.described = {}
        self.maps = {}

    # ------------------------------------------------------------------ symbolic setup (same as verification)
    def setup(self):
        from pyvc import values as _values
        _values._counter[0] = 0
        models = CallModels(self.src, contracts=_contract.REGISTRY, stream_mode=self.model)
        models.interface = ConstructInterface(models)
        if self.c.iface:
            models.interface.configure(**self.c.iface)
        eng = Engine(self.src, models, fnname=self.c.qual.split(':')[1])
        eng.variant = self.variant
        st = State()
        node = self.src.find(self.c.qual)
        selfv, args = self.c.setup(eng, st, node, self.model)
        self.eng, self.st, self.selfv, self.args, self.node = eng, st, selfv, args, node
        allargs = dict(args)
        if selfv is not None:
            allargs['self'] = selfv
        self.pre = View(eng, st.clone(), selfv, allargs)
        self.requires = [c for _, c in self.c.requires(self.pre)]

    # ------------------------------------------------------------------ concrete choices
    def name_of(self, term):
        assert term.op == 'var', term
        return term.args[0].strip('|')

    def choose(self):
        C, rng, env = self.C, self.rng, self.env
        real_args = {}
        kind = cc.KIND_OF.get(self.c.qual.split('.')[-1], 'parse')
        self.kind = kind
        # self
        real_self = None
        if isinstance(self.selfv, VObj):
            cls = getattr(C.core, self.selfv.cls) if hasattr(C, 'core') else None
            import construct.core as core
            cls = getattr(core, self.selfv.cls)
            if not isinstance(cls, type):
                cls = type(cls)          # singleton instance
            real_self = object.__new__(cls)
            core.Construct.__init__(real_self)
            for fname, fv in self.selfv.fields.items():
                setattr(real_self, fname, self.concretize_field(fname, fv))
            real_self.flagbuildnone = bool(getattr(real_self, 'flagbuildnone', False))
        elif self.selfv is not None:
            raise Unsuitable('self kind')
        # arguments
        for an, av in self.args.items():
            if isinstance(av, VRef):
                o = self.st.get(av)
                if isinstance(o, OStream):
                    if o.model not in ('bytesio',):
                        raise Unsuitable('stream model')
                    n = rng.randint(0, 10)
                    data = bytes(rng.choice([0, 1, 2, 7, 127, 128, 255, rng.randint(0, 255)]) for _ in range(n))
                    pos = rng.choice([0, 0, 0, rng.randint(0, n + 1)])
                    env[self.name_of(o.buf)] = Arr.of_bytes(data)
                    env[self.name_of(o.len)] = n
                    env[self.name_of(o.pos)] = pos
                    s = io.BytesIO(data)
                    s.seek(pos)
                    real_args[an] = s
                    self.described[an] = (data, pos)
                elif isinstance(o, OContainer):
                    env[self.name_of(o.addr)] = 1
                    real_args[an] = fresh_context(C, kind)
                else:
                    raise Unsuitable('argument object')
            elif isinstance(av, VStr):
                env[self.name_of(av.t)] = '(replay)'
                real_args[an] = '(replay)'
            elif isinstance(av, VDyn):
                v = rand_value(rng)
                env[self.name_of(av.t)] = val_of(v)
                real_args[an] = v
                self.described[an] = v
            elif isinstance(av, VInt):
                v = rng.randint(-3, 12)
                env[self.name_of(av.t)] = v
                real_args[an] = v
            else:
                raise Unsuitable('argument kind %s' % av.kind)
        # ghost
        for k in ('H', 'D'):
            if k in self.st.ghost and self.st.ghost[k].op == 'var':
                env[self.name_of(self.st.ghost[k])] = HEAP
        if 'alloc' in self.st.ghost and self.st.ghost['alloc'].op == 'var':
            env[self.name_of(self.st.ghost['alloc'])] = 100
        if 'other' in self.st.ghost:
            env[self.name_of(self.st.ghost['other'])] = 2
        self.real_self, self.real_args = real_self, real_args

    def concretize_field(self, fname, fv):
        C, rng, env = self.C, self.rng, self.env
        if isinstance(fv, VSub):
            pool = stub_pool(C, int_only=(getattr(fv, 'returns', None) == 'int'))
            nm, stub = rng.choice(pool)
            ident = len(self.stubs) + 10
            env[self.name_of(fv.ident)] = ident
            self.stubs[ident] = stub
            self.described[fname] = nm
            return stub
        if isinstance(fv, VParam) and fv.const is not None and isinstance(fv.const, VInt) and fv.const.t.op == 'int' and fv.callable_t.op == 'bool':
            # a parameter fixed by the variant under verification
            v = fv.const.t.args[0]
            env[self.name_of(fv.ident)] = len(self.params) + 500
            self.params[env[self.name_of(fv.ident)]] = v
            self.described[fname] = v
            return v
        if isinstance(fv, VParam):
            pk = fv.pkind
            if pk in ('int', 'modulus'):
                v = rng.choice([-1, 0, 1, 2, 3, 4, 5, 8, rng.randint(0, 12)])
            elif pk == 'bool':
                v = rng.choice([True, False])
            elif pk in ('none', 'optstream'):
                v = None
                if pk == 'optstream' and 'redirected' in self.st.ghost:
                    env[self.name_of(self.st.ghost['redirected'])] = False
            elif pk == 'str':
                v = 'x'
            elif pk == 'xorpad':
                v = rng.choice([0, 1, 255, b'\x00', b'\x01\x02', b'\xff', bytes(70)])
            else:
                v = rand_value(rng)
            env[self.name_of(fv.ident)] = len(self.params) + 500
            callable_ = rng.random() < 0.3
            env[self.name_of(fv.callable_t)] = callable_
            self.params[env[self.name_of(fv.ident)]] = v
            const = self.eng.models.interface.param_const(self.eng, fv, self.st)
            self.bind_value(const, v)
            self.described[fname] = ('lambda ctx: %r' % (v,)) if callable_ else v
            return (lambda ctx, _v=v: _v) if callable_ else v
        if type(fv).__name__ == 'VMap' and getattr(fv, 'values', None) in ('int', 'dyn') and self.c.qual.endswith('._encode'):
            # (encode side only: there the supplied object may be anything; the decode contracts are stated for the integers the wrapped
            # field yields and for result containers this evaluator does not represent faithfully)
            # a label table of the construct: a small real dict; the uninterpreted map functions of the contract are read off it
            labels = ['a', 'b', 'zz', '_x']
            if rng.random() < 0.3:
                d = {rng.choice([0, 1, 2, 7]): rng.choice(labels) for _ in range(rng.randint(0, 3))}
            else:
                d = {lab: rng.choice([0, 1, 2, 3, 7, 128]) for lab in rng.sample(labels, rng.randint(0, 3))}
            mid = 900 + len(self.maps)
            self.maps[mid] = d
            env[self.name_of(fv.ident)] = mid
            self.described[fname] = d
            return dict(d)
        if isinstance(fv, VBytes):
            n = fv.len.args[0] if fv.len.op == 'int' else rng.randint(0, 3)
            b = bytes(rng.choice([0, 0, 32, 255, rng.randint(0, 255)]) for _ in range(n))
            self.bind_value(fv, b)
            self.described[fname] = b
            return b
        if isinstance(fv, VBool):
            b = rng.random() < 0.5
            if fv.t.op == 'var':
                env[self.name_of(fv.t)] = b
            else:
                b = fv.t.args[0]
            self.described[fname] = b
            return b
        if isinstance(fv, VInt):
            if fv.t.op == 'int':
                return fv.t.args[0]
            v = rng.randint(0, 8)
            env[self.name_of(fv.t)] = v
            return v
        if isinstance(fv, VStr):
            if fv.t is not None and fv.t.op == 'strlit':
                return fv.t.args[0]
            if fv.t is not None:
                env[self.name_of(fv.t)] = 'ascii'
            return 'ascii'
        if isinstance(fv, VNone):
            return None
        if isinstance(fv, VDyn):
            if fv.t.op == 'var':
                nm = self.name_of(fv.t)
                if 'name' in nm:
                    v = self.rng.choice([None, 'field'])
                elif 'opq' in nm:
                    v = None
                    env[nm] = ('VOpq', 0, None)
                    return None
                elif 'filename' in nm:
                    # never an int: open(<int>) adopts and later CLOSES that file descriptor (a random 1 closed the checker's stdout)
                    import tempfile
                    v = os.path.join(tempfile.gettempdir(), 'pyvc_native_%d.bin' % os.getpid())
                    open(v, 'wb').write(b'\x00\x01\x02\x03')
                else:
                    v = rand_value(rng)
                    if rng.random() < 0.15 and hasattr(getattr(self.C, 'core', None), 'EnumIntegerString'):
                        # a label object as Enum.parse returns it (a str carrying an integer): the label counts, not the carried integer
                        v = self.C.core.EnumIntegerString.new(rng.choice([0, 1, 2, 7]), rng.choice(['a', 'b', 'zz', 'seven']))
                env[nm] = val_of(v)
                self.described[fname] = v
                return v
            if fv.t.op == 'VOpq':
                for x in fv.t.args:
                    if x.op == 'var':
                        env[self.name_of(x)] = 0
                return None
        raise Unsuitable('field %s of kind %s' % (fname, fv.kind))

    def bind_value(self, sym, py):
        env = self.env
        if isinstance(sym, VInt) and sym.t.op == 'var':
            env[self.name_of(sym.t)] = int(py) if isinstance(py, int) else 0
        elif isinstance(sym, VBool) and sym.t.op == 'var':
            env[self.name_of(sym.t)] = bool(py)
        elif isinstance(sym, VDyn) and sym.t.op == 'var':
            env[self.name_of(sym.t)] = val_of(py)
        elif isinstance(sym, VStr) and sym.t is not None and sym.t.op == 'var':
            env[self.name_of(sym.t)] = py if isinstance(py, str) else ''
        elif isinstance(sym, VBytes):
            b = py if isinstance(py, bytes) else b''
            if sym.arr.op == 'var':
                env[self.name_of(sym.arr)] = Arr.of_bytes(b)
            if sym.off.op == 'var':
                env[self.name_of(sym.off)] = 0
            if sym.len.op == 'var':
                env[self.name_of(sym.len)] = len(b)

    # ------------------------------------------------------------------ interpretation of the interface functions
    def funcs(self):
        C = self.C

        def code_of(e):
            n = type(e).__name__
            return self.src.exc_code.get(n, self.src.exc_code['OtherConstructError' if isinstance(e, C.ConstructError) else 'ForeignError'])

        memo = {}

        def run_parse(ev, sc, buf, ln, pos, base, H, D, c):
            key = ('p', sc, tuple(buf.get(i) for i in range(max(ln, 0))), ln, pos, base)
            if key not in memo:
                data = bytes(buf.get(i) % 256 for i in range(max(ln, 0)))
                s = C.core.BytesIOWithOffsets(data, None, base) if base else io.BytesIO(data)
                s.seek(pos + base if base else pos)
                try:
                    v = self.stubs[sc]._parsereport(s, fresh_context(C, 'parse'), '(replay)')
                    memo[key] = (True, val_of(v), s.tell() - base, 0)
                except C.ConstructError as e:
                    memo[key] = (False, ('VNone',), 0, code_of(e))
            return memo[key]

        def run_build(ev, sc, obj, pos, H, D, c):
            try:
                pv = py_of(obj)
            except Unsupported:
                pv = None
            key = ('b', sc, repr(pv), pos)
            if key not in memo:
                s = io.BytesIO(bytes(max(pos, 0)))
                s.seek(max(pos, 0))
                try:
                    r = self.stubs[sc]._build(pv, s, fresh_context(C, 'build'), '(replay)')
                    out = s.getvalue()[max(pos, 0):]
                    memo[key] = (True, val_of(r), Arr.of_bytes(out), len(out), 0)
                except C.ConstructError as e:
                    memo[key] = (False, ('VNone',), Arr(), 0, code_of(e))
                except Exception as e:   # value of a wrong type for this stub: treated as a failed build
                    memo[key] = (False, ('VNone',), Arr(), 0, self.src.exc_code['ForeignError'])
            return memo[key]

        def run_sizeof(ev, sc, H, D, c):
            key = ('z', sc)
            if key not in memo:
                try:
                    memo[key] = (True, self.stubs[sc]._sizeof(fresh_context(C, 'sizeof'), '(replay)'))
                except C.ConstructError:
                    memo[key] = (False, 0)
            return memo[key]

        def heapfn(*a):
            return HEAP        # stub sub-constructs are context-independent: the heap is opaque here
        f = {
            'P_ok': lambda ev, *a: run_parse(ev, *a)[0], 'P_val': lambda ev, *a: run_parse(ev, *a)[1], 'P_end': lambda ev, *a: run_parse(ev, *a)[2],
            'P_exc': lambda ev, *a: run_parse(ev, *a)[3], 'P_H': heapfn, 'P_D': heapfn,
            'B_ok': lambda ev, *a: run_build(ev, *a)[0], 'B_ret': lambda ev, *a: run_build(ev, *a)[1], 'B_bytes': lambda ev, *a: run_build(ev, *a)[2],
            'B_len': lambda ev, *a: run_build(ev, *a)[3], 'B_exc': lambda ev, *a: run_build(ev, *a)[4], 'B_H': heapfn, 'B_D': heapfn,
            'Z_ok': lambda ev, *a: run_sizeof(ev, *a)[0], 'Z_val': lambda ev, *a: run_sizeof(ev, *a)[1],
            'sc_name': lambda ev, sc: ('VNone',), 'sc_fbn': lambda ev, sc: bool(self.stubs[sc].flagbuildnone),
            'ev_int': lambda ev, p, H, D, c: int(self.params[p]) if isinstance(self.params[p], int) else 0,
            'ev_val': lambda ev, p, H, D, c: val_of(self.params[p]),
            'ev_raises': lambda ev, p, H, D, c: False,
            'tostr': lambda ev, v: str(py_of(v)),
            'map_has': lambda ev, m, k: _map_has(self.maps, m, k), 'map_get': lambda ev, m, k: _map_get(self.maps, m, k),
            'f_dec': self.f_dec, 'f_packable': self.f_packable,
        }
        return f

    def f_dec(self, ev, code, arr, off):
        import struct
        w = code // 10
        fmt = ('<' if code % 10 else '>') + {2: 'e', 4: 'f', 8: 'd'}[w]
        v = struct.unpack(fmt, bytes(arr.get(off + i) % 256 for i in range(w)))[0]
        return val_of(v)

    def f_packable(self, ev, code, v):
        import struct
        w = code // 10
        fmt = ('<' if code % 10 else '>') + {2: 'e', 4: 'f', 8: 'd'}[w]
        try:
            struct.pack(fmt, py_of(v))
            return True
        except Exception:
            return False

    # ------------------------------------------------------------------ run and judge
    def run(self):
        C = self.C
        self.setup()
        try:
            self.choose()
        except (Unsuitable, AssertionError) as e:
            return ('unsuitable', str(e))
        ev = Evaluator(self.env, self.funcs())
        try:
            for c in self.st.pc + self.requires:
                if c.op == 'forall':
                    continue
                if not ev.ev(c):
                    return ('resample', None)
        except Unsupported:
            pass
        meth = getattr(self.real_self, self.node.name)
        names = [a.arg for a in self.node.args.args[1:]]
        call_args = [self.real_args[n] for n in names]
        import signal

        class _Timeout(BaseException):
            pass

        def _alarm(signum, frame):
            raise _Timeout()
        old = signal.signal(signal.SIGALRM, _alarm)
        signal.setitimer(signal.ITIMER_REAL, 1.0)
        try:
            res = ('return', meth(*call_args))
        except _Timeout:
            # the real method did not return within a second on a ten-byte input (e.g. a repeater over a zero-width element)
            return ('timeout', 'no result within 1 s; ' + self.describe(('timeout', None)))
        except Exception as e:      # noqa
            res = ('raise', e)
            if not isinstance(e, C.ConstructError) and self.raised_inside_stub(e):
                # a stub sub-construct raised a foreign exception for this value (e.g. len() of an int): the sample violates
                # the interface assumption on sub-constructs, it says nothing about the class under check
                return ('unsuitable', 'stub raised a foreign exception')
        finally:
            signal.setitimer(signal.ITIMER_REAL, 0)
            signal.signal(signal.SIGALRM, old)
        kind = res[0]
        if kind == 'raise' and isinstance(res[1], C.ConstructError):
            # C18 (derived_path_clause): an error raised by a raise statement of this method while handling a member's
            # ConstructError keeps the member's path
            e = res[1]
            old_e = e.__context__
            tb = e.__traceback__
            while tb is not None and tb.tb_next is not None:
                tb = tb.tb_next
            direct = tb is not None and tb.tb_frame.f_code is getattr(meth, '__func__', meth).__code__
            if direct and isinstance(old_e, C.ConstructError) and isinstance(old_e.path, str):
                if not (isinstance(e.path, str) and e.path.startswith(old_e.path)):
                    return ('violation', 'raised %s with path %r while handling a member\'s %s whose path was %r (the failing member is no longer named); %s'
                            % (type(e).__name__, e.path, type(old_e).__name__, old_e.path, self.describe(res)))
        cases = [c for c in self.c.cases_for(self.pre) if c.kind == kind]
        try:
            allowed = [c for c in cases if ev.ev(c.guard(self.pre))]
            others = [c for c in self.c.cases_for(self.pre) if c.kind != kind and ev.ev(c.guard(self.pre))]
        except Unsupported as e:
            return ('unsupported', str(e))
        inputs = self.describe(res)
        if not allowed:
            return ('violation', 'the contract does not allow this outcome here (it prescribes: %s); %s' % ([c.name for c in others], inputs))
        # post view
        post, penv = self.post_view(res)
        ev.env.update(penv)
        for c in allowed:
            try:
                clauses = c.ensures(self.pre, post)
            except Exception as e:      # clause construction needs something the concrete run does not provide
                continue
            if kind == 'raise' and c.exc:
                nm = type(res[1]).__name__
                if nm not in c.exc:
                    return ('violation', 'raised %s, the contract prescribes %s; %s' % (nm, c.exc, inputs))
            for cl in clauses:
                try:
                    ok = ev.ev(cl[1])
                except Unsupported:
                    continue
                if not ok:
                    return ('violation', 'clause %r of case %r is false on the real code; %s' % (cl[0], c.name, inputs))
        return ('ok', None)

    def raised_inside_stub(self, e):
        tb = e.__traceback__
        stubs = set(id(x) for x in self.stubs.values())
        while tb is not None:
            if id(tb.tb_frame.f_locals.get('self')) in stubs:
                return True
            tb = tb.tb_next
        return False

    def describe(self, res):
        out = dict(self.described)
        out['outcome'] = (res[0], repr(res[1])[:120])
        return 'inputs: ' + repr(out)

    def post_view(self, res):
        penv = {}
        st2 = self.st.clone()
        for an, av in self.args.items():
            if isinstance(av, VRef) and isinstance(st2.get(av), OStream):
                s = self.real_args[an]
                o = st2.get(av)
                nb, nl, npos = t.var('post_buf_' + an, t.ARR), t.var('post_len_' + an, t.INT), t.var('post_pos_' + an, t.INT)
                st2.put(av, o.replace(buf=nb, ln=nl, pos=npos))
                data = s.getvalue()
                penv['post_buf_' + an] = Arr.of_bytes(data)
                penv['post_len_' + an] = len(data)
                penv['post_pos_' + an] = s.tell()
        st2.ghost = dict(st2.ghost)
        if 'H' in st2.ghost:
            st2.ghost['H'] = t.var('post_H', 'Heap')
            st2.ghost['D'] = t.var('post_D', 'Dom')
        allargs = dict(self.args)
        if self.selfv is not None:
            allargs['self'] = self.selfv
        post = View(self.eng, st2, self.selfv, allargs)
        if res[0] == 'return':
            v = res[1]
            if isinstance(v, bool):
                post.result = VBool(t.var('post_res_b', t.BOOL))
                penv['post_res_b'] = v
            elif isinstance(v, int):
                post.result = VInt(t.var('post_res_i', t.INT))
                penv['post_res_i'] = int(v)
            elif isinstance(v, (bytes, bytearray)):
                post.result = VBytes(t.var('post_res_arr', t.ARR), t.var('post_res_off', t.INT), t.var('post_res_len', t.INT))
                penv['post_res_arr'], penv['post_res_off'] = Arr.of_bytes(bytes(v)), 0
                penv['post_res_len'] = len(v)
                # contracts state 'the result is the slice [pos, pos+n) of the buffer' structurally (same array, offset, length):
                # natively the result is bound as that view whenever its content is that slice
                for an, (data, pos) in [(k, d) for k, d in self.described.items() if isinstance(d, tuple) and len(d) == 2 and isinstance(d[0], bytes)]:
                    if data[pos:pos + len(v)] == bytes(v) and len(data[pos:pos + len(v)]) == len(v):
                        av = self.args.get(an)
                        if isinstance(av, VRef):
                            o = self.st.get(av)
                            penv['post_res_arr'], penv['post_res_off'] = self.env[self.name_of(o.buf)], pos
            else:
                post.result = VDyn(t.var('post_res_v', t.VAL))
                penv['post_res_v'] = val_of(v)
        else:
            e = res[1]
            nm = type(e).__name__
            code = self.src.exc_code.get(nm)
            if code is None:
                code = self.src.exc_code['OtherConstructError' if isinstance(e, self.C.ConstructError) else 'ForeignError']
            p = getattr(e, 'path', None)
            post.exc = VExc(t.I(code), VStr(t.S(p)) if isinstance(p, str) else NONE, origin='native')
        return post, penv


class HeapStub(dict):
    pass


HEAP = HeapStub()


def _map_key(k):
    try:
        pk = py_of(k)
        hash(pk)
        return True, pk
    except Exception:
        return False, None


def _map_has(maps, m, k):
    ok, pk = _map_key(k)
    return ok and m in maps and pk in maps[m]


def _map_get(maps, m, k):
    ok, pk = _map_key(k)
    if ok and m in maps and pk in maps[m]:
        return val_of(maps[m][pk])
    return ('VNone',)


def search(contract, src, C, rng, budget, model='bytesio', seconds=25, prefer=None):
    """-> (description of a violation | None, stats)"""
    import time
    stats = {'ok': 0, 'resample': 0, 'unsuitable': 0, 'unsupported': 0, 'timeout': 0}
    variants = contract.variants
    deadline = time.time() + seconds
    for i in range(budget):
        if time.time() > deadline or stats['timeout'] >= 5:
            break
        variant = rng.choice(variants)
        if prefer is not None and rng.random() < 0.7:
            variant = prefer
        nc = NativeCase(contract, src, C, rng, model, variant)
        try:
            verdict, detail = nc.run()
        except OutOfReach as e:
            verdict, detail = 'unsuitable', str(e)
        if verdict == 'violation':
            return detail, stats
        stats[verdict] = stats.get(verdict, 0) + 1
        if stats['unsuitable'] > 20 and stats['ok'] == 0:
            break
    return None, stats
