"""Directed native battery for C09 (stream positions of look-ahead / alternative constructs), used only to attach a failing
input to a failed obligation and as a labelled differential in the thorough tier.  Expected positions are computed from the
property statement, not from the code."""
import io


def cases(C):
    """yield (description, construct, data, start, expected final position, expected value or None to skip)"""
    B = C.Bytes
    data = bytes(range(1, 17))
    for start in (0, 3):
        # Union: every member from the same start; ends at start (None) or at the end of the selected member
        mem = dict(a=C.Byte, b=C.Int16ub, c=B(5))
        sizes = {'a': 1, 'b': 2, 'c': 5}
        for sel, exp in [(None, 0), (0, 1), (1, 2), (2, 5), ('a', 1), ('b', 2), ('c', 5), (lambda ctx: 'b', 2), (lambda ctx: 2, 5), (lambda ctx: None, 0)]:
            u = C.Union(sel, 'a' / C.Byte, 'b' / C.Int16ub, 'c' / B(5))
            yield 'Union(%r, a=Byte, b=Int16ub, c=Bytes(5)) at %d' % (sel if not callable(sel) else 'lambda', start), u, data, start, start + exp, None
        # Peek: position restored whether or not the inner parse succeeds
        yield 'Peek(Int32ub) at %d' % start, C.Peek(C.Int32ub), data, start, start, int.from_bytes(data[start:start + 4], 'big')
        yield 'Peek(Bytes(100)) at %d (inner fails)' % start, C.Peek(B(100)), data, start, start, None
        # Pointer: restored after processing at the absolute / end-relative target
        yield 'Pointer(7, Byte) at %d' % start, C.Pointer(7, C.Byte), data, start, start, data[7]
        yield 'Pointer(-2, Byte) at %d' % start, C.Pointer(-2, C.Byte), data, start, start, data[-2]
        # Select / Optional: end of the successful alternative from the start
        yield 'Select(Bytes(100), Int16ub) at %d' % start, C.Select(B(100), C.Int16ub), data, start, start + 2, int.from_bytes(data[start:start + 2], 'big')
        yield 'Select(Const(b"zz"), Bytes(3)) at %d' % start, C.Select(C.Const(b'zz'), B(3)), data, start, start + 3, data[start:start + 3]
        yield 'Optional(Bytes(100)) at %d' % start, C.Optional(B(100)), data, start, start, None
        yield 'Optional(Int8ub) at %d' % start, C.Optional(C.Int8ub), data, start, start + 1, data[start]
        # GreedyRange: end of the last successful element
        n = (len(data) - start) // 3
        yield 'GreedyRange(Bytes(3)) at %d' % start, C.GreedyRange(B(3)), data, start, start + 3 * n, [data[start + 3 * i:start + 3 * i + 3] for i in range(n)]
        yield 'GreedyRange(Const(b"\\x01")) at %d' % start, C.GreedyRange(C.Const(b'\x01')), data, start, start + (1 if start == 0 else 0), None
        # RawCopy: final position is the end of the inner parse
        yield 'RawCopy(Int16ub) at %d' % start, C.RawCopy(C.Int16ub), data, start, start + 2, None


def run(C):
    fails = []
    n = 0
    for desc, con, data, start, want, val in cases(C):
        n += 1
        s = io.BytesIO(data)
        s.seek(start)
        try:
            got = con.parse_stream(s)
        except Exception as e:
            fails.append('%s: parse raises %s: %s' % (desc, type(e).__name__, e))
            continue
        if s.tell() != want:
            fails.append('%s: stream left at %d, the property prescribes %d' % (desc, s.tell(), want))
        elif val is not None and got != val:
            fails.append('%s: returned %r, expected %r' % (desc, got, val))
    return n, fails


if __name__ == '__main__':
    import construct
    n, fails = run(construct)
    print(n, 'cases;', len(fails), 'failures')
    for f in fails:
        print(' ', f)
