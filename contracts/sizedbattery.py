"""Directed native battery for C05: whenever sizeof() answers, build writes exactly that many bytes and parse consumes exactly that
many.  Only a labelled differential (bounded): it attaches inputs to violations the contracts cannot reach symbolically (a
changed function that fell outside the executor's subset)."""
import io


def extra_families(C):
    yield 'LazyStruct(a=Byte, Padding(3), b=Int16ub)', C.LazyStruct('a' / C.Byte, C.Padding(3), 'b' / C.Int16ub), [dict(a=1, b=2)]
    yield 'Struct(a=Byte, Const, b=Int16ub)', C.Struct('a' / C.Byte, C.Const(b'\x07\x08'), 'b' / C.Int16ub), [dict(a=1, b=2)]
    yield 'Sequence(Byte, Padding(2), Int16ub)', C.Sequence(C.Byte, C.Padding(2), C.Int16ub), [[1, None, 2]]
    yield 'FocusedSeq(x; Const, x=Byte, Padding(1))', C.FocusedSeq('x', C.Const(b'\x01'), 'x' / C.Byte, C.Padding(1)), [5]
    yield 'Array(3, Struct(Padding(1), a=Byte))', C.Array(3, C.Struct(C.Padding(1), 'a' / C.Byte)), [[dict(a=1), dict(a=2), dict(a=3)]]
    yield 'LazyArray(2, Int16ub)', C.LazyArray(2, C.Int16ub), [[1, 2]]
    yield 'Union(None, a=Int16ub, b=Byte) has no size', C.Union(None, 'a' / C.Int16ub, 'b' / C.Byte), None
    yield 'Aligned(4, Struct(a=Byte, Padding(2)))', C.Aligned(4, C.Struct('a' / C.Byte, C.Padding(2))), [dict(a=1)]
    yield 'Peek(Int16ub)', C.Peek(C.Int16ub), None
    yield 'Bitwise(Struct(a=Nibble, Padding(4)))', C.Bitwise(C.Struct('a' / C.Nibble, C.Padding(4))), [dict(a=3)]


def run(C):
    from . import rtbattery
    fails, n = [], 0
    fams = [(d, c, v, g) for d, c, v, g in rtbattery.families(C)] + [(d, c, v, False) for d, c, v in extra_families(C)]
    for desc, con, values, greedy in fams:
        try:
            size = con.sizeof()
        except C.SizeofError:
            continue
        except Exception as e:
            fails.append('%s: sizeof() raises %s, not SizeofError' % (desc, type(e).__name__))
            continue
        if not isinstance(size, int) or size < 0:
            fails.append('%s: sizeof() == %r' % (desc, size))
            continue
        for v in (values or []):
            n += 1
            try:
                data = con.build(v)
            except Exception:
                continue            # values build rejects are outside the statement
            if len(data) != size:
                fails.append('%s: sizeof() == %d but build(%r) wrote %d bytes' % (desc, size, v, len(data)))
                break
            if greedy:
                continue        # exempt by documentation: transforms that read to the end of the stream whatever their declared size
            try:
                s = io.BytesIO(data + b'\xa5\x5a')
                con.parse_stream(s)
                if s.tell() != size:
                    fails.append('%s: sizeof() == %d but parse consumed %d bytes' % (desc, size, s.tell()))
                    break
            except Exception:
                pass
    return n, fails


if __name__ == '__main__':
    import construct
    n, fails = run(construct)
    print(n, 'cases;', len(fails), 'failures')
    for f in fails[:30]:
        print(' ', f[:260])
