"""C08: terminator-delimited regions.  NullTerminated._parse against a specification scan, for terminators of 1, 2 and 3
bytes (variants; the unit is the stride of the scan, so each unit is its own specification function).  Other unit
sizes stay under the cross-cutting contracts only (stated in the evidence)."""
from pyvc import terms as t
from pyvc import prelude
from pyvc.terms import I
from pyvc.values import *  # noqa
from pyvc.contract import Case, rk_dyn
from pyvc.exec import LoopSpec
from .prims import fcontract, S_, _avail, stream_error, generic_raise, buffer_same, LOOPS, _bytes_left
from .wrappers import Sub, Region, result_is, _abs_base
from .classes import VariantDict
from .specs import forall_range

UNITS = (1, 2, 3)
for _u in UNITS:
    _eq = ' '.join('(= (select a (+ p %d)) (select tm (+ to %d)))' % (i, i) for i in range(_u))
    prelude.define('nt_find%d' % _u, """(define-fun-rec nt_find%d ((a (Array Int Int)) (n Int) (p Int) (tm (Array Int Int)) (to Int)) Int
  (ite (> (+ p %d) n) (- 1) (ite (and %s) p (nt_find%d a n (+ p %d) tm to))))""" % (_u, _u, _eq, _u, _u),
                   py=(lambda a, n, p, tm, to, _u=_u: next((q for q in range(p, n - _u + 1, _u) if all(a[q + i] == tm[to + i] for i in range(_u))), -1)),
                   doc='start of the first whole unit (stride %d from p) equal to the terminator, -1 when the data runs out first' % _u)


def _unit(pre):
    return pre.self.fields['term'].len.args[0]


def _find(pre, o=None, pos=None):
    o = o or S_(pre)
    tm = pre.self.fields['term']
    return t.app('nt_find%d' % _unit(pre), t.INT, o.buf, o.len, o.pos if pos is None else pos, tm.arr, tm.off)


def _flag(pre, name):
    return pre.eng.truth(pre.self.fields[name], pre.st)


def _inner(pre):
    """the inner construct is handed exactly the bytes before the terminator (with it, when include is set); without a
    terminator and require unset: every whole unit that could be read"""
    o = S_(pre)
    u = I(_unit(pre))
    q = _find(pre)
    found_n = t.add(t.sub(q, o.pos), t.ite(_flag(pre, 'include'), u, t.ZERO))
    rest = t.imax(t.sub(o.len, o.pos), t.ZERO)
    whole_n = t.sub(rest, t.pymod(rest, u))
    n = t.ite(t.ge(q, t.ZERO), found_n, whole_n)
    return Sub(pre, 'subcon', o=Region(o.buf, o.pos, n, t.add(o.pos, _abs_base(o))))


def _guard_ok(pre):
    q = _find(pre)
    return t.and_(t.or_(t.ge(q, t.ZERO), t.not_(_flag(pre, 'require'))), _inner(pre).ok)


def _parse_ok(pre, post):
    o, o2 = S_(pre), post.obj('stream')
    u = I(_unit(pre))
    q = _find(pre)
    after = t.ite(t.ge(q, t.ZERO), t.ite(_flag(pre, 'consume'), t.add(q, u), q), t.imax(o.len, o.pos))
    return [('inner-construct-sees-exactly-the-bytes-before-the-terminator', result_is(post, _inner(pre).val), ('C08', 'C03')),
            ('outer-stream-stands-after-the-terminator-or-at-it-when-not-consumed', t.eq(o2.pos, after), ('C08', 'C03')),
            ('buffer-unchanged', buffer_same(pre, post), ('C17', 'C08'))]


def _parse_bad(pre, post):
    q = _find(pre)
    return [('missing-terminator-is-StreamError', t.implies(t.and_(t.lt(q, t.ZERO), _flag(pre, 'require')), stream_error(post)), ('C06', 'C08'))] + generic_raise(pre, post)


def _scan_inv(L):
    pre = L.extra['pre']
    o0 = pre.obj('stream')
    if o0.model == 'adv':
        return []
    o = L.obj('stream')
    data = L['data']
    i = t.var('i!', t.INT)
    copied = forall_range(i, data.off, t.add(data.off, data.len), t.eq(t.select(data.arr, i), t.select(o0.buf, t.add(o0.pos, t.sub(i, data.off)))),
                          [[t.select(data.arr, i)]])
    return [('stream-advanced-by-the-collected-bytes', t.and_(t.eq(o.pos, t.add(o0.pos, data.len)), t.ge(data.len, t.ZERO), t.eq(o.buf, o0.buf), t.eq(o.len, o0.len),
                                                              t.eq(t.pymod(data.len, I(_unit(pre))), t.ZERO), t.or_(t.eq(data.len, t.ZERO), t.le(o.pos, o0.len)))),
            ('collected-bytes-are-the-stream-bytes-read-so-far', copied),
            ('no-terminator-among-the-units-read-so-far', t.eq(_find(pre), _find(pre, pos=o.pos))),
            ('offset-is-the-starting-position', t.eq(L.eng.as_int(L['offset'], L.st)[0], t.add(o0.pos, _abs_base(o0))))]


_c = fcontract('NullTerminated', '_parse', [
    Case('ok', 'return', _guard_ok, ensures=_parse_ok, rkind=rk_dyn, modifies=['stream']),
    Case('fails', 'raise', lambda pre: t.not_(_guard_ok(pre)), ensures=_parse_bad, modifies=['stream']),
], loops={'while True': LoopSpec(_scan_inv, variant=_bytes_left, variant_tags=('C06',), tags=('C08', 'C03'), havoc_kinds={}, modifies=())}, tags=('C08', 'C03', 'C06'))
_c.variants = [VariantDict(term_len=u) for u in UNITS]


# ================================================================================================ NullStripped._parse (C08)
# The inner construct sees the rest of the stream with the trailing padding stripped: for a 1-byte pad every trailing pad byte
# (bytes.rstrip, assumed contract of the builtin: rstrip_len); for a pad of u bytes first a trailing partial pad, then whole
# trailing pads.  The region still reports ABSOLUTE offsets of the outer stream.
prelude.define('rstrip_len', """(define-fun-rec rstrip_len ((a (Array Int Int)) (off Int) (n Int) (p Int)) Int
  (ite (<= n 0) 0 (ite (= (select a (+ off (- n 1))) p) (rstrip_len a off (- n 1) p) n)))""",
               py=lambda a, off, n, p: next((k for k in range(max(n, 0), 0, -1) if a[off + k - 1] != p), 0))


def _ns_end_py(u):
    def f(a, off, e, pd, po):
        while e - u >= 0 and all(a[off + e - u + i] == pd[po + i] for i in range(u)):
            e -= u
        return e
    return f


for _u in (2, 3):
    _eq = ' '.join('(= (select a (+ off (- e %d) %d)) (select pd (+ po %d)))' % (_u, i, i) for i in range(_u))
    prelude.define('ns_end%d' % _u, """(define-fun-rec ns_end%d ((a (Array Int Int)) (off Int) (e Int) (pd (Array Int Int)) (po Int)) Int
  (ite (and (>= (- e %d) 0) %s) (ns_end%d a off (- e %d) pd po) e))""" % (_u, _u, _eq, _u, _u),
                   py=_ns_end_py(_u), doc='length left after removing whole trailing pads of %d bytes from the first e bytes at off' % _u)


def _ns_unit(pre):
    return pre.self.fields['pad'].len.args[0]


def _ns_len(pre):
    o = S_(pre)
    pd = pre.self.fields['pad']
    u = _ns_unit(pre)
    n = _avail(o)
    if u == 1:
        return t.app('rstrip_len', t.INT, o.buf, o.pos, n, t.select(pd.arr, pd.off))
    tail = t.pymod(n, I(u))
    # a trailing partial unit equal to the beginning of the pad is dropped first
    parts = []
    for k in range(1, u):
        parts.append(t.and_(t.eq(tail, I(k)), *[t.eq(t.select(o.buf, t.add(o.pos, t.add(t.sub(n, I(k)), I(i)))), t.select(pd.arr, t.add(pd.off, I(i)))) for i in range(k)]))
    e0 = t.ite(t.or_(*parts), t.sub(n, tail), n)
    return t.app('ns_end%d' % u, t.INT, o.buf, o.pos, e0, pd.arr, pd.off)


def _ns_inner(pre):
    o = S_(pre)
    return Sub(pre, 'subcon', o=Region(o.buf, o.pos, _ns_len(pre), t.add(o.pos, _abs_base(o))))


def _ns_ok(pre, post):
    o, o2 = S_(pre), post.obj('stream')
    return [('inner-construct-sees-the-rest-of-the-stream-without-the-trailing-padding-at-absolute-offsets', result_is(post, _ns_inner(pre).val), ('C08', 'C03')),
            ('outer-stream-read-to-its-end', t.eq(o2.pos, t.add(o.pos, _avail(o))), ('C08',)),
            ('buffer-unchanged', buffer_same(pre, post), ('C17', 'C08'))]


def _ns_inv(L):
    pre = L.extra['pre']
    o0 = pre.obj('stream')
    if o0.model == 'adv':
        return []
    pd = pre.self.fields['pad']
    u = _ns_unit(pre)
    e = L.eng.as_int(L['end'], L.st)[0]
    return [('end-stays-in-range', t.and_(t.le(t.ZERO, e), t.le(e, _avail(o0)))),
            ('the-stripped-length-is-determined-by-what-is-left', t.eq(_ns_len(pre), t.app('ns_end%d' % u, t.INT, o0.buf, o0.pos, e, pd.arr, pd.off)))]


_ns = fcontract('NullStripped', '_parse', [
    Case('ok', 'return', lambda pre: _ns_inner(pre).ok, ensures=_ns_ok, rkind=rk_dyn, modifies=['stream']),
    Case('inner-fails', 'raise', lambda pre: t.not_(_ns_inner(pre).ok), ensures=generic_raise, modifies=['stream']),
], loops={'while end - unit >= 0 and data[end - unit:end] == pad': LoopSpec(_ns_inv, variant=lambda L: L.eng.as_int(L['end'], L.st)[0], variant_tags=('C06',), tags=('C08', 'C03'), havoc_kinds={}, modifies=())},
    tags=('C08', 'C03', 'C06'))
_ns.variants = [VariantDict(pad_len=u) for u in (1, 2, 3)]


# ================================================================================================ OffsettedEnd._parse (C08)
# The region runs from the current position to (end of stream + endoffset); the inner construct sees exactly it (absolute
# offsets kept) and the outer stream stands at the region end.
from .prims import _param_int  # noqa


def _oe_len(pre):
    o = S_(pre)
    return t.sub(t.add(o.len, _param_int(pre, 'endoffset')), o.pos)


def _oe_inner(pre):
    o = S_(pre)
    return Sub(pre, 'subcon', o=Region(o.buf, o.pos, _oe_len(pre), t.add(o.pos, _abs_base(o))))


def _oe_guard(pre):
    o = S_(pre)
    n = _oe_len(pre)
    return t.and_(t.ge(n, t.ZERO), t.le(n, _avail(o)), _oe_inner(pre).ok)


def _oe_ok(pre, post):
    o, o2 = S_(pre), post.obj('stream')
    return [('inner-construct-sees-exactly-the-bytes-up-to-the-end-offset', result_is(post, _oe_inner(pre).val), ('C08', 'C03')),
            ('outer-stream-stands-at-the-end-offset', t.eq(o2.pos, t.add(o.pos, _oe_len(pre))), ('C08',)),
            ('buffer-unchanged', buffer_same(pre, post), ('C17', 'C08'))]


fcontract('OffsettedEnd', '_parse', [
    Case('ok', 'return', _oe_guard, ensures=_oe_ok, rkind=rk_dyn, modifies=['stream']),
    Case('fails', 'raise', lambda pre: t.not_(_oe_guard(pre)), ensures=generic_raise, modifies=['stream']),
], tags=('C08', 'C03'), models=('bytesio',))
