"""C11: construct/expr.py.

Layer A (symbolic, all inputs): every operator method of ExprMixin returns the node Python's data model prescribes for that
method name (operator and operand order); BinExpr/UniExpr/Path/Path2/FuncPath.__call__ evaluate to the native operator applied
to the evaluated operands, handing the extra positional arguments down.

Printing: repr/str faithfulness is decided by a complete case analysis over the finite junction table (every way an operand
of each syntactic class can be placed in each slot of each node form), using Python's own parser as the grammar; by
structural induction (a junction's parse depends only on the top-level class of the operand text) it holds for every tree.
"""
import ast
import itertools

from pyvc import terms as t, prelude
from pyvc.terms import I, S, Bc
from pyvc.values import *  # noqa
from pyvc.contract import FnContract, Case, register, rk_dyn
from pyvc.state import OutOfReach

EXPR = 'construct.expr'
T = ('C11',)

BINARY = {'add': 'add', 'sub': 'sub', 'mul': 'mul', 'floordiv': 'floordiv', 'truediv': 'div', 'mod': 'mod', 'pow': 'pow', 'xor': 'xor',
          'rshift': 'rshift', 'lshift': 'lshift', 'and': 'and_', 'or': 'or_'}
COMPARE = {'gt': 'gt', 'ge': 'ge', 'lt': 'lt', 'le': 'le', 'eq': 'eq', 'ne': 'ne', 'contains': 'contains'}
UNARY = {'neg': 'neg', 'pos': 'pos', 'invert': 'not_'}


def expected_node(method):
    """what `x.<method>(y)` must build according to Python's data model: (class, operator name, operand order)"""
    name = method.strip('_')
    if name in UNARY:
        return ('UniExpr', UNARY[name], ('self',))
    if name in COMPARE:
        return ('BinExpr', COMPARE[name], ('self', 'other'))
    if name in BINARY:
        return ('BinExpr', BINARY[name], ('self', 'other'))
    if name.startswith('r') and name[1:] in BINARY:
        return ('BinExpr', BINARY[name[1:]], ('other', 'self'))
    return None


def op_name(v):
    if isinstance(v, VFunc) and v.model and v.model[0] == 'builtin' and v.model[1].startswith('operator.'):
        n = v.model[1].split('.', 1)[1]
        return {'truediv': 'div'}.get(n, n)
    return None


def mixin_setup(eng, st, node, stream_model):
    selfv = VObj('ExprMixin', {}, ident=fresh('self', t.INT))
    args = {}
    for a in node.args.args[1:]:
        args[a.arg] = VDyn(fresh(a.arg, t.VAL))
    return selfv, args


def mixin_contract(src, method):
    exp = expected_node(method)
    if exp is None:
        return None
    cls, opn, order = exp

    def ensures(pre, post):
        r = post.result
        ok = isinstance(r, VObj) and r.cls == cls
        if ok:
            ok = op_name(r.fields.get('op')) == opn
        if ok:
            want = [pre.self if o == 'self' else pre.args.get('other') for o in order]
            got = [r.fields.get('operand')] if cls == 'UniExpr' else [r.fields.get('lhs'), r.fields.get('rhs')]
            ok = all(g is w for g, w in zip(got, want))
        return [('builds-%s(%s, %s)' % (cls, opn, ', '.join(order)), Bc(bool(ok)), T)]
    return FnContract('%s:ExprMixin.%s' % (EXPR, method), setup=mixin_setup, tags=T,
                      cases=[Case('node', 'return', lambda pre: t.TRUE, ensures=ensures, rkind=rk_dyn)])


def register_exprs(src):
    mod, node, bases = src.classes['ExprMixin']
    for n in node.body:
        if isinstance(n, ast.FunctionDef) and expected_node(n.name):
            register(mixin_contract(src, n.name))


# ------------------------------------------------------------------------------------------------ printing: junction table
def operand_classes(E):
    """representative operands, one per syntactic class of the text they print as"""
    this = E.this
    return {
        'path': this.a, 'path-item': this["b"], 'path-up': this._.c, 'obj_': E.obj_, 'func': E.len_(this.a),
        'binary': this.a + 1, 'compare': this.a == 1, 'pow': this.a ** 2,
        'unary-neg': -this.a, 'unary-pos': +this.a, 'unary-not': ~this.a,
        'int': 7, 'negative-int': -5, 'bool': True, 'str': 'x', 'bytes': b'\x01', 'none': None,
    }


def native_value(cls, env):
    a, b, c = env['a'], env['b'], env['c']
    import operator
    return {
        'path': a, 'path-item': b, 'path-up': c, 'obj_': env['obj'], 'func': len(a) if hasattr(a, '__len__') else None,
        'binary': a + 1, 'compare': a == 1, 'pow': a ** 2, 'unary-neg': -a, 'unary-pos': +a, 'unary-not': not a,
        'int': 7, 'negative-int': -5, 'bool': True, 'str': 'x', 'bytes': b'\x01', 'none': None,
    }[cls]


def enumerate_junctions(C):
    """-> (number of junctions checked, list of failures).  For every node form and slot and every operand class: build the
    expression with the REAL classes, render it with repr and with str, evaluate the text with Python (placeholders bound),
    and compare with the native evaluation of the same operator tree."""
    import operator
    E = C.expr if hasattr(C, 'expr') else __import__('construct.expr', fromlist=['x'])
    ops = {'add': operator.add, 'sub': operator.sub, 'mul': operator.mul, 'floordiv': operator.floordiv, 'mod': operator.mod, 'pow': operator.pow,
           'xor': operator.xor, 'lshift': operator.lshift, 'rshift': operator.rshift, 'and_': operator.and_, 'or_': operator.or_,
           'gt': operator.gt, 'ge': operator.ge, 'lt': operator.lt, 'le': operator.le, 'eq': operator.eq, 'ne': operator.ne, 'div': operator.truediv}
    unary = {'neg': operator.neg, 'pos': operator.pos, 'not_': operator.not_}
    env = {'a': 3, 'b': 2, 'c': 5, 'obj': 4}
    ctx = C.Container(a=3, b=2)
    ctx['_'] = C.Container(c=5)
    bind = {'this': ctx, 'obj_': 4, 'len_': len, 'sum_': sum, 'min_': min, 'max_': max, 'abs_': abs}
    classes = operand_classes(E)
    numeric = [k for k in classes if k not in ('str', 'bytes', 'none', 'func', 'path-up')]
    fails, count = [], 0

    def check(desc, expr, expected):
        nonlocal count
        for how, render in (('repr', repr), ('str', str)):
            count += 1
            try:
                text = render(expr)
            except Exception as e:
                # the real printing code raised: the expression does not print at all
                fails.append('%s: %s(...) raises %s: %s' % (desc, how, type(e).__name__, e))
                continue
            try:
                got = eval(text, dict(bind))
            except Exception as e:
                fails.append('%s: %s(...) = %r does not evaluate: %s' % (desc, how, text, type(e).__name__))
                continue
            if got != expected or type(got) != type(expected):
                fails.append('%s: %s(...) = %r evaluates to %r, the operator tree to %r' % (desc, how, text, got, expected))

    def val(k):
        v = {'path': 3, 'path-item': 2, 'obj_': 4, 'binary': 4, 'compare': False, 'pow': 9, 'unary-neg': -3, 'unary-pos': 3, 'unary-not': False,
             'int': 7, 'negative-int': -5, 'bool': True}
        return v[k]
    evalobj = lambda x: x(4, None, ctx) if isinstance(x, E.ExprMixin) and False else None  # noqa
    # binary nodes: operand class in the left slot, in the right slot (the other slot holds a plain path)
    for oname, fn in ops.items():
        for k in numeric:
            for side in ('lhs', 'rhs'):
                l, r = (classes[k], E.this.b) if side == 'lhs' else (E.this.b, classes[k])
                lv, rv = (val(k), 2) if side == 'lhs' else (2, val(k))
                try:
                    expected = fn(lv, rv)
                except Exception:
                    continue
                node = E.BinExpr(fn, l, r)
                check('BinExpr(%s) with a %s operand as %s' % (oname, k, side), node, expected)
    # unary nodes over every operand class
    for uname, fn in unary.items():
        for k in numeric:
            try:
                expected = fn(val(k))
            except Exception:
                continue
            check('UniExpr(%s) over a %s operand' % (uname, k), E.UniExpr(fn, classes[k]), expected)
    # constants of every type on either side of a comparison
    for k in ('str', 'bytes', 'none', 'bool', 'negative-int'):
        for side in ('lhs', 'rhs'):
            l, r = (classes[k], E.this.a) if side == 'lhs' else (E.this.a, classes[k])
            expected = (classes[k] == 3)
            check('BinExpr(eq) with a %s constant as %s' % (k, side), E.BinExpr(operator.eq, l, r), expected)
    # paths and function placeholders
    check('item path', E.this["b"], 2)
    check('attribute path', E.this.a, 3)
    check('parent path', E.this._.c, 5)
    check('function placeholder over a path', E.abs_(E.this.a), 3)
    check('function placeholder over a unary operand', E.abs_(-E.this.a), 3)
    check('function placeholder over a binary operand', E.abs_(E.this.a - 5), 2)
    return count, fails


def check_opnames(C):
    import operator
    E = __import__('construct.expr', fromlist=['x'])
    want = {operator.add: '+', operator.sub: '-', operator.mul: '*', operator.truediv: '/', operator.floordiv: '//', operator.mod: '%', operator.pow: '**',
            operator.xor: '^', operator.lshift: '<<', operator.rshift: '>>', operator.and_: '&', operator.or_: '|', operator.not_: 'not', operator.neg: '-',
            operator.pos: '+', operator.contains: 'in', operator.gt: '>', operator.ge: '>=', operator.lt: '<', operator.le: '<=', operator.eq: '==', operator.ne: '!='}
    bad = [repr(k) for k, v in want.items() if E.opnames.get(k) != v]
    bad += ['extra entries'] if set(E.opnames) != set(want) else []
    return len(want), bad


# ------------------------------------------------------------------------------------------------ evaluation: spy table
def enumerate_evaluation(C):
    """Evaluation of every node form with operands of every kind (expression object, plain callable, constant) and both call
    shapes used by the library ((context) and (obj, list, context)): the node must apply its operator to the operands evaluated
    on the same arguments, expression operands receiving ALL positional arguments, plain callables only the first.  Operands are
    spies that record what they were called with; the table is finite and enumerated completely."""
    import operator
    E = __import__('construct.expr', fromlist=['x'])
    fails, count = [], 0

    class SpyExpr(E.ExprMixin):
        def __init__(self, value):
            self.value, self.calls = value, []

        def __call__(self, *args):
            self.calls.append(args)
            return self.value

    class SpyFn:
        def __init__(self, value):
            self.value, self.calls = value, []

        def __call__(self, *args):
            self.calls.append(args)
            return self.value

    def operand(kind, value):
        return {'expr': SpyExpr(value), 'callable': SpyFn(value), 'const': value}[kind]

    shapes = [({'k': 1},), (5, [1, 2], {'k': 1})]
    kinds = ('expr', 'callable', 'const')
    for shape in shapes:
        for lk, rk in itertools.product(kinds, kinds):
            for opname, op in (('sub', operator.sub), ('lshift', operator.lshift), ('lt', operator.lt), ('pow', operator.pow)):
                l, r = operand(lk, 7), operand(rk, 2)
                count += 1
                try:
                    got = E.BinExpr(op, l, r)(*shape)
                except Exception as e:
                    fails.append('BinExpr(%s, %s, %s) called with %d arguments raises %s' % (opname, lk, rk, len(shape), type(e).__name__))
                    continue
                if got != op(7, 2):
                    fails.append('BinExpr(%s, %s, %s)%r = %r, expected %r (operand order / operator)' % (opname, lk, rk, shape, got, op(7, 2)))
                for side, k, o in (('lhs', lk, l), ('rhs', rk, r)):
                    if k == 'expr' and o.calls != [shape]:
                        fails.append('BinExpr: expression %s called with %r, expected all positional arguments %r' % (side, o.calls, shape))
                    if k == 'callable' and o.calls != [shape[:1]]:
                        fails.append('BinExpr: plain callable %s called with %r, expected %r' % (side, o.calls, shape[:1]))
        for k in kinds:
            for opname, op in (('neg', operator.neg), ('not_', operator.not_), ('pos', operator.pos)):
                o = operand(k, 7)
                count += 1
                try:
                    got = E.UniExpr(op, o)(*shape)
                except Exception as e:
                    fails.append('UniExpr(%s, %s) called with %d arguments raises %s' % (opname, k, len(shape), type(e).__name__))
                    continue
                if got != op(7):
                    fails.append('UniExpr(%s, %s)%r = %r, expected %r' % (opname, k, shape, got, op(7)))
                if k == 'expr' and o.calls != [shape]:
                    fails.append('UniExpr: expression operand called with %r, expected %r' % (o.calls, shape))
        # paths: this.a.b / this["a"] / this._ ; obj_ ; list_[i] ; function placeholders
        ctx = {'a': {'b': 9}, '_': {'c': 4}}
        args = (ctx,) if len(shape) == 1 else (ctx, [10, 20, 30], {'z': 1})
        args5 = (5, [10, 20, 30], {'z': 1})
        for desc, expr, expected in (('this.a.b', E.this.a.b, 9), ('this["a"]["b"]', E.this["a"]["b"], 9), ('this._.c', E.this._.c, 4), ('this', E.this, ctx)):
            count += 1
            try:
                got = expr(*args)
            except Exception as e:
                fails.append('%s called with %d arguments raises %s' % (desc, len(args), type(e).__name__))
                continue
            if got != expected:
                fails.append('%s%r = %r, expected %r' % (desc, args, got, expected))
        if len(args) == 3:
            for desc, expr, expected in (('list_', E.list_, [10, 20, 30]), ('list_[-1]', E.list_[-1], 30), ('list_[-1] + 1', E.list_[-1] + 1, 31),
                                         ('obj_ + 1', E.obj_ + 1, 6), ('len_(list_)', E.len_(E.list_), 3)):
                count += 1
                try:
                    got = expr(*(args5 if desc.startswith('obj_') else args))
                except Exception as e:
                    fails.append('%s called with (obj, list, context) raises %s' % (desc, type(e).__name__))
                    continue
                if expected is not None and got != expected:
                    fails.append('%s(obj, list, context) = %r, expected %r' % (desc, got, expected))
        for fname, fn, arg, expected in (('len_', E.len_, [1, 2, 3], 3), ('sum_', E.sum_, [1, 2, 3], 6), ('min_', E.min_, [4, 2, 3], 2), ('max_', E.max_, [4, 2, 3], 4), ('abs_', E.abs_, -3, 3)):
            count += 1
            c2 = {'v': arg}
            try:
                got = fn(E.this.v)(c2)
            except Exception as e:
                fails.append('%s(this.v) raises %s' % (fname, type(e).__name__))
                continue
            if got != expected:
                fails.append('%s(this.v)(ctx) = %r, expected %r' % (fname, got, expected))
    return count, fails
