"""C10 / C15: Transformed (the pre-read implementation of bit-level and swapped regions) against a contract that names the
decode / encode functions only through their results (fn_bytes_arr / fn_bytes_len: total pure functions of the bytes they
are given - assumption E5/E6 for user callbacks; for the library's own helpers bytes2bits, bits2bytes, swapbytes,
swapbitsinbytes those functions are verified against their specifications under C03), and the packing lemma that relates
a bit string to the bytes bits2bytes produces."""
from pyvc import terms as t, prelude
from pyvc.terms import I, S
from pyvc.values import *  # noqa
from pyvc.contract import Case, rk_dyn
from pyvc.lemma import Lemma, LEMMAS
from .prims import fcontract, S_, generic_raise, buffer_same, size_is, _avail, stream_error
from .wrappers import Sub, Region, result_is, Empty, _written
from .specs import forall_range, bits_val, be_val
from .intlemmas import unfold_be, unfold_bits

T = ('C10', 'C15', 'C03')


def fn_arr(ident, arr, off, n):
    return t.app('fn_bytes_arr', t.ARR, ident, arr, off, n)


def fn_len(ident, arr, off, n):
    return t.app('fn_bytes_len', t.INT, ident, arr, off, n)


def _amount(pre, name):
    """decodeamount / encodeamount: None (whole rest / unchecked) or an int"""
    v = pre.self.fields[name].t
    return t.app('(_ is VNone)', t.BOOL, v), t.app('ival', t.INT, v)


def _tr_n(pre):
    o = S_(pre)
    isnone, n = _amount(pre, 'decodeamount')
    return t.ite(isnone, _avail(o), n)


def _tr_region(pre):
    """io.BytesIO(decodefunc(data)): a plain stream over the decoded bytes"""
    o = S_(pre)
    f = pre.self.fields['decodefunc'].ident
    n = _tr_n(pre)
    r = Region.__new__(Region)
    r.buf, r.len = fn_arr(f, o.buf, o.pos, n), fn_len(f, o.buf, o.pos, n)
    r.pos, r.base, r.offset, r.model = t.ZERO, t.ZERO, t.ZERO, 'bytesio'
    return r


def _tr_parse_guard(pre):
    o = S_(pre)
    isnone, n = _amount(pre, 'decodeamount')
    return t.and_(t.or_(isnone, t.le(n, _avail(o))), Sub(pre, 'subcon', o=_tr_region(pre)).ok)


def _tr_parse_ok(pre, post):
    o, o2 = S_(pre), post.obj('stream')
    inner = Sub(pre, 'subcon', o=_tr_region(pre))
    return [('inner-construct-sees-exactly-the-decoded-region-and-its-value-is-returned', result_is(post, inner.val), T),
            ('outer-stream-stands-after-the-region', t.eq(o2.pos, t.add(o.pos, _tr_n(pre))), T + ('C08',)),
            ('buffer-unchanged', buffer_same(pre, post), ('C17', 'C08'))]


def _tr_parse_bad(pre, post):
    o = S_(pre)
    isnone, n = _amount(pre, 'decodeamount')
    return [('region-cut-short-is-StreamError', t.implies(t.and_(t.not_(isnone), t.gt(n, _avail(o))), stream_error(post)), ('C06', 'C10'))] + generic_raise(pre, post)


fcontract('Transformed', '_parse', [
    Case('ok', 'return', _tr_parse_guard, ensures=_tr_parse_ok, rkind=rk_dyn, modifies=['stream']),
    Case('fails', 'raise', lambda pre: t.not_(_tr_parse_guard(pre)), ensures=_tr_parse_bad, modifies=['stream']),
], tags=T)


def _tr_bsub(pre):
    return Sub(pre, 'subcon', o=Empty, obj=pre['obj'].t, kind='build')


def _tr_encoded(pre):
    s = _tr_bsub(pre)
    f = pre.self.fields['encodefunc'].ident
    return fn_arr(f, s.bytes, t.ZERO, s.len), fn_len(f, s.bytes, t.ZERO, s.len)


def _tr_build_guard(pre):
    isnone, n = _amount(pre, 'encodeamount')
    arr, ln = _tr_encoded(pre)
    return t.and_(_tr_bsub(pre).ok, t.or_(isnone, t.eq(ln, n)))


def _tr_build_ok(pre, post):
    o, o2 = S_(pre), post.obj('stream')
    arr, ln = _tr_encoded(pre)
    return [('advances-by-the-encoded-length', t.eq(o2.pos, t.add(o.pos, ln)), T),
            _written(o, o2, ln, lambda i: t.select(arr, i), 'emits-exactly-the-encode-function-of-the-inner-bytes'),
            ('returns-inner-build-value', result_is(post, _tr_bsub(pre).ret), T)]


def _tr_build_bad(pre, post):
    isnone, n = _amount(pre, 'encodeamount')
    arr, ln = _tr_encoded(pre)
    return [('wrong-encoded-amount-is-StreamError', t.implies(t.and_(_tr_bsub(pre).ok, t.not_(isnone), t.ne(ln, n)), stream_error(post)), ('C06', 'C10'))] + generic_raise(pre, post)


fcontract('Transformed', '_build', [
    Case('ok', 'return', _tr_build_guard, ensures=_tr_build_ok, rkind=rk_dyn, modifies=['stream']),
    Case('fails', 'raise', lambda pre: t.not_(_tr_build_guard(pre)), ensures=_tr_build_bad, modifies=['stream']),
], tags=T)


def _tr_sized(pre):
    dn, d = _amount(pre, 'decodeamount')
    en, e = _amount(pre, 'encodeamount')
    return t.and_(t.not_(dn), t.not_(en), t.eq(d, e))


fcontract('Transformed', '_sizeof', [
    Case('ok', 'return', _tr_sized, ensures=lambda pre, post: [('size-is-the-declared-amount', size_is(post, _amount(pre, 'encodeamount')[1]), ('C05', 'C10'))], rkind=rk_dyn),
    Case('no-size', 'raise', lambda pre: t.not_(_tr_sized(pre)),
         ensures=lambda pre, post: [('unsized-is-SizeofError', t.eq(post.exc.cls, I(post.eng.src.exc_code['SizeofError'])), ('C05',))]),
], tags=('C05', 'C10'))


# ================================================================================================ packing lemma
# bits2bytes(data)[q] is the value of bits 8q..8q+7 read MSB first (its contract, verified under C03).  Hence the big-endian
# value of the produced bytes is the MSB-first value of the whole bit string: fields laid end to end in a bit region ARE the
# big-endian integer formed by concatenating their bit patterns, across byte boundaries.
def _groups(B, bo, Y, yo, n):
    q = t.var('pk!', t.INT)
    return forall_range(q, t.ZERO, n, t.eq(t.select(Y, t.add(yo, q)), bits_val(B, t.add(bo, t.mul(I(8), q)), t.add(bo, t.add(t.mul(I(8), q), I(8))))),
                        [[t.select(Y, t.add(yo, q))]])


def _pack_stmt(v):
    B, bo, Y, yo, n = v['B'], v['bo'], v['Y'], v['yo'], v['n']
    return t.implies(t.and_(t.ge(n, t.ZERO), _groups(B, bo, Y, yo, n)),
                     t.eq(be_val(Y, yo, t.add(yo, n)), bits_val(B, bo, t.add(bo, t.mul(I(8), n)))))


def _bits_split_stmt(v):
    # bits_val(B, lo, hi) = bits_val(B, lo, mid) * 2^(hi-mid) + bits_val(B, mid, hi), stated for hi - mid = 8 (one more byte)
    B, lo, mid = v['B'], v['lo'], v['mid']
    hi = t.add(mid, I(8))
    return t.implies(t.le(lo, mid), t.eq(bits_val(B, lo, hi), t.add(t.mul(I(256), bits_val(B, lo, mid)), bits_val(B, mid, hi))))


Lemma('bits_append_byte', [('B', t.ARR), ('lo', t.INT), ('mid', t.INT)], _bits_split_stmt, tags=T,
      defs=lambda v: [unfold_bits(v['B'], v['lo'], t.add(v['mid'], I(k))) for k in range(8, 0, -1)] + [unfold_bits(v['B'], v['mid'], t.add(v['mid'], I(k))) for k in range(8, -1, -1)],
      doc='appending eight more digits multiplies the value by 256 and adds the value of those digits')

Lemma('packing', [('B', t.ARR), ('bo', t.INT), ('Y', t.ARR), ('yo', t.INT), ('n', t.INT)], _pack_stmt, induct=('n', 0),
      ih_instances=lambda v: [{'B': v['B'], 'bo': v['bo'], 'Y': v['Y'], 'yo': v['yo']}], tags=T,
      hints=lambda v: [LEMMAS['bits_append_byte'].stmt({'B': v['B'], 'lo': v['bo'], 'mid': t.add(v['bo'], t.mul(I(8), t.sub(v['n'], t.ONE)))})],
      defs=lambda v: [unfold_be(v['Y'], v['yo'], t.add(v['yo'], v['n'])), unfold_be(v['Y'], v['yo'], v['yo']), unfold_bits(v['B'], v['bo'], v['bo'])],
      doc='big-endian value of the packed bytes = MSB-first value of the bit string')


def enumerate_bit_macros(C):
    """Bitwise / Bytewise choose the pre-read implementation (Transformed) for sized inner constructs and the streaming one
    (Restreamed) otherwise, always with the verified helpers bytes2bits / bits2bytes and the right units (finite table on the
    real objects)"""
    from construct.lib import binary
    bad, n = [], 0
    for bits in (8, 16, 24, 40, 64, 128):
        d = C.Bitwise(C.Bytes(bits))
        n += 1
        if not (type(d).__name__ == 'Transformed' and d.decodefunc is binary.bytes2bits and d.encodefunc is binary.bits2bytes and d.decodeamount == bits // 8 == d.encodeamount):
            bad.append('Bitwise(Bytes(%d))' % bits)
    for size in (1, 2, 3, 5, 8):
        d = C.Bytewise(C.Bytes(size))
        n += 1
        if not (type(d).__name__ == 'Transformed' and d.decodefunc is binary.bits2bytes and d.encodefunc is binary.bytes2bits and d.decodeamount == size * 8 == d.encodeamount):
            bad.append('Bytewise(Bytes(%d))' % size)
    d = C.Bitwise(C.GreedyBytes)
    n += 1
    if not (type(d).__name__ == 'Restreamed' and d.decoder is binary.bytes2bits and d.decoderunit == 1 and d.encoder is binary.bits2bytes and d.encoderunit == 8
            and [d.sizecomputer(k) for k in (0, 8, 16, 24)] == [0, 1, 2, 3]):
        bad.append('Bitwise(GreedyBytes)')
    d = C.Bytewise(C.GreedyBytes)
    n += 1
    if not (type(d).__name__ == 'Restreamed' and d.decoder is binary.bits2bytes and d.decoderunit == 8 and d.encoder is binary.bytes2bits and d.encoderunit == 1
            and [d.sizecomputer(k) for k in (0, 1, 2, 3)] == [0, 8, 16, 24]):
        bad.append('Bytewise(GreedyBytes)')
    for name, w in (('Bit', 1), ('Nibble', 4), ('Octet', 8)):
        f = getattr(C, name)
        n += 1
        if not (type(f).__name__ == 'BitsInteger' and f.length == w and f.signed is False and f.swapped is False):
            bad.append(name)
    return [('Bitwise/Bytewise: implementation chosen by sizedness, verified helpers in both directions, units 1/8; Bit/Nibble/Octet widths', n, bad)]


# ------------------------------------------------------------------------------------------------ Restreamed._sizeof (C05, C10)
prelude.declare_fun('fn_nat', [t.INT, t.INT], t.INT)


def _rs_sized(pre):
    return t.and_(t.not_(t.app('(_ is VNone)', t.BOOL, pre.eng.to_dyn(pre.self.fields['sizecomputer'], pre.st))) if not isinstance(pre.self.fields['sizecomputer'], VFunc) else t.TRUE,
                  Sub(pre, 'subcon', kind='sizeof').ok)


def _rs_size_ok(pre, post):
    z = Sub(pre, 'subcon', kind='sizeof')
    f = pre.self.fields['sizecomputer']
    if not hasattr(f, 'ident'):
        return []
    return [('size-is-the-size-computer-applied-to-the-inner-size', size_is(post, t.app('fn_nat', t.INT, f.ident, z.val)), ('C05', 'C10'))]


fcontract('Restreamed', '_sizeof', [
    Case('ok', 'return', lambda pre: t.TRUE, ensures=_rs_size_ok, rkind=rk_dyn),
    Case('no-size', 'raise', lambda pre: t.TRUE),
], tags=('C05', 'C10'))
