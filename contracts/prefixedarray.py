"""Contract of the size probe that the PrefixedArray macro attaches to the construct it returns (`macro._actualsize`, a closure over
the count field and the element construct).  Lazy / LazyStruct / LazyArray call it to skip the array without parsing its elements,
so the documented expansion  PrefixedArray(c, x) == FocusedSeq("items", "count"/Rebuild(c, len_(this.items)), "items"/x[this.count])
(C12) and lazy == eager (C16) hold only if the probe answers what parsing would consume:
    the bytes of the count field as parsed at the current position  +  count x the static size of one element,
and raises (SizeofError through the element) when the element has no static size.  The count field is read from the stream - the
probe moves the stream past it (the callers seek back: see the contracts of Lazy._parse / LazyArray._parse / LazyStruct._parse)."""
from pyvc import terms as t, streams
from pyvc.values import *  # noqa
from pyvc.contract import FnContract, Case, register, rk_dyn
from .classes import CORE, make_field, Sub as SubField
from .prims import size_is, S_, buffer_same, generic_raise
from .wrappers import Sub

QUAL = '%s:PrefixedArray._actualsize' % CORE
T = ('C12', 'C16', 'C05')


def _setup(eng, st, node, stream_model):
    iface = eng.models.interface
    iface.fmt_cache = {}
    iface.current_sublist = None
    eng.setup_stream_model = stream_model
    fields = {'countfield': make_field(eng, st, iface, 'PrefixedArray', 'countfield', SubField(returns='int')),
              'subcon': make_field(eng, st, iface, 'PrefixedArray', 'subcon', SubField())}
    # the closure's free variables are bound in the environment; `self` only carries them for the contract clauses
    selfv = VObj('Construct', dict(fields), ident=fresh('self', t.INT))
    args = dict(fields)
    args['stream'] = streams.symbolic_stream(eng, st, 'stream', stream_model)
    args['context'] = iface.new_context(eng, st, 'context')
    args['path'] = VStr(fresh('path', t.STR))
    other = iface.new_context(eng, st, 'othercontainer', wf=False)
    st.ghost['other'] = st.get(other).addr
    return selfv, args


_setup.kinds = {}


def _count(pre):
    return Sub(pre, 'countfield')


def _elem(pre):
    c = _count(pre)
    return Sub(pre, 'subcon', kind='sizeof', heap=(c.H, c.D))


def _guard(pre):
    return t.and_(_count(pre).ok, _elem(pre).ok)


def _ok(pre, post):
    o, o2 = S_(pre), post.obj('stream')
    c, z = _count(pre), _elem(pre)
    n = t.app('toint', t.INT, c.val)
    return [('answer-is-the-count-field-bytes-plus-count-times-the-element-size', size_is(post, t.add(t.sub(c.end, o.pos), t.mul(n, z.val)))),
            ('stream-stands-after-the-count-field', t.eq(o2.pos, c.end)),
            ('buffer-unchanged', buffer_same(pre, post), ('C17',))]


def _pf_len(pre):
    return Sub(pre, 'lengthfield')


def _pf_lfsize(pre):
    c = _pf_len(pre)
    return Sub(pre, 'lengthfield', kind='sizeof', heap=(c.H, c.D))


def _pf_guard(pre):
    from .prims import _param_truth
    incl = pre.eng.truth(pre.self.fields['includelength'], pre.st)
    return t.and_(_pf_len(pre).ok, t.implies(incl, _pf_lfsize(pre).ok))


def _pf_ok(pre, post):
    o, o2 = S_(pre), post.obj('stream')
    c = _pf_len(pre)
    incl = pre.eng.truth(pre.self.fields['includelength'], pre.st)
    n = t.sub(t.app('toint', t.INT, c.val), t.ite(incl, _pf_lfsize(pre).val, t.ZERO))
    return [('answer-is-the-length-field-bytes-plus-the-payload-length-it-announces', size_is(post, t.add(t.sub(c.end, o.pos), n))),
            ('stream-stands-after-the-length-field', t.eq(o2.pos, c.end)),
            ('buffer-unchanged', buffer_same(pre, post), ('C17',))]


def register_prefixedarray(src):
    from .prims import fcontract
    if src.has('%s:Prefixed._actualsize' % CORE):
        # Prefixed measures itself by reading its length field: the payload length is what the field announces, less the size of the
        # field itself when the announced length includes it
        fcontract('Prefixed', '_actualsize', [
            Case('ok', 'return', _pf_guard, ensures=_pf_ok, rkind=rk_dyn, modifies=['stream']),
            Case('no-answer', 'raise', lambda pre: t.not_(_pf_guard(pre)), ensures=generic_raise, modifies=['stream']),
        ], tags=T)
    if not src.has(QUAL):
        return
    c = FnContract(QUAL, [
        Case('ok', 'return', _guard, ensures=_ok, rkind=rk_dyn, modifies=['stream']),
        Case('no-answer', 'raise', lambda pre: t.not_(_guard(pre)), ensures=generic_raise, modifies=['stream']),
    ], setup=_setup, tags=T, stream_models=('bytesio',))
    c.iface = dict(sub_seq=True, params_total=True, foreign_errors=False)
    c.modifies_heap = False
    c.heap_pure = False
    register(c)
