"""Layer-B lemmas for LEB128 (VarInt / ZigZag round trip, C01): a byte string holding the 7-bit groups of x, all but the last with
the continuation bit, is scanned to exactly its end and has value x."""
from pyvc import terms as t
from pyvc.terms import I
from pyvc.lemma import Lemma, LEMMAS
from .intlemmas import inst

T = ('C01', 'C02', 'C03')


def S7(x, k):
    return t.app('shr7', t.INT, x, k)


def V7(a, lo, hi):
    return t.app('val7', t.INT, a, lo, hi)


def SCAN(a, p, n):
    return t.app('leb_scan', t.INT, a, p, n)


def unfold_shr7(x, k):
    return t.eq(S7(x, k), t.ite(t.le(k, t.ZERO), x, t.pyfloordiv(S7(x, t.sub(k, t.ONE)), I(128))))


def unfold_val7(a, lo, hi):
    return t.eq(V7(a, lo, hi), t.ite(t.le(hi, lo), t.ZERO, t.add(t.pymod(t.select(a, lo), I(128)), t.mul(I(128), V7(a, t.add(lo, t.ONE), hi)))))


def unfold_scan(a, p, n):
    return t.eq(SCAN(a, p, n), t.ite(t.ge(p, n), I(-1), t.ite(t.lt(t.select(a, p), I(128)), t.add(p, t.ONE), SCAN(a, t.add(p, t.ONE), n))))


Lemma('shr7_nonneg', [('x', t.INT), ('k', t.INT)], lambda v: t.implies(t.ge(v['x'], t.ZERO), t.ge(S7(v['x'], v['k']), t.ZERO)), induct=('k', 0),
      ih_instances=lambda v: [{'x': v['x']}], tags=T, defs=lambda v: [unfold_shr7(v['x'], v['k'])])
Lemma('shr7_step', [('x', t.INT), ('k', t.INT)], lambda v: t.implies(t.ge(v['k'], t.ONE), t.eq(S7(v['x'], v['k']), t.pyfloordiv(S7(v['x'], t.sub(v['k'], t.ONE)), I(128)))), tags=T,
      defs=lambda v: [unfold_shr7(v['x'], v['k'])])
Lemma('shr7_zero', [('x', t.INT)], lambda v: t.eq(S7(v['x'], t.ZERO), v['x']), tags=T, defs=lambda v: [unfold_shr7(v['x'], t.ZERO)])


def groups(a, lo, n, x):
    """a[lo+j] carries group j of x in its low 7 bits, for j < n"""
    j = t.var('gr!', t.INT)
    return t.forall([j], t.implies(t.and_(t.le(lo, j), t.lt(j, t.add(lo, n))), t.eq(t.pymod(t.select(a, j), I(128)), t.pymod(S7(x, t.sub(j, lo)), I(128)))), pats=[[t.select(a, j)]])


def _val7_stmt(v):
    a, lo, n, x, m = v['a'], v['lo'], v['n'], v['x'], v['m']
    return t.implies(t.and_(t.le(t.ZERO, m), t.le(m, n), t.eq(S7(x, n), t.ZERO), groups(a, lo, n, x)),
                     t.eq(V7(a, t.sub(t.add(lo, n), m), t.add(lo, n)), S7(x, t.sub(n, m))))


Lemma('val7_of_groups', [('a', t.ARR), ('lo', t.INT), ('n', t.INT), ('x', t.INT), ('m', t.INT)], _val7_stmt, induct=('m', 0),
      ih_instances=lambda v: [{'a': v['a'], 'lo': v['lo'], 'n': v['n'], 'x': v['x']}], tags=T,
      hints=lambda v: [inst('shr7_step', x=v['x'], k=t.add(t.sub(v['n'], v['m']), t.ONE))],
      defs=lambda v: [unfold_val7(v['a'], t.sub(t.add(v['lo'], v['n']), v['m']), t.add(v['lo'], v['n']))],
      doc='the last m groups have the value x >> 7(n-m)')


def continued(a, p, n):
    """bytes p .. p+n-2 carry the continuation bit, byte p+n-1 does not"""
    j = t.var('ct!', t.INT)
    return t.and_(t.forall([j], t.implies(t.and_(t.le(p, j), t.lt(j, t.sub(t.add(p, n), t.ONE))), t.ge(t.select(a, j), I(128))), pats=[[t.select(a, j)]]),
                  t.lt(t.select(a, t.sub(t.add(p, n), t.ONE)), I(128)))


def _scan_stmt(v):
    a, p, n, ln = v['a'], v['p'], v['n'], v['len']
    return t.implies(t.and_(t.ge(n, t.ONE), t.le(t.add(p, n), ln), continued(a, p, n)), t.eq(SCAN(a, p, ln), t.add(p, n)))


Lemma('leb_scan_of_groups', [('a', t.ARR), ('p', t.INT), ('n', t.INT), ('len', t.INT)], _scan_stmt, induct=('n', 1),
      ih_instances=lambda v: [{'a': v['a'], 'p': t.add(v['p'], t.ONE), 'len': v['len']}], tags=T,
      defs=lambda v: [unfold_scan(v['a'], v['p'], v['len'])], doc='the scan stops right after the first byte without continuation bit')


# ------------------------------------------------------------------------------------------------ ghost hints
def varint_hints(zigzag=False):
    def hints(eng, st, args):
        from .ghostreg import default_hints
        default_hints(eng, st, args)
        obj, whole = args[1], args[3]
        w = eng.models.as_bytes(eng, whole, st)
        if w is None:
            return
        x = t.app('toint', t.INT, eng.to_dyn(obj, st))
        if zigzag:
            x = t.ite(t.ge(x, t.ZERO), t.mul(I(2), x), t.sub(t.mul(I(-2), x), t.ONE))
        n = t.app('leb_len', t.INT, x)
        st.assume(inst('shr7_nonneg', x=x, k=t.sub(n, t.ONE)))
        st.assume(inst('shr7_step', x=x, k=n))
        st.assume(inst('shr7_zero', x=x))
        st.assume(inst('val7_of_groups', a=w.arr, lo=w.off, n=n, x=x, m=n))
        st.assume(inst('leb_scan_of_groups', a=w.arr, p=w.off, n=n, len=t.add(w.off, w.len)))
        if not zigzag:
            canonical_hints(eng, st, args)
    return hints


# ------------------------------------------------------------------------------------------------ canonical form (C02)
def LL(x):
    return t.app('leb_len', t.INT, x)


def unfold_leblen(x):
    return t.eq(LL(x), t.ite(t.le(x, I(127)), t.ONE, t.add(t.ONE, LL(t.pyfloordiv(x, I(128))))))


Lemma('shr7_div', [('x', t.INT), ('k', t.INT)], lambda v: t.implies(t.ge(v['k'], t.ZERO), t.eq(S7(t.pyfloordiv(v['x'], I(128)), v['k']), S7(v['x'], t.add(v['k'], t.ONE)))),
      induct=('k', 0), ih_instances=lambda v: [{'x': v['x']}], tags=T,
      defs=lambda v: [unfold_shr7(t.pyfloordiv(v['x'], I(128)), v['k']), unfold_shr7(v['x'], t.add(v['k'], t.ONE)), unfold_shr7(v['x'], t.ZERO), unfold_shr7(v['x'], t.ONE)])
Lemma('leb_len_le', [('x', t.INT), ('n', t.INT)], lambda v: t.implies(t.and_(t.ge(v['n'], t.ONE), t.ge(v['x'], t.ZERO), t.eq(S7(v['x'], v['n']), t.ZERO)), t.and_(t.ge(LL(v['x']), t.ONE), t.le(LL(v['x']), v['n']))),
      induct=('n', 1), ih_instances=lambda v: [{'x': t.pyfloordiv(v['x'], I(128))}], tags=T,
      hints=lambda v: [inst('shr7_div', x=v['x'], k=t.sub(v['n'], t.ONE))],
      defs=lambda v: [unfold_leblen(v['x']), unfold_shr7(v['x'], t.ONE), unfold_shr7(v['x'], t.ZERO)],
      doc='a value below 128^n needs at most n groups')


def _v7top(v):
    a, lo, n = v['a'], v['lo'], v['n']
    V = V7(a, lo, t.add(lo, n))
    return t.implies(t.ge(n, t.ZERO), t.and_(t.ge(V, t.ZERO), t.eq(S7(V, n), t.ZERO)))


Lemma('val7_below_128_pow_n', [('a', t.ARR), ('lo', t.INT), ('n', t.INT)], _v7top, induct=('n', 0), ih_instances=lambda v: [{'a': v['a'], 'lo': t.add(v['lo'], t.ONE)}], tags=T,
      hints=lambda v: [inst('shr7_div', x=V7(v['a'], v['lo'], t.add(v['lo'], v['n'])), k=t.sub(v['n'], t.ONE))],
      defs=lambda v: [unfold_val7(v['a'], v['lo'], t.add(v['lo'], v['n'])), unfold_shr7(V7(v['a'], v['lo'], t.add(v['lo'], v['n'])), t.ZERO)],
      doc='the value of n groups is non-negative and below 128^n')


def _scan_after(v):
    a, ln, d = v['a'], v['len'], v['d']
    p = t.sub(ln, d)
    return t.or_(t.eq(SCAN(a, p, ln), I(-1)), t.and_(t.gt(SCAN(a, p, ln), p), t.le(SCAN(a, p, ln), ln)))


Lemma('leb_scan_result', [('a', t.ARR), ('len', t.INT), ('d', t.INT)], _scan_after, induct=('d', 0), ih_instances=lambda v: [{'a': v['a'], 'len': v['len']}], tags=T,
      defs=lambda v: [unfold_scan(v['a'], t.sub(v['len'], v['d']), v['len'])], doc='a successful scan ends after its start and inside the data')


def canonical_hints(eng, st, args):
    """instances for the canonical lemma: the value parsed from whole[off : scan end] is >= 0, below 128^n, hence rebuilt in at most n bytes"""
    whole = args[3]
    w = eng.models.as_bytes(eng, whole, st)
    if w is None:
        return
    ln = t.add(w.off, w.len)
    end = SCAN(w.arr, w.off, ln)
    n = t.sub(end, w.off)
    V = V7(w.arr, w.off, end)
    st.assume(inst('leb_scan_result', a=w.arr, len=ln, d=w.len))
    st.assume(inst('val7_below_128_pow_n', a=w.arr, lo=w.off, n=n))
    st.assume(inst('leb_len_le', x=V, n=n))
