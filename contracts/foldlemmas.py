"""Layer-B lemmas over the specification folds of the repeating / member-list constructs (C01): the bytes the build fold wrote,
followed by anything, are parsed by the parse fold step by step to values equal to what the element / member builds returned,
and the parse ends where the build ended.

One family of six lemmas per construct (Array: abfold/afold, Sequence: qbfold/qfold).  They are proved by induction over the
number of steps from the DEFINITIONS of the folds (repeaters.py, sequences.py) and the write axiom of BytesIO; the only facts
about the element / member constructs are ground instances of the interface traits that every round-trip statement assumes of
sub-constructs (the induction hypothesis of C01: `traits=`), exactly the instances pyvc.ghost.trait_instances adds to a ghost
obligation."""
from pyvc import terms as t
from pyvc.terms import I, S
from pyvc.lemma import Lemma, LEMMAS
from pyvc import ghost
from .composites import ps, bs, mkPS

T = ('C01',)
HEAP, DOM = 'Heap', 'Dom'
# the build fold starts at (buf0, l0, p0, Hb, Db) with l0 == p0 (appending at the end of the stream); the parse fold reads
# (pbuf, plen) from q0 == p0 in the scope (Hp, Dp); `base` is the absolute offset of position 0 (the same for both streams)
BASE_B = [('buf0', t.ARR), ('l0', t.INT), ('p0', t.INT), ('Hb', HEAP), ('Db', DOM), ('v', t.VAL), ('base', t.INT), ('c', t.INT)]
BASE_P = [('pbuf', t.ARR), ('plen', t.INT), ('q0', t.INT), ('Hp', HEAP), ('Dp', DOM), ('cp', t.INT)]      # cp: the scope the parse runs in (a different one from the build's)


def b0(v):
    return t.app('mkBS', 'BS', t.TRUE, v['buf0'], v['l0'], v['p0'], v['Hb'], v['Db'])


def s0(v):
    return mkPS(t.TRUE, t.FALSE, v['q0'], v['Hp'], v['Dp'])


def agree(a, b, lo, hi, name='ag!'):
    i = t.var(name, t.INT)
    return t.forall([i], t.implies(t.and_(t.le(lo, i), t.lt(i, hi)), t.eq(t.select(a, i), t.select(b, i))), pats=[[t.select(a, i)], [t.select(b, i)]])


def _indexed(H, D, c, i):
    H0 = t.T(HEAP, 'store', (H, c, t.T('Fields', 'store', (t.T('Fields', 'select', (H, c)), S('_index'), t.app('VInt', t.VAL, i)))))
    D0 = t.T(DOM, 'store', (D, c, t.T('Keys', 'store', (t.T('Keys', 'select', (D, c)), S('_index'), t.TRUE))))
    return H0, D0


def _named(H, D, c, m, val):
    """scope with `val` stored under the member's name when it has one"""
    nm = t.app('sc_name', t.VAL, m)
    named = t.app('truthy', t.BOOL, nm)
    key = t.app('sval', t.STR, nm)
    H1 = t.ite(named, t.T(HEAP, 'store', (H, c, t.T('Fields', 'store', (t.T('Fields', 'select', (H, c)), key, val)))), H)
    D1 = t.ite(named, t.T(DOM, 'store', (D, c, t.T('Keys', 'store', (t.T('Keys', 'select', (D, c)), key, t.TRUE)))), D)
    return H1, D1


class Family:
    """one construct's pair of folds.  `key` is the variable naming the element construct / member list."""

    def __init__(self, name, key, bfold, pfold, pval, bret):
        self.name, self.key, self.bfold, self.pfold, self.pval, self.bret = name, key, bfold, pfold, pval, bret
        self.BV = [(key, t.INT)] + BASE_B
        self.PV = BASE_P

    # ---- the folds and the arguments of step i
    def BF(self, v, k):
        return t.app(self.bfold, 'BS', v[self.key], k, b0(v), v['v'], v['base'], v['c'])

    def PF(self, v, k):
        return t.app(self.pfold, 'PS', v[self.key], k, s0(v), v['pbuf'], v['plen'], v['base'], v['cp'])

    def good(self, s):
        """the parse fold is still running"""
        return ps('ps_ok', s)

    def B(self, fn, sort, v, i):
        return t.app(fn, sort, *self.bargs(v, i))

    def step_ok(self, v, i):
        """step i of the build fold goes through (the member builds; Struct: and a value for it is available)"""
        return self.B('B_ok', t.BOOL, v, i)

    def P(self, fn, sort, v, i):
        return t.app(fn, sort, *self.pargs(v, i))

    def written(self, v, i):
        """the buffer after step i (mirror of the body of the step function, with the awrite application as a term so that its
        definitional axiom is instantiated)"""
        s = self.BF(v, i)
        n, W = self.B('B_len', t.INT, v, i), self.B('B_bytes', t.ARR, v, i)
        return t.ite(t.gt(n, t.ZERO), t.app('awrite', t.ARR, bs('bs_buf', s), bs('bs_len', s), bs('bs_pos', s), W, t.ZERO, n), bs('bs_buf', s))

    # ---- instances of the definitions (each is its own obligation, proved from the definition text)
    def def_b_zero(self, v):
        return t.eq(self.BF(v, t.ZERO), b0(v))

    def def_b_step(self, v, k):
        """k >= 1: the fold over k steps is one step after the fold over k-1; written out field by field"""
        i = t.sub(k, t.ONE)
        s, s1 = self.BF(v, i), self.BF(v, k)
        n = self.B('B_len', t.INT, v, i)
        ok = self.step_ok(v, i)
        good = t.and_(bs('bs_ok', s1), t.eq(bs('bs_buf', s1), self.written(v, i)),
                      t.eq(bs('bs_len', s1), t.ite(t.gt(n, t.ZERO), t.ite(t.ge(bs('bs_len', s), t.add(bs('bs_pos', s), n)), bs('bs_len', s), t.add(bs('bs_pos', s), n)), bs('bs_len', s))),
                      t.eq(bs('bs_pos', s1), t.add(bs('bs_pos', s), n)))
        return t.implies(t.ge(k, t.ONE), t.and_(t.implies(t.not_(bs('bs_ok', s)), t.not_(bs('bs_ok', s1))),
                                                t.implies(bs('bs_ok', s), t.ite(ok, good, t.not_(bs('bs_ok', s1))))))

    def def_p_zero(self, v):
        return t.eq(self.PF(v, t.ZERO), s0(v))

    def def_p_step(self, v, k):
        """k >= 1: a running parse fold whose step k-1 parses keeps running and stands where that parse ended"""
        i = t.sub(k, t.ONE)
        s, s1 = self.PF(v, i), self.PF(v, k)
        return t.implies(t.and_(t.ge(k, t.ONE), self.good(s), self.P('P_ok', t.BOOL, v, i)), t.and_(self.good(s1), t.eq(ps('ps_pos', s1), self.P('P_end', t.INT, v, i))))

    # ---- interface traits, instantiated on step i
    def nonneg(self, v, i):
        """a successful build appended a non-negative number of bytes"""
        return t.implies(self.B('B_ok', t.BOOL, v, i), t.ge(self.B('B_len', t.INT, v, i), t.ZERO))

    def rt_trait(self, v, i):
        """round-trip trait (induction hypothesis of C01 about the element / member construct) on step i of both folds"""
        return ghost.rt_instance(self.B('B_ok', t.BOOL, v, i), self.P('P_ok', t.BOOL, v, i))

    def premises(self, v):
        sK = self.BF(v, v['K'])
        return t.and_(t.eq(v['l0'], v['p0']), t.ge(v['p0'], t.ZERO), t.eq(v['q0'], v['p0']), bs('bs_ok', sK),
                      agree(v['pbuf'], bs('bs_buf', sK), v['p0'], bs('bs_pos', sK)), t.le(bs('bs_pos', sK), v['plen']))

    # ---- C02 (canonical form): building what was parsed, and building equal values
    def def_p_step_rev(self, v, k):
        """k >= 1: a parse fold still running after k steps was running after k-1, step k-1 parsed, and it stands where that parse ended"""
        i = t.sub(k, t.ONE)
        s, s1 = self.PF(v, i), self.PF(v, k)
        return t.implies(t.and_(t.ge(k, t.ONE), self.good(s1)), t.and_(self.good(s), self.P('P_ok', t.BOOL, v, i), t.eq(ps('ps_pos', s1), self.P('P_end', t.INT, v, i))))

    def closure_trait(self, v, i):
        """closure of the element / member construct (induction hypothesis of C02): a value it parsed is accepted by its build, which
        returns an equal value and writes no more bytes than the parse consumed"""
        b, p = self.B('B_ok', t.BOOL, v, i), self.P('P_ok', t.BOOL, v, i)
        obj = self.bargs(v, i)[1]
        pv = self.P('P_val', t.VAL, v, i)
        used = t.sub(self.P('P_end', t.INT, v, i), self.pargs(v, i)[3])
        return t.implies(t.and_(p, t.or_(t.eq(obj, pv), t.app('pyeq', t.BOOL, obj, pv))),
                         t.and_(b, t.app('pyeq', t.BOOL, self.B('B_ret', t.VAL, v, i), obj), t.le(self.B('B_len', t.INT, v, i), used)))

    def make_canonical(self):
        F, BV, PV, nm = self, self.BV, self.PV, self.name
        T2 = ('C02',)

        def items_are_parsed(v, K):
            j = t.var('cj!', t.INT)
            return t.forall([j], t.implies(t.and_(t.le(t.ZERO, j), t.lt(j, K)), t.eq(F.item(v, j), F.P('P_val', t.VAL, v, j))), pats=[[F.item(v, j)]])

        def canon_build(v):
            k, K = v['k'], v['K']
            return t.implies(t.and_(t.le(t.ZERO, k), t.le(k, K), t.eq(v['l0'], v['p0']), t.ge(v['p0'], t.ZERO), F.good(F.PF(v, K)), items_are_parsed(v, K)),
                             t.and_(bs('bs_ok', F.BF(v, k)), t.le(t.sub(bs('bs_pos', F.BF(v, k)), v['p0']), t.sub(ps('ps_pos', F.PF(v, k)), v['q0'])),
                                    t.implies(t.ge(k, t.ONE), t.app('pyeq', t.BOOL, F.B('B_ret', t.VAL, v, t.sub(k, t.ONE)), F.P('P_val', t.VAL, v, t.sub(k, t.ONE))))))
        keep = lambda vars_: (lambda v: [{n: v[n] for n, _ in vars_}])      # noqa
        Lemma(nm + '_parse_good_mono', BV + PV + [('j', t.INT), ('d', t.INT)],
              lambda v: t.implies(t.and_(t.ge(v['j'], t.ZERO), t.ge(v['d'], t.ZERO), F.good(F.PF(v, t.add(v['j'], v['d'])))), F.good(F.PF(v, v['j']))),
              induct=('d', 0), tags=T2, ih_instances=keep(BV + PV + [('j', t.INT)]), defs=lambda v: [F.def_p_step_rev(v, t.add(v['j'], v['d']))],
              doc='every prefix of a running parse fold was running')
        Lemma(nm + '_canonical_build', BV + PV + [('k', t.INT), ('K', t.INT)], canon_build, induct=('k', 0), tags=T2, ih_instances=keep(BV + PV + [('K', t.INT)]),
              hints=lambda v: [F.inst('parse_good_mono', v, j=v['k'], d=t.sub(v['K'], v['k'])), F.inst('parse_good_mono', v, j=t.sub(v['k'], t.ONE), d=t.add(t.sub(v['K'], v['k']), t.ONE))],
              traits=lambda v: [F.closure_trait(v, t.sub(v['k'], t.ONE)), F.nonneg(v, t.sub(v['k'], t.ONE))],
              defs=lambda v: [F.def_b_zero(v), F.def_p_zero(v), F.def_b_step(v, v['k']), F.def_p_step_rev(v, v['k'])],
              doc='building the values a successful parse returned: every step builds, returns an equal value, and the output is no longer than the input consumed')
        # ---- building pairwise equal values twice: same success, same positions, same bytes
        SECOND = [('buf0x', t.ARR), ('Hbx', HEAP), ('Dbx', DOM), ('vx', t.VAL), ('cx', t.INT)]

        def second(v):
            w = dict(v)
            w.update(buf0=v['buf0x'], Hb=v['Hbx'], Db=v['Dbx'], v=v['vx'], c=v['cx'])
            return w

        def items_equal(v, K):
            j = t.var('cq!', t.INT)
            return t.forall([j], t.implies(t.and_(t.le(t.ZERO, j), t.lt(j, K)), t.app('pyeq', t.BOOL, F.item(v, j), F.item(second(v), j))), pats=[[F.item(v, j)], [F.item(second(v), j)]])

        def congruence_trait(v, i):
            """congruence of the element / member construct (induction hypothesis of C02): building equal values gives the same outcome
            and identical bytes"""
            w = second(v)
            b1, b2 = F.B('B_ok', t.BOOL, v, i), F.B('B_ok', t.BOOL, w, i)
            n1, n2 = F.B('B_len', t.INT, v, i), F.B('B_len', t.INT, w, i)
            W1, W2 = F.B('B_bytes', t.ARR, v, i), F.B('B_bytes', t.ARR, w, i)
            q = t.var('cgi!', t.INT)
            same = t.forall([q], t.implies(t.and_(t.le(t.ZERO, q), t.lt(q, n1)), t.eq(t.select(W1, q), t.select(W2, q))), pats=[[t.select(W1, q)], [t.select(W2, q)]])
            o1, o2 = F.bargs(v, i)[1], F.bargs(w, i)[1]
            return t.implies(t.or_(t.eq(o1, o2), t.app('pyeq', t.BOOL, o1, o2)), t.and_(t.eq(b1, b2), t.implies(b1, t.and_(t.eq(n1, n2), same))))

        def congr(v):
            k, K = v['k'], v['K']
            w = second(v)
            s1, s2 = F.BF(v, k), F.BF(w, k)
            return t.implies(t.and_(t.le(t.ZERO, k), t.le(k, K), t.eq(v['l0'], v['p0']), t.ge(v['p0'], t.ZERO), bs('bs_ok', F.BF(v, K)), items_equal(v, K)),
                             t.and_(bs('bs_ok', s2), t.eq(bs('bs_pos', s2), bs('bs_pos', s1)), agree(bs('bs_buf', s2), bs('bs_buf', s1), v['p0'], bs('bs_pos', s1))))
        self.items_equal = items_equal
        CV = BV + SECOND + [('k', t.INT), ('K', t.INT)]
        Lemma(nm + '_build_congruence', CV, congr, induct=('k', 0), tags=T2, ih_instances=keep(BV + SECOND + [('K', t.INT)]),
              hints=lambda v: [F.inst('ok_mono', v, j=v['k'], d=t.sub(v['K'], v['k'])), F.inst('ok_prefix', v), F.inst('pos_len', v, k=t.sub(v['k'], t.ONE)),
                               F.inst('pos_len', second(v), k=t.sub(v['k'], t.ONE)), F.inst('pos_len', v), F.inst('pos_len', second(v))],
              traits=lambda v: [congruence_trait(v, t.sub(v['k'], t.ONE)), F.nonneg(v, t.sub(v['k'], t.ONE)), F.nonneg(second(v), t.sub(v['k'], t.ONE))],
              defs=lambda v: [F.def_b_zero(v), F.def_b_zero(second(v)), F.def_b_step(v, v['k']), F.def_b_step(second(v), v['k'])],
              doc='two build folds over pairwise equal values, appending at the same position of two streams: same success, same positions, same bytes')
        self.second = second
        return self

    def inst(self, lemma, v, **kw):
        lem = LEMMAS['%s_%s' % (self.name, lemma)]
        return lem.stmt({n: kw[n] if n in kw else v[n] for n, _ in lem.vars})

    # ---- the lemmas
    def make(self):
        F, BV, PV = self, self.BV, self.PV
        nm = self.name

        def keep(vars_):
            return lambda v: [{n: v[n] for n, _ in vars_}]

        Lemma(nm + '_ok_prefix', BV + [('k', t.INT)],
              lambda v: t.implies(t.and_(t.ge(v['k'], t.ONE), bs('bs_ok', F.BF(v, v['k']))),
                                  t.and_(bs('bs_ok', F.BF(v, t.sub(v['k'], t.ONE))), F.step_ok(v, t.sub(v['k'], t.ONE)), F.B('B_ok', t.BOOL, v, t.sub(v['k'], t.ONE)))),
              tags=T, defs=lambda v: [F.def_b_step(v, v['k'])], doc='a build fold that succeeded over k steps succeeded over k-1, and step k-1 was built')
        Lemma(nm + '_ok_mono', BV + [('j', t.INT), ('d', t.INT)],
              lambda v: t.implies(t.and_(t.ge(v['j'], t.ZERO), t.ge(v['d'], t.ZERO), bs('bs_ok', F.BF(v, t.add(v['j'], v['d'])))), bs('bs_ok', F.BF(v, v['j']))),
              induct=('d', 0), tags=T, ih_instances=keep(BV + [('j', t.INT)]), hints=lambda v: [F.inst('ok_prefix', v, k=t.add(v['j'], v['d']))],
              doc='every prefix of a successful build fold is successful')

        def pos_len(v):
            s, prev = F.BF(v, v['k']), F.BF(v, t.sub(v['k'], t.ONE))
            return t.implies(t.and_(t.ge(v['k'], t.ZERO), t.eq(v['l0'], v['p0']), t.ge(v['p0'], t.ZERO), bs('bs_ok', s)),
                             t.and_(t.eq(bs('bs_len', s), bs('bs_pos', s)), t.ge(bs('bs_pos', s), v['p0']), t.implies(t.ge(v['k'], t.ONE), t.le(bs('bs_pos', prev), bs('bs_pos', s)))))
        Lemma(nm + '_pos_len', BV + [('k', t.INT)], pos_len, induct=('k', 0), tags=T, ih_instances=keep(BV),
              hints=lambda v: [F.inst('ok_prefix', v)], traits=lambda v: [F.nonneg(v, t.sub(v['k'], t.ONE))],
              defs=lambda v: [F.def_b_zero(v), F.def_b_step(v, v['k'])],
              doc='appending at the end of the stream, the build fold keeps position == length, and positions do not decrease')

        def stable(v):
            j, d = v['j'], v['d']
            s, sj = F.BF(v, t.add(j, d)), F.BF(v, j)
            return t.implies(t.and_(t.ge(j, t.ZERO), t.ge(d, t.ZERO), t.eq(v['l0'], v['p0']), t.ge(v['p0'], t.ZERO), bs('bs_ok', s)),
                             t.and_(t.le(bs('bs_pos', sj), bs('bs_pos', s)), agree(bs('bs_buf', s), bs('bs_buf', sj), t.ZERO, bs('bs_pos', sj))))
        Lemma(nm + '_stable', BV + [('j', t.INT), ('d', t.INT)], stable, induct=('d', 0), tags=T, ih_instances=keep(BV + [('j', t.INT)]),
              hints=lambda v: [F.inst('ok_prefix', v, k=t.add(v['j'], v['d'])), F.inst('pos_len', v, k=t.add(v['j'], v['d'])),
                               F.inst('pos_len', v, k=t.sub(t.add(v['j'], v['d']), t.ONE)), F.inst('pos_len', v, k=v['j'])],
              traits=lambda v: [F.nonneg(v, t.sub(t.add(v['j'], v['d']), t.ONE))],
              defs=lambda v: [F.def_b_step(v, t.add(v['j'], v['d']))], doc='later steps never overwrite what earlier steps wrote')

        def positions(v):
            k, K = v['k'], v['K']
            return t.implies(t.and_(t.le(t.ZERO, k), t.le(k, K), F.premises(v)), t.and_(F.good(F.PF(v, k)), t.eq(ps('ps_pos', F.PF(v, k)), bs('bs_pos', F.BF(v, k)))))
        Lemma(nm + '_roundtrip_positions', BV + PV + [('k', t.INT), ('K', t.INT)], positions, induct=('k', 0), tags=T, ih_instances=keep(BV + PV + [('K', t.INT)]),
              hints=lambda v: [F.inst('ok_mono', v, j=v['k'], d=t.sub(v['K'], v['k'])), F.inst('ok_prefix', v), F.inst('stable', v, j=v['k'], d=t.sub(v['K'], v['k'])),
                               F.inst('pos_len', v, k=t.sub(v['k'], t.ONE)), F.inst('pos_len', v)],
              traits=lambda v: [F.rt_trait(v, t.sub(v['k'], t.ONE)), F.nonneg(v, t.sub(v['k'], t.ONE))],
              defs=lambda v: [F.def_b_zero(v), F.def_p_zero(v), F.def_b_step(v, v['k']), F.def_p_step(v, v['k'])],
              doc='parsing the built bytes (followed by anything): after k steps the parse fold runs and stands where the build fold stood')

        def values(v):
            j, K = v['j'], v['K']
            direct = t.and_(F.P('P_ok', t.BOOL, v, j), t.app('pyeq', t.BOOL, F.P('P_val', t.VAL, v, j), F.B('B_ret', t.VAL, v, j)))
            if F.pval is None:
                return t.implies(t.and_(t.le(t.ZERO, j), t.lt(j, K), F.premises(v)), direct)
            av = t.app(F.pval, t.VAL, v[F.key], j, s0(v), v['pbuf'], v['plen'], v['base'], v['cp'])
            br = t.app(F.bret, t.VAL, v[F.key], j, b0(v), v['v'], v['base'], v['c'])
            return t.implies(t.and_(t.le(t.ZERO, j), t.lt(j, K), F.premises(v)), t.and_(direct, t.app('pyeq', t.BOOL, av, br)))

        def values_hints(v):
            j, K = v['j'], v['K']
            j1 = t.add(j, t.ONE)
            return [F.inst('roundtrip_positions', v, k=j), F.inst('ok_mono', v, j=j1, d=t.sub(K, j1)), F.inst('ok_prefix', v, k=j1),
                    F.inst('stable', v, j=j1, d=t.sub(K, j1)), F.inst('pos_len', v, k=j), F.inst('pos_len', v, k=j1)]
        Lemma(nm + '_roundtrip_values', BV + PV + [('j', t.INT), ('K', t.INT)], values, tags=T, hints=values_hints,
              traits=lambda v: [F.rt_trait(v, v['j']), F.nonneg(v, v['j'])], defs=lambda v: [F.def_b_step(v, t.add(v['j'], t.ONE))],
              doc='step j parses to a value equal to what its build returned')
        return self

    # ---- use in ghost programs: instances of the PROVED lemmas on the fold applications that occur in an obligation
    def match(self, bf, pf):
        """lemma variables from a build-fold application and a parse-fold application over the same key; None otherwise"""
        m, K, b0_, v_, base, c = bf.args
        m2, k, s0_, pbuf, plen, base2, c2 = pf.args
        if m.smt() != m2.smt() or b0_.op != 'mkBS' or s0_.op != 'mkPS':
            return None
        ok, buf0, l0, p0, Hb, Db = b0_.args
        pok, pstop, q0, Hp, Dp = s0_.args
        if ok.smt() != 'true' or pok.smt() != 'true' or pstop.smt() != 'false':
            return None
        if base.smt() != base2.smt():
            return None
        return {self.key: m, 'buf0': buf0, 'l0': l0, 'p0': p0, 'Hb': Hb, 'Db': Db, 'v': v_, 'base': base, 'c': c, 'pbuf': pbuf, 'plen': plen, 'q0': q0, 'Hp': Hp, 'Dp': Dp, 'cp': c2}, k, K

    def vars_of_build(self, bf):
        m, K, b0_, v_, base, c = bf.args
        if b0_.op != 'mkBS' or b0_.args[0].smt() != 'true':
            return None
        ok, buf0, l0, p0, Hb, Db = b0_.args
        return {self.key: m, 'buf0': buf0, 'l0': l0, 'p0': p0, 'Hb': Hb, 'Db': Db, 'v': v_, 'base': base, 'c': c}

    def match_any(self, bf, pf):
        """like match, but the two folds need not belong to one round trip (C02 pairs a parse with the build of its result)"""
        v = self.vars_of_build(bf)
        m2, k, s0_, pbuf, plen, base2, c2 = pf.args
        if v is None or v[self.key].smt() != m2.smt() or s0_.op != 'mkPS' or s0_.args[0].smt() != 'true' or s0_.args[1].smt() != 'false':
            return None
        pok, pstop, q0, Hp, Dp = s0_.args
        if v['base'].smt() != base2.smt():
            return None
        v.update(pbuf=pbuf, plen=plen, q0=q0, Hp=Hp, Dp=Dp, cp=c2)
        return v, k, bf.args[1]

    def post_hints(self, ob, extra_idx=()):
        terms = list(ob.hyps) + [ob.goal]
        apps = ghost.find_apps(terms, (self.bfold, self.pfold, self.pval))
        out, seen = [], set()

        def add(x):
            if x.smt() not in seen:
                seen.add(x.smt())
                out.append(x)
        # ground indexes at which the goal reads a list of values (the contracts state element values under a quantifier)
        idx = {}
        stack, seen_t = [ob.goal], set()
        while stack:
            x = stack.pop()
            if id(x) in seen_t or not isinstance(x, t.T):
                continue
            seen_t.add(id(x))
            if x.op == 'select' and getattr(x.args[0], 'sort', None) == 'VArr' and not ghost.has_bound_var(x):
                idx[x.args[1].smt()] = x.args[1]
            if x.op not in ('int', 'bool', 'strlit', 'var', 'raw', 'forall'):
                stack.extend(a for a in x.args if isinstance(a, t.T))
        for j in extra_idx:
            idx[j.smt()] = j
        for bf in apps[self.bfold].values():
            if ghost.has_bound_var(bf):
                continue
            for pf in apps[self.pfold].values():
                if ghost.has_bound_var(pf):
                    continue
                mt = self.match(bf, pf)
                if mt is None:
                    continue
                v, k, K = mt
                add(self.inst('pos_len', v, k=K))
                add(self.inst('roundtrip_positions', v, k=k, K=K))
            for av in apps[self.pval].values():
                for j in idx.values():
                    mt = self.match(bf, t.app(self.pfold, 'PS', av.args[0], j, *av.args[2:]))
                    if mt is None:
                        continue
                    v, _, K = mt
                    add(self.inst('roundtrip_values', v, j=j, K=K))
        return out


def ground_indexes(ob):
    """ground indexes at which the goal reads a list of values"""
    idx = {}
    stack, seen_t = [ob.goal], set()
    while stack:
        x = stack.pop()
        if id(x) in seen_t or not isinstance(x, t.T):
            continue
        seen_t.add(id(x))
        if x.op == 'select' and getattr(x.args[0], 'sort', None) == 'VArr' and not ghost.has_bound_var(x):
            idx[x.args[1].smt()] = x.args[1]
        if x.op == 'dyn_item' and not ghost.has_bound_var(x):
            idx[x.args[1].smt()] = x.args[1]
        if x.op not in ('int', 'bool', 'strlit', 'var', 'raw', 'forall'):
            stack.extend(a for a in x.args if isinstance(a, t.T))
    return list(idx.values())


def canonical_post_hints(F):
    """instances of the proved canonical-form lemmas (and of the round-trip lemmas) on the fold applications of a C02 ghost obligation"""
    def hints(ob):
        apps = ghost.find_apps(list(ob.hyps) + [ob.goal], (F.bfold, F.pfold))
        bfs = [b for b in apps[F.bfold].values() if not ghost.has_bound_var(b)]
        pfs = [p_ for p_ in apps[F.pfold].values() if not ghost.has_bound_var(p_)]
        pairs = []
        for b1 in bfs:
            for b2 in bfs:
                if b1 is b2 or b1.args[0].smt() != b2.args[0].smt():
                    continue
                v = F.vars_of_build(b1)
                w = F.vars_of_build(b2)
                if v is None or w is None or v['base'].smt() != w['base'].smt():
                    continue
                pairs.append((b1, b2, v, w))
        # the congruence lemma wants the two value lists pairwise equal - a universally quantified premise.  It is established at a
        # fresh constant `wit` (every lemma below is instantiated there) and generalised by
        #     (0 <= wit < K => item(v, wit) == item(w, wit))  =>  forall j. 0 <= j < K => item(v, j) == item(w, j)
        # which some value of `wit` satisfies whatever the lists are (a counterexample index if there is one, anything otherwise):
        # assuming it for a constant that occurs nowhere else is conservative
        wit = t.var('wit!idx', t.INT) if pairs else None
        out = list(F.post_hints(ob, [wit] if pairs else []))
        seen = {x.smt() for x in out}

        def add(x):
            if x.smt() not in seen:
                seen.add(x.smt())
                out.append(x)
        for bf in bfs:
            for pf in pfs:
                mt = F.match_any(bf, pf)
                if mt is None:
                    continue
                v, k_p, k_b = mt
                add(F.inst('canonical_build', v, k=k_b, K=k_p))
                add(F.inst('parse_good_mono', v, j=k_b, d=t.sub(k_p, k_b)))
                for j in ground_indexes(ob) + ([wit] if pairs else []):
                    j1 = t.add(j, t.ONE)
                    add(F.inst('canonical_build', v, k=j1, K=k_p))
                    add(F.inst('parse_good_mono', v, j=j1, d=t.sub(k_p, j1)))
        for b1, b2, v, w in pairs:
            vv = dict(v, buf0x=w['buf0'], Hbx=w['Hb'], Dbx=w['Db'], vx=w['v'], cx=w['c'])
            add(F.inst('build_congruence', vv, k=b2.args[1], K=b1.args[1]))
            add(F.inst('pos_len', v, k=b1.args[1]))
            K = b1.args[1]
            at_wit = t.implies(t.and_(t.le(t.ZERO, wit), t.lt(wit, K)), t.app('pyeq', t.BOOL, F.item(v, wit), F.item(w, wit)))
            add(t.implies(at_wit, F.items_equal(vv, K)))
        return out
    return hints


class ArrayFamily(Family):
    def item(self, v, j):
        return t.app('dyn_item', t.VAL, v['v'], j)

    def bargs(self, v, i):
        s = self.BF(v, i)
        H0, D0 = _indexed(bs('bs_H', s), bs('bs_D', s), v['c'], i)
        return (v['m'], t.app('dyn_item', t.VAL, v['v'], i), t.add(bs('bs_pos', s), v['base']), H0, D0, v['c'])

    def pargs(self, v, i):
        s = self.PF(v, i)
        H0, D0 = _indexed(ps('ps_H', s), ps('ps_D', s), v['cp'], i)
        return (v['m'], v['pbuf'], v['plen'], ps('ps_pos', s), v['base'], H0, D0, v['cp'])


class SequenceFamily(Family):
    def good(self, s):
        return t.and_(ps('ps_ok', s), t.not_(ps('ps_stop', s)))

    def item(self, v, j):
        return t.app('qbitem', t.VAL, v['v'], j)

    def bargs(self, v, i):
        s = self.BF(v, i)
        m = t.app('sl_at', t.INT, v['sl'], i)
        e = t.app('qbitem', t.VAL, v['v'], i)
        H1, D1 = _named(bs('bs_H', s), bs('bs_D', s), v['c'], m, e)
        return (m, e, t.add(bs('bs_pos', s), v['base']), H1, D1, v['c'])

    def pargs(self, v, i):
        s = self.PF(v, i)
        return (t.app('sl_at', t.INT, v['sl'], i), v['pbuf'], v['plen'], ps('ps_pos', s), v['base'], ps('ps_H', s), ps('ps_D', s), v['cp'])


class StructFamily(Family):
    """Struct: the build fold reads each member's value from the supplied container (address oa) and the parse fold writes each
    named member's value into the result container (address r) as well as into the nested scope"""

    def __init__(self):
        Family.__init__(self, 'struct', 'sl', 'bfold', 'pfold', None, None)
        self.BV = [('sl', t.INT)] + [x for x in BASE_B if x[0] != 'v'] + [('oa', t.INT)]
        self.PV = BASE_P + [('r', t.INT)]

    def BF(self, v, k):
        return t.app('bfold', 'BS', v['sl'], k, b0(v), v['base'], v['c'], v['oa'])

    def PF(self, v, k):
        return t.app('pfold', 'PS', v['sl'], k, s0(v), v['pbuf'], v['plen'], v['base'], v['cp'], v['r'])

    def good(self, s):
        return t.and_(ps('ps_ok', s), t.not_(ps('ps_stop', s)))

    def member(self, v, i):
        return t.app('sl_at', t.INT, v['sl'], i)

    def bargs(self, v, i):
        s = self.BF(v, i)
        m = self.member(v, i)
        val = t.app('bval', t.VAL, m, bs('bs_H', s), bs('bs_D', s), v['oa'])
        H1, D1 = _named(bs('bs_H', s), bs('bs_D', s), v['c'], m, val)
        return (m, val, t.add(bs('bs_pos', s), v['base']), H1, D1, v['c'])

    def step_ok(self, v, i):
        s = self.BF(v, i)
        return t.and_(t.app('bhas', t.BOOL, self.member(v, i), bs('bs_D', s), v['oa']), self.B('B_ok', t.BOOL, v, i))

    def pargs(self, v, i):
        s = self.PF(v, i)
        return (self.member(v, i), v['pbuf'], v['plen'], ps('ps_pos', s), v['base'], ps('ps_H', s), ps('ps_D', s), v['cp'])

    def match(self, bf, pf):
        sl, K, b0_, base, c, oa = bf.args
        sl2, k, s0_, pbuf, plen, base2, c2, r = pf.args
        if sl.smt() != sl2.smt() or b0_.op != 'mkBS' or s0_.op != 'mkPS':
            return None
        ok, buf0, l0, p0, Hb, Db = b0_.args
        pok, pstop, q0, Hp, Dp = s0_.args
        if ok.smt() != 'true' or pok.smt() != 'true' or pstop.smt() != 'false' or base.smt() != base2.smt():
            return None
        # the two folds run in different nested scopes (one per call): the lemma is stated for one scope address, the hypothesis
        # "context agreement" of the round-trip trait makes the scope irrelevant to the members - so both addresses are admitted
        return {'sl': sl, 'buf0': buf0, 'l0': l0, 'p0': p0, 'Hb': Hb, 'Db': Db, 'base': base, 'c': c, 'oa': oa, 'pbuf': pbuf, 'plen': plen, 'q0': q0, 'Hp': Hp, 'Dp': Dp, 'r': r, 'cp': c2}, k, K


def struct_persistence(F):
    """what a named member stored stays: in the result container through the later parse steps, in the build scope through the later
    build steps.  Hypotheses: member names are pairwise distinct and none is '_index'; interface frame of a sub-construct call (the
    context changes at most at '_index', other containers are untouched)."""
    from .unions import _names_distinct

    def name(v, i):
        return t.app('sc_name', t.VAL, F.member(v, i))

    def named(v, i):
        return t.app('truthy', t.BOOL, name(v, i))

    def key(v, i):
        return t.app('sval', t.STR, name(v, i))

    def sel(H, a, k, sort, inner):
        return t.T(sort, 'select', (t.T(inner, 'select', (H, a)), k))

    def distinct(v, K):
        return _names_distinct(v['sl'], K)

    # ---- parse side
    PVARS = [('sl', t.INT), ('base', t.INT)] + F.PV + [('j', t.INT), ('d', t.INT)]

    def pstep_def(v, k):
        prev = F.PF(v, t.sub(k, t.ONE))
        step = t.app('pstep', 'PS', F.member(v, t.sub(k, t.ONE)), prev, v['pbuf'], v['plen'], v['base'], v['cp'], v['r'])
        return t.implies(t.ge(k, t.ONE), t.eq(F.PF(v, k), step))

    def pframe(v, i):
        a = F.pargs(v, i)
        s = F.PF(v, i)
        return t.implies(t.ne(v['r'], v['cp']), t.and_(t.eq(t.T('Fields', 'select', (t.app('P_H', HEAP, *a), v['r'])), t.T('Fields', 'select', (ps('ps_H', s), v['r']))),
                                                       t.eq(t.T('Keys', 'select', (t.app('P_D', DOM, *a), v['r'])), t.T('Keys', 'select', (ps('ps_D', s), v['r'])))))

    def presult(v):
        j, d = v['j'], v['d']
        K = t.add(t.add(j, t.ONE), d)
        S_ = F.PF(v, K)
        return t.implies(t.and_(t.ge(j, t.ZERO), t.ge(d, t.ZERO), F.good(S_), named(v, j), t.ne(v['r'], v['cp']), distinct(v, K)),
                         t.and_(sel(ps('ps_D', S_), v['r'], key(v, j), t.BOOL, 'Keys'), t.eq(sel(ps('ps_H', S_), v['r'], key(v, j), t.VAL, 'Fields'), F.P('P_val', t.VAL, v, j))))
    Lemma('struct_result_holds', PVARS, presult, induct=('d', 0), tags=T, ih_instances=lambda v: [{n: v[n] for n, _ in PVARS if n != 'd'}],
          traits=lambda v: [pframe(v, t.add(v['j'], v['d']))], defs=lambda v: [pstep_def(v, t.add(t.add(v['j'], t.ONE), v['d']))],
          doc='the result container holds, under the name of member j, the value member j parsed - whatever was parsed after it')

    # ---- build side
    BVARS = F.BV + [('j', t.INT), ('d', t.INT)]

    def bstep_def(v, k):
        prev = F.BF(v, t.sub(k, t.ONE))
        step = t.app('bstep', 'BS', F.member(v, t.sub(k, t.ONE)), prev, v['base'], v['c'], v['oa'])
        return t.implies(t.ge(k, t.ONE), t.eq(F.BF(v, k), step))

    def bframe(v, i):
        a = F.bargs(v, i)
        H1, D1, c = a[3], a[4], v['c']
        H2, D2 = t.app('B_H', HEAP, *a), t.app('B_D', DOM, *a)
        f1, f2 = t.T('Fields', 'select', (H1, c)), t.T('Fields', 'select', (H2, c))
        d1, d2 = t.T('Keys', 'select', (D1, c)), t.T('Keys', 'select', (D2, c))
        return t.and_(t.eq(f2, t.T('Fields', 'store', (f1, S('_index'), t.T(t.VAL, 'select', (f2, S('_index')))))),
                      t.eq(d2, t.T('Keys', 'store', (d1, S('_index'), t.T(t.BOOL, 'select', (d2, S('_index')))))))

    def bscope(v):
        j, d = v['j'], v['d']
        K = t.add(t.add(j, t.ONE), d)
        S_ = F.BF(v, K)
        return t.implies(t.and_(t.ge(j, t.ZERO), t.ge(d, t.ZERO), bs('bs_ok', S_), named(v, j), t.ne(key(v, j), S('_index')), distinct(v, K)),
                         t.and_(sel(bs('bs_D', S_), v['c'], key(v, j), t.BOOL, 'Keys'), t.eq(sel(bs('bs_H', S_), v['c'], key(v, j), t.VAL, 'Fields'), F.B('B_ret', t.VAL, v, j))))
    Lemma('struct_scope_holds', BVARS, bscope, induct=('d', 0), tags=T, ih_instances=lambda v: [{n: v[n] for n, _ in BVARS if n != 'd'}],
          traits=lambda v: [bframe(v, t.add(v['j'], v['d']))], defs=lambda v: [bstep_def(v, t.add(t.add(v['j'], t.ONE), v['d']))],
          doc='the build scope holds, under the name of member j, what the build of member j returned - whatever was built after it')


def no_stop_on_build(src):
    """domain restriction of the member-list round trip (listed in the evidence): no member refuses to build with StopFieldError
    (a StopIf inside the list ends the build early; what was written then parses back only if the same condition holds when
    parsing, which is a statement about the user's condition, not about the library)"""
    codes = sorted(src.exc_code[n] for n in src.exc_descendants('StopFieldError'))

    def hints(ob):
        apps = ghost.find_apps(list(ob.hyps) + [ob.goal], ('B_exc',))
        return [t.not_(t.or_(*[t.eq(a, I(c)) for c in codes])) for a in apps['B_exc'].values() if not ghost.has_bound_var(a)]
    return hints


ARRAY = ArrayFamily('array', 'm', 'abfold', 'afold', 'aval', 'abret').make().make_canonical()
SEQUENCE = SequenceFamily('sequence', 'sl', 'qbfold', 'qfold', 'qval', 'qbret').make().make_canonical()
STRUCT = StructFamily().make()
struct_persistence(STRUCT)
ghost.POST_HINTS['Array'] = canonical_post_hints(ARRAY)
def struct_post_hints(ob):
    """instances of the proved Struct lemmas on the fold applications of a ghost obligation; member indexes are taken from the
    member-list accesses (sl_at) that occur ground in it"""
    F = STRUCT
    terms = list(ob.hyps) + [ob.goal]
    apps = ghost.find_apps(terms, ('bfold', 'pfold', 'sl_at'))
    out, seen = [], set()

    def add(x):
        if x.smt() not in seen:
            seen.add(x.smt())
            out.append(x)
    idx = {a.args[1].smt(): a.args[1] for a in apps['sl_at'].values() if not ghost.has_bound_var(a)}
    for bf in apps['bfold'].values():
        if ghost.has_bound_var(bf):
            continue
        for pf in apps['pfold'].values():
            if ghost.has_bound_var(pf):
                continue
            mt = F.match(bf, pf)
            if mt is None:
                continue
            v, k, K = mt
            add(F.inst('pos_len', v, k=K))
            add(F.inst('roundtrip_positions', v, k=k, K=K))
            for j in idx.values():
                add(F.inst('roundtrip_values', v, j=j, K=K))
                d = t.sub(t.sub(K, j), t.ONE)
                add(LEMMAS['struct_result_holds'].stmt(dict(v, j=j, d=d)))
                add(LEMMAS['struct_scope_holds'].stmt(dict(v, j=j, d=d)))
    return out


def install(src):
    nostop = no_stop_on_build(src)
    seq_canon = canonical_post_hints(SEQUENCE)

    def no_stop_on_parse(ob):
        """domain restriction of the canonical-form lemma for Sequence (listed in the evidence): the accepted input is one on which no
        member ended the parse early (StopIf): such a parse returns a SHORTER list, which builds (fix f8c1dc3) but is outside the lemma"""
        apps = ghost.find_apps(list(ob.hyps) + [ob.goal], ('qfold',))
        return [t.not_(ps('ps_stop', a)) for a in apps['qfold'].values() if not ghost.has_bound_var(a)]
    ghost.POST_HINTS['Sequence'] = lambda ob: ((seq_canon(ob) + no_stop_on_parse(ob)) if getattr(ob, 'canonical_traits', False) else SEQUENCE.post_hints(ob)) + nostop(ob)
    ghost.POST_HINTS['Struct'] = lambda ob: struct_post_hints(ob) + nostop(ob)
    from . import lazylemmas as _lzl
    ghost.POST_HINTS['LazyStruct'] = _lzl.struct_post_hints(src)
