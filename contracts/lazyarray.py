"""C16: LazyArray._parse establishes the representation invariant of its result (contracts/lazy.py) and records, for every
element, the offset at which an eager parse of the same data would find it.

Specification: lzpos(j) is where element j starts - after an element whose _actualsize answers, that size further on; after any
other element, where its parse ended.  The hypothesis of the property ("members do not depend on the scope": no cross references)
is a precondition here, stated for the element construct: its parse and its _actualsize give the same answers in every scope, so
everything is expressed in one fixed reference scope (the one the access contracts of LazyListContainer use)."""
from pyvc import terms as t, prelude
from pyvc.terms import I, S
from pyvc.values import *  # noqa
from pyvc.contract import Case, rk_dyn
from pyvc.exec import LoopSpec
from .prims import fcontract, S_, generic_raise, buffer_same, _param_int
from .composites import _base

T = ('C16',)
REF = (t.var('lz_refH', 'Heap'), t.var('lz_refD', 'Dom'), t.var('lz_refc', t.INT))
SIG = [t.INT, t.ARR, t.INT, t.INT, t.INT, 'Heap', 'Dom', t.INT]
for _fn, _srt in (('A_ok', t.BOOL), ('A_val', t.INT), ('A_exc', t.INT)):
    prelude.declare_fun(_fn, SIG, _srt)


def define_lazy_folds(src):
    sizeof = sorted(src.exc_code[n] for n in src.exc_descendants('SizeofError'))
    is_sz = '(or %s)' % ' '.join('(= (A_exc m buf len p base H D c) %d)' % c for c in sizeof) if len(sizeof) > 1 else '(= (A_exc m buf len p base H D c) %d)' % sizeof[0]
    # lz_ok(j): elements 0..j-1 were all skipped or parsed; lzpos(j): where element j starts
    prelude.define('lzstep_ok', """(define-fun lzstep_ok ((m Int) (p Int) (buf (Array Int Int)) (len Int) (base Int) (H (Array Int (Array String Val))) (D (Array Int (Array String Bool))) (c Int)) Bool
  (or (A_ok m buf len p base H D c) (and %s (P_ok m buf len p base H D c))))""" % is_sz, deps=['A_ok', 'A_exc', 'P_ok'])
    prelude.define('lzstep_pos', """(define-fun lzstep_pos ((m Int) (p Int) (buf (Array Int Int)) (len Int) (base Int) (H (Array Int (Array String Val))) (D (Array Int (Array String Bool))) (c Int)) Int
  (ite (A_ok m buf len p base H D c) (+ p (A_val m buf len p base H D c)) (P_end m buf len p base H D c)))""", deps=['A_ok', 'A_val', 'P_end'])
    prelude.define('lzpos', """(define-fun-rec lzpos ((m Int) (j Int) (p0 Int) (buf (Array Int Int)) (len Int) (base Int) (H (Array Int (Array String Val))) (D (Array Int (Array String Bool))) (c Int)) Int
  (ite (<= j 0) p0 (lzstep_pos m (lzpos m (- j 1) p0 buf len base H D c) buf len base H D c)))""", deps=['lzstep_pos'])
    prelude.define('lzok', """(define-fun-rec lzok ((m Int) (j Int) (p0 Int) (buf (Array Int Int)) (len Int) (base Int) (H (Array Int (Array String Val))) (D (Array Int (Array String Bool))) (c Int)) Bool
  (ite (<= j 0) true (and (lzok m (- j 1) p0 buf len base H D c) (lzstep_ok m (lzpos m (- j 1) p0 buf len base H D c) buf len base H D c))))""", deps=['lzstep_ok', 'lzpos'])


def _m(pre):
    return pre.self.fields['subcon'].ident


def lzpos(pre, j):
    o = S_(pre)
    return t.app('lzpos', t.INT, _m(pre), j, o.pos, o.buf, o.len, _base(o), *REF)


def lzok(pre, j):
    o = S_(pre)
    return t.app('lzok', t.BOOL, _m(pre), j, o.pos, o.buf, o.len, _base(o), *REF)


def _at(pre, fn, sort, p):
    o = S_(pre)
    return t.app(fn, sort, _m(pre), o.buf, o.len, p, _base(o), *REF)


def _unfold(pre, k):
    o = S_(pre)
    prev = lzpos(pre, t.sub(k, t.ONE))
    a = (_m(pre), prev, o.buf, o.len, _base(o)) + REF
    return t.implies(t.ge(k, t.ONE), t.and_(t.eq(lzpos(pre, k), t.app('lzstep_pos', t.INT, *a)),
                                            t.eq(lzok(pre, k), t.and_(lzok(pre, t.sub(k, t.ONE)), t.app('lzstep_ok', t.BOOL, *a)))))


def scope_independence_of(m):
    """hypothesis of C16 (no cross references), for the element construct m: the outcome of parsing it and of asking its actual
    size does not depend on the scope (whatever the data)"""
    buf, ln, base = t.var('lzb!', t.ARR), t.var('lzl!', t.INT), t.var('lzs!', t.INT)
    p, H, D, c = t.var('lzp!', t.INT), t.var('lzH!', 'Heap'), t.var('lzD!', 'Dom'), t.var('lzc!', t.INT)
    out = []
    for fn, sort in (('P_ok', t.BOOL), ('P_val', t.VAL), ('P_end', t.INT), ('P_exc', t.INT), ('A_ok', t.BOOL), ('A_val', t.INT), ('A_exc', t.INT)):
        a = t.app(fn, sort, m, buf, ln, p, base, H, D, c)
        b = t.app(fn, sort, m, buf, ln, p, base, *REF)
        out.append(t.forall([buf, ln, p, base, H, D, c], t.eq(a, b), pats=[[a]]))
    return t.and_(*out)


def scope_independence(pre):
    return scope_independence_of(_m(pre))


def _vint(i):
    return t.app('VInt', t.VAL, i)


def _dict_terms(eng, st, ref):
    o = st.get(ref)
    if o.items is not None:
        o = eng.models.symbolic_dict(eng, o, st)
    return o.has, o.get


def offsets_clause(pre, has, get, k):
    """offsets holds, for every j <= k, the absolute offset at which element j starts - and nothing else"""
    o = S_(pre)
    j = t.var('lzj!', t.INT)
    inr = t.and_(t.le(t.ZERO, j), t.le(j, k))
    return t.and_(t.forall([j], t.implies(inr, t.and_(t.T(t.BOOL, 'select', (has, _vint(j))), t.eq(t.T(t.VAL, 'select', (get, _vint(j))), _vint(t.add(lzpos(pre, j), _base(o)))),
                                                      t.ge(lzpos(pre, j), t.ZERO))),
                           pats=[[t.T(t.BOOL, 'select', (has, _vint(j)))], [t.T(t.VAL, 'select', (get, _vint(j)))]]),
                  t.forall([j], t.implies(t.T(t.BOOL, 'select', (has, _vint(j))), inr), pats=[[t.T(t.BOOL, 'select', (has, _vint(j)))]]))


def values_clause(pre, has, get, k):
    """values caches exactly the elements that had to be parsed because they could not say their size; each cached value is what
    the element yields at its offset"""
    j = t.var('lzv!', t.INT)
    p = lzpos(pre, j)
    return t.forall([j], t.implies(t.T(t.BOOL, 'select', (has, _vint(j))),
                                   t.and_(t.le(t.ZERO, j), t.lt(j, k), _at(pre, 'P_ok', t.BOOL, p), t.eq(t.T(t.VAL, 'select', (get, _vint(j))), _at(pre, 'P_val', t.VAL, p)))),
                    pats=[[t.T(t.BOOL, 'select', (has, _vint(j)))]])


def _inv(L):
    pre = L.extra['pre']
    o0 = pre.obj('stream')
    if o0.model == 'adv':
        return []
    o = L.obj('stream')
    eng = L.eng
    oh, og = _dict_terms(eng, L.st, L.st.env['offsets'])
    vh, vg = _dict_terms(eng, L.st, L.st.env['values'])
    off = L['offset']
    hints = [_unfold(pre, L.k)] if L.k.op != 'int' else []
    return [('after-k-elements-the-stream-stands-where-element-k-starts', t.and_(lzok(pre, L.k), t.eq(o.pos, lzpos(pre, L.k)), t.eq(eng.as_int(off, L.st)[0], t.add(lzpos(pre, L.k), _base(o0))),
                                                                               t.eq(o.buf, o0.buf), t.eq(o.len, o0.len)), None, hints),
            ('offsets-records-where-every-element-so-far-starts', offsets_clause(pre, oh, og, L.k)),
            ('values-caches-what-the-parsed-elements-yield-at-their-offsets', values_clause(pre, vh, vg, L.k))]


def _ok(pre, post):
    o, o2 = S_(pre), post.obj('stream')
    n = _param_int(pre, 'count')
    r = post.st.get(post.result) if isinstance(post.result, VRef) else None
    out = [('count-is-not-negative', t.ge(n, t.ZERO), T),
           ('every-element-was-skipped-by-its-actual-size-or-parsed', lzok(pre, n), T),
           ('stream-stands-where-the-element-after-the-last-would-start', t.eq(o2.pos, lzpos(pre, n)), T),
           ('buffer-unchanged', buffer_same(pre, post), ('C17', 'C16'))]
    if r is None or not hasattr(r, 'fields'):
        if getattr(post.eng.models, 'ghost_mode', False):
            return out
        return out + [('returns-a-lazy-list', t.FALSE, T)]
    f = r.fields
    oh, og = _dict_terms(post.eng, post.st, f['_offsets'])
    vh, vg = _dict_terms(post.eng, post.st, f['_values'])
    cnt = post.eng.as_int(f['_count'], post.st)[0]
    out += [('the-result-knows-the-element-construct-the-count-and-the-stream',
             t.and_(t.eq(cnt, n), post.eng.models.same_object(f['_stream'], post.args['stream']) if hasattr(post.eng.models, 'same_object') else t.TRUE,
                    t.eq(f['_subcon'].ident, _m(pre)) if isinstance(f['_subcon'], VSub) else t.FALSE), T),
            ('offsets-records-where-every-element-starts', offsets_clause(pre, oh, og, n), T),
            ('values-caches-what-the-parsed-elements-yield-at-their-offsets', values_clause(pre, vh, vg, n), T)]
    return out


def _bad(pre, post):
    n = _param_int(pre, 'count')
    range_err = t.eq(post.exc.cls, I(post.eng.src.exc_code['RangeError']))
    out = [('negative-count-is-RangeError', t.implies(t.lt(n, t.ZERO), range_err), T)] + list(generic_raise(pre, post))
    if pre.obj('stream').model == 'adv':
        return out
    kk = post.st.ghost.get('loop_k')
    ghost_mode = getattr(post.eng.models, 'ghost_mode', False)
    if kk is None or ghost_mode:
        if not ghost_mode and post.st.ghost.get('LE'):
            return out
        kk = fresh('failed_element', t.INT)
    out.append(('a-failure-is-an-element-that-could-neither-be-skipped-nor-parsed', t.implies(t.ge(n, t.ZERO), t.and_(t.le(t.ZERO, kk), t.lt(kk, n), t.not_(lzok(pre, t.add(kk, t.ONE))))), T,
                [('def', _unfold(pre, t.add(kk, t.ONE)))]))
    return out


def rk_lazylist(eng, st, pre):
    """at a call site: a LazyListContainer over the same stream, element construct and scope, whose count, offsets and cache the
    clauses describe"""
    offs = st.alloc(ODict(has=fresh('res_offsets_has', 'VMapHas'), get=fresh('res_offsets_get', 'VMapGet')), 'dict')
    vals = st.alloc(ODict(has=fresh('res_values_has', 'VMapHas'), get=fresh('res_values_get', 'VMapGet')), 'dict')
    cnt = fresh('res_count', t.INT)
    st.assume(t.ge(cnt, t.ZERO))
    fields = {'_subcon': pre.self.fields['subcon'], '_stream': pre.args['stream'], '_count': VInt(cnt), '_offsets': offs, '_values': vals,
              '_context': pre.args['context'], '_path': pre.args['path']}
    return st.alloc(OObject('LazyListContainer', fields), 'object')


def register_lazyarray(src):
    define_lazy_folds(src)
    fcontract('LazyArray', '_parse', [
        Case('ok', 'return', lambda pre: t.TRUE, ensures=_ok, rkind=rk_lazylist, modifies=['stream']),
        Case('fails', 'raise', lambda pre: t.TRUE, ensures=_bad, modifies=['stream']),
    ], loops={'for i in range(count)': LoopSpec(_inv, tags=T, modifies=())}, tags=T,
        requires=lambda pre: [('hypothesis: parsing an element and asking its size do not depend on the scope', scope_independence(pre))])
