"""Functional contracts for the straight-line classes: Computed, Index, Pass, Error, Tell, Seek, Terminated, StopIf, Rebuild,
Switch, Checksum, and the remaining methods of Check, Pointer, Peek, NullTerminated.  Each says exactly what is returned,
what happens to the stream and which error is raised; sub-constructs through the interface functions."""
from pyvc import terms as t, prelude
from pyvc.terms import I, S
from pyvc.values import *  # noqa
from pyvc.contract import Case, rk_dyn
from .prims import fcontract, S_, generic_raise, buffer_same, size_is, _param_truth, _param_int, _avail
from .wrappers import Sub, result_is, heap_is, _written, _abs_base, _Eff, _ptr_target
from .conditionals import _deleg_parse, _deleg_build

T = ('C03', 'C01', 'C02')


def exc_is(post, name):
    return t.eq(post.exc.cls, I(post.eng.src.exc_code[name]))


def pval(pre, name):
    """value of a parameter of self in the entry context (constant or context expression)"""
    eng = pre.eng
    p = pre.self.fields[name]
    iface = eng.models.interface
    H, D = pre.st.ghost['H'], pre.st.ghost['D']
    c = pre.obj('context').addr
    return t.ite(p.callable_t, t.app('ev_val', t.VAL, p.ident, H, D, c), eng.to_dyn(iface.param_const(eng, p, pre.st), pre.st))


def stream_same(pre, post):
    o, o2 = S_(pre), post.obj('stream')
    return ('stream-untouched', t.and_(t.eq(o2.pos, o.pos), t.eq(o2.buf, o.buf), t.eq(o2.len, o.len)), ('C03', 'C09', 'C17'))


def zero_size(cls, tags=('C05',)):
    fcontract(cls, '_sizeof', [Case('ok', 'return', lambda pre: t.TRUE, ensures=lambda pre, post: [('size-is-zero', size_is(post, t.ZERO), ('C05',))], rkind=rk_dyn)], tags=tags)


def no_size(cls):
    fcontract(cls, '_sizeof', [Case('no-size', 'raise', lambda pre: t.TRUE, ensures=lambda pre, post: [('unsized-is-SizeofError', exc_is(post, 'SizeofError'), ('C05',))])], tags=('C05',))


# ------------------------------------------------------------------------------------------------ Computed / Index / Pass / Error
for _m in ('_parse', '_build'):
    fcontract('Computed', _m, [Case('ok', 'return', lambda pre: t.TRUE, rkind=rk_dyn,
                                    ensures=lambda pre, post: [('returns-the-value-of-the-expression-in-this-context', result_is(post, pval(pre, 'func')), T + ('C07',)), stream_same(pre, post)])], tags=T)
    fcontract('Index', _m, [Case('ok', 'return', lambda pre: t.TRUE, rkind=rk_dyn,
                                 ensures=lambda pre, post: [('returns-the-current-repetition-index-or-None', result_is(post, t.ite(
                                     t.T(t.BOOL, 'select', (t.T('Keys', 'select', (pre.st.ghost['D'], pre.obj('context').addr)), S('_index'))),
                                     t.T(t.VAL, 'select', (t.T('Fields', 'select', (pre.st.ghost['H'], pre.obj('context').addr)), S('_index'))), t.app('VNone', t.VAL))), T + ('C07',)),
                                     stream_same(pre, post)])], tags=T + ('C07',))
    fcontract('Error', _m, [Case('always', 'raise', lambda pre: t.TRUE, ensures=lambda pre, post: [('Error-field-raises-ExplicitError', exc_is(post, 'ExplicitError'), ('C13', 'C06'))] + generic_raise(pre, post))],
              tags=('C13', 'C06', 'C18'))
fcontract('Pass', '_parse', [Case('ok', 'return', lambda pre: t.TRUE, rkind=rk_dyn,
                                  ensures=lambda pre, post: [('returns-None', result_is(post, t.app('VNone', t.VAL)), T), stream_same(pre, post)])], tags=T)
for _c in ('Pass', 'Terminated', 'Peek'):
    fcontract(_c, '_build', [Case('ok', 'return', lambda pre: t.TRUE, rkind=rk_dyn,
                                  ensures=lambda pre, post: [('returns-the-value-unchanged-and-writes-nothing', result_is(post, pre['obj'].t), T), stream_same(pre, post)])], tags=T)
for _c in ('Computed', 'Index', 'Pass', 'Check', 'Tell', 'Pointer', 'Peek'):
    zero_size(_c)
for _c in ('Error', 'StopIf', 'Seek', 'Terminated', 'NullTerminated'):
    no_size(_c)


# ------------------------------------------------------------------------------------------------ Tell / Seek / Terminated / StopIf
for _m in ('_parse', '_build'):
    fcontract('Tell', _m, [Case('ok', 'return', lambda pre: t.TRUE, rkind=rk_dyn,
                                ensures=lambda pre, post: [('returns-the-absolute-position', result_is(post, t.app('VInt', t.VAL, t.add(S_(pre).pos, _abs_base(S_(pre))))), T + ('C08',)),
                                                           stream_same(pre, post)])], tags=T + ('C08',))


def _seek_target(pre):
    o = S_(pre)
    at, wh = _param_int(pre, 'at'), _param_int(pre, 'whence')
    # io.BytesIO: relative seeks are clamped at 0; an absolute seek to a negative offset is refused
    return t.ite(t.eq(wh, t.ZERO), at, t.ite(t.eq(wh, t.ONE), t.imax(t.add(o.pos, at), t.ZERO), t.imax(t.add(o.len, at), t.ZERO)))


def _seek_ok(pre):
    at, wh = _param_int(pre, 'at'), _param_int(pre, 'whence')
    return t.or_(t.and_(t.eq(wh, t.ZERO), t.ge(at, t.ZERO)), t.eq(wh, t.ONE), t.eq(wh, I(2)))


for _m in ('_parse', '_build'):
    fcontract('Seek', _m, [
        Case('ok', 'return', _seek_ok, rkind=rk_dyn, modifies=['stream'],
             ensures=lambda pre, post: [('stream-positioned-at-the-target-of-the-whence-rule', t.eq(post.obj('stream').pos, _seek_target(pre)), T + ('C09',)),
                                        ('returns-the-new-position', result_is(post, t.app('VInt', t.VAL, _seek_target(pre))), T),
                                        ('buffer-unchanged', buffer_same(pre, post), ('C17',))]),
        Case('invalid', 'raise', lambda pre: t.not_(_seek_ok(pre)), modifies=['stream'],
             ensures=lambda pre, post: [('invalid-seek-is-StreamError', exc_is(post, 'StreamError'), ('C06',))] + generic_raise(pre, post)),
    ], tags=T + ('C09',), sequential_build=False)

fcontract('Terminated', '_parse', [
    Case('at-end', 'return', lambda pre: t.eq(_avail(S_(pre)), t.ZERO), rkind=rk_dyn, modifies=['stream'],
         ensures=lambda pre, post: [('returns-None-at-end-of-stream', result_is(post, t.app('VNone', t.VAL)), T), stream_same(pre, post)]),
    Case('data-left', 'raise', lambda pre: t.gt(_avail(S_(pre)), t.ZERO), modifies=['stream'],
         ensures=lambda pre, post: [('remaining-data-is-TerminatedError', exc_is(post, 'TerminatedError'), T + ('C06',))] + generic_raise(pre, post)),
], tags=T)

for _m in ('_parse', '_build'):
    fcontract('StopIf', _m, [
        Case('continue', 'return', lambda pre: t.not_(_param_truth(pre, 'condfunc')), rkind=rk_dyn,
             ensures=lambda pre, post: [('returns-None', result_is(post, t.app('VNone', t.VAL)), T), stream_same(pre, post)]),
        Case('stop', 'raise', lambda pre: _param_truth(pre, 'condfunc'),
             ensures=lambda pre, post: [('true-condition-raises-StopFieldError', exc_is(post, 'StopFieldError'), T)]),
    ], tags=T)


# ------------------------------------------------------------------------------------------------ Rebuild / NullTerminated._build
def _rebuild_sub(pre):
    return Sub(pre, 'subcon', obj=pval(pre, 'func'), kind='build')


fcontract('Rebuild', '_build', [
    Case('ok', 'return', lambda pre: _rebuild_sub(pre).ok, ensures=_deleg_build('subcon', sel=_rebuild_sub), rkind=rk_dyn, modifies=['stream']),
    Case('inner-fails', 'raise', lambda pre: t.not_(_rebuild_sub(pre).ok), ensures=generic_raise, modifies=['stream']),
], tags=T)


def _nt_build_ok(pre, post):
    o, o2 = S_(pre), post.obj('stream')
    s = Sub(pre, 'subcon', obj=pre['obj'].t, kind='build')
    tm = pre.self.fields['term']
    total = t.add(s.len, tm.len)
    return [('advances-by-inner-length-plus-terminator', t.eq(o2.pos, t.add(o.pos, total)), T + ('C08',)),
            _written(o, o2, total, lambda i: t.ite(t.lt(i, s.len), t.select(s.bytes, i), t.select(tm.arr, t.add(tm.off, t.sub(i, s.len)))), 'inner-bytes-then-the-terminator'),
            ('returns-inner-build-value', result_is(post, s.ret), T)]


fcontract('NullTerminated', '_build', [
    Case('ok', 'return', lambda pre: Sub(pre, 'subcon', obj=pre['obj'].t, kind='build').ok, ensures=_nt_build_ok, rkind=rk_dyn, modifies=['stream']),
    Case('inner-fails', 'raise', lambda pre: t.not_(Sub(pre, 'subcon', obj=pre['obj'].t, kind='build').ok), ensures=generic_raise, modifies=['stream']),
], tags=T + ('C08',))


# ------------------------------------------------------------------------------------------------ Switch
class _Sc:
    def __init__(self, ident):
        self.ident = ident


def _switch_branch(pre, kind, **kw):
    """interface terms of the case the key selects: cases[key] when present, else the default"""
    key = pval(pre, 'keyfunc')
    m = pre.self.fields['cases']
    has = t.app('map_has', t.BOOL, m.ident, key)
    chosen = t.ite(has, t.app('oid', t.INT, t.app('map_get', t.VAL, m.ident, key)), pre.self.fields['default'].ident)
    view = pre

    class V:
        pass
    v = V()
    v.self = type('S', (), {'fields': {'x': _Sc(chosen)}})()
    v.st, v.obj, v.eng = pre.st, pre.obj, pre.eng
    return Sub(v, 'x', kind=kind, **kw)


fcontract('Switch', '_parse', [
    Case('ok', 'return', lambda pre: _switch_branch(pre, 'parse').ok, ensures=_deleg_parse(None, sel=lambda pre: _switch_branch(pre, 'parse')), rkind=rk_dyn, modifies=['stream']),
    Case('case-fails', 'raise', lambda pre: t.not_(_switch_branch(pre, 'parse').ok), ensures=generic_raise, modifies=['stream']),
], tags=T + ('C05',))
fcontract('Switch', '_build', [
    Case('ok', 'return', lambda pre: _switch_branch(pre, 'build', obj=pre['obj'].t).ok, ensures=_deleg_build(None, sel=lambda pre: _switch_branch(pre, 'build', obj=pre['obj'].t)), rkind=rk_dyn, modifies=['stream']),
    Case('case-fails', 'raise', lambda pre: t.not_(_switch_branch(pre, 'build', obj=pre['obj'].t).ok), ensures=generic_raise, modifies=['stream']),
], tags=T + ('C05',))
fcontract('Switch', '_sizeof', [
    Case('ok', 'return', lambda pre: _switch_branch(pre, 'sizeof').ok,
         ensures=lambda pre, post: [('size-is-the-size-of-the-case-the-key-selects', size_is(post, _switch_branch(pre, 'sizeof').val), ('C05',))], rkind=rk_dyn),
    Case('no-size', 'raise', lambda pre: t.not_(_switch_branch(pre, 'sizeof').ok)),
], tags=('C05',))


# ------------------------------------------------------------------------------------------------ Pointer._build
def _ptr_bsub(pre):
    o = _Eff(pre)
    return Sub(pre, 'subcon', o=o, obj=pre['obj'].t, kind='build', pos=_ptr_target(pre))


def _ptr_build_ok(pre, post):
    o, o2 = S_(pre), post.obj('stream')
    x, x2 = pre.st.get(pre.st.ghost['otherstream']), post.st.get(pre.st.ghost['otherstream'])
    s = _ptr_bsub(pre)
    return [('position-restored', t.eq(o2.pos, o.pos), ('C09',)),
            ('position-of-the-designated-stream-restored', t.eq(x2.pos, x.pos), ('C09',)),
            ('returns-inner-build-value', result_is(post, s.ret), ('C09', 'C01'))]


fcontract('Pointer', '_build', [
    Case('ok', 'return', lambda pre: _ptr_bsub(pre).ok, ensures=_ptr_build_ok, rkind=rk_dyn, modifies=['stream']),
    Case('inner-fails', 'raise', lambda pre: t.not_(_ptr_bsub(pre).ok), ensures=generic_raise, modifies=['stream']),
], tags=('C09', 'C08'), sequential_build=False)


# ------------------------------------------------------------------------------------------------ Checksum (C14)
def _digest(pre):
    """hashfunc(bytesfunc(context)): both are user callbacks (total pure functions, E5); the digest is named through them"""
    c = pre.obj('context').addr
    inner = t.app('fn_val', t.VAL, pre.self.fields['bytesfunc'].ident, t.app('VRef', t.VAL, c))
    return t.app('fn_val', t.VAL, pre.self.fields['hashfunc'].ident, inner)


def _ck_bsub(pre):
    return Sub(pre, 'checksumfield', obj=_digest(pre), kind='build')


def _ck_build_ok(pre, post):
    o, o2 = S_(pre), post.obj('stream')
    s = _ck_bsub(pre)
    return [('writes-the-encoding-of-the-COMPUTED-digest-whatever-value-was-supplied', t.eq(o2.pos, t.add(o.pos, s.len)), ('C14',)),
            _written(o, o2, s.len, lambda i: t.select(s.bytes, i), 'emits-exactly-the-checksum-fields-encoding-of-the-digest'),
            ('returns-the-computed-digest', result_is(post, _digest(pre)), ('C14',))]


fcontract('Checksum', '_build', [
    Case('ok', 'return', lambda pre: _ck_bsub(pre).ok, ensures=_ck_build_ok, rkind=rk_dyn, modifies=['stream']),
    Case('field-fails', 'raise', lambda pre: t.not_(_ck_bsub(pre).ok), ensures=generic_raise, modifies=['stream']),
], tags=('C14',))


def _ck_psub(pre):
    return Sub(pre, 'checksumfield')


def _ck_match(pre):
    s = _ck_psub(pre)
    return t.app('pyeq', t.BOOL, s.val, _digest(pre))


def _ck_parse_ok(pre, post):
    o2 = post.obj('stream')
    s = _ck_psub(pre)
    return [('returns-the-stored-checksum-which-equals-the-computed-digest', result_is(post, s.val), ('C14',)),
            ('consumes-the-checksum-field', t.eq(o2.pos, s.end), ('C14',)),
            ('buffer-unchanged', buffer_same(pre, post), ('C17',))]


def _ck_parse_bad(pre, post):
    s = _ck_psub(pre)
    return [('a-stored-checksum-different-from-the-computed-digest-is-ChecksumError', t.implies(t.and_(s.ok, t.not_(_ck_match(pre))), exc_is(post, 'ChecksumError')), ('C14', 'C13'))] + generic_raise(pre, post)


fcontract('Checksum', '_parse', [
    Case('ok', 'return', lambda pre: t.and_(_ck_psub(pre).ok, _ck_match(pre)), ensures=_ck_parse_ok, rkind=rk_dyn, modifies=['stream']),
    Case('mismatch-or-field-fails', 'raise', lambda pre: t.not_(t.and_(_ck_psub(pre).ok, _ck_match(pre))), ensures=_ck_parse_bad, modifies=['stream']),
], tags=('C14', 'C13'))
fcontract('Checksum', '_sizeof', [
    Case('ok', 'return', lambda pre: Sub(pre, 'checksumfield', kind='sizeof').ok,
         ensures=lambda pre, post: [('size-is-the-checksum-fields-size', size_is(post, Sub(pre, 'checksumfield', kind='sizeof').val), ('C05',))], rkind=rk_dyn),
    Case('no-size', 'raise', lambda pre: t.not_(Sub(pre, 'checksumfield', kind='sizeof').ok)),
], tags=('C05',))


# ------------------------------------------------------------------------------------------------ Hex / HexDump (C12: wrapper <--> bare construct)
for _c in ('Hex', 'HexDump'):
    for _m in ('_decode', '_encode'):
        fcontract(_c, _m, [Case('always', 'return', lambda pre: t.TRUE, rkind=rk_dyn,
                                ensures=lambda pre, post: [('returns-a-value-equal-to-the-one-given-display-only', t.eq(post.eng.to_dyn(post.result, post.st), pre['obj'].t), ('C12', 'C01', 'C02'))])],
                  tags=('C12', 'C01', 'C02'), sub_seq=False)
