"""Contracts for construct/lib/binary.py and py3compat byte helpers, against the wire-format specifications
(two's complement MSB-first bit strings, big-endian bytes).  Consumed by C03, C10, C12, C15, C01, C02."""
from pyvc import terms as t, prelude
from pyvc.terms import I
from pyvc.values import *  # noqa
from pyvc.contract import FnContract, Case, register, rk_bytes, rk_int, rk_none, rk_dyn
from pyvc.exec import LoopSpec
from pyvc.lemma import Lemma
from pyvc.state import OutOfReach
from . import specs
from .specs import forall_view, shr, bits_val, be_val, pow2, isbits, forall_range

T = ('C03', 'C10', 'C12', 'C01', 'C02', 'C15')
LIB = 'construct.lib.binary'
PY3 = 'construct.lib.py3compat'


def setup_fn(kinds):
    def setup(eng, st, node, stream_model):
        args = {}
        for name, kind in kinds.items():
            if kind == 'int':
                args[name] = VInt(fresh(name, t.INT))
            elif kind == 'bool':
                args[name] = VBool(fresh(name, t.BOOL))
            elif kind == 'dyn':
                args[name] = VDyn(fresh(name, t.VAL))
            elif kind == 'bytes':
                args[name] = eng.fresh_bytes(st, name)
        return None, args
    setup.kinds = dict(kinds)
    return setup


# ------------------------------------------------------------------------------------------------ lemmas
Lemma('shr_zero_mono', [('n', t.INT), ('k', t.INT), ('k2', t.INT)],
      lambda v: t.implies(t.and_(t.le(t.ZERO, v['k']), t.le(v['k'], v['k2']), t.eq(shr(v['n'], v['k']), t.ZERO)), t.eq(shr(v['n'], v['k2']), t.ZERO)),
      induct=('k2', 0), pats=lambda v: [[shr(v['n'], v['k']), shr(v['n'], v['k2'])]], tags=T,
      doc='once n >> k is 0 every further shift is 0')
Lemma('pow2_pos', [('k', t.INT)], lambda v: t.gt(pow2(v['k']), t.ZERO), induct=('k', 0), pats=lambda v: [[pow2(v['k'])]], tags=T)
Lemma('shr_nonneg', [('n', t.INT), ('k', t.INT)], lambda v: t.implies(t.ge(v['n'], t.ZERO), t.ge(shr(v['n'], v['k']), t.ZERO)),
      induct=('k', 0), pats=lambda v: [[shr(v['n'], v['k'])]], tags=T)
# n < 2^k  =>  n >> k == 0   (so the loop of integer2bits ends with all higher bits zero)
Lemma('shr_small', [('n', t.INT), ('k', t.INT)],
      lambda v: t.implies(t.and_(t.le(t.ZERO, v['n']), t.ge(v['k'], t.ZERO), t.lt(v['n'], pow2(v['k']))), t.eq(shr(v['n'], v['k']), t.ZERO)),
      induct=('k', 0), pats=lambda v: [[shr(v['n'], v['k'])]], tags=T,
      hints=lambda v: [t.eq(shr(v['n'], v['k']), shr(t.pyfloordiv(v['n'], I(2)), t.sub(v['k'], t.ONE))) if False else t.TRUE],
      uses=('shr_div2',))
# shifting commutes: (n div 2) >> (k-1) == n >> k    (k >= 1)
Lemma('shr_div2', [('n', t.INT), ('k', t.INT)],
      lambda v: t.implies(t.ge(v['k'], t.ONE), t.eq(shr(t.pyfloordiv(v['n'], I(2)), t.sub(v['k'], t.ONE)), shr(v['n'], v['k']))),
      induct=('k', 1), pats=lambda v: [[shr(v['n'], v['k'])]], tags=T)


# ------------------------------------------------------------------------------------------------ integer2bits
def _i2b_range(pre):
    n, w = pre.int('number'), pre.int('width')
    sg = pre.eng.truth(pre['signed'], pre.st)
    half = pow2(t.sub(w, t.ONE))
    return t.ite(sg, t.and_(t.le(t.neg(half), n), t.lt(n, half)), t.and_(t.le(t.ZERO, n), t.lt(n, pow2(w))))


def _i2b_N(pre):
    n, w = pre.int('number'), pre.int('width')
    return t.ite(t.lt(n, t.ZERO), t.add(n, pow2(w)), n)


def _i2b_ensures(pre, post):
    r = post.result
    w = pre.int('width')
    N = _i2b_N(pre)
    return [('length-is-width', t.eq(r.len, w)),
            ('bit-j-is-twos-complement-digit', forall_view(r, w, lambda j, e: t.eq(e, t.pymod(shr(N, t.sub(t.sub(w, t.ONE), j)), I(2)))))]


def _i2b_inv(L):
    pre = L.extra['pre']
    w = pre.int('width')
    N = _i2b_N(pre)
    i = L['i'].t
    num = L['number'].t
    bits = L.obj('bits')
    j = t.var('j!', t.INT)
    return [('i-in-range', t.and_(t.le(I(-1), i), t.lt(i, w))),
            ('number-is-shifted', t.and_(t.eq(num, shr(N, t.sub(t.sub(w, t.ONE), i))), t.ge(num, t.ZERO))),
            ('bits-length', t.eq(bits.len, w)),
            ('high-bits-done', forall_range(j, t.add(i, t.ONE), w, t.eq(t.select(bits.arr, j), t.pymod(shr(N, t.sub(t.sub(w, t.ONE), j)), I(2))), [[t.select(bits.arr, j)]])),
            ('low-bits-zero', forall_range(j, t.ZERO, t.add(i, t.ONE), t.eq(t.select(bits.arr, j), t.ZERO), [[t.select(bits.arr, j)]]))]


class _I2BLoop(LoopSpec):
    pass


def _i2b_contract():
    c = FnContract(
        LIB + ':integer2bits',
        setup=setup_fn({'number': 'int', 'width': 'int', 'signed': 'bool'}),
        tags=T, lemmas=['shr_zero_mono', 'pow2_pos', 'shr_nonneg'],
        cases=[
            Case('ok', 'return', lambda pre: t.and_(t.ge(pre.int('width'), t.ONE), _i2b_range(pre)), ensures=_i2b_ensures, rkind=rk_bytes),
            Case('rejects', 'raise', lambda pre: t.not_(t.and_(t.ge(pre.int('width'), t.ONE), _i2b_range(pre))), exc='ValueError'),
        ])
    c.loops = {'while number and i >= 0': LoopSpec(_i2b_inv, variant=lambda L: t.add(L['i'].t, t.ONE), tags=T, variant_tags=('C06',))}
    c.loop_pre = True
    return c


register(_i2b_contract())


# ------------------------------------------------------------------------------------------------ bits2integer
def _b2i_value(pre):
    d = pre['data']
    sg = pre.eng.truth(pre['signed'], pre.st)
    v = bits_val(d.arr, d.off, t.add(d.off, d.len))
    return t.ite(t.and_(sg, t.ne(d.at(t.ZERO), t.ZERO)), t.sub(v, pow2(d.len)), v)


def _b2i_inv(L):
    pre = L.extra['pre']
    d = pre['data']
    return [('number-is-prefix-value', t.implies(isbits(d), t.eq(L['number'].t, bits_val(d.arr, d.off, t.add(d.off, L.k)))))]


register(FnContract(
    LIB + ':bits2integer',
    setup=setup_fn({'data': 'bytes', 'signed': 'bool'}),
    tags=T,
    cases=[
        Case('ok', 'return', lambda pre: t.gt(pre['data'].len, t.ZERO),
             ensures=lambda pre, post: [('value-of-bit-string', t.implies(isbits(pre['data']), t.eq(post.eng.as_int(post.result, post.st)[0], _b2i_value(pre))))],
             rkind=rk_int),
        Case('empty', 'raise', lambda pre: t.eq(pre['data'].len, t.ZERO), exc='ValueError'),
    ],
    loops={'for b in data': LoopSpec(_b2i_inv, tags=T)}))


# ------------------------------------------------------------------------------------------------ integer2bytes / bytes2integer (E2)
def _i2by_range(pre):
    n, w = pre.int('number'), pre.int('width')
    sg = pre.eng.truth(pre['signed'], pre.st)
    half = pow2(t.sub(t.mul(I(8), w), t.ONE))
    return t.ite(sg, t.and_(t.le(t.neg(half), n), t.lt(n, half)), t.and_(t.le(t.ZERO, n), t.lt(n, pow2(t.mul(I(8), w)))))


def _i2by_ensures(pre, post):
    r = post.result
    n, w = pre.int('number'), pre.int('width')
    return [('length-is-width', t.eq(r.len, w)),
            ('big-endian-twos-complement', t.eq(be_val(r.arr, r.off, t.add(r.off, r.len)), t.ite(t.lt(n, t.ZERO), t.add(n, pow2(t.mul(I(8), w))), n)))]


register(FnContract(
    LIB + ':integer2bytes',
    setup=setup_fn({'number': 'int', 'width': 'int', 'signed': 'bool'}),
    tags=T,
    cases=[
        Case('ok', 'return', lambda pre: t.and_(t.ge(pre.int('width'), t.ONE), _i2by_range(pre)), ensures=_i2by_ensures, rkind=rk_bytes),
        Case('rejects', 'raise', lambda pre: t.not_(t.and_(t.ge(pre.int('width'), t.ONE), _i2by_range(pre))), exc='ValueError'),
    ]))


def _by2i_value(pre):
    d = pre['data']
    sg = pre.eng.truth(pre['signed'], pre.st)
    v = be_val(d.arr, d.off, t.add(d.off, d.len))
    return t.ite(t.and_(sg, t.ge(d.at(t.ZERO), I(128))), t.sub(v, pow2(t.mul(I(8), d.len))), v)


register(FnContract(
    LIB + ':bytes2integer',
    setup=setup_fn({'data': 'bytes', 'signed': 'bool'}),
    tags=T,
    cases=[
        Case('ok', 'return', lambda pre: t.gt(pre['data'].len, t.ZERO),
             ensures=lambda pre, post: [('big-endian-value', t.eq(post.eng.as_int(post.result, post.st)[0], _by2i_value(pre)))], rkind=rk_int),
        Case('empty', 'raise', lambda pre: t.eq(pre['data'].len, t.ZERO), exc='ValueError'),
    ]))


# ------------------------------------------------------------------------------------------------ swapbytes
from pyvc import structmodel  # noqa  (defines le_val)


def le_val(a, lo, hi):
    return t.app('le_val', t.INT, a, lo, hi)


def _rev_stmt(v):
    j = t.var('rj!', t.INT)
    rev = forall_range(j, t.ZERO, v['n'], t.eq(t.select(v['b'], t.add(v['blo'], j)), t.select(v['a'], t.sub(t.sub(t.add(v['alo'], v['n']), t.ONE), j))),
                       [[t.select(v['b'], t.add(v['blo'], j))]])
    return t.implies(t.and_(t.ge(v['n'], t.ZERO), rev),
                     t.eq(be_val(v['b'], v['blo'], t.add(v['blo'], v['n'])), le_val(v['a'], v['alo'], t.add(v['alo'], v['n']))))


# the big-endian value of a reversed byte string is the little-endian value of the original
REV = Lemma('be_of_reversal_is_le', [('a', t.ARR), ('b', t.ARR), ('alo', t.INT), ('blo', t.INT), ('n', t.INT)], _rev_stmt,
            induct=('n', 0), ih_instances=lambda v: [{'a': v['a'], 'b': v['b'], 'alo': t.add(v['alo'], t.ONE), 'blo': v['blo']}],
            tags=('C03', 'C12', 'C01', 'C15'))


def _swap_ensures(pre, post):
    d, r = pre['data'], post.result
    j = t.var('j!', t.INT)
    h1 = _rev_stmt({'a': d.arr, 'b': r.arr, 'alo': d.off, 'blo': r.off, 'n': d.len})
    h2 = _rev_stmt({'a': r.arr, 'b': d.arr, 'alo': r.off, 'blo': d.off, 'n': d.len})
    return [('same-length', t.eq(r.len, d.len)),
            ('reversed', forall_range(j, t.ZERO, d.len, t.eq(r.at(j), d.at(t.sub(t.sub(d.len, t.ONE), j))), [[r.at(j)]])),
            ('big-endian-value-of-result-is-little-endian-value-of-argument',
             t.eq(be_val(r.arr, r.off, t.add(r.off, r.len)), le_val(d.arr, d.off, t.add(d.off, d.len))), None, [h1]),
            ('little-endian-value-of-result-is-big-endian-value-of-argument',
             t.eq(le_val(r.arr, r.off, t.add(r.off, r.len)), be_val(d.arr, d.off, t.add(d.off, d.len))), None, [h2])]


register(FnContract(LIB + ':swapbytes', setup=setup_fn({'data': 'bytes'}), tags=T,
                    cases=[Case('ok', 'return', lambda pre: t.TRUE, ensures=_swap_ensures, rkind=rk_bytes)]))


# ------------------------------------------------------------------------------------------------ py3compat
register(FnContract(PY3 + ':byte2int', setup=setup_fn({'character': 'bytes'}), tags=T + ('C06',),
                    cases=[Case('ok', 'return', lambda pre: t.gt(pre['character'].len, t.ZERO),
                                ensures=lambda pre, post: [('first-byte', t.eq(post.eng.as_int(post.result, post.st)[0], pre['character'].at(t.ZERO)))], rkind=rk_int),
                           Case('empty', 'raise', lambda pre: t.eq(pre['character'].len, t.ZERO), exc='IndexError')]))
