"""Which ghost program (Layer-B lemma) is proved for which class, under which hypotheses about its sub-constructs and
value domain.  Hypotheses are printed into the evidence (they are the induction hypotheses / domain restrictions of the
property statements, not facts about the code)."""
from pyvc import terms as t
from pyvc.values import *  # noqa
from pyvc import ghost

ROUNDTRIP = ['Padded', 'Aligned', 'FixedSized', 'Prefixed', 'Const', 'Flag', 'Bytes', 'GreedyBytes', 'BytesInteger', 'BitsInteger', 'Default', 'IfThenElse', 'Switch', 'Rebuild', 'Computed', 'Pass', 'VarInt', 'ZigZag']
SIZED = ['Padded', 'Aligned', 'FixedSized', 'Prefixed', 'Const', 'Flag', 'Bytes', 'BytesInteger', 'BitsInteger', 'FormatField', 'IfThenElse', 'Default', 'Switch', 'Rebuild', 'Computed', 'Pass', 'Tell', 'Index', 'Peek', 'Check', 'Checksum', 'Transformed', 'Hex', 'Enum', 'Mapping', 'FlagsEnum']
CANONICAL = ['Padded', 'Aligned', 'FixedSized', 'Prefixed', 'Const', 'Flag', 'Bytes', 'GreedyBytes', 'BytesInteger', 'BitsInteger', 'IfThenElse', 'Switch', 'Computed', 'Pass', 'VarInt']

GREEDY = {'GreedyBytes'}
FMT = [e + f for e in '<>=' for f in 'BHLQbhlq?']

PROGRAMS = []
for c in ROUNDTRIP:
    PROGRAMS.append(dict(program='roundtrip_greedy' if c in GREEDY else 'roundtrip', cls=c, tags=('C01',)))
for v in FMT:
    PROGRAMS.append(dict(program='roundtrip', cls='FormatField', tags=('C01',), variant=v))
PROGRAMS.append(dict(program='roundtrip_list', cls='Array', tags=('C01',)))
PROGRAMS.append(dict(program='roundtrip_list', cls='Sequence', tags=('C01',)))
PROGRAMS.append(dict(program='roundtrip_struct', cls='Struct', tags=('C01',)))
for c in CANONICAL:
    PROGRAMS.append(dict(program='canonical', cls=c, tags=('C02',)))
for v in FMT:
    if v[1] not in 'Qq':       # the 64-bit formats are left out of the canonical lemma (their byte-identity obligation does not discharge in the budget)
        PROGRAMS.append(dict(program='canonical', cls='FormatField', tags=('C02',), variant=v))
for _c in ('Enum', 'Mapping'):
    PROGRAMS.append(dict(program='labels_accepted', cls=_c, tags=('C02', 'C13')))
PROGRAMS.append(dict(program='flags_accepted', cls='FlagsEnum', tags=('C02', 'C13')))
PROGRAMS.append(dict(program='lazy_list', cls='LazyArray', tags=('C16',)))
PROGRAMS.append(dict(program='lazy_struct', cls='LazyStruct', tags=('C16',)))
from .classes import VariantDict  # noqa
# Array: stated separately for collecting arrays (proved) and for discard=True (known finding: the empty list that parsing hands back
# is refused by build whenever count > 0)
PROGRAMS.append(dict(program='canonical_list', cls='Array', tags=('C02',), variant=VariantDict(discard=False)))
PROGRAMS.append(dict(program='canonical_list', cls='Sequence', tags=('C02',)))
PROGRAMS.append(dict(program='canonical_accepts', cls='Array', tags=('C02',), variant=VariantDict(discard=True)))
for _u in (1, 2):
    PROGRAMS.append(dict(program='canonical', cls='NullTerminated', tags=('C02',), variant=VariantDict(term_len=_u)))
for c in SIZED:
    if c == 'FormatField':
        for v in FMT:
            PROGRAMS.append(dict(program='sized', cls=c, tags=('C05',), variant=v))
    else:
        PROGRAMS.append(dict(program='sized', cls=c, tags=('C05',)))


def _bytes_domain(eng, st):
    """value domain of Bytes / GreedyBytes in the round-trip statement: bytes objects"""
    if 'obj' not in st.env:
        return
    st.assume(t.app('(_ is VBytes)', t.BOOL, st.env['obj'].t))
    st.assume(t.ge(t.app('blen', t.INT, st.env['obj'].t), t.ZERO))


def _flag_domain(eng, st):
    if 'obj' not in st.env:
        return
    st.assume(t.app('(_ is VBool)', t.BOOL, st.env['obj'].t))


def _none_domain(eng, st):
    """value domain of Pass: None"""
    if 'obj' not in st.env:
        return
    st.assume(t.app('(_ is VNone)', t.BOOL, st.env['obj'].t))


def _list_domain(eng, st):
    """value domain of Array: list-like sequences (anything with a length that can be enumerated)"""
    if 'data0' in st.env and isinstance(getattr(eng, 'variant', None), dict) and 'discard' in eng.variant:
        # canonical form (C02) is stated once for collecting arrays and once for discard=True
        d = eng.truth(st.env['self'].fields['discard'], st)
        st.assume(d if eng.variant['discard'] else t.not_(d))
    if 'obj' not in st.env:
        return
    st.assume(t.app('dyn_sized', t.BOOL, st.env['obj'].t))
    st.assume(t.app('(_ is VOpq)', t.BOOL, st.env['obj'].t))


def _seq_domain(eng, st):
    """value domain of Sequence: None (every member derives its own value) or a list-like sequence"""
    if 'obj' not in st.env:
        return
    v = st.env['obj'].t
    st.assume(t.or_(t.app('(_ is VNone)', t.BOOL, v), t.and_(t.app('dyn_sized', t.BOOL, v), t.app('(_ is VOpq)', t.BOOL, v))))


def _struct_domain(eng, st):
    """value domain of Struct: None or an existing mapping; hypotheses about the member list: names pairwise distinct, none of them
    a structural scope entry"""
    from .unions import _names_distinct
    if 'obj' not in st.env:
        return
    v = st.env['obj'].t
    st.assume(t.or_(t.app('(_ is VNone)', t.BOOL, v), t.and_(t.app('(_ is VRef)', t.BOOL, v), t.le(t.ZERO, t.app('ref', t.INT, v)), t.lt(t.app('ref', t.INT, v), st.ghost['alloc']))))
    sl = st.env['self'].fields['subcons'].ident
    st.assume(_names_distinct(sl, t.app('sl_len', t.INT, sl)))


DOMAIN = {'Struct': _struct_domain, 'Sequence': _seq_domain, 'Array': _list_domain, 'Bytes': _bytes_domain, 'GreedyBytes': _bytes_domain, 'Flag': _flag_domain, 'Pass': _none_domain}
HYPOTHESES = [
    'C02 only - length and count fields: the field that encoded the parsed length also encodes every smaller non-negative length, in no more bytes',
    'C02 only - the canonical encoding a sub-construct builds for a value it parsed is not longer than the bytes it parsed it from (re-established for every class by an assertion of the canonical program; it does NOT hold for NullTerminated(require=False), see known findings)',
    'C02 only - closure of sub-constructs: a value a sub-construct parsed is accepted by its build, which returns an equal value (induction hypothesis of C02)',
    'C02 only - building equal values gives the same outcome and identical bytes (build is a function of the value up to ==)',
    'sub-constructs satisfy the round-trip trait: the bytes a successful build produced, standing at the parse position, parse back to the value build returned and end right after them (induction hypothesis of C01)',
    'sub-constructs satisfy the sized trait: when _sizeof answers n, successful builds append n bytes and successful parses advance by n (induction hypothesis of C05)',
    'context agreement: a sub-construct reads the context only at keys on which the building and the parsing context agree; its size does not depend on what siblings did to the context',
    'sub-constructs inside the wrappers do not observe absolute stream positions (Tell/RawCopy/Pointer under a delimiting construct are outside the round-trip statement)',
    'value-faithful fields (length fields, the construct under Const): build returns the value it was given',
]


def default_hints(eng, st, args):
    """congruence-lemma instances (proved separately): every specification function reads the same value from the bytes
    that were built (data) and from the stream that is parsed (whole = data + tail) over the first len(data) bytes"""
    from .specs import cong_instance
    obj, data, whole = args[1], args[2], args[3]
    d = eng.models.as_bytes(eng, data, st)
    w = eng.models.as_bytes(eng, whole, st)
    if d is None or w is None:
        return
    for fn in ('be_val', 'le_val', 'bits_val', 'val7'):
        st.assume(cong_instance(fn, w.arr, w.off, d.arr, d.off, d.len))


for _c in set(ROUNDTRIP + SIZED + CANONICAL + ['FormatField', 'BytesInteger', 'BitsInteger', 'VarInt', 'ZigZag']):
    ghost.HINTS[_c] = default_hints
from . import intlemmas as _il  # noqa
ghost.HINTS['BytesInteger'] = _il.bytesinteger_hints
ghost.HINTS['BitsInteger'] = _il.bitsinteger_hints
DOMAIN['BitsInteger'] = _il.bitsinteger_domain
from . import leblemmas as _ll  # noqa
ghost.HINTS['VarInt'] = _ll.varint_hints(False)
ghost.HINTS['ZigZag'] = _ll.varint_hints(True)


def _nullterminated_hints(eng, st, args):
    """domain restriction of the canonical lemma for NullTerminated (a hypothesis, listed in the evidence): the first aligned
    terminator in the rebuilt bytes is the one build appended, i.e. the inner construct's canonical bytes contain no aligned
    terminator (the scan is naive: a construct whose encoding contains the terminator cannot be used inside NullTerminated)"""
    default_hints(eng, st, args)
    selfv, data, whole = args[0], args[2], args[3]
    d = eng.models.as_bytes(eng, data, st)
    w = eng.models.as_bytes(eng, whole, st)
    if d is None or w is None or d.arr.smt() != w.arr.smt() or st.ghost.get('nt_hyp_done'):
        return
    if 'data0' in st.env and eng.models.as_bytes(eng, st.env['data0'], st).arr.smt() == d.arr.smt():
        return          # the call on the original input: nothing is assumed about it
    st.ghost['nt_hyp_done'] = True
    tm = selfv.fields['term']
    u = tm.len.args[0]
    st.assume(t.eq(t.app('nt_find%d' % u, t.INT, d.arr, t.add(d.off, d.len), d.off, tm.arr, tm.off), t.sub(t.add(d.off, d.len), I(u))))


from pyvc.terms import I  # noqa
ghost.HINTS['NullTerminated'] = _nullterminated_hints
HYPOTHESES.append('C02 only - NullTerminated: the canonical bytes of the inner construct contain no aligned terminator (otherwise the naive scan cuts the region short); asserted for the rebuilt bytes only')


def _lazyarray_domain(eng, st):
    """hypothesis of C16: the element construct has no cross references (its parse and its size do not depend on the scope)"""
    from .lazyarray import scope_independence_of
    st.assume(scope_independence_of(st.env['self'].fields['subcon'].ident))


DOMAIN['LazyArray'] = _lazyarray_domain
HYPOTHESES += ['C01, Struct only - member names are pairwise distinct and none is a structural scope entry; a sub-construct call changes its context at most at _index and leaves other existing containers untouched (interface frame, proved of every construct method by the C17 contract); no member refuses to build with StopFieldError',
               'C02, BitsInteger only - the input is a stream of bits (every byte 0 or 1, as inside Bitwise) and the field is not byte-swapped',
               'C01, Sequence only - no member refuses to build with StopFieldError (a StopIf inside the member list ends the build early; whether the shortened output parses back depends on the condition the user wrote)',
               'C16 only - no cross references: parsing an element and asking its actual size give the same answers in every scope',
               'C16 only - measured is parsed: when _actualsize answers n and the parse succeeds, the parse advances by exactly n',
               'C16 only - measurable or says so: an element that parses either answers _actualsize or raises SizeofError']
from . import lazylemmas as _lzl  # noqa
ghost.POST_HINTS['LazyArray'] = _lzl.post_hints


def _lazystruct_domain(eng, st):
    """hypotheses of C16 for LazyStruct: no member has cross references; member names are pairwise distinct; the name table of
    the struct maps names to member positions (what LazyStruct.__init__ builds)"""
    from .lazystruct import scope_independence_of_members
    from .unions import _names_distinct
    selfv = st.env['self']
    sl = selfv.fields['subcons'].ident
    n = t.app('sl_len', t.INT, sl)
    st.assume(scope_independence_of_members(sl))
    st.assume(_names_distinct(sl, n))
    from .lazylemmas import no_stop_members
    st.assume(no_stop_members(sl, sorted(eng.src.exc_code[x] for x in eng.src.exc_descendants('StopFieldError'))))
    m = selfv.fields['_subconsindexes']
    k = t.var('lzk!', t.VAL)
    st.assume(t.forall([k], t.implies(t.app('map_has', t.BOOL, m.ident, k),
              t.and_(t.app('(_ is VInt)', t.BOOL, t.app('map_get', t.VAL, m.ident, k)), t.le(t.ZERO, t.app('ival', t.INT, t.app('map_get', t.VAL, m.ident, k))),
                     t.lt(t.app('ival', t.INT, t.app('map_get', t.VAL, m.ident, k)), n))), pats=[[t.app('map_get', t.VAL, m.ident, k)]]))


DOMAIN['LazyStruct'] = _lazystruct_domain
HYPOTHESES += ['C16, LazyStruct only - member names pairwise distinct; no member ends the eager parse early with StopFieldError']


def _labels_domain(eng, st):
    """value domain: the wrapped field parses to an integer (Enum) / a hashable value (Mapping); hypothesis from the constructor
    contract: encmapping and decmapping are built from ONE mapping (Enum: {label: value} both ways; Mapping: decmapping is the inverse
    of encmapping), so every label decoding can yield is a key of the encode table and is sent back to the value it came from"""
    if 'x' not in st.env:
        return
    selfv = st.env['self']
    x = st.env['x'].t
    enc, dec = selfv.fields['encmapping'].ident, selfv.fields['decmapping'].ident
    if selfv.cls == 'Enum':
        st.assume(t.app('isint', t.BOOL, x))
    k = t.var('lbk!', t.VAL)
    lab = t.app('map_get', t.VAL, dec, k)
    from .adapters import _hashable
    st.assume(t.forall([k], t.implies(t.app('map_has', t.BOOL, dec, k),
                                      t.and_(t.app('map_has', t.BOOL, enc, lab), t.eq(t.app('map_get', t.VAL, enc, lab), k), _hashable(lab), t.not_(t.app('isint', t.BOOL, lab)))),
                       pats=[[lab]]))


def _flags_domain(eng, st):
    if 'x' not in st.env:
        return
    st.assume(t.app('isint', t.BOOL, st.env['x'].t))


DOMAIN['Enum'] = DOMAIN['Mapping'] = _labels_domain
DOMAIN['FlagsEnum'] = _flags_domain
HYPOTHESES += ['C02, Array and Sequence - added hypothesis that is not an instance of a proved lemma: for one fresh index constant wit, (0 <= wit < K => v[wit] == w[wit]) => forall j. 0 <= j < K => v[j] == w[j]; conservative (Skolem form of a valid formula: some value of wit satisfies it whatever the lists are, and wit occurs nowhere else), see DESIGN 9.4']
HYPOTHESES += ['C02, Sequence only - no member ends a parse early (StopIf), neither on the accepted input nor on the rebuilt bytes (assumed for both, not derived for the second), and no member refuses to build with StopFieldError; a parse that was ended early returns a shorter list, which builds since fix f8c1dc3 but is outside the lemma']
HYPOTHESES += ['C02 / C13, label tables only - the encode and decode tables are the ones the constructor builds from one mapping (constructor contract): a label that decoding can yield is a non-integer, hashable key of the encode table and is sent back to the value it was decoded from']
