"""Which ghost program (Layer-B lemma) is proved for which class, under which hypotheses about its sub-constructs and
value domain.  Hypotheses are printed into the evidence (they are the induction hypotheses / domain restrictions of the
property statements, not facts about the code)."""
from pyvc import terms as t
from pyvc.values import *  # noqa
from pyvc import ghost

ROUNDTRIP = ['Padded', 'Aligned', 'FixedSized', 'Prefixed', 'Const', 'Flag', 'Bytes', 'GreedyBytes', 'BytesInteger', 'BitsInteger', 'Default', 'IfThenElse', 'Switch', 'Rebuild', 'Computed', 'Pass']
SIZED = ['Padded', 'Aligned', 'FixedSized', 'Prefixed', 'Const', 'Flag', 'Bytes', 'BytesInteger', 'BitsInteger', 'FormatField', 'IfThenElse', 'Default', 'Switch', 'Rebuild', 'Computed', 'Pass', 'Tell', 'Index']
CANONICAL = []

GREEDY = {'GreedyBytes'}
FMT = [e + f for e in '<>=' for f in 'BHLQbhlq?']

PROGRAMS = []
for c in ROUNDTRIP:
    PROGRAMS.append(dict(program='roundtrip_greedy' if c in GREEDY else 'roundtrip', cls=c, tags=('C01',)))
for v in FMT:
    PROGRAMS.append(dict(program='roundtrip', cls='FormatField', tags=('C01',), variant=v))
for c in SIZED:
    if c == 'FormatField':
        for v in FMT:
            PROGRAMS.append(dict(program='sized', cls=c, tags=('C05',), variant=v))
    else:
        PROGRAMS.append(dict(program='sized', cls=c, tags=('C05',)))


def _bytes_domain(eng, st):
    """value domain of Bytes / GreedyBytes in the round-trip statement: bytes objects"""
    st.assume(t.app('(_ is VBytes)', t.BOOL, st.env['obj'].t))
    st.assume(t.ge(t.app('blen', t.INT, st.env['obj'].t), t.ZERO))


def _flag_domain(eng, st):
    st.assume(t.app('(_ is VBool)', t.BOOL, st.env['obj'].t))


def _none_domain(eng, st):
    """value domain of Pass: None"""
    st.assume(t.app('(_ is VNone)', t.BOOL, st.env['obj'].t))


DOMAIN = {'Bytes': _bytes_domain, 'GreedyBytes': _bytes_domain, 'Flag': _flag_domain, 'Pass': _none_domain}
HYPOTHESES = [
    'sub-constructs satisfy the round-trip trait: the bytes a successful build produced, standing at the parse position, parse back to the value build returned and end right after them (induction hypothesis of C01)',
    'sub-constructs satisfy the sized trait: when _sizeof answers n, successful builds append n bytes and successful parses advance by n (induction hypothesis of C05)',
    'context agreement: a sub-construct reads the context only at keys on which the building and the parsing context agree; its size does not depend on what siblings did to the context',
    'sub-constructs inside the wrappers do not observe absolute stream positions (Tell/RawCopy/Pointer under a delimiting construct are outside the round-trip statement)',
    'value-faithful fields (length fields, the construct under Const): build returns the value it was given',
]


def default_hints(eng, st, args):
    """congruence-lemma instances (proved separately): every specification function reads the same value from the bytes
    that were built (data) and from the stream that is parsed (whole = data + tail) over the first len(data) bytes"""
    from .specs import cong_instance
    obj, data, whole = args[1], args[2], args[3]
    d = eng.models.as_bytes(eng, data, st)
    w = eng.models.as_bytes(eng, whole, st)
    if d is None or w is None:
        return
    for fn in ('be_val', 'le_val', 'bits_val', 'val7'):
        st.assume(cong_instance(fn, w.arr, w.off, d.arr, d.off, d.len))


for _c in set(ROUNDTRIP + SIZED + CANONICAL + ['FormatField', 'BytesInteger', 'BitsInteger', 'VarInt', 'ZigZag']):
    ghost.HINTS[_c] = default_hints
from . import intlemmas as _il  # noqa
ghost.HINTS['BytesInteger'] = _il.bytesinteger_hints
ghost.HINTS['BitsInteger'] = _il.bitsinteger_hints
DOMAIN['BitsInteger'] = _il.bitsinteger_domain
