"""RepeatUntil against specification folds (C03 order, C07 _index, C01 anchor): elements are parsed / built one after the other,
element i with _index == i, until the predicate - called with (element, list so far, context) - says stop; the element that
stopped the repetition is part of the result.  The predicate is an uninterpreted function of exactly the three things it is
handed (a total, pure callback: assumption E5); a predicate that is not callable stops after the first element (the code wraps
it in a lambda that, by late binding, returns itself - a truthy value)."""
from pyvc import terms as t, prelude
from pyvc.terms import I, S
from pyvc.values import *  # noqa
from pyvc.contract import Case, rk_dyn, rk_list
from pyvc.exec import LoopSpec
from .prims import fcontract, S_, generic_raise, buffer_same
from .composites import _base

T = ('C03', 'C07', 'C01')
prelude.DATATYPES += """(declare-datatypes ((RS 0)) (((mkRS (rs_ok Bool) (rs_done Bool) (rs_pos Int) (rs_H (Array Int (Array String Val))) (rs_D (Array Int (Array String Bool))) (rs_items (Array Int Val)) (rs_n Int)))))
"""
t.SORT_SMT['RS'] = 'RS'
prelude.declare_fun('ru_pred', [t.INT, t.VAL, 'VArr', t.INT, 'Heap', 'Dom', t.INT], t.BOOL)


def define_folds():
    # pc: the predicate is callable; disc: elements are not collected
    prelude.define('rustep', """(define-fun rustep ((m Int) (p Int) (pc Bool) (disc Bool) (s RS) (i Int) (buf (Array Int Int)) (len Int) (base Int) (c Int)) RS
  (ite (or (not (rs_ok s)) (rs_done s)) s
  (let ((H0 (store (rs_H s) c (store (select (rs_H s) c) "_index" (VInt i)))) (D0 (store (rs_D s) c (store (select (rs_D s) c) "_index" true))))
  (ite (P_ok m buf len (rs_pos s) base H0 D0 c)
    (let ((v (P_val m buf len (rs_pos s) base H0 D0 c)) (H1 (P_H m buf len (rs_pos s) base H0 D0 c)) (D1 (P_D m buf len (rs_pos s) base H0 D0 c)))
    (let ((items (ite disc (rs_items s) (store (rs_items s) (rs_n s) v))) (n (ite disc (rs_n s) (+ (rs_n s) 1))))
      (mkRS true (ite pc (ru_pred p v items n H1 D1 c) true) (P_end m buf len (rs_pos s) base H0 D0 c) H1 D1 items n)))
    (mkRS false false (rs_pos s) H0 D0 (rs_items s) (rs_n s))))))""", deps=['P_ok', 'P_val', 'P_H', 'P_D', 'P_end', 'ru_pred'])
    prelude.define('rufold', """(define-fun-rec rufold ((m Int) (p Int) (pc Bool) (disc Bool) (k Int) (s0 RS) (buf (Array Int Int)) (len Int) (base Int) (c Int)) RS
  (ite (<= k 0) s0 (rustep m p pc disc (rufold m p pc disc (- k 1) s0 buf len base c) (- k 1) buf len base c)))""", deps=['rustep'])


def rs(field, s):
    sort = {'rs_ok': t.BOOL, 'rs_done': t.BOOL, 'rs_pos': t.INT, 'rs_H': 'Heap', 'rs_D': 'Dom', 'rs_items': 'VArr', 'rs_n': t.INT}[field]
    return t.app(field, sort, s)


def _empty():
    a = t.T('VArr', 'constvarr', ())
    a._s = '((as const (Array Int Val)) VNone)'
    return a


def _args(pre):
    o = S_(pre)
    p = pre.self.fields['predicate']
    disc = pre.eng.truth(pre.self.fields['discard'], pre.st)
    return pre.self.fields['subcon'].ident, p.ident, p.callable_t, disc


def _s0(pre, items0):
    o = S_(pre)
    return t.app('mkRS', 'RS', t.TRUE, t.FALSE, o.pos, pre.st.ghost['H'], pre.st.ghost['D'], items0, t.ZERO)


def rufold(pre, k, items0):
    o = S_(pre)
    m, p, pc, disc = _args(pre)
    return t.app('rufold', 'RS', m, p, pc, disc, k, _s0(pre, items0), o.buf, o.len, _base(o), pre.obj('context').addr)


def _unfold(pre, k, items0):
    o = S_(pre)
    m, p, pc, disc = _args(pre)
    prev = rufold(pre, t.sub(k, t.ONE), items0)
    step = t.app('rustep', 'RS', m, p, pc, disc, prev, t.sub(k, t.ONE), o.buf, o.len, _base(o), pre.obj('context').addr)
    return t.implies(t.ge(k, t.ONE), t.eq(rufold(pre, k, items0), step))


def _list_terms(o):
    """(array, length) of a list object: symbolic, or the concrete empty list a result starts as"""
    if o.items is None:
        return o.arr, o.len
    if len(o.items) == 0:
        return _empty(), t.ZERO
    return None


def _parse_inv(L):
    pre = L.extra['pre']
    o0 = pre.obj('stream')
    if o0.model == 'adv':
        return []
    o = L.obj('stream')
    lt = _list_terms(L.obj('obj'))
    if lt is None:
        return [('result-list-is-within-the-model', t.FALSE)]
    arr, ln = lt
    F = rufold(pre, L.k, _empty())
    hints = [_unfold(pre, L.k, _empty())] if L.k.op != 'int' else []
    return [('state-after-k-elements-is-the-specification-fold-and-the-predicate-has-not-said-stop',
             t.and_(rs('rs_ok', F), t.not_(rs('rs_done', F)), t.eq(o.pos, rs('rs_pos', F)), t.eq(L.st.ghost['H'], rs('rs_H', F)), t.eq(L.st.ghost['D'], rs('rs_D', F)),
                    t.eq(arr, rs('rs_items', F)), t.eq(ln, rs('rs_n', F))), None, hints),
            ('buffer-unchanged', t.and_(t.eq(o.buf, o0.buf), t.eq(o.len, o0.len)))]


def _entry_items(post):
    return _empty()


def _parse_ok(pre, post):
    o, o2 = S_(pre), post.obj('stream')
    kk = post.st.ghost.get('loop_k')
    items0 = _entry_items(post)
    ghost_mode = getattr(post.eng.models, 'ghost_mode', False)
    if kk is None or items0 is None:
        if not ghost_mode and post.st.ghost.get('LE'):
            return []
        kk, items0 = fresh('last_element', t.INT), fresh('items0', 'VArr')
    K = t.add(kk, t.ONE)
    F = rufold(pre, K, items0)
    r = post.st.get(post.result) if isinstance(post.result, VRef) else None
    out = [('stops-right-after-the-first-element-the-predicate-accepts', t.and_(t.ge(kk, t.ZERO), rs('rs_ok', F), rs('rs_done', F), t.not_(rs('rs_done', rufold(pre, kk, items0)))), T,
            [('def', _unfold(pre, K, items0))]),
           ('stream-stands-after-that-element', t.eq(o2.pos, rs('rs_pos', F)), T),
           ('scope-as-the-last-element-left-it', t.and_(t.eq(post.st.ghost['H'], rs('rs_H', F)), t.eq(post.st.ghost['D'], rs('rs_D', F))), ('C07',)),
           ('buffer-unchanged', buffer_same(pre, post), ('C17', 'C08'))]
    if r is not None and r.items is None:
        j = t.var('ruj!', t.INT)
        out.append(('returns-the-elements-parsed-including-the-last-in-order', t.and_(t.eq(r.len, rs('rs_n', F)),
                    t.forall([j], t.implies(t.and_(t.le(t.ZERO, j), t.lt(j, r.len)), t.eq(t.T(t.VAL, 'select', (r.arr, j)), t.T(t.VAL, 'select', (rs('rs_items', F), j)))),
                             pats=[[t.T(t.VAL, 'select', (r.arr, j))]])), T))
    return out


def _parse_bad(pre, post):
    out = list(generic_raise(pre, post))
    kk = post.st.ghost.get('loop_k')
    items0 = _entry_items(post)
    if kk is None or items0 is None:
        if getattr(post.eng.models, 'ghost_mode', False) or not post.st.ghost.get('LE'):
            kk, items0 = fresh('failed_element', t.INT), fresh('items0', 'VArr')
        else:
            return out
    F = rufold(pre, t.add(kk, t.ONE), items0)
    out.append(('a-failure-is-the-failure-of-an-element-before-the-predicate-said-stop', t.and_(t.ge(kk, t.ZERO), t.not_(rs('rs_ok', F))), T,
                [('def', _unfold(pre, t.add(kk, t.ONE), items0))]))
    return out


def register_repeatuntil(src):
    define_folds()
    fcontract('RepeatUntil', '_parse', [
        Case('ok', 'return', lambda pre: t.TRUE, ensures=_parse_ok, rkind=rk_list, modifies=['stream']),
        Case('fails', 'raise', lambda pre: t.TRUE, ensures=_parse_bad, modifies=['stream']),
    ], loops={'for i in itertools.count()': LoopSpec(_parse_inv, tags=T, modifies=())}, tags=T)


# ================================================================================================ RepeatUntil._build
prelude.DATATYPES += """(declare-datatypes ((RB 0)) (((mkRB (rb_ok Bool) (rb_done Bool) (rb_buf (Array Int Int)) (rb_len Int) (rb_pos Int) (rb_H (Array Int (Array String Val))) (rb_D (Array Int (Array String Bool))) (rb_items (Array Int Val)) (rb_n Int)))))
"""
t.SORT_SMT['RB'] = 'RB'


def define_build_folds():
    prelude.declare_fun('dyn_item', [t.VAL, t.INT], t.VAL)
    # element i of the supplied sequence is built with _index = i; what its build RETURNED is collected; the predicate sees the
    # SUPPLIED element and the collected list
    prelude.define('rubstep', """(define-fun rubstep ((m Int) (p Int) (pc Bool) (disc Bool) (s RB) (i Int) (v Val) (base Int) (c Int)) RB
  (ite (or (not (rb_ok s)) (rb_done s)) s
  (let ((H0 (store (rb_H s) c (store (select (rb_H s) c) "_index" (VInt i)))) (D0 (store (rb_D s) c (store (select (rb_D s) c) "_index" true))) (e (dyn_item v i)))
  (ite (B_ok m e (+ (rb_pos s) base) H0 D0 c)
    (let ((n (B_len m e (+ (rb_pos s) base) H0 D0 c)) (W (B_bytes m e (+ (rb_pos s) base) H0 D0 c)) (ret (B_ret m e (+ (rb_pos s) base) H0 D0 c))
          (H1 (B_H m e (+ (rb_pos s) base) H0 D0 c)) (D1 (B_D m e (+ (rb_pos s) base) H0 D0 c)))
    (let ((items (ite disc (rb_items s) (store (rb_items s) (rb_n s) ret))) (nn (ite disc (rb_n s) (+ (rb_n s) 1))))
      (mkRB true (ite pc (ru_pred p e items nn H1 D1 c) true)
            (ite (> n 0) (awrite (rb_buf s) (rb_len s) (rb_pos s) W 0 n) (rb_buf s))
            (ite (> n 0) (ite (>= (rb_len s) (+ (rb_pos s) n)) (rb_len s) (+ (rb_pos s) n)) (rb_len s))
            (+ (rb_pos s) n) H1 D1 items nn)))
    (mkRB false false (rb_buf s) (rb_len s) (rb_pos s) H0 D0 (rb_items s) (rb_n s))))))""",
                   deps=['B_ok', 'B_len', 'B_bytes', 'B_ret', 'B_H', 'B_D', 'awrite', 'dyn_item', 'ru_pred'])
    prelude.define('rubfold', """(define-fun-rec rubfold ((m Int) (p Int) (pc Bool) (disc Bool) (k Int) (s0 RB) (v Val) (base Int) (c Int)) RB
  (ite (<= k 0) s0 (rubstep m p pc disc (rubfold m p pc disc (- k 1) s0 v base c) (- k 1) v base c)))""", deps=['rubstep'])


def rb(field, s):
    sort = {'rb_ok': t.BOOL, 'rb_done': t.BOOL, 'rb_buf': t.ARR, 'rb_len': t.INT, 'rb_pos': t.INT, 'rb_H': 'Heap', 'rb_D': 'Dom', 'rb_items': 'VArr', 'rb_n': t.INT}[field]
    return t.app(field, sort, s)


def _b0(pre):
    o = S_(pre)
    return t.app('mkRB', 'RB', t.TRUE, t.FALSE, o.buf, o.len, o.pos, pre.st.ghost['H'], pre.st.ghost['D'], _empty(), t.ZERO)


def rubfold(pre, k):
    o = S_(pre)
    m, p, pc, disc = _args(pre)
    return t.app('rubfold', 'RB', m, p, pc, disc, k, _b0(pre), pre['obj'].t, _base(o), pre.obj('context').addr)


def _bunfold(pre, k):
    o = S_(pre)
    m, p, pc, disc = _args(pre)
    prev = rubfold(pre, t.sub(k, t.ONE))
    step = t.app('rubstep', 'RB', m, p, pc, disc, prev, t.sub(k, t.ONE), pre['obj'].t, _base(o), pre.obj('context').addr)
    return t.implies(t.ge(k, t.ONE), t.eq(rubfold(pre, k), step))


def _build_inv(L):
    pre = L.extra['pre']
    o0 = pre.obj('stream')
    if o0.model == 'adv':
        return []
    o = L.obj('stream')
    pl, rl = _list_terms(L.obj('partiallist')), _list_terms(L.obj('retlist'))
    if pl is None or rl is None:
        return [('lists-are-within-the-model', t.FALSE)]
    F = rubfold(pre, L.k)
    hints = [_bunfold(pre, L.k)] if L.k.op != 'int' else []
    return [('state-after-k-elements-is-the-specification-fold-and-the-predicate-has-not-said-stop',
             t.and_(rb('rb_ok', F), t.not_(rb('rb_done', F)), t.eq(o.buf, rb('rb_buf', F)), t.eq(o.len, rb('rb_len', F)), t.eq(o.pos, rb('rb_pos', F)),
                    t.eq(L.st.ghost['H'], rb('rb_H', F)), t.eq(L.st.ghost['D'], rb('rb_D', F)),
                    t.eq(pl[0], rb('rb_items', F)), t.eq(pl[1], rb('rb_n', F)), t.eq(rl[0], rb('rb_items', F)), t.eq(rl[1], rb('rb_n', F))), None, hints)]


def _build_ok(pre, post):
    o, o2 = S_(pre), post.obj('stream')
    kk = post.st.ghost.get('loop_k')
    if kk is None:
        if not getattr(post.eng.models, 'ghost_mode', False) and post.st.ghost.get('LE'):
            return []
        kk = fresh('last_element', t.INT)
    K = t.add(kk, t.ONE)
    F = rubfold(pre, K)
    r = post.st.get(post.result) if isinstance(post.result, VRef) else None
    out = [('stops-right-after-the-first-element-the-predicate-accepts', t.and_(t.ge(kk, t.ZERO), t.lt(kk, t.app('dyn_len', t.INT, pre['obj'].t)), rb('rb_ok', F), rb('rb_done', F), t.not_(rb('rb_done', rubfold(pre, kk)))), T,
            [('def', _bunfold(pre, K))]),
           ('elements-built-one-after-the-other-up-to-and-including-that-element', t.and_(t.eq(o2.buf, rb('rb_buf', F)), t.eq(o2.len, rb('rb_len', F)), t.eq(o2.pos, rb('rb_pos', F))), T),
           ('scope-as-the-last-element-left-it', t.and_(t.eq(post.st.ghost['H'], rb('rb_H', F)), t.eq(post.st.ghost['D'], rb('rb_D', F))), ('C07',))]
    if r is not None and r.items is None:
        j = t.var('rubj!', t.INT)
        out.append(('returns-what-each-element-build-returned-in-order', t.and_(t.eq(r.len, rb('rb_n', F)),
                    t.forall([j], t.implies(t.and_(t.le(t.ZERO, j), t.lt(j, r.len)), t.eq(t.T(t.VAL, 'select', (r.arr, j)), t.T(t.VAL, 'select', (rb('rb_items', F), j)))),
                             pats=[[t.T(t.VAL, 'select', (r.arr, j))]])), T))
    return out


def _build_bad(pre, post):
    out = list(generic_raise(pre, post))
    n = t.app('dyn_len', t.INT, pre['obj'].t)
    rep = t.eq(post.exc.cls, I(post.eng.src.exc_code['RepeatError']))
    Fn = rubfold(pre, n)
    ghost_mode = getattr(post.eng.models, 'ghost_mode', False)
    if post.st.ghost.get('LE') or ghost_mode:
        kk = post.st.ghost.get('loop_k')
        if kk is None or ghost_mode:
            kk = fresh('failed_element', t.INT)
        Fk = rubfold(pre, t.add(kk, t.ONE))
        out.append(('a-failure-is-either-an-element-that-failed-or-RepeatError-after-every-supplied-element-was-built-and-none-accepted',
                    t.or_(t.and_(rep, rb('rb_ok', Fn), t.not_(rb('rb_done', Fn))), t.and_(t.le(t.ZERO, kk), t.lt(kk, n), t.not_(rb('rb_ok', Fk)))), T + ('C13',),
                    [('def', _bunfold(pre, t.add(kk, t.ONE)))]))
    return out


def register_repeatuntil_build(src):
    define_build_folds()
    fcontract('RepeatUntil', '_build', [
        Case('ok', 'return', lambda pre: t.TRUE, ensures=_build_ok, rkind=rk_list, modifies=['stream']),
        Case('fails', 'raise', lambda pre: t.TRUE, ensures=_build_bad, modifies=['stream']),
    ], loops={'for (i, e) in enumerate(obj)': LoopSpec(_build_inv, tags=T)}, tags=T, sequential_build=False,
        requires=lambda pre: [('the-supplied-value-is-a-list-like-sequence', t.and_(t.app('dyn_sized', t.BOOL, pre['obj'].t), t.app('(_ is VOpq)', t.BOOL, pre['obj'].t)))])
