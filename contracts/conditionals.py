"""Plain delegation (Subconstruct), Default and IfThenElse: which sub-construct runs, on which value, and that nothing else
happens.  These carry C01/C05 for the conditional constructs: sizeof, build and parse select the SAME branch from the
same context, and Default substitutes its value only for None."""
from pyvc import terms as t
from pyvc.terms import I
from pyvc.values import *  # noqa
from pyvc.contract import Case, rk_dyn
from .prims import fcontract, S_, generic_raise, buffer_same, size_is, _param_truth
from .wrappers import Sub, result_is, heap_is, _written

T = ('C01', 'C02', 'C03', 'C05')


# ================================================================================================ delegation
def _deleg_parse(field, sel=None):
    def ok(pre, post):
        o2 = post.obj('stream')
        s = sel(pre) if sel else Sub(pre, field)
        return [('returns-the-selected-constructs-value', result_is(post, s.val), T),
                ('consumes-what-the-selected-construct-consumes', t.eq(o2.pos, s.end), T),
                ('buffer-unchanged', buffer_same(pre, post), ('C17', 'C08')),
                ('context-as-the-selected-construct-left-it', heap_is(post, s.H, s.D), ('C07',))]
    return ok


def _deleg_build(field, obj=None, sel=None):
    def ok(pre, post):
        o, o2 = S_(pre), post.obj('stream')
        s = sel(pre) if sel else Sub(pre, field, obj=(obj(pre) if obj else pre['obj'].t), kind='build')
        return [('advances-by-what-the-selected-construct-wrote', t.eq(o2.pos, t.add(o.pos, s.len)), T),
                _written(o, o2, s.len, lambda i: t.select(s.bytes, i), 'writes-exactly-the-selected-constructs-bytes'),
                ('returns-the-selected-constructs-build-value', result_is(post, s.ret), T),
                ('context-as-the-selected-construct-left-it', heap_is(post, s.H, s.D), ('C07',))]
    return ok


fcontract('Subconstruct', '_parse', [
    Case('ok', 'return', lambda pre: Sub(pre, 'subcon').ok, ensures=_deleg_parse('subcon'), rkind=rk_dyn, modifies=['stream']),
    Case('inner-fails', 'raise', lambda pre: t.not_(Sub(pre, 'subcon').ok), ensures=generic_raise, modifies=['stream']),
], tags=T)
fcontract('Subconstruct', '_build', [
    Case('ok', 'return', lambda pre: Sub(pre, 'subcon', obj=pre['obj'].t, kind='build').ok, ensures=_deleg_build('subcon'), rkind=rk_dyn, modifies=['stream']),
    Case('inner-fails', 'raise', lambda pre: t.not_(Sub(pre, 'subcon', obj=pre['obj'].t, kind='build').ok), ensures=generic_raise, modifies=['stream']),
], tags=T)
fcontract('Subconstruct', '_sizeof', [
    Case('ok', 'return', lambda pre: Sub(pre, 'subcon', kind='sizeof').ok,
         ensures=lambda pre, post: [('size-is-the-inner-size', size_is(post, Sub(pre, 'subcon', kind='sizeof').val), ('C05',))], rkind=rk_dyn),
    Case('no-size', 'raise', lambda pre: t.not_(Sub(pre, 'subcon', kind='sizeof').ok)),
], tags=('C05',))


# ================================================================================================ Default
def _default_obj(pre):
    """the value handed to the inner build: the supplied one, the default only when None was supplied"""
    eng = pre.eng
    p = pre.self.fields['value']
    iface = eng.models.interface
    H, D = pre.st.ghost['H'], pre.st.ghost['D']
    c = pre.obj('context').addr
    dflt = t.ite(p.callable_t, t.app('ev_val', t.VAL, p.ident, H, D, c), eng.to_dyn(iface.param_const(eng, p, pre.st), pre.st))
    v = pre['obj'].t
    return t.ite(t.app('(_ is VNone)', t.BOOL, v), dflt, v)


def _default_sub(pre):
    return Sub(pre, 'subcon', obj=_default_obj(pre), kind='build')


fcontract('Default', '_build', [
    Case('ok', 'return', lambda pre: _default_sub(pre).ok, ensures=_deleg_build('subcon', sel=_default_sub), rkind=rk_dyn, modifies=['stream']),
    Case('inner-fails', 'raise', lambda pre: t.not_(_default_sub(pre).ok), ensures=generic_raise, modifies=['stream']),
], tags=T)


# ================================================================================================ IfThenElse
def _branch(pre, kind, **kw):
    """interface terms of the branch the condition selects (then when truthy, else otherwise), as if-then-else terms"""
    c = _param_truth(pre, 'condfunc')
    a, b = Sub(pre, 'thensubcon', kind=kind, **kw), Sub(pre, 'elsesubcon', kind=kind, **kw)

    class R:
        pass
    r = R()
    for k in ('ok', 'val', 'end', 'exc', 'H', 'D', 'ret', 'bytes', 'len'):
        if hasattr(a, k):
            setattr(r, k, t.ite(c, getattr(a, k), getattr(b, k)))
    return r


def _ite_parse(pre):
    return _branch(pre, 'parse')


def _ite_build(pre):
    return _branch(pre, 'build', obj=pre['obj'].t)


def _ite_size(pre):
    return _branch(pre, 'sizeof')


fcontract('IfThenElse', '_parse', [
    Case('ok', 'return', lambda pre: _ite_parse(pre).ok, ensures=_deleg_parse(None, sel=_ite_parse), rkind=rk_dyn, modifies=['stream']),
    Case('branch-fails', 'raise', lambda pre: t.not_(_ite_parse(pre).ok), ensures=generic_raise, modifies=['stream']),
], tags=T)
fcontract('IfThenElse', '_build', [
    Case('ok', 'return', lambda pre: _ite_build(pre).ok, ensures=_deleg_build(None, sel=_ite_build), rkind=rk_dyn, modifies=['stream']),
    Case('branch-fails', 'raise', lambda pre: t.not_(_ite_build(pre).ok), ensures=generic_raise, modifies=['stream']),
], tags=T)
fcontract('IfThenElse', '_sizeof', [
    Case('ok', 'return', lambda pre: _ite_size(pre).ok,
         ensures=lambda pre, post: [('size-is-the-size-of-the-branch-the-condition-selects', size_is(post, _ite_size(pre).val), ('C05',))], rkind=rk_dyn),
    Case('no-size', 'raise', lambda pre: t.not_(_ite_size(pre).ok)),
], tags=('C05',))


# ================================================================================================ the remaining plain delegations and fixed answers
# OffsettedEnd._build / NullStripped._build build the inner construct and nothing else; ProcessXor / ProcessRotateLeft have the size of
# what they wrap; the constructs whose size depends on the data always answer SizeofError.
for _cls in ('OffsettedEnd', 'NullStripped'):
    fcontract(_cls, '_build', [
        Case('ok', 'return', lambda pre: Sub(pre, 'subcon', obj=pre['obj'].t, kind='build').ok, ensures=_deleg_build('subcon'), rkind=rk_dyn, modifies=['stream']),
        Case('inner-fails', 'raise', lambda pre: t.not_(Sub(pre, 'subcon', obj=pre['obj'].t, kind='build').ok), ensures=generic_raise, modifies=['stream']),
    ], tags=T + ('C08',))
for _cls in ('ProcessXor', 'ProcessRotateLeft'):
    fcontract(_cls, '_sizeof', [
        Case('ok', 'return', lambda pre: Sub(pre, 'subcon', kind='sizeof').ok,
             ensures=lambda pre, post: [('size-is-the-inner-size', size_is(post, Sub(pre, 'subcon', kind='sizeof').val), ('C05', 'C15'))], rkind=rk_dyn),
        Case('no-size', 'raise', lambda pre: t.not_(Sub(pre, 'subcon', kind='sizeof').ok)),
    ], tags=('C05', 'C15'))
for _cls in ('GreedyRange', 'RepeatUntil', 'Union', 'Tunnel', 'OffsettedEnd', 'NullStripped'):
    fcontract(_cls, '_sizeof', [
        Case('never-sized', 'raise', lambda pre: t.TRUE, exc='SizeofError', path='path'),
    ], tags=('C05',))
fcontract('RestreamData', '_build', [
    Case('ok', 'return', lambda pre: t.TRUE, rkind=rk_dyn, modifies=['stream'],
         ensures=lambda pre, post: [('writes-nothing', t.and_(t.eq(post.obj('stream').pos, S_(pre).pos), buffer_same(pre, post)), ('C05', 'C03')),
                                    ('returns-the-value-unchanged', result_is(post, pre['obj'].t), ('C03',))]),
], tags=('C05', 'C03'))
fcontract('RestreamData', '_sizeof', [
    Case('ok', 'return', lambda pre: t.TRUE, rkind=rk_dyn, ensures=lambda pre, post: [('size-is-zero', size_is(post, t.ZERO), ('C05',))]),
], tags=('C05',))
