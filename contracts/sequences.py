"""Sequence._parse against a specification fold (C03 declaration order, C07 scope): member j is parsed where member j-1 ended, in
the nested scope holding the values of the earlier NAMED members; the result list holds the member values in order; a
StopFieldError ends the sequence (the remaining members are skipped)."""
from pyvc import terms as t, prelude
from pyvc.terms import I, S
from pyvc.values import *  # noqa
from pyvc.contract import Case, rk_dyn, rk_list
from pyvc.exec import LoopSpec
from pyvc.lemma import Lemma
from .prims import fcontract, S_, generic_raise, buffer_same
from .composites import ps, mkPS, _base, _addr, _le, child_of

T = ('C03', 'C07')


def define_sequence_folds(src):
    stop = src.exc_code['StopFieldError']
    prelude.define('qstep', """(define-fun qstep ((m Int) (s PS) (buf (Array Int Int)) (len Int) (base Int) (c Int)) PS
  (ite (or (not (ps_ok s)) (ps_stop s)) s
  (ite (P_ok m buf len (ps_pos s) base (ps_H s) (ps_D s) c)
    (let ((H1 (P_H m buf len (ps_pos s) base (ps_H s) (ps_D s) c)) (D1 (P_D m buf len (ps_pos s) base (ps_H s) (ps_D s) c))
          (v (P_val m buf len (ps_pos s) base (ps_H s) (ps_D s) c)) (e (P_end m buf len (ps_pos s) base (ps_H s) (ps_D s) c)))
      (ite (truthy (sc_name m))
        (mkPS true false e (store H1 c (store (select H1 c) (sval (sc_name m)) v)) (store D1 c (store (select D1 c) (sval (sc_name m)) true)))
        (mkPS true false e H1 D1)))
    (ite (= (P_exc m buf len (ps_pos s) base (ps_H s) (ps_D s) c) %d)
      (mkPS true true (P_fpos m buf len (ps_pos s) base (ps_H s) (ps_D s) c) (P_fH m buf len (ps_pos s) base (ps_H s) (ps_D s) c) (P_fD m buf len (ps_pos s) base (ps_H s) (ps_D s) c))
      (mkPS false false (P_fpos m buf len (ps_pos s) base (ps_H s) (ps_D s) c) (P_fH m buf len (ps_pos s) base (ps_H s) (ps_D s) c) (P_fD m buf len (ps_pos s) base (ps_H s) (ps_D s) c))))))""" % stop,
                   deps=['P_ok', 'P_H', 'P_D', 'P_val', 'P_end', 'P_exc', 'P_fpos', 'P_fH', 'P_fD', 'truthy', 'sc_name'])
    prelude.define('qfold', """(define-fun-rec qfold ((sl Int) (k Int) (s0 PS) (buf (Array Int Int)) (len Int) (base Int) (c Int)) PS
  (ite (<= k 0) s0 (qstep (sl_at sl (- k 1)) (qfold sl (- k 1) s0 buf len base c) buf len base c)))""", deps=['qstep', 'sl_at'])
    prelude.define('qval', """(define-fun qval ((sl Int) (j Int) (s0 PS) (buf (Array Int Int)) (len Int) (base Int) (c Int)) Val
  (let ((s (qfold sl j s0 buf len base c))) (P_val (sl_at sl j) buf len (ps_pos s) base (ps_H s) (ps_D s) c)))""", deps=['qfold', 'P_val', 'sl_at'])


def qfold(LE, o0, sl, k):
    s0 = mkPS(t.TRUE, t.FALSE, LE.get(LE.env['stream']).pos, LE.ghost['H'], LE.ghost['D'])
    return t.app('qfold', 'PS', sl, k, s0, o0.buf, o0.len, _base(o0), _addr(LE, 'context'))


def qval(LE, o0, sl, j):
    s0 = mkPS(t.TRUE, t.FALSE, LE.get(LE.env['stream']).pos, LE.ghost['H'], LE.ghost['D'])
    return t.app('qval', t.VAL, sl, j, s0, o0.buf, o0.len, _base(o0), _addr(LE, 'context'))


def _qunfold(LE, o0, sl, k):
    prev = qfold(LE, o0, sl, t.sub(k, t.ONE))
    step = t.app('qstep', 'PS', t.app('sl_at', t.INT, sl, t.sub(k, t.ONE)), prev, o0.buf, o0.len, _base(o0), _addr(LE, 'context'))
    return t.implies(t.ge(k, t.ONE), t.eq(qfold(LE, o0, sl, k), step))


def _stuck(LE, o0, sl, i, j):
    fi, fj = qfold(LE, o0, sl, i), qfold(LE, o0, sl, j)
    return t.implies(t.and_(t.le(t.ZERO, i), t.le(i, j), t.or_(t.not_(ps('ps_ok', fi)), ps('ps_stop', fi))), t.eq(fj, fi))


def sequence_lemmas():
    V = [('sl', t.INT), ('i', t.INT), ('j', t.INT), ('s0', 'PS'), ('buf', t.ARR), ('len', t.INT), ('base', t.INT), ('c', t.INT)]

    def qf(v, k):
        return t.app('qfold', 'PS', v['sl'], k, v['s0'], v['buf'], v['len'], v['base'], v['c'])

    def stmt(v):
        fi = qf(v, v['i'])
        return t.implies(t.and_(t.le(t.ZERO, v['i']), t.le(v['i'], v['j']), t.or_(t.not_(ps('ps_ok', fi)), ps('ps_stop', fi))), t.eq(qf(v, v['j']), fi))
    return Lemma('sequence_fold_stuck_persists', V, stmt, induct=('j', 0), ih_instances=lambda v: [{k: v[k] for k in ('sl', 'i', 's0', 'buf', 'len', 'base', 'c')}], tags=T)


def _seq_inv(L):
    pre = L.extra['pre']
    o0 = pre.obj('stream')
    if o0.model == 'adv':
        return []
    sl = pre.self.fields['subcons'].ident
    LE = L.entry
    o = L.obj('stream')
    F = qfold(LE, o0, sl, L.k)
    obj = L.obj('obj')
    hints = [_qunfold(LE, o0, sl, L.k)] if L.k.op != 'int' else []
    out = [('state-after-k-members-is-the-specification-fold', t.and_(ps('ps_ok', F), t.not_(ps('ps_stop', F)), t.eq(o.pos, ps('ps_pos', F)), t.eq(L.st.ghost['H'], ps('ps_H', F)), t.eq(L.st.ghost['D'], ps('ps_D', F))), None, hints),
           ('buffer-unchanged', t.and_(t.eq(o.buf, o0.buf), t.eq(o.len, o0.len))),
           ('scope-keeps-its-identity', t.eq(_addr(L.st, 'context'), _addr(LE, 'context')))]
    if obj.items is None:
        j = t.var('qj!', t.INT)
        out.append(('result-holds-the-member-values-so-far-in-order', t.and_(t.eq(obj.len, L.k),
                    t.forall([j], t.implies(t.and_(t.le(t.ZERO, j), t.lt(j, obj.len)), t.eq(t.T(t.VAL, 'select', (obj.arr, j)), qval(LE, o0, sl, j))), pats=[[t.T(t.VAL, 'select', (obj.arr, j))]]))))
    return out


def _seq_ok(pre, post):
    o0, o2 = pre.obj('stream'), post.obj('stream')
    sl = pre.self.fields['subcons'].ident
    n = t.app('sl_len', t.INT, sl)
    LE = _le(post)
    F = qfold(LE, o0, sl, n)
    c0 = pre.obj('context').addr
    c1 = _addr(LE, 'context')
    kk = post.st.ghost.get('loop_k')
    hints = []
    if kk is not None:
        hints = [('def', _qunfold(LE, o0, sl, t.add(kk, t.ONE))), _stuck(LE, o0, sl, t.add(kk, t.ONE), n)]
    r = post.st.get(post.result) if isinstance(post.result, VRef) else None
    out = [('nested-scope-is-a-child-of-the-enclosing-scope', child_of(LE.ghost['H'], LE.ghost['D'], c1, pre.st.ghost['H'], pre.st.ghost['D'], c0), ('C07',)),
           ('members-start-at-the-entry-position', t.eq(LE.get(LE.env['stream']).pos, o0.pos), ('C03',)),
           ('members-parsed-in-declaration-order-each-from-the-end-of-the-previous', t.and_(ps('ps_ok', F), t.eq(o2.pos, ps('ps_pos', F))), T, hints),
           ('scope-holds-every-named-member-value', t.and_(t.eq(post.st.ghost['H'], ps('ps_H', F)), t.eq(post.st.ghost['D'], ps('ps_D', F))), ('C07',)),
           ('buffer-unchanged', buffer_same(pre, post), ('C17', 'C08'))]
    if r is not None and r.items is None and kk is None:
        j = t.var('qj!', t.INT)
        out.append(('returns-the-member-values-in-order', t.and_(t.eq(r.len, n),
                    t.forall([j], t.implies(t.and_(t.le(t.ZERO, j), t.lt(j, r.len)), t.eq(t.T(t.VAL, 'select', (r.arr, j)), qval(LE, o0, sl, j))), pats=[[t.T(t.VAL, 'select', (r.arr, j))]])), T))
    return out


def _seq_bad(pre, post):
    out = list(generic_raise(pre, post))
    LE = post.st.ghost.get('LE')
    ghost_mode = getattr(post.eng.models, 'ghost_mode', False)
    if LE is None and not ghost_mode:
        return out          # a failure before the first member (nothing to say in terms of the fold)
    LE = _le(post)
    o0 = pre.obj('stream')
    sl = pre.self.fields['subcons'].ident
    n = t.app('sl_len', t.INT, sl)
    kk = post.st.ghost.get('loop_k')
    if kk is None:
        kk = fresh('failed_member', t.INT)
    c0, c1 = pre.obj('context').addr, _addr(LE, 'context')
    F = qfold(LE, o0, sl, t.add(kk, t.ONE))
    out += [('nested-scope-is-a-child-of-the-enclosing-scope', child_of(LE.ghost['H'], LE.ghost['D'], c1, pre.st.ghost['H'], pre.st.ghost['D'], c0), ('C07',)),
            ('members-start-at-the-entry-position', t.eq(LE.get(LE.env['stream']).pos, o0.pos), ('C03',)),
            ('a-failure-is-the-failure-of-some-member-in-the-specification-fold', t.and_(t.le(t.ZERO, kk), t.lt(kk, n), t.not_(ps('ps_ok', F))), T,
             [('def', _qunfold(LE, o0, sl, t.add(kk, t.ONE)))])]
    return out


def register_sequences(src):
    define_sequence_folds(src)
    sequence_lemmas()
    fcontract('Sequence', '_parse', [
        Case('ok', 'return', lambda pre: t.TRUE, ensures=_seq_ok, rkind=rk_list, modifies=['stream']),
        Case('fails', 'raise', lambda pre: t.TRUE, ensures=_seq_bad, modifies=['stream']),
    ], loops={'for sc in self.subcons': LoopSpec(_seq_inv, tags=T, modifies=())}, tags=T)


# ================================================================================================ FocusedSeq._parse
# The members are parsed like a Sequence's (same specification step, a StopFieldError propagates); the value returned is the
# value of the member whose name the selector gives.  Hypotheses: the selector names a member; member names are pairwise distinct.
from .unions import _names_distinct  # noqa
from .classes import _focused_inv  # noqa
prelude.declare_fun('member_index', [t.INT, t.VAL], t.INT)


def _foc_inv(L):
    pre = L.extra['pre']
    o0 = pre.obj('stream')
    base = list(_focused_inv(L))
    if o0.model == 'adv':
        return base
    sl = pre.self.fields['subcons'].ident
    LE = L.entry
    o = L.obj('stream')
    F = qfold(LE, o0, sl, L.k)
    hints = [_qunfold(LE, o0, sl, L.k)] if L.k.op != 'int' else []
    out = base + [('state-after-k-members-is-the-specification-fold', t.and_(ps('ps_ok', F), t.not_(ps('ps_stop', F)), t.eq(o.pos, ps('ps_pos', F)), t.eq(L.st.ghost['H'], ps('ps_H', F)), t.eq(L.st.ghost['D'], ps('ps_D', F))), None, hints),
                  ('buffer-unchanged', t.and_(t.eq(o.buf, o0.buf), t.eq(o.len, o0.len))),
                  ('scope-keeps-its-identity', t.eq(_addr(L.st, 'context'), _addr(LE, 'context')))]
    pbf = L['parsebuildfrom']
    if isinstance(pbf, VDyn):
        w = t.app('member_index', t.INT, sl, pbf.t)
        fr = L.st.env.get('finalret')
        if fr is not None and not isinstance(fr, Unbound):
            val = fr.value if isinstance(fr, MaybeBound) else fr
            km = t.sub(L.k, t.ONE)
            nm = t.app('sc_name', t.VAL, t.app('sl_at', t.INT, sl, km))
            inst = t.implies(t.and_(t.ge(km, t.ZERO), t.app('truthy', t.BOOL, nm)), t.eq(t.app('member_index', t.INT, sl, nm), km))      # instance of 'names are pairwise distinct' (a precondition)
            out.append(('finalret-is-the-value-of-the-selected-member-once-it-was-parsed', t.implies(t.gt(L.k, w), t.eq(L.eng.to_dyn(val, L.st), qval(LE, o0, sl, w))), None, [inst] if L.k.op != 'int' else []))
    return out


def _foc_ok(pre, post):
    o0, o2 = pre.obj('stream'), post.obj('stream')
    sl = pre.self.fields['subcons'].ident
    n = t.app('sl_len', t.INT, sl)
    LE = _le(post)
    F = qfold(LE, o0, sl, n)
    p = pre.self.fields['parsebuildfrom']
    iface = post.eng.models.interface
    c1 = _addr(LE, 'context')
    sel = t.ite(p.callable_t, t.app('ev_val', t.VAL, p.ident, LE.ghost['H'], LE.ghost['D'], c1), post.eng.to_dyn(iface.param_const(post.eng, p, post.st), post.st))
    w = t.app('member_index', t.INT, sl, sel)
    return [('members-parsed-in-declaration-order-each-from-the-end-of-the-previous', t.and_(ps('ps_ok', F), t.not_(ps('ps_stop', F)), t.eq(o2.pos, ps('ps_pos', F))), T),
            ('returns-the-value-of-the-member-the-selector-names', t.eq(post.eng.to_dyn(post.result, post.st), qval(LE, o0, sl, w)), T),
            ('buffer-unchanged', buffer_same(pre, post), ('C17', 'C08'))]


def register_focused(src):
    fcontract('FocusedSeq', '_parse', [
        Case('ok', 'return', lambda pre: t.TRUE, ensures=_foc_ok, rkind=rk_dyn, modifies=['stream']),
        Case('fails', 'raise', lambda pre: t.TRUE, ensures=generic_raise, modifies=['stream']),
    ], loops={'for (i, sc) in enumerate(self.subcons)': LoopSpec(_foc_inv, tags=T + ('C06',), modifies=())}, tags=T,
        requires=lambda pre: [('member-names-are-pairwise-distinct', _names_distinct(pre.self.fields['subcons'].ident, t.app('sl_len', t.INT, pre.self.fields['subcons'].ident)))])


# ================================================================================================ Sequence._build
# Member i is built from element i of the supplied sequence (None for every member when no value is supplied), appending where
# member i-1 ended; a named member's supplied value is put into the nested scope before it is built and REPLACED by what its
# build returned afterwards, so later members see the value actually written (C01: parse hands on the parsed value the same way).
from .composites import bs, _le_build  # noqa
from pyvc.contract import rk_list  # noqa


def define_sequence_build_folds(src):
    prelude.declare_fun('dyn_item', [t.VAL, t.INT], t.VAL)
    # element i of the supplied sequence; None when no value is supplied and None for members beyond the end of a short sequence
    prelude.define('qbitem', """(define-fun qbitem ((v Val) (i Int)) Val (ite ((_ is VNone) v) VNone (ite (< i (dyn_len v)) (dyn_item v i) VNone)))""", deps=['dyn_item', 'dyn_len'])
    prelude.define('qbstep', """(define-fun qbstep ((m Int) (s BS) (e Val) (base Int) (c Int)) BS
  (ite (not (bs_ok s)) s
  (let ((H1 (ite (truthy (sc_name m)) (store (bs_H s) c (store (select (bs_H s) c) (sval (sc_name m)) e)) (bs_H s)))
        (D1 (ite (truthy (sc_name m)) (store (bs_D s) c (store (select (bs_D s) c) (sval (sc_name m)) true)) (bs_D s))))
  (ite (B_ok m e (+ (bs_pos s) base) H1 D1 c)
    (let ((n (B_len m e (+ (bs_pos s) base) H1 D1 c)) (W (B_bytes m e (+ (bs_pos s) base) H1 D1 c)) (ret (B_ret m e (+ (bs_pos s) base) H1 D1 c))
          (H2 (B_H m e (+ (bs_pos s) base) H1 D1 c)) (D2 (B_D m e (+ (bs_pos s) base) H1 D1 c)))
      (mkBS true (ite (> n 0) (awrite (bs_buf s) (bs_len s) (bs_pos s) W 0 n) (bs_buf s))
            (ite (> n 0) (ite (>= (bs_len s) (+ (bs_pos s) n)) (bs_len s) (+ (bs_pos s) n)) (bs_len s))
            (+ (bs_pos s) n)
            (ite (truthy (sc_name m)) (store H2 c (store (select H2 c) (sval (sc_name m)) ret)) H2)
            (ite (truthy (sc_name m)) (store D2 c (store (select D2 c) (sval (sc_name m)) true)) D2)))
    (mkBS false (bs_buf s) (bs_len s) (bs_pos s) H1 D1)))))""",
                   deps=['B_ok', 'B_len', 'B_bytes', 'B_ret', 'B_H', 'B_D', 'truthy', 'sc_name', 'awrite'])
    prelude.define('qbfold', """(define-fun-rec qbfold ((sl Int) (k Int) (s0 BS) (v Val) (base Int) (c Int)) BS
  (ite (<= k 0) s0 (qbstep (sl_at sl (- k 1)) (qbfold sl (- k 1) s0 v base c) (qbitem v (- k 1)) base c)))""", deps=['qbstep', 'qbitem', 'sl_at'])
    prelude.define('qbret', """(define-fun qbret ((sl Int) (j Int) (s0 BS) (v Val) (base Int) (c Int)) Val
  (let ((s (qbfold sl j s0 v base c)) (m (sl_at sl j)) (e (qbitem v j)))
  (let ((H1 (ite (truthy (sc_name m)) (store (bs_H s) c (store (select (bs_H s) c) (sval (sc_name m)) e)) (bs_H s)))
        (D1 (ite (truthy (sc_name m)) (store (bs_D s) c (store (select (bs_D s) c) (sval (sc_name m)) true)) (bs_D s))))
  (B_ret m e (+ (bs_pos s) base) H1 D1 c))))""", deps=['qbfold', 'qbitem', 'B_ret', 'sl_at', 'sc_name', 'truthy'])


def _qb0(LE):
    o = LE.get(LE.env['stream'])
    return t.app('mkBS', 'BS', t.TRUE, o.buf, o.len, o.pos, LE.ghost['H'], LE.ghost['D'])


def qbfold(LE, sl, k, v, base):
    return t.app('qbfold', 'BS', sl, k, _qb0(LE), v, base, _addr(LE, 'context'))


def qbret(LE, sl, j, v, base):
    return t.app('qbret', t.VAL, sl, j, _qb0(LE), v, base, _addr(LE, 'context'))


def _qbunfold(LE, sl, k, v, base):
    prev = qbfold(LE, sl, t.sub(k, t.ONE), v, base)
    step = t.app('qbstep', 'BS', t.app('sl_at', t.INT, sl, t.sub(k, t.ONE)), prev, t.app('qbitem', t.VAL, v, t.sub(k, t.ONE)), base, _addr(LE, 'context'))
    return t.implies(t.ge(k, t.ONE), t.eq(qbfold(LE, sl, k, v, base), step))


def _seq_build_inv(L):
    pre = L.extra['pre']
    o0 = pre.obj('stream')
    if o0.model == 'adv':
        return []
    sl = pre.self.fields['subcons'].ident
    base = _base(o0)
    v = pre['obj'].t
    F = qbfold(L.entry, sl, L.k, v, base)
    o = L.obj('stream')
    hints = [prelude.definition_instance('qbfold', [sl, L.k, _qb0(L.entry), v, base, _addr(L.entry, 'context')])] if L.k.op != 'int' else []
    out = [('state-after-k-members-is-the-specification-fold', t.and_(bs('bs_ok', F), t.eq(o.buf, bs('bs_buf', F)), t.eq(o.len, bs('bs_len', F)), t.eq(o.pos, bs('bs_pos', F)),
                                                                    t.eq(L.st.ghost['H'], bs('bs_H', F)), t.eq(L.st.ghost['D'], bs('bs_D', F))), None, hints),
           ('scope-keeps-its-identity', t.eq(_addr(L.st, 'context'), _addr(L.entry, 'context')))]
    try:
        it = L.obj_of_kind('objiter', OIter)
    except Exception:
        it = None
    if hasattr(it, 'idx'):
        n_it = getattr(it.it, 'n', None)
        out.append(('the-iterator-over-the-supplied-values-stands-at-element-k-or-is-exhausted',
                    t.eq(it.idx, L.k) if n_it is None else t.and_(t.ge(n_it, t.ZERO), t.eq(it.idx, t.ite(t.le(L.k, n_it), L.k, n_it)))))
    rl = L.obj('retlist')
    if rl.items is None:
        j = t.var('qbj!', t.INT)
        out.append(('returned-list-holds-what-each-member-build-returned', t.and_(t.eq(rl.len, L.k),
                    t.forall([j], t.implies(t.and_(t.le(t.ZERO, j), t.lt(j, rl.len)), t.eq(t.T(t.VAL, 'select', (rl.arr, j)), qbret(L.entry, sl, j, v, base))), pats=[[t.T(t.VAL, 'select', (rl.arr, j))]]))))
    return out


def _seq_member_build(LE, sl, k, v, base):
    s = qbfold(LE, sl, k, v, base)
    m = t.app('sl_at', t.INT, sl, k)
    c = _addr(LE, 'context')
    e = t.app('qbitem', t.VAL, v, k)
    H, D = bs('bs_H', s), bs('bs_D', s)
    nm = t.app('sc_name', t.VAL, m)
    named = t.app('truthy', t.BOOL, nm)
    key = t.app('sval', t.STR, nm)
    H1 = t.ite(named, t.T('Heap', 'store', (H, c, t.T('Fields', 'store', (t.T('Fields', 'select', (H, c)), key, e)))), H)
    D1 = t.ite(named, t.T('Dom', 'store', (D, c, t.T('Keys', 'store', (t.T('Keys', 'select', (D, c)), key, t.TRUE)))), D)
    a = (m, e, t.add(bs('bs_pos', s), base), H1, D1, c)
    return t.app('B_ok', t.BOOL, *a), t.app('B_exc', t.INT, *a)


def _seq_build_ok(pre, post):
    o0, o2 = pre.obj('stream'), post.obj('stream')
    sl = pre.self.fields['subcons'].ident
    n = t.app('sl_len', t.INT, sl)
    LE = _le_build(post)
    base = _base(o0)
    v = pre['obj'].t
    F = qbfold(LE, sl, n, v, base)
    c0 = pre.obj('context').addr
    c1 = _addr(LE, 'context')
    le_o = LE.get(LE.env['stream'])
    from .composites import _stopped
    stopped, early = _stopped(pre, post, lambda k: qbfold(LE, sl, k, v, base), lambda k: _seq_member_build(LE, sl, k, v, base), n)
    r = post.st.get(post.result) if isinstance(post.result, VRef) else None
    out = early + [('nested-scope-is-a-child-of-the-enclosing-scope', child_of(LE.ghost['H'], LE.ghost['D'], c1, pre.st.ghost['H'], pre.st.ghost['D'], c0), ('C07',)),
           ('stream-untouched-before-the-first-member', t.and_(t.eq(le_o.buf, o0.buf), t.eq(le_o.len, o0.len), t.eq(le_o.pos, o0.pos)), ('C03',)),
           ('members-built-in-declaration-order-each-from-its-own-element-appending-after-the-previous',
            t.implies(t.not_(stopped), t.and_(bs('bs_ok', F), t.eq(o2.buf, bs('bs_buf', F)), t.eq(o2.len, bs('bs_len', F)), t.eq(o2.pos, bs('bs_pos', F)))), ('C03', 'C07', 'C01')),
           ('scope-holds-what-each-named-member-build-returned', t.implies(t.not_(stopped), t.and_(t.eq(post.st.ghost['H'], bs('bs_H', F)), t.eq(post.st.ghost['D'], bs('bs_D', F)))), ('C07', 'C01'))]
    if r is not None and r.items is None:
        j = t.var('qbj!', t.INT)
        out.append(('returns-what-each-member-build-returned-in-order', t.implies(t.not_(stopped), t.and_(t.eq(r.len, n),
                    t.forall([j], t.implies(t.and_(t.le(t.ZERO, j), t.lt(j, r.len)), t.eq(t.T(t.VAL, 'select', (r.arr, j)), qbret(LE, sl, j, v, base))), pats=[[t.T(t.VAL, 'select', (r.arr, j))]]))), ('C03', 'C01')))
    return out


def _seq_build_bad(pre, post):
    """a value list shorter than the member list is completed with None (what parse returns when a member ended it early is such a
    list: C02), so running out of supplied values is never an error of its own"""
    code = post.eng.src.exc_code
    out = [('running-out-of-supplied-values-is-not-an-error-the-remaining-members-are-built-from-None',
            t.ne(post.exc.cls, I(code['StopIteration'])), ('C02', 'C03'))]
    o0 = pre.obj('stream')
    if o0.model == 'adv':
        return out
    ghost_mode = getattr(post.eng.models, 'ghost_mode', False)
    if post.st.ghost.get('LE') is None and not ghost_mode:
        return out          # a failure before the first member (the scope could not be opened): nothing to say in terms of the fold
    sl = pre.self.fields['subcons'].ident
    n = t.app('sl_len', t.INT, sl)
    LE = _le_build(post)
    base = _base(o0)
    v = pre['obj'].t
    kk = post.st.ghost.get('loop_k')
    if kk is None or ghost_mode:
        kk = fresh('failed_member', t.INT)
    F = qbfold(LE, sl, t.add(kk, t.ONE), v, base)
    c0, c1 = pre.obj('context').addr, _addr(LE, 'context')
    le_o = LE.get(LE.env['stream'])
    out += [('nested-scope-is-a-child-of-the-enclosing-scope', child_of(LE.ghost['H'], LE.ghost['D'], c1, pre.st.ghost['H'], pre.st.ghost['D'], c0), ('C07',)),
            ('stream-untouched-before-the-first-member', t.and_(t.eq(le_o.buf, o0.buf), t.eq(le_o.len, o0.len), t.eq(le_o.pos, o0.pos)), ('C03',))]
    out.append(('a-failure-is-the-failure-of-some-member-build-in-the-specification-fold', t.and_(t.le(t.ZERO, kk), t.lt(kk, n), t.not_(bs('bs_ok', F))), T + ('C02',),
                [prelude.definition_instance('qbfold', [sl, t.add(kk, t.ONE), _qb0(LE), v, base, _addr(LE, 'context')])]))
    return out


def register_sequence_build(src):
    define_sequence_build_folds(src)
    fcontract('Sequence', '_build', [
        Case('ok', 'return', lambda pre: t.TRUE, ensures=_seq_build_ok, rkind=rk_list, modifies=['stream']),
        Case('fails', 'raise', lambda pre: t.TRUE, ensures=_seq_build_bad, modifies=['stream']),
    ], loops={'for (i, sc) in enumerate(self.subcons)': LoopSpec(_seq_build_inv, tags=T + ('C01',))}, tags=T + ('C01',), sequential_build=False)


# ================================================================================================ FocusedSeq._build
# The supplied value goes to the member the selector names, every other member is built from None; members are built in
# declaration order, each appending after the previous one, a named member's build result is stored in the nested scope for the
# later members; what the selected member's build returned is returned.
def define_focused_build_folds(src):
    prelude.define('fbstep', """(define-fun fbstep ((m Int) (s BS) (sel Val) (ov Val) (base Int) (c Int)) BS
  (ite (not (bs_ok s)) s
  (let ((e (ite (pyeq (sc_name m) sel) ov VNone)))
  (ite (B_ok m e (+ (bs_pos s) base) (bs_H s) (bs_D s) c)
    (let ((n (B_len m e (+ (bs_pos s) base) (bs_H s) (bs_D s) c)) (W (B_bytes m e (+ (bs_pos s) base) (bs_H s) (bs_D s) c)) (ret (B_ret m e (+ (bs_pos s) base) (bs_H s) (bs_D s) c))
          (H2 (B_H m e (+ (bs_pos s) base) (bs_H s) (bs_D s) c)) (D2 (B_D m e (+ (bs_pos s) base) (bs_H s) (bs_D s) c)))
      (mkBS true (ite (> n 0) (awrite (bs_buf s) (bs_len s) (bs_pos s) W 0 n) (bs_buf s))
            (ite (> n 0) (ite (>= (bs_len s) (+ (bs_pos s) n)) (bs_len s) (+ (bs_pos s) n)) (bs_len s))
            (+ (bs_pos s) n)
            (ite (truthy (sc_name m)) (store H2 c (store (select H2 c) (sval (sc_name m)) ret)) H2)
            (ite (truthy (sc_name m)) (store D2 c (store (select D2 c) (sval (sc_name m)) true)) D2)))
    (mkBS false (bs_buf s) (bs_len s) (bs_pos s) (bs_H s) (bs_D s))))))""",
                   deps=['B_ok', 'B_len', 'B_bytes', 'B_ret', 'B_H', 'B_D', 'truthy', 'sc_name', 'awrite', 'pyeq'])
    prelude.define('fbfold', """(define-fun-rec fbfold ((sl Int) (k Int) (s0 BS) (sel Val) (ov Val) (base Int) (c Int)) BS
  (ite (<= k 0) s0 (fbstep (sl_at sl (- k 1)) (fbfold sl (- k 1) s0 sel ov base c) sel ov base c)))""", deps=['fbstep', 'sl_at'])
    prelude.define('fbret', """(define-fun fbret ((sl Int) (j Int) (s0 BS) (sel Val) (ov Val) (base Int) (c Int)) Val
  (let ((s (fbfold sl j s0 sel ov base c)) (m (sl_at sl j)))
  (B_ret m (ite (pyeq (sc_name m) sel) ov VNone) (+ (bs_pos s) base) (bs_H s) (bs_D s) c)))""", deps=['fbfold', 'B_ret', 'sl_at', 'sc_name', 'pyeq'])


def _fsel(pre, LE):
    p = pre.self.fields['parsebuildfrom']
    eng = pre.eng
    iface = eng.models.interface
    c1 = _addr(LE, 'context')
    # the selector is evaluated in the nested scope BEFORE the supplied value is put into it
    H, D = LE.ghost.get('H_sel', LE.ghost['H']), LE.ghost.get('D_sel', LE.ghost['D'])
    return p, c1


def fbfold(LE, sl, k, sel, ov, base):
    return t.app('fbfold', 'BS', sl, k, _qb0(LE), sel, ov, base, _addr(LE, 'context'))


def _fbunfold(LE, sl, k, sel, ov, base):
    prev = fbfold(LE, sl, t.sub(k, t.ONE), sel, ov, base)
    step = t.app('fbstep', 'BS', t.app('sl_at', t.INT, sl, t.sub(k, t.ONE)), prev, sel, ov, base, _addr(LE, 'context'))
    return t.implies(t.ge(k, t.ONE), t.eq(fbfold(LE, sl, k, sel, ov, base), step))


def _foc_build_inv(L):
    pre = L.extra['pre']
    o0 = pre.obj('stream')
    base0 = list(_focused_inv(L))
    if o0.model == 'adv':
        return base0
    sl = pre.self.fields['subcons'].ident
    base = _base(o0)
    ov = pre['obj'].t
    pbf = L['parsebuildfrom']
    if not isinstance(pbf, VDyn):
        return base0 + [('selector-is-within-the-model', t.FALSE)]
    sel = pbf.t
    F = fbfold(L.entry, sl, L.k, sel, ov, base)
    o = L.obj('stream')
    hints = [_fbunfold(L.entry, sl, L.k, sel, ov, base)] if L.k.op != 'int' else []
    out = base0 + [('state-after-k-members-is-the-specification-fold', t.and_(bs('bs_ok', F), t.eq(o.buf, bs('bs_buf', F)), t.eq(o.len, bs('bs_len', F)), t.eq(o.pos, bs('bs_pos', F)),
                                                                           t.eq(L.st.ghost['H'], bs('bs_H', F)), t.eq(L.st.ghost['D'], bs('bs_D', F))), None, hints),
                   ('scope-keeps-its-identity', t.eq(_addr(L.st, 'context'), _addr(L.entry, 'context')))]
    w = t.app('member_index', t.INT, sl, sel)
    fr = L.st.env.get('finalret')
    if fr is not None and not isinstance(fr, Unbound):
        val = fr.value if isinstance(fr, MaybeBound) else fr
        km = t.sub(L.k, t.ONE)
        nm = t.app('sc_name', t.VAL, t.app('sl_at', t.INT, sl, km))
        inst = t.implies(t.and_(t.ge(km, t.ZERO), t.app('truthy', t.BOOL, nm)), t.eq(t.app('member_index', t.INT, sl, nm), km))
        out.append(('finalret-is-what-the-selected-member-build-returned', t.implies(t.gt(L.k, w), t.eq(L.eng.to_dyn(val, L.st), t.app('fbret', t.VAL, sl, w, _qb0(L.entry), sel, ov, base, _addr(L.entry, 'context')))),
                    None, [inst] if L.k.op != 'int' else []))
    return out


def _foc_build_ok(pre, post):
    o0, o2 = pre.obj('stream'), post.obj('stream')
    sl = pre.self.fields['subcons'].ident
    n = t.app('sl_len', t.INT, sl)
    LE = _le_build(post)
    base = _base(o0)
    ov = pre['obj'].t
    pbf = LE.env.get('parsebuildfrom')
    sel = pbf.t if isinstance(pbf, VDyn) else fresh('selector', t.VAL)
    F = fbfold(LE, sl, n, sel, ov, base)
    w = t.app('member_index', t.INT, sl, sel)
    le_o = LE.get(LE.env['stream'])
    c0, c1 = pre.obj('context').addr, _addr(LE, 'context')
    return [('stream-untouched-before-the-first-member', t.and_(t.eq(le_o.buf, o0.buf), t.eq(le_o.len, o0.len), t.eq(le_o.pos, o0.pos)), ('C03',)),
            ('the-supplied-value-is-in-the-scope-under-the-selected-name-before-the-first-member-is-built',
             t.and_(t.T(t.BOOL, 'select', (t.T('Keys', 'select', (LE.ghost['D'], c1)), t.app('sval', t.STR, sel))),
                    t.eq(t.T(t.VAL, 'select', (t.T('Fields', 'select', (LE.ghost['H'], c1)), t.app('sval', t.STR, sel))), ov)), ('C07',)),
            ('members-built-in-declaration-order-the-selected-one-from-the-supplied-value-the-others-from-None',
             t.and_(bs('bs_ok', F), t.eq(o2.buf, bs('bs_buf', F)), t.eq(o2.len, bs('bs_len', F)), t.eq(o2.pos, bs('bs_pos', F))), T + ('C01',)),
            ('scope-holds-what-each-named-member-build-returned', t.and_(t.eq(post.st.ghost['H'], bs('bs_H', F)), t.eq(post.st.ghost['D'], bs('bs_D', F))), ('C07',)),
            ('returns-what-the-selected-member-build-returned', t.eq(post.eng.to_dyn(post.result, post.st), t.app('fbret', t.VAL, sl, w, _qb0(LE), sel, ov, base, c1)), T + ('C01',))]


def register_focused_build(src):
    define_focused_build_folds(src)
    fcontract('FocusedSeq', '_build', [
        Case('ok', 'return', lambda pre: t.TRUE, ensures=_foc_build_ok, rkind=rk_dyn, modifies=['stream']),
        Case('fails', 'raise', lambda pre: t.TRUE, ensures=generic_raise, modifies=['stream']),
    ], loops={'for (i, sc) in enumerate(self.subcons)': LoopSpec(_foc_build_inv, tags=T + ('C06', 'C01'))}, tags=T + ('C01',), sequential_build=False,
        requires=lambda pre: [('member-names-are-pairwise-distinct', _names_distinct(pre.self.fields['subcons'].ident, t.app('sl_len', t.INT, pre.self.fields['subcons'].ident)))])
