"""Sequence._parse against a specification fold (C03 declaration order, C07 scope): member j is parsed where member j-1 ended, in
the nested scope holding the values of the earlier NAMED members; the result list holds the member values in order; a
StopFieldError ends the sequence (the remaining members are skipped)."""
from pyvc import terms as t, prelude
from pyvc.terms import I, S
from pyvc.values import *  # noqa
from pyvc.contract import Case, rk_dyn
from pyvc.exec import LoopSpec
from pyvc.lemma import Lemma
from .prims import fcontract, S_, generic_raise, buffer_same
from .composites import ps, mkPS, _base, _addr, _le, child_of

T = ('C03', 'C07')


def define_sequence_folds(src):
    stop = src.exc_code['StopFieldError']
    prelude.define('qstep', """(define-fun qstep ((m Int) (s PS) (buf (Array Int Int)) (len Int) (base Int) (c Int)) PS
  (ite (or (not (ps_ok s)) (ps_stop s)) s
  (ite (P_ok m buf len (ps_pos s) base (ps_H s) (ps_D s) c)
    (let ((H1 (P_H m buf len (ps_pos s) base (ps_H s) (ps_D s) c)) (D1 (P_D m buf len (ps_pos s) base (ps_H s) (ps_D s) c))
          (v (P_val m buf len (ps_pos s) base (ps_H s) (ps_D s) c)) (e (P_end m buf len (ps_pos s) base (ps_H s) (ps_D s) c)))
      (ite (truthy (sc_name m))
        (mkPS true false e (store H1 c (store (select H1 c) (sval (sc_name m)) v)) (store D1 c (store (select D1 c) (sval (sc_name m)) true)))
        (mkPS true false e H1 D1)))
    (ite (= (P_exc m buf len (ps_pos s) base (ps_H s) (ps_D s) c) %d)
      (mkPS true true (P_fpos m buf len (ps_pos s) base (ps_H s) (ps_D s) c) (P_fH m buf len (ps_pos s) base (ps_H s) (ps_D s) c) (P_fD m buf len (ps_pos s) base (ps_H s) (ps_D s) c))
      (mkPS false false (P_fpos m buf len (ps_pos s) base (ps_H s) (ps_D s) c) (P_fH m buf len (ps_pos s) base (ps_H s) (ps_D s) c) (P_fD m buf len (ps_pos s) base (ps_H s) (ps_D s) c))))))""" % stop,
                   deps=['P_ok', 'P_H', 'P_D', 'P_val', 'P_end', 'P_exc', 'P_fpos', 'P_fH', 'P_fD', 'truthy', 'sc_name'])
    prelude.define('qfold', """(define-fun-rec qfold ((sl Int) (k Int) (s0 PS) (buf (Array Int Int)) (len Int) (base Int) (c Int)) PS
  (ite (<= k 0) s0 (qstep (sl_at sl (- k 1)) (qfold sl (- k 1) s0 buf len base c) buf len base c)))""", deps=['qstep', 'sl_at'])
    prelude.define('qval', """(define-fun qval ((sl Int) (j Int) (s0 PS) (buf (Array Int Int)) (len Int) (base Int) (c Int)) Val
  (let ((s (qfold sl j s0 buf len base c))) (P_val (sl_at sl j) buf len (ps_pos s) base (ps_H s) (ps_D s) c)))""", deps=['qfold', 'P_val', 'sl_at'])


def qfold(LE, o0, sl, k):
    s0 = mkPS(t.TRUE, t.FALSE, LE.get(LE.env['stream']).pos, LE.ghost['H'], LE.ghost['D'])
    return t.app('qfold', 'PS', sl, k, s0, o0.buf, o0.len, _base(o0), _addr(LE, 'context'))


def qval(LE, o0, sl, j):
    s0 = mkPS(t.TRUE, t.FALSE, LE.get(LE.env['stream']).pos, LE.ghost['H'], LE.ghost['D'])
    return t.app('qval', t.VAL, sl, j, s0, o0.buf, o0.len, _base(o0), _addr(LE, 'context'))


def _qunfold(LE, o0, sl, k):
    prev = qfold(LE, o0, sl, t.sub(k, t.ONE))
    step = t.app('qstep', 'PS', t.app('sl_at', t.INT, sl, t.sub(k, t.ONE)), prev, o0.buf, o0.len, _base(o0), _addr(LE, 'context'))
    return t.implies(t.ge(k, t.ONE), t.eq(qfold(LE, o0, sl, k), step))


def _stuck(LE, o0, sl, i, j):
    fi, fj = qfold(LE, o0, sl, i), qfold(LE, o0, sl, j)
    return t.implies(t.and_(t.le(t.ZERO, i), t.le(i, j), t.or_(t.not_(ps('ps_ok', fi)), ps('ps_stop', fi))), t.eq(fj, fi))


def sequence_lemmas():
    V = [('sl', t.INT), ('i', t.INT), ('j', t.INT), ('s0', 'PS'), ('buf', t.ARR), ('len', t.INT), ('base', t.INT), ('c', t.INT)]

    def qf(v, k):
        return t.app('qfold', 'PS', v['sl'], k, v['s0'], v['buf'], v['len'], v['base'], v['c'])

    def stmt(v):
        fi = qf(v, v['i'])
        return t.implies(t.and_(t.le(t.ZERO, v['i']), t.le(v['i'], v['j']), t.or_(t.not_(ps('ps_ok', fi)), ps('ps_stop', fi))), t.eq(qf(v, v['j']), fi))
    return Lemma('sequence_fold_stuck_persists', V, stmt, induct=('j', 0), ih_instances=lambda v: [{k: v[k] for k in ('sl', 'i', 's0', 'buf', 'len', 'base', 'c')}], tags=T)


def _seq_inv(L):
    pre = L.extra['pre']
    o0 = pre.obj('stream')
    if o0.model == 'adv':
        return []
    sl = pre.self.fields['subcons'].ident
    LE = L.entry
    o = L.obj('stream')
    F = qfold(LE, o0, sl, L.k)
    obj = L.obj('obj')
    hints = [_qunfold(LE, o0, sl, L.k)] if L.k.op != 'int' else []
    out = [('state-after-k-members-is-the-specification-fold', t.and_(ps('ps_ok', F), t.not_(ps('ps_stop', F)), t.eq(o.pos, ps('ps_pos', F)), t.eq(L.st.ghost['H'], ps('ps_H', F)), t.eq(L.st.ghost['D'], ps('ps_D', F))), None, hints),
           ('buffer-unchanged', t.and_(t.eq(o.buf, o0.buf), t.eq(o.len, o0.len))),
           ('scope-keeps-its-identity', t.eq(_addr(L.st, 'context'), _addr(LE, 'context')))]
    if obj.items is None:
        j = t.var('qj!', t.INT)
        out.append(('result-holds-the-member-values-so-far-in-order', t.and_(t.eq(obj.len, L.k),
                    t.forall([j], t.implies(t.and_(t.le(t.ZERO, j), t.lt(j, obj.len)), t.eq(t.T(t.VAL, 'select', (obj.arr, j)), qval(LE, o0, sl, j))), pats=[[t.T(t.VAL, 'select', (obj.arr, j))]]))))
    return out


def _seq_ok(pre, post):
    o0, o2 = pre.obj('stream'), post.obj('stream')
    sl = pre.self.fields['subcons'].ident
    n = t.app('sl_len', t.INT, sl)
    LE = _le(post)
    F = qfold(LE, o0, sl, n)
    c0 = pre.obj('context').addr
    c1 = _addr(LE, 'context')
    kk = post.st.ghost.get('loop_k')
    hints = []
    if kk is not None:
        hints = [('def', _qunfold(LE, o0, sl, t.add(kk, t.ONE))), _stuck(LE, o0, sl, t.add(kk, t.ONE), n)]
    r = post.st.get(post.result) if isinstance(post.result, VRef) else None
    out = [('nested-scope-is-a-child-of-the-enclosing-scope', child_of(LE.ghost['H'], LE.ghost['D'], c1, pre.st.ghost['H'], pre.st.ghost['D'], c0), ('C07',)),
           ('members-start-at-the-entry-position', t.eq(LE.get(LE.env['stream']).pos, o0.pos), ('C03',)),
           ('members-parsed-in-declaration-order-each-from-the-end-of-the-previous', t.and_(ps('ps_ok', F), t.eq(o2.pos, ps('ps_pos', F))), T, hints),
           ('scope-holds-every-named-member-value', t.and_(t.eq(post.st.ghost['H'], ps('ps_H', F)), t.eq(post.st.ghost['D'], ps('ps_D', F))), ('C07',)),
           ('buffer-unchanged', buffer_same(pre, post), ('C17', 'C08'))]
    if r is not None and r.items is None and kk is None:
        j = t.var('qj!', t.INT)
        out.append(('returns-the-member-values-in-order', t.and_(t.eq(r.len, n),
                    t.forall([j], t.implies(t.and_(t.le(t.ZERO, j), t.lt(j, r.len)), t.eq(t.T(t.VAL, 'select', (r.arr, j)), qval(LE, o0, sl, j))), pats=[[t.T(t.VAL, 'select', (r.arr, j))]])), T))
    return out


def register_sequences(src):
    define_sequence_folds(src)
    sequence_lemmas()
    fcontract('Sequence', '_parse', [
        Case('ok', 'return', lambda pre: t.TRUE, ensures=_seq_ok, rkind=rk_dyn, modifies=['stream']),
        Case('fails', 'raise', lambda pre: t.TRUE, ensures=generic_raise, modifies=['stream']),
    ], loops={'for sc in self.subcons': LoopSpec(_seq_inv, tags=T, modifies=())}, tags=T)


# ================================================================================================ FocusedSeq._parse
# The members are parsed like a Sequence's (same specification step, a StopFieldError propagates); the value returned is the
# value of the member whose name the selector gives.  Hypotheses: the selector names a member; member names are pairwise distinct.
from .unions import _names_distinct  # noqa
from .classes import _focused_inv  # noqa
prelude.declare_fun('member_index', [t.INT, t.VAL], t.INT)


def _foc_inv(L):
    pre = L.extra['pre']
    o0 = pre.obj('stream')
    base = list(_focused_inv(L))
    if o0.model == 'adv':
        return base
    sl = pre.self.fields['subcons'].ident
    LE = L.entry
    o = L.obj('stream')
    F = qfold(LE, o0, sl, L.k)
    hints = [_qunfold(LE, o0, sl, L.k)] if L.k.op != 'int' else []
    out = base + [('state-after-k-members-is-the-specification-fold', t.and_(ps('ps_ok', F), t.not_(ps('ps_stop', F)), t.eq(o.pos, ps('ps_pos', F)), t.eq(L.st.ghost['H'], ps('ps_H', F)), t.eq(L.st.ghost['D'], ps('ps_D', F))), None, hints),
                  ('buffer-unchanged', t.and_(t.eq(o.buf, o0.buf), t.eq(o.len, o0.len))),
                  ('scope-keeps-its-identity', t.eq(_addr(L.st, 'context'), _addr(LE, 'context')))]
    pbf = L['parsebuildfrom']
    if isinstance(pbf, VDyn):
        w = t.app('member_index', t.INT, sl, pbf.t)
        fr = L.st.env.get('finalret')
        if fr is not None and not isinstance(fr, Unbound):
            val = fr.value if isinstance(fr, MaybeBound) else fr
            km = t.sub(L.k, t.ONE)
            nm = t.app('sc_name', t.VAL, t.app('sl_at', t.INT, sl, km))
            inst = t.implies(t.and_(t.ge(km, t.ZERO), t.app('truthy', t.BOOL, nm)), t.eq(t.app('member_index', t.INT, sl, nm), km))      # instance of 'names are pairwise distinct' (a precondition)
            out.append(('finalret-is-the-value-of-the-selected-member-once-it-was-parsed', t.implies(t.gt(L.k, w), t.eq(L.eng.to_dyn(val, L.st), qval(LE, o0, sl, w))), None, [inst] if L.k.op != 'int' else []))
    return out


def _foc_ok(pre, post):
    o0, o2 = pre.obj('stream'), post.obj('stream')
    sl = pre.self.fields['subcons'].ident
    n = t.app('sl_len', t.INT, sl)
    LE = _le(post)
    F = qfold(LE, o0, sl, n)
    p = pre.self.fields['parsebuildfrom']
    iface = post.eng.models.interface
    c1 = _addr(LE, 'context')
    sel = t.ite(p.callable_t, t.app('ev_val', t.VAL, p.ident, LE.ghost['H'], LE.ghost['D'], c1), post.eng.to_dyn(iface.param_const(post.eng, p, post.st), post.st))
    w = t.app('member_index', t.INT, sl, sel)
    return [('members-parsed-in-declaration-order-each-from-the-end-of-the-previous', t.and_(ps('ps_ok', F), t.not_(ps('ps_stop', F)), t.eq(o2.pos, ps('ps_pos', F))), T),
            ('returns-the-value-of-the-member-the-selector-names', t.eq(post.eng.to_dyn(post.result, post.st), qval(LE, o0, sl, w)), T),
            ('buffer-unchanged', buffer_same(pre, post), ('C17', 'C08'))]


def register_focused(src):
    fcontract('FocusedSeq', '_parse', [
        Case('ok', 'return', lambda pre: t.TRUE, ensures=_foc_ok, rkind=rk_dyn, modifies=['stream']),
        Case('fails', 'raise', lambda pre: t.TRUE, ensures=generic_raise, modifies=['stream']),
    ], loops={'for (i, sc) in enumerate(self.subcons)': LoopSpec(_foc_inv, tags=T + ('C06',), modifies=())}, tags=T,
        requires=lambda pre: [('member-names-are-pairwise-distinct', _names_distinct(pre.self.fields['subcons'].ident, t.app('sl_len', t.INT, pre.self.fields['subcons'].ident)))])
