"""C12: documented equivalences.

Two kinds of law.  (1) Laws that hold BY CONSTRUCTION: one side is a macro / operator that builds exactly the other side.
Both sides are then the same object graph, and equal object graphs behave identically for every input (constructs are
stateless: C17).  These are decided by comparing the real object graphs of both sides, for every branch class of the macro's
own parameters (structural_laws).  (2) Laws between DIFFERENT implementations (BytesInteger vs Bitwise(BitsInteger), ByteSwapped
vs swapped BytesInteger, Hex wrappers): decided by lemmas over the verified contracts of both sides (contracts/equivlemmas.py)."""
import types


def struct_eq(a, b, path='', seen=None):
    """-> None when the two object graphs are equal, else a description of the first difference"""
    seen = seen if seen is not None else set()
    key = (id(a), id(b))
    if key in seen or a is b:
        return None
    seen.add(key)
    if type(a) is not type(b):
        return '%s: %s vs %s' % (path, type(a).__name__, type(b).__name__)
    import construct
    from construct.expr import ExprMixin
    if isinstance(a, ExprMixin):
        return None if repr(a) == repr(b) else '%s: expression %r vs %r' % (path, a, b)
    if isinstance(a, (types.FunctionType, types.MethodType)):
        fa, fb = getattr(a, '__func__', a), getattr(b, '__func__', b)
        if fa.__code__.co_code != fb.__code__.co_code or fa.__code__.co_consts != fb.__code__.co_consts or fa.__code__.co_names != fb.__code__.co_names:
            return '%s: different function bodies' % path
        ca = [c.cell_contents for c in (fa.__closure__ or ())]
        cb = [c.cell_contents for c in (fb.__closure__ or ())]
        return struct_eq(ca, cb, path + '.<closure>', seen)
    if isinstance(a, construct.Construct):
        da, db = dict(a.__dict__), dict(b.__dict__)
        for k in ('_emitparse', '_emitbuild', '_emitseq', '_emitprimitivetype', '_emitfulltype', '_actualsize'):
            da.pop(k, None), db.pop(k, None)        # code-generation / lazy-size overrides attached to macros: not interpretive behaviour
        if set(da) != set(db):
            return '%s: attributes %s vs %s' % (path, sorted(da), sorted(db))
        for k in sorted(da):
            d = struct_eq(da[k], db[k], '%s.%s' % (path, k), seen)
            if d:
                return d
        return None
    if isinstance(a, dict):
        if set(a.keys()) != set(b.keys()):       # insertion order of a mapping does not affect lookups (values compare as containers)
            return '%s: keys %r vs %r' % (path, list(a), list(b))
        for k in a:
            d = struct_eq(a[k], b[k], '%s[%r]' % (path, k), seen)
            if d:
                return d
        return None
    if isinstance(a, (list, tuple)):
        if len(a) != len(b):
            return '%s: length %d vs %d' % (path, len(a), len(b))
        for i, (x, y) in enumerate(zip(a, b)):
            d = struct_eq(x, y, '%s[%d]' % (path, i), seen)
            if d:
                return d
        return None
    return None if a == b else '%s: %r vs %r' % (path, a, b)


def structural_laws(C):
    """yield (law, lhs, rhs)"""
    this, len_ = C.this, C.len_
    import enum
    subs = [C.Byte, C.Int16ub, C.Bytes(3), C.GreedyBytes, C.Pass, 'n' / C.Byte, C.Struct('a' / C.Byte), C.VarInt]
    conds = [True, False, this.flag, this.x > 0]
    for x in subs:
        yield 'Optional(x) <--> Select(x, Pass)', C.Optional(x), C.Select(x, C.Pass)
        for c in conds:
            yield 'If(c, x) <--> IfThenElse(c, x, Pass)', C.If(c, x), C.IfThenElse(c, x, C.Pass)
        for n in (0, 1, 5, this.n):
            yield 'x[n] <--> Array(n, x)', x[n], C.Array(n, x)
        yield '"name" / x <--> Renamed(x, newname="name")', 'name' / x, C.Renamed(x, newname='name')
        yield 'x * "doc" <--> Renamed(x, newdocs="doc")', x * 'doc', C.Renamed(x, newdocs='doc')
        for cf in (C.Byte, C.VarInt, C.Int16ul):
            yield ('PrefixedArray(c, x) <--> FocusedSeq("items", "count"/Rebuild(c, len_(this.items)), "items"/x[this.count])',
                   C.PrefixedArray(cf, x), C.FocusedSeq('items', 'count' / C.Rebuild(cf, len_(this.items)), 'items' / x[this.count]))
    for n in (0, 1, 4, this.n):
        yield 'Padding(n) <--> Padded(n, Pass)', C.Padding(n), C.Padded(n, C.Pass)
        yield 'Padding(n, pattern) <--> Padded(n, Pass, pattern)', C.Padding(n, b'\xff'), C.Padded(n, C.Pass, b'\xff')
    members = [('a' / C.BitsInteger(3), 'b' / C.Flag, 'c' / C.Nibble), ('x' / C.Byte,), ()]
    for ms in members:
        yield 'BitStruct(*m) <--> Bitwise(Struct(*m))', C.BitStruct(*ms), C.Bitwise(C.Struct(*ms))
        for mod in (2, 4, this.m):
            yield 'AlignedStruct(k, *m) <--> Struct(*[Aligned(k, sc)])', C.AlignedStruct(mod, *ms), C.Struct(*[sc.name / C.Aligned(mod, sc) for sc in ms])
    a, b, c = 'a' / C.Byte, 'b' / C.Int16ub, 'c' / C.Flag
    yield 'a + b <--> Struct(a, b)', a + b, C.Struct(a, b)
    yield '(a + b) + c <--> Struct(a, b, c)', (a + b) + c, C.Struct(a, b, c)
    yield 'a + (b + c) <--> Struct(a, b, c)', a + (b + c), C.Struct(a, b, c)
    yield 'a >> b <--> Sequence(a, b)', a >> b, C.Sequence(a, b)
    yield '(a >> b) >> c <--> Sequence(a, b, c)', (a >> b) >> c, C.Sequence(a, b, c)
    yield 'a >> (b >> c) <--> Sequence(a, b, c)', a >> (b >> c), C.Sequence(a, b, c)

    class E(enum.IntEnum):
        one = 1
        two = 2
        big = 300

    class F(enum.IntFlag):
        r = 1
        w = 2
        x = 4
    yield 'Enum(x, IntEnum) <--> Enum(x, **members)', C.Enum(C.Int16ub, E), C.Enum(C.Int16ub, one=1, two=2, big=300)
    yield 'Enum(x, IntEnum, extra=) <--> Enum(x, **members, extra=)', C.Enum(C.Int16ub, E, more=7), C.Enum(C.Int16ub, one=1, two=2, big=300, more=7)
    yield 'FlagsEnum(x, IntFlag) <--> FlagsEnum(x, **members)', C.FlagsEnum(C.Byte, F), C.FlagsEnum(C.Byte, r=1, w=2, x=4)
    from construct.core import encodingunit
    for enc in ('ascii', 'utf8', 'utf16', 'utf32', 'utf_16_le', 'utf-32-be'):
        unit = encodingunit(enc)
        for n in (0, 1, 10, this.n):
            yield 'PaddedString(n, enc) <--> StringEncoded(FixedSized(n, NullStripped(GreedyBytes, pad=unit(enc))), enc)', C.PaddedString(n, enc), C.StringEncoded(C.FixedSized(n, C.NullStripped(C.GreedyBytes, pad=unit)), enc)
        for lf in (C.Byte, C.VarInt, C.Int16ul):
            yield 'PascalString(lf, enc) <--> StringEncoded(Prefixed(lf, GreedyBytes), enc)', C.PascalString(lf, enc), C.StringEncoded(C.Prefixed(lf, C.GreedyBytes), enc)
        yield 'CString(enc) <--> StringEncoded(NullTerminated(GreedyBytes, term=unit(enc)), enc)', C.CString(enc), C.StringEncoded(C.NullTerminated(C.GreedyBytes, term=unit), enc)
        yield 'GreedyString(enc) <--> StringEncoded(GreedyBytes, enc)', C.GreedyString(enc), C.StringEncoded(C.GreedyBytes, enc)
    yield 'encoding unit is 1 byte for 8-bit codecs, 2 for UTF-16, 4 for UTF-32', [len(encodingunit(e)) for e in ('ascii', 'utf8', 'utf_8', 'utf16', 'utf_16_le', 'utf-16-be', 'utf32', 'utf_32_be')], [1, 1, 1, 2, 2, 2, 4, 4]
    yield 'Int24ub <--> BytesInteger(3)', C.Int24ub, C.BytesInteger(3)
    yield 'Int24ul <--> BytesInteger(3, swapped=True)', C.Int24ul, C.BytesInteger(3, swapped=True)
    yield 'Int24sb <--> BytesInteger(3, signed=True)', C.Int24sb, C.BytesInteger(3, signed=True)
    yield 'Int24sl <--> BytesInteger(3, signed=True, swapped=True)', C.Int24sl, C.BytesInteger(3, signed=True, swapped=True)
    yield 'Bit <--> BitsInteger(1)', C.Bit, C.BitsInteger(1)
    yield 'Nibble <--> BitsInteger(4)', C.Nibble, C.BitsInteger(4)
    yield 'Octet <--> BitsInteger(8)', C.Octet, C.BitsInteger(8)


SAMPLES = [b'', b'\x00', b'\x01', b'\x02ab', b'\x03abc\x00\x00', b'\xff' * 6, b'\x00\x01\x00\x02\x00\x03', b'ab\x00cd\x00', b'\x05hello world', bytes(range(16)),
           b'\x01\x2c\x00\x07', b'\x80\x01\x02', b'a\x00b\x00\x00\x00', b'\x00\x00\x00\x00\x00\x00\x00\x00']
CONTEXTS = [dict(flag=True, x=1, n=2, m=2, count=2), dict(flag=False, x=0, n=0, m=4, count=0), dict(flag=True, x=-1, n=5, m=2, count=1)]
UNDECIDED = []


def _outcome(f):
    try:
        return ('value', f())
    except Exception as e:          # noqa
        return ('raises', type(e).__name__)


def _plain(v):
    if isinstance(v, dict):
        return {k: _plain(x) for k, x in v.items() if not (isinstance(k, str) and k.startswith('_'))}
    if isinstance(v, (list, tuple)):
        return [_plain(x) for x in v]
    return v


def behaves_alike(C, lhs, rhs):
    """-> None when the two constructs gave the same outcomes on every sample (parse, sizeof, build of what was parsed), else the
    first sample that tells them apart"""
    import io
    if not (isinstance(lhs, C.Construct) and isinstance(rhs, C.Construct)):
        return 'not constructs'
    for ctx in CONTEXTS:
        a, b = _outcome(lambda: lhs.sizeof(**ctx)), _outcome(lambda: rhs.sizeof(**ctx))
        if a != b:
            return 'sizeof(**%r): %r vs %r' % (ctx, a, b)
        for data in SAMPLES:
            outs = []
            for con in (lhs, rhs):
                s = io.BytesIO(data)
                r = _outcome(lambda: con.parse_stream(s, **ctx))
                outs.append((r[0], _plain(r[1]) if r[0] == 'value' else r[1], s.tell() if r[0] == 'value' else None))
            if outs[0] != outs[1]:
                return 'parse(%r, **%r): %r vs %r' % (data, ctx, outs[0], outs[1])
            if outs[0][0] == 'value':
                v = outs[0][1]
                a, b = _outcome(lambda: lhs.build(v, **ctx)), _outcome(lambda: rhs.build(v, **ctx))
                if a != b:
                    return 'build(%r, **%r): %r vs %r' % (v, ctx, a, b)
    return None


def enumerate_structural_laws(C):
    rows = {}
    del UNDECIDED[:]
    for law, lhs, rhs in structural_laws(C):
        n, bad = rows.setdefault(law, [0, []])
        rows[law][0] += 1
        d = struct_eq(lhs, rhs, 'lhs')
        if d:
            # the law is about BEHAVIOUR; equal object graphs are only the easy way to see it.  Different graphs are a violation when a
            # sample input tells the two sides apart, and undecided otherwise (a re-implementation of the macro may be equivalent)
            w = _outcome(lambda: behaves_alike(C, lhs, rhs))
            if w[0] == 'value' and w[1] is None:
                UNDECIDED.append('law %s: the two sides are different object graphs (%s) but behave alike on %d samples' % (law, d, len(SAMPLES) * len(CONTEXTS)))
            else:
                bad.append('%s   [%s]' % (d, w[1]))
    return [('law (both sides build the same object graph): ' + law, n, bad) for law, (n, bad) in rows.items()]


if __name__ == '__main__':
    import construct
    for name, n, bad in enumerate_structural_laws(construct):
        print(n, len(bad), name, bad[:2])
