"""Constructor contracts: after `__init__` returns normally, every field the method contracts read holds exactly what the
contract says in terms of the constructor's arguments; `__init__` refuses (raises) exactly under the stated conditions.

Constructors here are straight-line programs (assignments, guards that raise, `super().__init__`, one merge loop in the enum
classes).  They are executed symbolically on the real AST (re-read every run): arguments are symbols, local names are
substituted, `super().__init__(...)` is inlined along the MRO, an `if` forks, a loop havocs what it assigns (its text is
compared separately).  The verification condition of a clause `self.f == e(args)` is `e'(args) == e(args)` with e' the
expression the execution computed; it is discharged by identity of the normalised expressions - no solver is needed and
none is used (stated in the evidence as `normal-form identity`).  A constructor outside this subset is reported undecided."""
import ast
import copy


class Unsupported(Exception):
    pass


class Path:
    def __init__(self):
        self.env, self.fields, self.guards, self.loops, self.raised = {}, {}, [], [], None

    def clone(self):
        p = Path()
        p.env, p.fields, p.guards, p.loops, p.raised = dict(self.env), dict(self.fields), list(self.guards), list(self.loops), self.raised
        return p


class _Subst(ast.NodeTransformer):
    def __init__(self, path, bound=()):
        self.path, self.bound = path, set(bound)

    def visit_Name(self, n):
        if isinstance(n.ctx, ast.Load) and n.id in self.path.env and n.id not in self.bound:
            return copy.deepcopy(self.path.env[n.id])
        return n

    def visit_Attribute(self, n):
        if isinstance(n.value, ast.Name) and n.value.id == 'self' and isinstance(n.ctx, ast.Load) and n.attr in self.path.fields:
            return copy.deepcopy(self.path.fields[n.attr])
        return self.generic_visit(n)

    def _comp(self, n):
        # comprehension targets shadow outer names inside the comprehension
        names = set()
        for g in n.generators:
            for x in ast.walk(g.target):
                if isinstance(x, ast.Name):
                    names.add(x.id)
        inner = _Subst(self.path, self.bound | names)
        for g in n.generators:
            g.iter = self.visit(g.iter)
            g.ifs = [inner.visit(i) for i in g.ifs]
        for f in ('elt', 'key', 'value'):
            if hasattr(n, f):
                setattr(n, f, inner.visit(getattr(n, f)))
        return n

    visit_ListComp = visit_SetComp = visit_GeneratorExp = visit_DictComp = _comp

    def visit_Lambda(self, n):
        names = {a.arg for a in n.args.args}
        n.body = _Subst(self.path, self.bound | names).visit(n.body)
        return n


def subst(path, e):
    return _Subst(path).visit(copy.deepcopy(e))


def text(e):
    return ast.unparse(e)


def _assigned(stmt):
    out = set()
    for n in ast.walk(stmt):
        if isinstance(n, (ast.Assign, ast.AugAssign)):
            for tg in (n.targets if isinstance(n, ast.Assign) else [n.target]):
                base = tg
                while isinstance(base, (ast.Subscript, ast.Attribute)):
                    base = base.value
                if isinstance(base, ast.Name):
                    out.add(base.id)
    return out


def run(src, cls, depth=0):
    """-> list of Path for cls.__init__ with symbolic arguments"""
    q = src.resolve_method(cls, '__init__')
    node = src.find(q)
    p = Path()
    for a in node.args.args[1:] + node.args.kwonlyargs:
        p.env[a.arg] = ast.Name(id=a.arg, ctx=ast.Load())
    if node.args.vararg:
        p.env[node.args.vararg.arg] = ast.Name(id=node.args.vararg.arg, ctx=ast.Load())
    if node.args.kwarg:
        p.env[node.args.kwarg.arg] = ast.Name(id=node.args.kwarg.arg, ctx=ast.Load())
    owner = q.split(':')[1].split('.')[0]
    return block(src, owner, node.body, [p])


def _inline_super(src, owner, call, path):
    """super().__init__(args) inside class `owner`: run the next __init__ up the MRO with the arguments bound"""
    mro = src.mro(owner)
    q = None
    for c in mro[1:]:
        q = src.resolve_method(c, '__init__')
        if q:
            break
    if q is None:
        return [path]
    node = src.find(q)
    base = q.split(':')[1].split('.')[0]
    names = [a.arg for a in node.args.args[1:]]
    inner = path.clone()
    saved = inner.env
    inner.env = {}
    args = [subst(path, a) for a in call.args]
    if len(args) > len(names) or call.keywords:
        raise Unsupported('super().__init__ call shape')
    for n, a in zip(names, args):
        inner.env[n] = a
    for i, n in enumerate(names[len(args):]):
        d = node.args.defaults[i - (len(names) - len(args)) + len(node.args.defaults)] if node.args.defaults else None
        if d is None:
            raise Unsupported('missing argument for base constructor')
        inner.env[n] = d
    outs = block(src, base, node.body, [inner])
    for o in outs:
        o.env = dict(saved)
    return outs


def block(src, owner, stmts, paths):
    for s in stmts:
        nxt = []
        for p in paths:
            if p.raised is not None:
                nxt.append(p)
                continue
            nxt.extend(step(src, owner, s, p))
        paths = nxt
    return paths


def step(src, owner, s, p):
    if isinstance(s, ast.Expr) and isinstance(s.value, ast.Constant):
        return [p]
    if isinstance(s, ast.Expr) and isinstance(s.value, ast.Call):
        f = s.value.func
        if isinstance(f, ast.Attribute) and f.attr == '__init__' and isinstance(f.value, ast.Call) and isinstance(f.value.func, ast.Name) and f.value.func.id == 'super':
            return _inline_super(src, owner, s.value, p)
        raise Unsupported('call statement %s' % text(s))
    if isinstance(s, ast.Assign) and len(s.targets) == 1:
        tg = s.targets[0]
        v = subst(p, s.value)
        if isinstance(tg, ast.Attribute) and isinstance(tg.value, ast.Name) and tg.value.id == 'self':
            p.fields[tg.attr] = v
            return [p]
        if isinstance(tg, ast.Name):
            p.env[tg.id] = v
            return [p]
        raise Unsupported('assignment target %s' % text(tg))
    if isinstance(s, ast.If):
        c = subst(p, s.test)
        a, b = p.clone(), p.clone()
        a.guards.append(text(c))
        b.guards.append('not (%s)' % text(c))
        return block(src, owner, s.body, [a]) + block(src, owner, s.orelse, [b])
    if isinstance(s, ast.Raise):
        p.raised = text(s.exc.func) if isinstance(s.exc, ast.Call) else text(s.exc)
        return [p]
    if isinstance(s, ast.For):
        loop = copy.deepcopy(s)
        loop.iter = subst(p, loop.iter)
        p.loops.append(text(loop))
        for n in _assigned(s):
            p.env[n] = ast.Name(id=n + "'", ctx=ast.Load())        # the value after the loop: a fresh symbol
        return [p]
    raise Unsupported('statement %s' % type(s).__name__)


# ---------------------------------------------------------------------------------------------------- the contracts
COMMON = {'name': 'None', 'docs': "''", 'parsed': 'None'}
SUB = dict(COMMON, subcon='subcon', flagbuildnone='subcon.flagbuildnone')
SUBGUARD = ['not isinstance(subcon, Construct)']
MEMBERS = "list(subcons) + list((k / v for k, v in subconskw.items()))"
NAMED = "Container(((sc.name, sc) for sc in %s if sc.name))" % MEMBERS
MERGE = "for enum in merge:\n    for enumentry in enum:\n        %s[enumentry.name] = enumentry.value"

# class -> (fields on every normal return, conditions under which the constructor refuses, loops, properties)
SPECS = {
    # the region substream: reports positions of the ENCLOSING stream by adding exactly the offset it was created with (C08); the
    # contracts of tell/seek/from_reading speak about this field
    'BytesIOWithOffsets': (dict(parent_stream='parent_stream', parent_stream_offset='offset'), [], [], ('C08', 'C14', 'C17')),
    'Construct': (dict(COMMON, flagbuildnone='False'), [], [], ('C03',)),
    'Subconstruct': (SUB, SUBGUARD, [], ('C03',)),
    'Bytes': (dict(COMMON, flagbuildnone='False', length='length'), [], [], ('C03',)),
    'FormatField': (dict(COMMON, flagbuildnone='False', fmtstr='endianity + format', length='struct.calcsize(endianity + format)'),
                    ["endianity not in list('=<>')", "format not in list('fdBHLQbhlqe?')"], [], ('C03', 'C12')),
    'BytesInteger': (dict(COMMON, flagbuildnone='False', length='length', signed='signed', swapped='swapped'), [], [], ('C03', 'C12')),
    'BitsInteger': (dict(COMMON, flagbuildnone='False', length='length', signed='signed', swapped='swapped'), [], [], ('C03', 'C10', 'C12')),
    'StringEncoded': (dict(SUB, encoding='encoding'), SUBGUARD + ['not encoding'], [], ('C03',)),
    'Enum': (dict(SUB, encmapping="{EnumIntegerString.new(v, k): v for k, v in mapping'.items()}", decmapping="{v: EnumIntegerString.new(v, k) for k, v in mapping'.items()}",
                  ksymapping="{v: k for k, v in mapping'.items()}"), SUBGUARD, [MERGE % 'mapping'], ('C03', 'C13')),
    'FlagsEnum': (dict(SUB, flags="flags'", reverseflags="{v: k for k, v in flags'.items()}"), SUBGUARD, [MERGE % 'flags'], ('C03', 'C13')),
    'Mapping': (dict(SUB, decmapping='{v: k for k, v in mapping.items()}', encmapping='mapping'), SUBGUARD, [], ('C03', 'C13')),
    'Struct': (dict(COMMON, subcons=MEMBERS, _subcons=NAMED, flagbuildnone='all((sc.flagbuildnone for sc in %s))' % MEMBERS), [], [], ('C03', 'C07')),
    'Sequence': (dict(COMMON, subcons=MEMBERS, _subcons=NAMED, flagbuildnone='all((sc.flagbuildnone for sc in %s))' % MEMBERS), [], [], ('C03', 'C07')),
    'Array': (dict(SUB, count='count', discard='discard'), SUBGUARD, [], ('C03', 'C07')),
    'GreedyRange': (dict(SUB, discard='discard'), SUBGUARD, [], ('C03', 'C09')),
    'RepeatUntil': (dict(SUB, predicate='predicate', discard='discard'), SUBGUARD, [], ('C03', 'C07')),
    'Renamed': (dict(subcon='subcon', flagbuildnone='subcon.flagbuildnone', name='newname if newname else subcon.name', docs='newdocs if newdocs else subcon.docs',
                     parsed='newparsed if newparsed else subcon.parsed'), SUBGUARD, [], ('C18', 'C03')),
    'Computed': (dict(COMMON, func='func', flagbuildnone='True'), [], [], ('C03', 'C07')),
    'Rebuild': (dict(SUB, func='func', flagbuildnone='True'), SUBGUARD, [], ('C01', 'C03')),
    'Default': (dict(SUB, value='value', flagbuildnone='True'), SUBGUARD, [], ('C01', 'C03')),
    'Check': (dict(COMMON, func='func', flagbuildnone='True'), [], [], ('C13',)),
    'Const': (dict(COMMON, value='value', flagbuildnone='True', subcon=('subcon', 'Bytes(len(value))')),
              ['not isinstance(value, bytes)', 'not isinstance(subcon, Construct)', 'not isinstance(Bytes(len(value)), Construct)'], [], ('C13', 'C03')),
    'Switch': (dict(COMMON, keyfunc='keyfunc', cases='cases', default=('default', 'Pass', 'Pass if default is None else default'),
                    flagbuildnone=('all((sc.flagbuildnone for sc in list(cases.values()) + [default]))', 'all((sc.flagbuildnone for sc in list(cases.values()) + [Pass]))',
                                   'all((sc.flagbuildnone for sc in list(cases.values()) + [Pass if default is None else default]))')), [], [], ('C03', 'C05')),
    'FocusedSeq': (dict(COMMON, flagbuildnone='False', parsebuildfrom='parsebuildfrom', subcons=MEMBERS, _subcons=NAMED), [], [], ('C03', 'C07')),
    'Union': (dict(COMMON, flagbuildnone='False', parsefrom='parsefrom', subcons=MEMBERS, _subcons=NAMED), ['isinstance(parsefrom, Construct)'], [], ('C09', 'C07')),
    'Select': (dict(COMMON, subcons=MEMBERS, flagbuildnone='any((sc.flagbuildnone for sc in %s))' % MEMBERS), [], [], ('C09', 'C03')),
    'IfThenElse': (dict(COMMON, condfunc='condfunc', thensubcon='thensubcon', elsesubcon='elsesubcon', flagbuildnone='thensubcon.flagbuildnone and elsesubcon.flagbuildnone'), [], [], ('C03', 'C05')),
    'StopIf': (dict(COMMON, condfunc='condfunc', flagbuildnone='True'), [], [], ('C03',)),
    'Padded': (dict(SUB, length='length', pattern='pattern'), ['not isinstance(pattern, bytes) or len(pattern) != 1'] + SUBGUARD, [], ('C03', 'C05')),
    'Aligned': (dict(SUB, modulus='modulus', pattern='pattern'), ['not isinstance(pattern, bytes) or len(pattern) != 1'] + SUBGUARD, [], ('C03', 'C05')),
    'Pointer': (dict(SUB, offset='offset', stream='stream'), SUBGUARD, [], ('C08', 'C09')),
    'Peek': (dict(SUB, flagbuildnone='True'), SUBGUARD, [], ('C09',)),
    'OffsettedEnd': (dict(SUB, endoffset='endoffset'), SUBGUARD, [], ('C08',)),
    'Seek': (dict(COMMON, at='at', whence='whence', flagbuildnone='True'), [], [], ('C09',)),
    'Prefixed': (dict(SUB, lengthfield='lengthfield', includelength='includelength'), SUBGUARD, [], ('C08', 'C03')),
    'FixedSized': (dict(SUB, length='length'), SUBGUARD, [], ('C08', 'C03')),
    'NullTerminated': (dict(SUB, term='term', include='include', consume='consume', require='require'), SUBGUARD, [], ('C08', 'C03')),
    'NullStripped': (dict(SUB, pad='pad'), SUBGUARD, [], ('C08', 'C03')),
    'RestreamData': (dict(SUB, datafunc='datafunc', flagbuildnone='True'), SUBGUARD, [], ('C03',)),
    'Transformed': (dict(SUB, decodefunc='decodefunc', decodeamount='decodeamount', encodefunc='encodefunc', encodeamount='encodeamount'), SUBGUARD, [], ('C10', 'C15')),
    'Restreamed': (dict(SUB, decoder='decoder', decoderunit='decoderunit', encoder='encoder', encoderunit='encoderunit', sizecomputer='sizecomputer'), SUBGUARD, [], ('C10', 'C15')),
    'ProcessXor': (dict(SUB, padfunc='padfunc'), SUBGUARD, [], ('C15',)),
    'ProcessRotateLeft': (dict(SUB, amount='amount', group='group'), SUBGUARD, [], ('C15',)),
    'Checksum': (dict(COMMON, checksumfield='checksumfield', hashfunc='hashfunc', bytesfunc='bytesfunc', flagbuildnone='True'), [], [], ('C14', 'C13')),
    'Lazy': (SUB, SUBGUARD, [], ('C16',)),
    'LazyArray': (dict(SUB, count='count'), SUBGUARD, [], ('C16',)),
    'LazyStruct': (dict(COMMON, subcons=MEMBERS, _subcons=NAMED, _subconsindexes="Container(((sc.name, i) for i, sc in enumerate(%s) if sc.name))" % MEMBERS,
                        flagbuildnone='all((sc.flagbuildnone for sc in %s))' % MEMBERS), [], [], ('C16',)),
    'RawCopy': (SUB, SUBGUARD, [], ('C14',)),
    'Hex': (SUB, SUBGUARD, [], ('C12',)),
    'HexDump': (SUB, SUBGUARD, [], ('C12',)),
}


class _Canon(ast.NodeTransformer):
    """syntactic variants with the same meaning get one spelling: a list comprehension is list(<generator>)"""

    def visit_ListComp(self, n):
        self.generic_visit(n)
        return ast.Call(func=ast.Name(id='list', ctx=ast.Load()), args=[ast.GeneratorExp(elt=n.elt, generators=n.generators)], keywords=[])


def norm(s):
    try:
        return ast.unparse(ast.fix_missing_locations(_Canon().visit(ast.parse(s, mode='eval'))))
    except SyntaxError:
        return s


def check_class(src, cls):
    """-> list of mismatch descriptions (empty = every clause holds)"""
    fields, guards, loops, _ = SPECS[cls]
    try:
        paths = run(src, cls)
    except Unsupported as e:
        return ['%s.__init__ is outside the constructor subset: %s' % (cls, e)], True
    bad = []
    normal = [p for p in paths if p.raised is None]
    refusing = [p for p in paths if p.raised is not None]
    if not normal:
        bad.append('%s.__init__ never returns normally' % cls)
    want_refuse = sorted(norm(g) for g in guards)
    got_refuse = sorted(norm(p.guards[-1]) for p in refusing)
    if want_refuse != got_refuse:
        bad.append(('%s.__init__ refuses under %r, contract says %r' % (cls, got_refuse, want_refuse), ' or '.join('(%s)' % g for g in got_refuse) or 'False', (' or '.join('(%s)' % g for g in want_refuse) or 'False',), []))
    for p in normal:
        for f, e in fields.items():
            got = text(p.fields[f]) if f in p.fields else '<unset>'
            alts = e if isinstance(e, tuple) else (e,)          # a field that depends on which optional argument was given
            if norm(got) not in [norm(x) for x in alts]:
                bad.append(('%s.__init__: self.%s == %s, contract says %s' % (cls, f, got, ' or '.join(norm(x) for x in alts)), got, alts, list(p.guards)))
        if sorted(norm_loop(x) for x in p.loops) != sorted(norm_loop(x) for x in loops):
            bad.append('%s.__init__: loops %r, contract says %r' % (cls, p.loops, loops))
    return bad, False


def norm_loop(s):
    return ast.unparse(ast.parse(s))


def _samples(C):
    """argument values on which two candidate field expressions are compared (by name of the constructor parameter)"""
    core = C.core
    base = dict(subcon=core.Byte, length=3, signed=True, swapped=False, endianity='<', format='H', encoding='utf8', count=2, discard=False, predicate=None,
                newname='n', newdocs='', newparsed=None, func=None, value=b'ab', parsebuildfrom='a', parsefrom=0, condfunc=None, thensubcon=core.Byte, elsesubcon=core.Int16ub,
                keyfunc=None, cases={1: core.Byte}, default=None, pattern=b'\x00', modulus=4, offset=0, stream=None, endoffset=0, at=0, whence=0, lengthfield=core.Byte,
                includelength=False, term=b'\x00', include=False, consume=True, require=True, pad=b'\x00', datafunc=b'', decodefunc=None, decodeamount=1, encodefunc=None,
                encodeamount=1, decoder=None, decoderunit=1, encoder=None, encoderunit=1, sizecomputer=None, padfunc=1, amount=1, group=1, checksumfield=core.Byte, hashfunc=None,
                bytesfunc=None, subcons=('a' / core.Byte, core.Int16ub), subconskw={}, merge=(), mapping={'a': 1, 'b': 1, 'c': 2}, flags={'a': 1, 'b': 2})
    base["mapping'"] = {'a': 1, 'b': 1, 'c': 2}
    base["flags'"] = {'a': 1, 'b': 2, 'ab': 3}
    variants = [base, dict(base, pattern=b'xy', subcon=3, value=3, parsefrom=core.Byte, endianity='?', format='x', encoding='', newname=None, default=core.Byte, subcons=(core.Byte,))]
    return variants


def _eval(C, expr, env):
    ns = dict(vars(C.core))
    ns.update({k.replace("'", '_after_loop'): v for k, v in env.items()})
    try:
        return ('value', eval(compile(expr.replace("'.", '_after_loop.').replace("' ", '_after_loop ').replace("')", '_after_loop)') if "'" in expr else expr, '<ctor>', 'eval'), ns))
    except Exception as e:
        return ('raises', type(e).__name__)


def _same(a, b):
    if a[0] != b[0]:
        return False
    if a[0] == 'raises':
        return True
    x, y = a[1], b[1]
    try:
        if isinstance(x, dict) and isinstance(y, dict):
            return list(x.items()) == list(y.items()) and [type(k) for k in x] == [type(k) for k in y]
        return type(x) is type(y) and (x == y or repr(x) == repr(y))
    except Exception:
        return repr(x) == repr(y)


def distinguish(C, got, alts, guards=()):
    """an argument sample, among those on which the path is taken (its guards hold), on which the computed expression equals NONE of
    the stated alternatives; None when every such sample agrees with one of them (then the textual difference may be harmless).
    Alternatives exist for fields that depend on which optional argument was given: the stated values are per path, so a sample
    is compared with the alternative that the SAME sample selects when the alternatives are written as one expression."""
    seen = 0
    for env in _samples(C):
        try:
            if not all(_eval(C, g, env) == ('value', True) or (_eval(C, g, env)[0] == 'value' and bool(_eval(C, g, env)[1])) for g in guards):
                continue
        except Exception:
            continue
        seen += 1
        a = _eval(C, got, env)
        bs = [_eval(C, w, env) for w in alts]
        if not any(_same(a, b) for b in bs):
            return {k: repr(v)[:60] for k, v in env.items() if k.rstrip("'") in got or any(k.rstrip("'") in w for w in alts)}, a, bs[0]
    return None


def enumerate_ctors(src, pid, C=None):
    """table rows (name, entries, mismatches) for the constructors whose fields the contracts of property pid read"""
    n, bad, undecided = 0, [], []
    for cls, (fields, guards, loops, props) in SPECS.items():
        if pid not in props:
            continue
        n += len(fields) + len(guards) + len(loops)
        b, und = check_class(src, cls)
        for item in b:
            if und or not isinstance(item, tuple):
                (undecided if und else bad).append(item if not isinstance(item, tuple) else item[0])
                continue
            msg, got, alts, guards = item
            # a textual difference is a violation only when some argument values tell the expressions apart on the real classes;
            # otherwise it may be a harmless rewrite: undecided
            w = None
            if C is not None:
                w = distinguish(C, got, alts, guards)
            if C is None or w is not None:
                bad.append(msg + ('' if w is None else '   [arguments %s: code gives %s, contract %s]' % (w[0], w[1], w[2])))
            else:
                undecided.append(msg + '   [no argument sample tells the two apart: possibly a harmless rewrite]')
    return ('constructor contracts: every field the method contracts read is the stated function of the arguments (symbolic execution of __init__, normal-form identity)', n, bad), undecided


if __name__ == '__main__':
    import sys
    sys.path.insert(0, '/verif')
    from pyvc.source import Source
    src = Source()
    tot = 0
    for cls in SPECS:
        b, und = check_class(src, cls)
        tot += len(b)
        for x in b:
            print(('UNDECIDED ' if und else 'MISMATCH ') + (x[0] if isinstance(x, tuple) else x))
    print(len(SPECS), 'constructors,', tot, 'mismatches')
