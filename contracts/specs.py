"""Specification functions (wire formats written from their definitions, not from the code) with native twins.

Every SMT definition here has a Python twin `py=`; the thorough tier runs both against CPython and the real functions
(DESIGN.md 3.4).  Index-recursive over (array, lo, hi) as prescribed by the encoding lessons (DESIGN.md 1.4).
"""
from pyvc import prelude, terms as t
from pyvc.terms import I

D = prelude.define

# n >> k without exponentiation
D('shr', '(define-fun-rec shr ((n Int) (k Int)) Int (ite (<= k 0) n (div (shr n (- k 1)) 2)))',
  py=lambda n, k: n >> max(k, 0))
# MSB-first value of the digit string a[lo:hi] in base 2 (digits need not be 0/1; then it is the positional sum)
D('bits_val', """(define-fun-rec bits_val ((a (Array Int Int)) (lo Int) (hi Int)) Int
  (ite (<= hi lo) 0 (+ (* 2 (bits_val a lo (- hi 1))) (select a (- hi 1)))))""",
  py=lambda a, lo, hi: sum(a[i] << (hi - 1 - i) for i in range(lo, hi)))
# LEB128: number of groups and the k-th group of x >= 0
D('leb_len', '(define-fun-rec leb_len ((x Int)) Int (ite (<= x 127) 1 (+ 1 (leb_len (div x 128)))))',
  py=lambda x: max(1, (x.bit_length() + 6) // 7))
D('shr7', '(define-fun-rec shr7 ((x Int) (k Int)) Int (ite (<= k 0) x (div (shr7 x (- k 1)) 128)))',
  py=lambda x, k: x >> (7 * max(k, 0)))
# value of the little-endian base-128 digit string a[lo:hi] taking the low 7 bits of each byte
D('val7', """(define-fun-rec val7 ((a (Array Int Int)) (lo Int) (hi Int)) Int
  (ite (<= hi lo) 0 (+ (mod (select a lo) 128) (* 128 (val7 a (+ lo 1) hi)))))""",
  py=lambda a, lo, hi: sum((a[i] & 127) << (7 * (i - lo)) for i in range(lo, hi)))


def shr(n, k):
    if k.op == 'int' and k.args[0] <= 0:
        return n
    return t.app('shr', t.INT, n, k)


def bits_val(a, lo, hi):
    return t.app('bits_val', t.INT, a, lo, hi)


def be_val(a, lo, hi):
    return t.app('be_val', t.INT, a, lo, hi)


def pow2(k):
    from pyvc import ops
    return ops.pow2(k)


def bit(n, k):
    """bit k (k a python int) of the non-negative Int term n"""
    return t.pymod(t.pyfloordiv(n, I(2 ** k)), I(2))


def forall_range(i, lo, hi, body, pats):
    return t.forall([i], t.implies(t.and_(t.le(lo, i), t.lt(i, hi)), body), pats=pats)


def forall_view(b, n, body, name='va!'):
    """forall j in [b.off, b.off+n): body(rel=j-b.off, elem=b.arr[j]) - stated over the ABSOLUTE index so that the trigger
    (select arr j) fires for every index term, however the solver normalises the arithmetic"""
    j = t.var(name, t.INT)
    e = t.select(b.arr, j)
    return t.forall([j], t.implies(t.and_(t.le(b.off, j), t.lt(j, t.add(b.off, n))), body(t.sub(j, b.off), e)), pats=[[e]])


def isbits(b):
    """every element of the bytes view b is 0 or 1"""
    return forall_view(b, b.len, lambda rel, e: t.and_(t.le(t.ZERO, e), t.le(e, t.ONE)), 'bi!')


def llen(o):
    """length term of a list/bytearray store object (concrete or symbolic)"""
    if getattr(o, 'items', None) is not None:
        return I(len(o.items))
    return o.len


def lall(o, fn):
    """forall j < len(o): fn(j, element j)  for int lists / bytearrays, concrete or symbolic"""
    if getattr(o, 'items', None) is not None:
        return t.and_(*[fn(I(j), x.t) for j, x in enumerate(o.items)])
    j = t.var('j!', t.INT)
    return forall_range(j, t.ZERO, o.len, fn(j, t.select(o.arr, j)), [[t.select(o.arr, j)]])


# ------------------------------------------------------------------------------------------------ congruence lemmas
# a specification function applied to two array regions that agree pointwise gives the same value (needed whenever bytes
# are copied: written to a stream, re-based into a substream, concatenated)
from pyvc.lemma import Lemma
from pyvc import structmodel  # noqa (le_val)


def _agree(v):
    # stated over the absolute index of a so that the pattern (select a i) fires for every index term
    i = t.var('ci!', t.INT)
    return forall_range(i, v['alo'], t.add(v['alo'], v['n']),
                        t.eq(t.select(v['a'], i), t.select(v['b'], t.add(t.sub(i, v['alo']), v['blo']))), [[t.select(v['a'], i)]])


def cong_stmt(fn):
    def stmt(v):
        return t.implies(t.and_(t.ge(v['n'], t.ZERO), _agree(v)),
                         t.eq(t.app(fn, t.INT, v['a'], v['alo'], t.add(v['alo'], v['n'])), t.app(fn, t.INT, v['b'], v['blo'], t.add(v['blo'], v['n']))))
    return stmt


CONG_VARS = [('a', t.ARR), ('b', t.ARR), ('alo', t.INT), ('blo', t.INT), ('n', t.INT)]
CONG = {}
for _fn, _left in (('be_val', False), ('le_val', True), ('bits_val', False), ('val7', True)):
    if _left:
        _ih = lambda v: [{'a': v['a'], 'b': v['b'], 'alo': t.add(v['alo'], t.ONE), 'blo': t.add(v['blo'], t.ONE)}]
    else:
        _ih = lambda v: [{'a': v['a'], 'b': v['b'], 'alo': v['alo'], 'blo': v['blo']}]
    CONG[_fn] = Lemma('cong_' + _fn, CONG_VARS, cong_stmt(_fn), induct=('n', 0), ih_instances=_ih,
                      tags=('C03', 'C01', 'C02', 'C10', 'C12', 'C05'))


def cong_instance(fn, a, alo, b, blo, n):
    return cong_stmt(fn)({'a': a, 'alo': alo, 'b': b, 'blo': blo, 'n': n})


# ------------------------------------------------------------------------------------------------ equality is reflexive
def _beq(a, ao, b, bo, n):
    return t.app('beq', t.BOOL, a, ao, b, bo, n)


Lemma('beq_reflexive', [('a', t.ARR), ('ao', t.INT), ('n', t.INT)], lambda v: _beq(v['a'], v['ao'], v['a'], v['ao'], v['n']), induct=('n', 0),
      ih_instances=lambda v: [{'a': v['a'], 'ao': v['ao']}], tags=('C01', 'C02', 'C05'),
      defs=lambda v: [t.eq(_beq(v['a'], v['ao'], v['a'], v['ao'], v['n']),
                           t.ite(t.le(v['n'], t.ZERO), t.TRUE, t.and_(t.eq(t.select(v['a'], t.add(v['ao'], t.sub(v['n'], t.ONE))), t.select(v['a'], t.add(v['ao'], t.sub(v['n'], t.ONE)))),
                                                                     _beq(v['a'], v['ao'], v['a'], v['ao'], t.sub(v['n'], t.ONE)))))])
Lemma('pyeq_reflexive', [('x', t.VAL)], lambda v: t.app('pyeq', t.BOOL, v['x'], v['x']), tags=('C01', 'C02', 'C05'),
      hints=lambda v: [_beq(t.app('barr', t.ARR, v['x']), t.app('boff', t.INT, v['x']), t.app('barr', t.ARR, v['x']), t.app('boff', t.INT, v['x']), t.app('blen', t.INT, v['x']))],
      doc='the hint is the instance of beq_reflexive at the bytes payload of x')


# ------------------------------------------------------------------------------------------------ congruence instances
def spec_congruence_instances(hyps, goal):
    """ground instances of the congruence lemmas (CONG, each proved by induction): for every pair of applications of the same
    specification function to regions in DIFFERENT arrays, equal length and pointwise agreement give equal values."""
    from pyvc.constructs import _find_apps
    out = []
    for fn in ('be_val', 'le_val', 'bits_val', 'val7'):
        apps = [a for a in _find_apps(list(hyps) + [goal], fn) if not any(v.endswith('!|') or v.endswith('!') for v in a.free_vars())]
        if len(apps) > 8:
            continue
        for x in range(len(apps)):
            for y in range(x + 1, len(apps)):
                (a, alo, ahi), (b, blo, bhi) = apps[x].args, apps[y].args
                if a.smt() == b.smt():
                    continue
                n = t.sub(ahi, alo)
                inst = cong_instance(fn, a, alo, b, blo, n)
                # cong_instance speaks about (a, alo, alo+n) and (b, blo, blo+n): usable when the second region has the same length
                out.append(t.implies(t.eq(t.sub(bhi, blo), n), t.implies(t.eq(t.add(blo, n), bhi), inst)))
    return out


prelude.INSTANCE_GENERATORS.append(spec_congruence_instances)


def _unfold_beq(a, ao, b, bo, n):
    return t.eq(_beq(a, ao, b, bo, n), t.ite(t.le(n, t.ZERO), t.TRUE, t.and_(t.eq(t.select(a, t.add(ao, t.sub(n, t.ONE))), t.select(b, t.add(bo, t.sub(n, t.ONE)))), _beq(a, ao, b, bo, t.sub(n, t.ONE)))))


_V3 = [('a', t.ARR), ('ao', t.INT), ('b', t.ARR), ('bo', t.INT), ('c', t.ARR), ('co', t.INT), ('n', t.INT)]
Lemma('beq_symmetric', _V3[:4] + [('n', t.INT)], lambda v: t.eq(_beq(v['a'], v['ao'], v['b'], v['bo'], v['n']), _beq(v['b'], v['bo'], v['a'], v['ao'], v['n'])), induct=('n', 0),
      ih_instances=lambda v: [{'a': v['a'], 'ao': v['ao'], 'b': v['b'], 'bo': v['bo']}], tags=('C02',),
      defs=lambda v: [_unfold_beq(v['a'], v['ao'], v['b'], v['bo'], v['n']), _unfold_beq(v['b'], v['bo'], v['a'], v['ao'], v['n'])])
Lemma('beq_transitive', _V3, lambda v: t.implies(t.and_(_beq(v['a'], v['ao'], v['b'], v['bo'], v['n']), _beq(v['b'], v['bo'], v['c'], v['co'], v['n'])), _beq(v['a'], v['ao'], v['c'], v['co'], v['n'])),
      induct=('n', 0), ih_instances=lambda v: [{k: v[k] for k in ('a', 'ao', 'b', 'bo', 'c', 'co')}], tags=('C02',),
      defs=lambda v: [_unfold_beq(v['a'], v['ao'], v['b'], v['bo'], v['n']), _unfold_beq(v['b'], v['bo'], v['c'], v['co'], v['n']), _unfold_beq(v['a'], v['ao'], v['c'], v['co'], v['n'])])


def _payload(x):
    return t.app('barr', t.ARR, x), t.app('boff', t.INT, x), t.app('blen', t.INT, x)


def _sym_hint(v):
    (a, ao, n), (b, bo, _) = _payload(v['x']), _payload(v['y'])
    return [LEMMAS_['beq_symmetric'].stmt({'a': a, 'ao': ao, 'b': b, 'bo': bo, 'n': n})]


def _trans_hint(v):
    (a, ao, n), (b, bo, _), (c, co, _) = _payload(v['x']), _payload(v['y']), _payload(v['z'])
    return [LEMMAS_['beq_transitive'].stmt({'a': a, 'ao': ao, 'b': b, 'bo': bo, 'c': c, 'co': co, 'n': n})]


from pyvc.lemma import LEMMAS as LEMMAS_  # noqa
Lemma('pyeq_symmetric', [('x', t.VAL), ('y', t.VAL)], lambda v: t.eq(t.app('pyeq', t.BOOL, v['x'], v['y']), t.app('pyeq', t.BOOL, v['y'], v['x'])), tags=('C02',), hints=_sym_hint)
Lemma('pyeq_transitive', [('x', t.VAL), ('y', t.VAL), ('z', t.VAL)],
      lambda v: t.implies(t.and_(t.app('pyeq', t.BOOL, v['x'], v['y']), t.app('pyeq', t.BOOL, v['y'], v['z'])), t.app('pyeq', t.BOOL, v['x'], v['z'])), tags=('C02',), hints=_trans_hint)
