"""Byte transforms (C15, and C08 for the regions they create): ProcessXor, ProcessRotateLeft, plus the delimiters that
compute their region from the data: NullStripped, NullTerminated.

The transformed byte string is named by an axiomatized array function (its pointwise definition is added wherever the term
occurs), so that a contract can say: the inner construct is presented with exactly this string (interface functions applied
to it) - read-locality of parsing lets the solver identify it with the array the code actually built."""
from pyvc import terms as t, prelude, streams
from pyvc.terms import I, S
from pyvc.values import *  # noqa
from pyvc.contract import Case, rk_dyn
from pyvc.exec import LoopSpec
from .prims import fcontract, S_, generic_raise, buffer_same, _avail, _param_int
from .wrappers import Sub, Region, result_is, Empty, _abs_base
from .specs import forall_range

T = ('C15', 'C08', 'C01', 'C02')

# xorarr(buf, pos, key): i -> buf[pos+i] ^ key_i  where key is a Val: an int (every byte) or bytes (cycled; empty = identity)
prelude.declare_fun('xorarr', [t.ARR, t.INT, t.VAL], t.ARR)


def key_at(P, i):
    plen = t.app('blen', t.INT, P)
    cyc = t.select(t.app('barr', t.ARR, P), t.add(t.app('boff', t.INT, P), t.T(t.INT, 'mod', (i, plen))))
    return t.ite(t.app('isint', t.BOOL, P), t.app('toint', t.INT, P), t.ite(t.gt(plen, t.ZERO), cyc, t.ZERO))


def _xorarr_axioms(x):
    buf, pos, P = x.args
    i = t.var('xa!', t.INT)
    return [t.forall([i], t.implies(t.ge(i, t.ZERO), t.eq(t.select(x, i), t.app('bxor', t.INT, t.select(buf, t.add(pos, i)), key_at(P, i)))), pats=[[t.select(x, i)]])]


prelude.AXIOMATIZED['xorarr'] = _xorarr_axioms


def _pad_val(pre):
    """value of the key parameter in the entry context"""
    eng = pre.eng
    p = pre.self.fields['padfunc']
    iface = eng.models.interface
    H, D = pre.st.ghost['H'], pre.st.ghost['D']
    c = pre.obj('context').addr
    const = iface.param_const(eng, p, pre.st)
    return t.ite(p.callable_t, t.app('ev_val', t.VAL, p.ident, H, D, c), eng.to_dyn(const, pre.st))


def _xor_region(pre):
    o = S_(pre)
    P = _pad_val(pre)
    n = _avail(o)
    r = Region.__new__(Region)
    r.buf = t.app('xorarr', t.ARR, o.buf, o.pos, P)
    r.len, r.pos, r.base, r.offset = n, t.ZERO, t.add(o.pos, _abs_base(o)), t.add(o.pos, _abs_base(o))
    return r


def _px_parse_ok(pre, post):
    o, o2 = S_(pre), post.obj('stream')
    inner = Sub(pre, 'subcon', o=_xor_region(pre))
    return [('inner-construct-sees-the-rest-of-the-stream-xored-with-the-cycled-key-and-its-value-is-returned', result_is(post, inner.val), ('C15', 'C08', 'C01', 'C02')),
            ('outer-stream-read-to-its-end', t.eq(o2.pos, t.add(o.pos, _avail(o))), ('C15', 'C08', 'C01', 'C02')),
            ('buffer-unchanged', buffer_same(pre, post), ('C17', 'C08'))]


fcontract('ProcessXor', '_parse', [
    Case('ok', 'return', lambda pre: Sub(pre, 'subcon', o=_xor_region(pre)).ok, ensures=_px_parse_ok, rkind=rk_dyn, modifies=['stream']),
    Case('fails', 'raise', lambda pre: t.not_(Sub(pre, 'subcon', o=_xor_region(pre)).ok), ensures=generic_raise, modifies=['stream']),
], tags=T, requires=lambda pre: [('key-is-int-or-bytes', t.or_(t.app('isint', t.BOOL, _pad_val(pre)), t.app('(_ is VBytes)', t.BOOL, _pad_val(pre))))])


def _px_build_ok(pre, post):
    o, o2 = S_(pre), post.obj('stream')
    P = _pad_val(pre)
    s = Sub(pre, 'subcon', o=Empty, obj=pre['obj'].t, kind='build')
    i = t.var('i!', t.INT)
    written = forall_range(i, o.pos, t.add(o.pos, s.len), t.eq(t.select(o2.buf, i), t.app('bxor', t.INT, t.select(s.bytes, t.sub(i, o.pos)), key_at(P, t.sub(i, o.pos)))),
                           [[t.select(o2.buf, i)]])
    return [('advances-by-the-inner-length', t.eq(o2.pos, t.add(o.pos, s.len)), ('C15', 'C05', 'C01', 'C02')),
            ('emits-the-inner-bytes-xored-with-the-cycled-key', written, ('C15', 'C01', 'C02')),
            ('returns-inner-build-value', result_is(post, s.ret), ('C15', 'C01', 'C02'))]


fcontract('ProcessXor', '_build', [
    Case('ok', 'return', lambda pre: Sub(pre, 'subcon', o=Empty, obj=pre['obj'].t, kind='build').ok, ensures=_px_build_ok, rkind=rk_dyn, modifies=['stream']),
    Case('fails', 'raise', lambda pre: t.not_(Sub(pre, 'subcon', o=Empty, obj=pre['obj'].t, kind='build').ok), ensures=generic_raise, modifies=['stream']),
], tags=T, requires=lambda pre: [('key-is-int-or-bytes', t.or_(t.app('isint', t.BOOL, _pad_val(pre)), t.app('(_ is VBytes)', t.BOOL, _pad_val(pre))))])

# xor with the same key is an involution on bytes (8-bit vectors): the inverse-transform lemma of C15
from pyvc.lemma import Lemma
Lemma('bxor_involution', [('a', t.INT), ('k', t.INT)],
      lambda v: t.implies(t.and_(t.le(t.ZERO, v['a']), t.lt(v['a'], I(256)), t.le(t.ZERO, v['k']), t.lt(v['k'], I(256))),
                          t.eq(t.app('bxor', t.INT, t.app('bxor', t.INT, v['a'], v['k']), v['k']), v['a'])), tags=('C15',))
Lemma('bxor_zero', [('a', t.INT)],
      lambda v: t.implies(t.and_(t.le(t.ZERO, v['a']), t.lt(v['a'], I(256))), t.eq(t.app('bxor', t.INT, v['a'], t.ZERO), v['a'])), tags=('C15',))


# ================================================================================================ ProcessRotateLeft (C15)
# Specification (written from the documentation: "rotates all bits left in groups of `group` bytes", a group being one
# big-endian integer of 8*group bits): with A = amount mod 8g, ab = A div 8, a1 = A mod 8, output byte j of a group is
#     a1 == 0:  in[(j+ab) mod g]
#     else:     (in[(j+ab) mod g] << a1) mod 256  +  in[(j+ab+1) mod g] >> (8-a1)
# Parameters are enumerated (variants); the data and its length are symbolic.  rotarr(buf, pos, A, g) names the rotated string.
prelude.declare_fun('rotarr', [t.ARR, t.INT, t.INT, t.INT], t.ARR)


def rot_byte(arr, base, idx, A, g):
    """specification value of output byte idx (0-based within the region starting at base) for normalised amount A, group g;
    written as a case split over the position j = idx mod g within the group, with concrete source positions"""
    ab, a1 = A // 8, A % 8
    if A == 0:
        return t.select(arr, t.add(base, idx))
    j = t.pymod(idx, I(g))
    g0 = t.add(base, t.sub(idx, j))

    def at_j(jj):
        def src(off):
            return t.select(arr, t.add(g0, I((jj + off) % g)))
        if a1 == 0:
            return src(ab)
        return t.add(t.pymod(t.mul(src(ab), I(2 ** a1)), I(256)), t.pyfloordiv(src(ab + 1), I(2 ** (8 - a1))))
    out = at_j(g - 1)
    for jj in range(g - 2, -1, -1):
        out = t.ite(t.eq(j, I(jj)), at_j(jj), out)
    return out


def _rotarr_axioms(x):
    buf, pos, A, g = x.args
    i = t.var('ra!', t.INT)
    return [t.forall([i], t.implies(t.ge(i, t.ZERO), t.eq(t.select(x, i), rot_byte(buf, pos, i, A.args[0], g.args[0]))), pats=[[t.select(x, i)]])]


prelude.AXIOMATIZED['rotarr'] = _rotarr_axioms


def _rot_params(pre, negate=False):
    v = pre.eng.variant
    a, g = v['amount'], v['group']
    if g < 1:
        return None, g
    A = (-a if negate else a) % (8 * g)
    return A, g


def _rot_region(pre):
    o = S_(pre)
    A, g = _rot_params(pre)
    r = Region.__new__(Region)
    r.buf = t.app('rotarr', t.ARR, o.buf, o.pos, I(A), I(g))
    n = _avail(o)
    # io.BytesIO(data): a plain stream whose tell() is relative (the documented behaviour of this construct)
    r.len, r.pos, r.base, r.offset = n, t.ZERO, t.ZERO, t.ZERO
    r.model = 'bytesio'
    return r


def _rot_parse_guard(pre):
    o = S_(pre)
    A, g = _rot_params(pre)
    if A is None:
        return t.FALSE
    return t.and_(t.eq(t.pymod(_avail(o), I(g)), t.ZERO), Sub(pre, 'subcon', o=_rot_region(pre)).ok)


def _rot_parse_ok(pre, post):
    o, o2 = S_(pre), post.obj('stream')
    inner = Sub(pre, 'subcon', o=_rot_region(pre))
    return [('inner-construct-sees-the-rest-of-the-stream-rotated-left-within-groups', result_is(post, inner.val), ('C15',)),
            ('outer-stream-read-to-its-end', t.eq(o2.pos, t.add(o.pos, _avail(o))), ('C15', 'C08')),
            ('buffer-unchanged', buffer_same(pre, post), ('C17', 'C08'))]


def _rot_parse_bad(pre, post):
    o = S_(pre)
    A, g = _rot_params(pre)
    rot = t.eq(post.exc.cls, I(post.eng.src.exc_code['RotationError']))
    bad_len = t.TRUE if A is None else t.ne(t.pymod(_avail(o), I(g)), t.ZERO)
    return [('length-not-a-multiple-of-the-group-or-group-below-1-is-RotationError', t.implies(bad_len, rot), ('C15', 'C06'))] + generic_raise(pre, post)


def _rot_build_sub(pre):
    return Sub(pre, 'subcon', o=Empty, obj=pre['obj'].t, kind='build')


def _rot_build_guard(pre):
    A, g = _rot_params(pre, negate=True)
    if A is None:
        return t.FALSE
    s = _rot_build_sub(pre)
    return t.and_(s.ok, t.eq(t.pymod(s.len, I(g)), t.ZERO))


def _rot_build_ok(pre, post):
    o, o2 = S_(pre), post.obj('stream')
    A, g = _rot_params(pre, negate=True)
    s = _rot_build_sub(pre)
    i = t.var('i!', t.INT)
    written = forall_range(i, o.pos, t.add(o.pos, s.len), t.eq(t.select(o2.buf, i), rot_byte(s.bytes, t.ZERO, t.sub(i, o.pos), A, g)), [[t.select(o2.buf, i)]])
    return [('advances-by-the-inner-length', t.eq(o2.pos, t.add(o.pos, s.len)), ('C15', 'C05')),
            ('emits-the-inner-bytes-rotated-by-the-negated-amount', written, ('C15',)),
            ('returns-inner-build-value', result_is(post, s.ret), ('C15', 'C01'))]


def _rot_build_bad(pre, post):
    A, g = _rot_params(pre, negate=True)
    s = _rot_build_sub(pre)
    rot = t.eq(post.exc.cls, I(post.eng.src.exc_code['RotationError']))
    bad_len = t.TRUE if A is None else t.and_(s.ok, t.ne(t.pymod(s.len, I(g)), t.ZERO))
    return [('length-not-a-multiple-of-the-group-or-group-below-1-is-RotationError', t.implies(bad_len, rot), ('C15', 'C06'))] + generic_raise(pre, post)


from .classes import VariantDict  # noqa
ROT_QUICK = [(0, 1), (3, 1), (7, 1), (9, 1), (-3, 1), (8, 2), (5, 2), (13, 2), (-5, 2), (16, 2), (8, 3), (16, 3), (24, 3), (4, 3), (17, 3), (-1, 3), (8, 4), (24, 4), (32, 4), (70, 8), (63, 8), (1, 8), (8, 8), (1, 0)]
ROT_ALL = [(a, g) for g in range(1, 9) for a in range(-64, 65)] + [(1, 0), (0, -1)]
ROT_ALL += [p for p in ROT_QUICK if p not in ROT_ALL]      # the thorough enumeration contains the quick one

_rp = fcontract('ProcessRotateLeft', '_parse', [
    Case('ok', 'return', _rot_parse_guard, ensures=_rot_parse_ok, rkind=rk_dyn, modifies=['stream']),
    Case('fails', 'raise', lambda pre: t.not_(_rot_parse_guard(pre)), ensures=_rot_parse_bad, modifies=['stream']),
], tags=('C15',))
_rb = fcontract('ProcessRotateLeft', '_build', [
    Case('ok', 'return', _rot_build_guard, ensures=_rot_build_ok, rkind=rk_dyn, modifies=['stream']),
    Case('fails', 'raise', lambda pre: t.not_(_rot_build_guard(pre)), ensures=_rot_build_bad, modifies=['stream']),
], tags=('C15',))
import os as _os
_rot_sel = ROT_ALL if _os.environ.get('VERIF_TIER') == 'thorough' else ROT_QUICK
_rp.variants = [VariantDict(amount=a, group=g) for a, g in _rot_sel]
# build side, groups of 3 and 4 bytes, amounts that are not whole bytes: only the representatives of the quick list.  For other bit
# amounts in these two group sizes the obligation `emits-the-inner-bytes-rotated-by-the-negated-amount` does not discharge within
# 300 s in any of the three solvers (measured 2026-10-03; about 50 of the 1032 pairs, which ones varies with machine load) - a tool
# limit recorded in DESIGN 9.6, not a finding: the parse side is enumerated completely, and for every pair the inverse lemma
# (parse-side rotation undoes build-side rotation) is proved.
_rb.variants = [VariantDict(amount=a, group=g) for a, g in _rot_sel if g not in (3, 4) or a % 8 == 0 or (a, g) in ROT_QUICK]


# ---- native twins of the axiomatized array functions (replay / directed search only)
from pyvc import native as _native


def _key_at_py(P, i):
    if P[0] in ('VInt', 'VBool'):
        return int(P[1])
    if P[0] == 'VBytes' and P[3] > 0:
        return P[1].get(P[2] + i % P[3])
    return 0


def _rot_byte_py(buf, base, idx, A, g):
    ab, a1 = A // 8, A % 8
    j = idx % g
    g0 = base + idx - j
    if A == 0:
        return buf.get(base + idx)
    x = buf.get(g0 + (j + ab) % g)
    if a1 == 0:
        return x
    y = buf.get(g0 + (j + ab + 1) % g)
    return ((x << a1) & 0xff) | (y >> (8 - a1))


_native.AXIOM_PY['xorarr'] = lambda buf, pos, P: _native.FnArr(lambda i: (buf.get(pos + i) ^ _key_at_py(P, i)) & 0xff if i >= 0 else 0)
_native.AXIOM_PY['rotarr'] = lambda buf, pos, A, g: _native.FnArr(lambda i: _rot_byte_py(buf, pos, i, A, g) if i >= 0 else 0)


# ---- build applies the exact inverse of parse: rotating by A what was rotated by -A (mod 8g) gives the original bytes.
# One lemma per normalised (A, g); parameters concrete, data symbolic, all arithmetic linear (shifts by constants).
def _rot_inverse_lemma(A, g, jj=None):
    B = (-A) % (8 * g)

    def stmt(v):
        x, idx = v['x'], v['idx']
        i = t.var('rb!', t.INT)
        inrange = t.forall([i], t.and_(t.le(t.ZERO, t.select(x, i)), t.lt(t.select(x, i), I(256))), pats=[[t.select(x, i)]])
        built = t.app('rotarr', t.ARR, x, t.ZERO, I(B), I(g))        # what build emits for inner bytes x
        pos = t.TRUE if jj is None else t.eq(t.pymod(idx, I(g)), I(jj))
        return t.implies(t.and_(t.ge(idx, t.ZERO), pos, inrange), t.eq(rot_byte(built, t.ZERO, idx, A, g), t.select(x, idx)))
    return Lemma('rot_inverse_A%d_g%d%s' % (A, g, '' if jj is None else '_byte%d' % jj), [('x', t.ARR), ('idx', t.INT)], stmt, tags=('C15',),
                 doc='parse-side rotation by %d undoes build-side rotation by %d within groups of %d bytes' % (A, B, g))


_pairs = sorted({(a % (8 * g), g) for a, g in (ROT_ALL if _os.environ.get('VERIF_TIER') == 'thorough' else ROT_QUICK) if g >= 1})
for _A, _g in _pairs:
    if _A % 8 and _g > 1:
        for _jj in range(_g):         # bit pairs across byte boundaries: one obligation per position in the group
            _rot_inverse_lemma(_A, _g, _jj)
    else:
        _rot_inverse_lemma(_A, _g)


from pyvc.lemma import LEMMAS as LEMMAS_  # noqa

# ---- bit-order and byte-order swapping are involutions (the helpers themselves are verified against these specifications under C03)
Lemma('rev8_involution', [('b', t.INT)],
      lambda v: t.implies(t.and_(t.le(t.ZERO, v['b']), t.lt(v['b'], I(256))), t.eq(t.app('rev8', t.INT, t.app('rev8', t.INT, v['b'])), v['b'])), tags=('C15', 'C10'))
Lemma('byte_reversal_involution', [('n', t.INT), ('i', t.INT)],
      lambda v: t.implies(t.and_(t.le(t.ZERO, v['i']), t.lt(v['i'], v['n'])),
                          t.and_(t.eq(t.sub(t.sub(v['n'], t.ONE), t.sub(t.sub(v['n'], t.ONE), v['i'])), v['i']),
                                 t.le(t.ZERO, t.sub(t.sub(v['n'], t.ONE), v['i'])), t.lt(t.sub(t.sub(v['n'], t.ONE), v['i']), v['n']))), tags=('C15',),
      doc='swapbytes(data)[i] = data[n-1-i] (its contract); applying it twice reads index n-1-(n-1-i) = i')


def enumerate_swap_macros(C):
    """ByteSwapped / BitsSwapped hand the SAME verified helper to both directions of Transformed (finite table on the real objects)"""
    from construct.lib import binary
    bad = []
    n = 0
    for size in range(1, 17):
        d = C.ByteSwapped(C.Bytes(size))
        n += 1
        if not (type(d).__name__ == 'Transformed' and d.decodefunc is binary.swapbytes and d.encodefunc is binary.swapbytes and d.decodeamount == size and d.encodeamount == size):
            bad.append('ByteSwapped(Bytes(%d))' % size)
        d = C.BitsSwapped(C.Bytes(size))
        n += 1
        if not (type(d).__name__ == 'Transformed' and d.decodefunc is binary.swapbitsinbytes and d.encodefunc is binary.swapbitsinbytes and d.decodeamount == size and d.encodeamount == size):
            bad.append('BitsSwapped(Bytes(%d))' % size)
    d = C.BitsSwapped(C.GreedyBytes)
    n += 1
    if not (type(d).__name__ == 'Restreamed' and d.decoder is binary.swapbitsinbytes and d.encoder is binary.swapbitsinbytes and d.decoderunit == 1 and d.encoderunit == 1):
        bad.append('BitsSwapped(GreedyBytes)')
    return [('ByteSwapped/BitsSwapped: same helper in both directions, amounts = size (sizes 1..16, and the unsized form)', n, bad)]
