"""Byte transforms (C15, and C08 for the regions they create): ProcessXor, ProcessRotateLeft, plus the delimiters that
compute their region from the data: NullStripped, NullTerminated.

The transformed byte string is named by an axiomatized array function (its pointwise definition is added wherever the term
occurs), so that a contract can say: the inner construct is presented with exactly this string (interface functions applied
to it) - read-locality of parsing lets the solver identify it with the array the code actually built."""
from pyvc import terms as t, prelude, streams
from pyvc.terms import I, S
from pyvc.values import *  # noqa
from pyvc.contract import Case, rk_dyn
from pyvc.exec import LoopSpec
from .prims import fcontract, S_, generic_raise, buffer_same, _avail, _param_int
from .wrappers import Sub, Region, result_is, Empty, _abs_base
from .specs import forall_range

T = ('C15', 'C08', 'C01', 'C02')

# xorarr(buf, pos, key): i -> buf[pos+i] ^ key_i  where key is a Val: an int (every byte) or bytes (cycled; empty = identity)
prelude.declare_fun('xorarr', [t.ARR, t.INT, t.VAL], t.ARR)


def key_at(P, i):
    plen = t.app('blen', t.INT, P)
    cyc = t.select(t.app('barr', t.ARR, P), t.add(t.app('boff', t.INT, P), t.T(t.INT, 'mod', (i, plen))))
    return t.ite(t.app('isint', t.BOOL, P), t.app('toint', t.INT, P), t.ite(t.gt(plen, t.ZERO), cyc, t.ZERO))


def _xorarr_axioms(x):
    buf, pos, P = x.args
    i = t.var('xa!', t.INT)
    return [t.forall([i], t.implies(t.ge(i, t.ZERO), t.eq(t.select(x, i), t.app('bxor', t.INT, t.select(buf, t.add(pos, i)), key_at(P, i)))), pats=[[t.select(x, i)]])]


prelude.AXIOMATIZED['xorarr'] = _xorarr_axioms


def _pad_val(pre):
    """value of the key parameter in the entry context"""
    eng = pre.eng
    p = pre.self.fields['padfunc']
    iface = eng.models.interface
    H, D = pre.st.ghost['H'], pre.st.ghost['D']
    c = pre.obj('context').addr
    const = iface.param_const(eng, p, pre.st)
    return t.ite(p.callable_t, t.app('ev_val', t.VAL, p.ident, H, D, c), eng.to_dyn(const, pre.st))


def _xor_region(pre):
    o = S_(pre)
    P = _pad_val(pre)
    n = _avail(o)
    r = Region.__new__(Region)
    r.buf = t.app('xorarr', t.ARR, o.buf, o.pos, P)
    r.len, r.pos, r.base, r.offset = n, t.ZERO, t.add(o.pos, _abs_base(o)), t.add(o.pos, _abs_base(o))
    return r


def _px_parse_ok(pre, post):
    o, o2 = S_(pre), post.obj('stream')
    inner = Sub(pre, 'subcon', o=_xor_region(pre))
    return [('inner-construct-sees-the-rest-of-the-stream-xored-with-the-cycled-key-and-its-value-is-returned', result_is(post, inner.val), ('C15', 'C08')),
            ('outer-stream-read-to-its-end', t.eq(o2.pos, t.add(o.pos, _avail(o))), ('C15', 'C08')),
            ('buffer-unchanged', buffer_same(pre, post), ('C17', 'C08'))]


fcontract('ProcessXor', '_parse', [
    Case('ok', 'return', lambda pre: Sub(pre, 'subcon', o=_xor_region(pre)).ok, ensures=_px_parse_ok, rkind=rk_dyn, modifies=['stream']),
    Case('fails', 'raise', lambda pre: t.not_(Sub(pre, 'subcon', o=_xor_region(pre)).ok), ensures=generic_raise, modifies=['stream']),
], tags=T, requires=lambda pre: [('key-is-int-or-bytes', t.or_(t.app('isint', t.BOOL, _pad_val(pre)), t.app('(_ is VBytes)', t.BOOL, _pad_val(pre))))])


def _px_build_ok(pre, post):
    o, o2 = S_(pre), post.obj('stream')
    P = _pad_val(pre)
    s = Sub(pre, 'subcon', o=Empty, obj=pre['obj'].t, kind='build')
    i = t.var('i!', t.INT)
    written = forall_range(i, o.pos, t.add(o.pos, s.len), t.eq(t.select(o2.buf, i), t.app('bxor', t.INT, t.select(s.bytes, t.sub(i, o.pos)), key_at(P, t.sub(i, o.pos)))),
                           [[t.select(o2.buf, i)]])
    return [('advances-by-the-inner-length', t.eq(o2.pos, t.add(o.pos, s.len)), ('C15', 'C05')),
            ('emits-the-inner-bytes-xored-with-the-cycled-key', written, ('C15',)),
            ('returns-inner-build-value', result_is(post, s.ret), ('C15', 'C01'))]


fcontract('ProcessXor', '_build', [
    Case('ok', 'return', lambda pre: Sub(pre, 'subcon', o=Empty, obj=pre['obj'].t, kind='build').ok, ensures=_px_build_ok, rkind=rk_dyn, modifies=['stream']),
    Case('fails', 'raise', lambda pre: t.not_(Sub(pre, 'subcon', o=Empty, obj=pre['obj'].t, kind='build').ok), ensures=generic_raise, modifies=['stream']),
], tags=T, requires=lambda pre: [('key-is-int-or-bytes', t.or_(t.app('isint', t.BOOL, _pad_val(pre)), t.app('(_ is VBytes)', t.BOOL, _pad_val(pre))))])

# xor with the same key is an involution on bytes (8-bit vectors): the inverse-transform lemma of C15
from pyvc.lemma import Lemma
Lemma('bxor_involution', [('a', t.INT), ('k', t.INT)],
      lambda v: t.implies(t.and_(t.le(t.ZERO, v['a']), t.lt(v['a'], I(256)), t.le(t.ZERO, v['k']), t.lt(v['k'], I(256))),
                          t.eq(t.app('bxor', t.INT, t.app('bxor', t.INT, v['a'], v['k']), v['k']), v['a'])), tags=('C15',))
Lemma('bxor_zero', [('a', t.INT)],
      lambda v: t.implies(t.and_(t.le(t.ZERO, v['a']), t.lt(v['a'], I(256))), t.eq(t.app('bxor', t.INT, v['a'], t.ZERO), v['a'])), tags=('C15',))
