"""Contracts for the bit/byte regrouping helpers of construct/lib/binary.py and for construct/lib/bitstream.py
(C10, C15, C12): bytes2bits, bits2bytes, swapbytesinbits, swapbitsinbytes, RestreamedBytesIO.close."""
from pyvc import terms as t, prelude, streams
from pyvc.terms import I, S
from pyvc.values import *  # noqa
from pyvc.contract import FnContract, Case, register, rk_bytes, rk_none, rk_int
from pyvc.exec import LoopSpec
from . import tables  # noqa  (registers the table models)
from .tables import bit
from .binary import setup_fn, LIB
from .specs import forall_range, isbits, forall_view

T = ('C10', 'C12', 'C15', 'C01', 'C02', 'C03')


# ------------------------------------------------------------------------------------------------ bytes2bits
def _b2b_ensures(pre, post):
    d, r = pre['data'], post.result
    i = t.var('i!', t.INT)
    cl = [('length-is-8n', t.eq(r.len, t.mul(I(8), d.len)))]
    for j in range(8):
        cl.append(('bit-%d-of-every-byte' % j, forall_range(i, t.ZERO, d.len, t.eq(r.at(t.add(t.mul(I(8), i), I(j))), bit(d.at(i), 7 - j)),
                                                              [[d.at(i)]])))
    return cl


register(FnContract(LIB + ':bytes2bits', setup=setup_fn({'data': 'bytes'}), tags=T,
                    cases=[Case('ok', 'return', lambda pre: t.TRUE, ensures=_b2b_ensures, rkind=rk_bytes)]))


# ------------------------------------------------------------------------------------------------ bits2bytes
def isbits8(d):
    """every element of d is 0 or 1, stated group-wise (d[8k+j] for k < len/8, j < 8) - the shape in which both the code
    and the producers of bit strings (bytes2bits) speak about it"""
    k = t.var('k!', t.INT)
    return forall_range(k, t.ZERO, t.pyfloordiv(d.len, I(8)),
                        t.and_(*[t.and_(t.le(t.ZERO, d.at(t.add(t.mul(I(8), k), I(j)))), t.le(d.at(t.add(t.mul(I(8), k), I(j))), t.ONE)) for j in range(8)]),
                        [[d.at(t.mul(I(8), k))]])


def _bits_ok(pre):
    return isbits8(pre['data'])


def _bi2by_ensures(pre, post):
    d, r = pre['data'], post.result
    k = t.var('k!', t.INT)
    n8 = t.pyfloordiv(d.len, I(8))
    val = t.add(*[t.mul(I(2 ** (7 - j)), d.at(t.add(t.mul(I(8), k), I(j)))) for j in range(8)])
    return [('length-is-n-div-8', t.eq(r.len, n8)),
            ('each-byte-is-msb-first-value-of-its-8-bits', forall_range(k, t.ZERO, n8, t.eq(r.at(k), val), [[r.at(k)]]))]


register(FnContract(LIB + ':bits2bytes', setup=setup_fn({'data': 'bytes'}), tags=T,
                    cases=[Case('ok', 'return', lambda pre: t.and_(t.eq(t.pymod(pre['data'].len, I(8)), t.ZERO), _bits_ok(pre)), ensures=_bi2by_ensures, rkind=rk_bytes),
                           Case('length-not-multiple-of-8', 'raise', lambda pre: t.ne(t.pymod(pre['data'].len, I(8)), t.ZERO), exc='ValueError'),
                           Case('not-bits', 'raise', lambda pre: t.and_(t.eq(t.pymod(pre['data'].len, I(8)), t.ZERO), t.not_(_bits_ok(pre))), exc='KeyError')]))


# ------------------------------------------------------------------------------------------------ swapbytesinbits
def _sbib_ensures(pre, post):
    d, r = pre['data'], post.result
    m = t.pyfloordiv(d.len, I(8))

    def src(q):
        return t.add(t.mul(I(8), t.sub(t.sub(m, t.ONE), t.pyfloordiv(q, I(8)))), t.pymod(q, I(8)))
    return [('same-length', t.eq(r.len, d.len)),
            ('groups-of-8-in-reverse-order', forall_view(r, d.len, lambda q, e: t.eq(e, d.at(src(q)))))]


register(FnContract(LIB + ':swapbytesinbits', setup=setup_fn({'data': 'bytes'}), tags=T,
                    cases=[Case('ok', 'return', lambda pre: t.eq(t.pymod(pre['data'].len, I(8)), t.ZERO), ensures=_sbib_ensures, rkind=rk_bytes),
                           Case('length-not-multiple-of-8', 'raise', lambda pre: t.ne(t.pymod(pre['data'].len, I(8)), t.ZERO), exc='ValueError')]))


# ------------------------------------------------------------------------------------------------ swapbitsinbytes
def _sbb_ensures(pre, post):
    d, r = pre['data'], post.result
    i = t.var('i!', t.INT)
    return [('same-length', t.eq(r.len, d.len)),
            ('every-byte-bit-reversed', forall_range(i, t.ZERO, d.len, t.eq(r.at(i), t.app('rev8', t.INT, d.at(i))), [[r.at(i)]]))]


register(FnContract(LIB + ':swapbitsinbytes', setup=setup_fn({'data': 'bytes'}), tags=T,
                    cases=[Case('ok', 'return', lambda pre: t.TRUE, ensures=_sbb_ensures, rkind=rk_bytes)]))


# ------------------------------------------------------------------------------------------------ int2byte
register(FnContract('construct.lib.py3compat:int2byte', setup=setup_fn({'character': 'int'}), tags=T,
                    cases=[Case('ok', 'return', lambda pre: t.and_(t.le(t.ZERO, pre.int('character')), t.lt(pre.int('character'), I(256))),
                                ensures=lambda pre, post: [('one-byte', t.and_(t.eq(post.result.len, t.ONE), t.eq(post.result.at(t.ZERO), pre.int('character'))))], rkind=rk_bytes),
                           Case('out-of-range', 'raise', lambda pre: t.not_(t.and_(t.le(t.ZERO, pre.int('character')), t.lt(pre.int('character'), I(256)))), exc='KeyError')]))


# ------------------------------------------------------------------------------------------------ RestreamedBytesIO
BS = 'construct.lib.bitstream'


def rs_setup(eng, st, node, stream_model):
    sub = streams.symbolic_stream(eng, st, 'substream', stream_model)
    iface = eng.models.interface
    fields = {'substream': sub,
              'rbuffer': eng.fresh_bytes(st, 'rbuffer'), 'wbuffer': eng.fresh_bytes(st, 'wbuffer'),
              'sincereadwritten': VInt(fresh('sincereadwritten', t.INT)),
              'decoderunit': VInt(fresh('decoderunit', t.INT)), 'encoderunit': VInt(fresh('encoderunit', t.INT))}
    for fn in ('decoder', 'encoder'):
        ident = fresh('fn_' + fn, t.INT)
        fields[fn] = VFunc('self.' + fn, model=('model', lambda m, e, a, kw, s, n, _i=ident: iface.user_function(e, _i, 'bytes', a, kw, s)))
    selfv = st.alloc(OObject('RestreamedBytesIO', fields), 'object')
    args = {}
    for a in node.args.args[1:]:
        args[a.arg] = VDyn(fresh(a.arg, t.VAL))
    return selfv, args


def _rs_field(view, name):
    return view.st.get(view.self).fields[name]


def _rs_empty(pre):
    return t.and_(t.eq(_rs_field(pre, 'rbuffer').len, t.ZERO), t.eq(_rs_field(pre, 'wbuffer').len, t.ZERO))


register(FnContract(BS + ':RestreamedBytesIO.close', setup=rs_setup, tags=('C06', 'C10'),
                    cases=[Case('ok', 'return', _rs_empty, rkind=rk_none),
                           Case('leftover', 'raise', lambda pre: t.not_(_rs_empty(pre)), exc='ValueError')]))


def _rs_sub(view):
    return view.st.get(_rs_field(view, 'substream'))


def _rs_no_silent_short(pre, post):
    a, b = _rs_sub(pre), _rs_sub(post)
    if a.model != 'adv':
        return []
    return [('no-silent-short-write-of-substream', t.implies(t.not_(a.extra['__short'].t), t.not_(b.extra['__short'].t)), ('C06',))]


def rs_write_setup(eng, st, node, stream_model):
    selfv, args = rs_setup(eng, st, node, stream_model)
    args['data'] = eng.fresh_bytes(st, 'data')
    o = st.get(selfv)
    st.assume(t.ge(o.fields['encoderunit'].t, t.ONE))
    return selfv, args


def _rs_write_ok(pre, post):
    """the position this stream reports (tell: the units that passed through it; Padded / Aligned inside a streaming bit region compute
    their padding from it) advances by exactly the number of units accepted, however many encoded groups were flushed"""
    n = pre['data'].len if hasattr(pre['data'], 'len') else pre.st.get(pre['data']).len
    before, after = _rs_field(pre, 'sincereadwritten').t, _rs_field(post, 'sincereadwritten').t
    iv = post.result.t if isinstance(post.result, VInt) else None
    out = [('reported-position-advances-by-the-number-of-units-accepted', t.eq(after, t.add(before, n)), ('C10', 'C03'))]
    if iv is not None:
        out.append(('returns-the-number-of-units-accepted', t.eq(iv, n), ('C10', 'C03')))
    return out + _rs_no_silent_short(pre, post)


register(FnContract(BS + ':RestreamedBytesIO.tell', setup=rs_setup, tags=('C10', 'C03'),
                    cases=[Case('ok', 'return', lambda pre: t.TRUE, rkind=rk_int,
                                ensures=lambda pre, post: [('reports-the-units-that-passed-through', t.eq(post.result.t, _rs_field(pre, 'sincereadwritten').t) if isinstance(post.result, VInt) else t.FALSE, ('C10', 'C03'))])]))

_c = FnContract(BS + ':RestreamedBytesIO.write', setup=rs_write_setup, tags=('C06', 'C10'), stream_models=('adv', 'bytesio'),
                cases=[Case('ok', 'return', lambda pre: t.TRUE, ensures=_rs_write_ok, rkind=rk_int),
                       Case('substream-failed', 'raise', lambda pre: t.TRUE)])
def rs_read_setup(eng, st, node, stream_model):
    selfv, args = rs_setup(eng, st, node, stream_model)
    c = fresh('count', t.INT)
    args['count'] = VInt(c)
    o = st.get(selfv)
    st.assume(t.ge(o.fields['decoderunit'].t, t.ONE))
    return selfv, args


def _rs_read_ok(pre, post):
    """read(count) hands out exactly count decoded units and moves the reported position by count, or hands out nothing (the
    substream is exhausted) and leaves the position alone"""
    r = post.result
    ln = r.len if hasattr(r, 'len') else (post.st.get(r).len if isinstance(r, VRef) else None)
    if ln is None:
        return [('returns-bytes', t.FALSE, ('C10', 'C03'))]
    n = pre['count'].t
    before, after = _rs_field(pre, 'sincereadwritten').t, _rs_field(post, 'sincereadwritten').t
    return [('hands-out-exactly-count-units-or-nothing', t.or_(t.eq(ln, n), t.eq(ln, t.ZERO)), ('C10', 'C03')),
            ('reported-position-advances-by-what-was-handed-out', t.eq(after, t.add(before, ln)), ('C10', 'C03'))]


def _rs_fill_inv(L):
    return [('reported-position-untouched-while-filling', t.eq(L.obj('self').fields['sincereadwritten'].t, L.oldobj('self').fields['sincereadwritten'].t), ('C10', 'C03'))]


_r = FnContract(BS + ':RestreamedBytesIO.read', setup=rs_read_setup, tags=('C10', 'C03'), stream_models=('bytesio',),
                cases=[Case('ok', 'return', lambda pre: t.ge(pre['count'].t, t.ZERO), ensures=_rs_read_ok, rkind=rk_bytes),
                       Case('negative', 'raise', lambda pre: t.lt(pre['count'].t, t.ZERO), exc='ValueError'),
                       Case('substream-failed', 'raise', lambda pre: t.TRUE)])
_r.default_loop = LoopSpec(_rs_fill_inv, tags=('C10', 'C03'))
register(_r)


def _rs_flush_inv(L):
    # flushing complete groups to the substream does not move the position this stream reports
    return [('reported-position-untouched-while-flushing', t.eq(L.obj('self').fields['sincereadwritten'].t, L.oldobj('self').fields['sincereadwritten'].t), ('C10', 'C03'))]


_c.default_loop = LoopSpec(_rs_flush_inv, tags=('C06', 'C10', 'C03'))
register(_c)
