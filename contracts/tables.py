"""Module-level lookup tables of construct: modelled by their specification during symbolic execution, and checked entry
by entry against the imported module on every run (complete enumeration of a finite table: `table` obligations).

  BYTES2BITS_CACHE[b]      = the 8 bits of b, most significant first            (construct.lib.binary)
  BITS2BYTES_CACHE[bits]   = the byte whose MSB-first bits are `bits`
  SWAPBITSINBYTES_CACHE[b] = b with its 8 bits reversed
  INT2BYTE_CACHE[i]        = bytes([i])                                          (construct.lib.py3compat)
  ProcessRotateLeft.precomputed_single_rotations[a][i] = i rotated left by a within 8 bits   (a in 1..7)
"""
from pyvc import terms as t, prelude
from pyvc.terms import I
from pyvc.values import *  # noqa
from pyvc.state import OutOfReach

prelude.declare_fun('b2b_tbl', [t.INT], t.ARR)
prelude.define('rev8', """(define-fun rev8 ((b Int)) Int (+ (* 128 (mod b 2)) (* 64 (mod (div b 2) 2)) (* 32 (mod (div b 4) 2)) (* 16 (mod (div b 8) 2))
  (* 8 (mod (div b 16) 2)) (* 4 (mod (div b 32) 2)) (* 2 (mod (div b 64) 2)) (mod (div b 128) 2)))""",
               py=lambda b: int('{:08b}'.format(b)[::-1], 2))
prelude.define('rotl8', """(define-fun rotl8 ((i Int) (a Int) (p Int)) Int (+ (mod (* i p) 256) (div i (div 256 p))))""",
               doc='i rotated left within 8 bits by log2(p) positions; p = 2^a passed explicitly to stay linear')


def bit(n, k):
    return t.pymod(t.pyfloordiv(n, I(2 ** k)), I(2))


def b2b_axioms(b):
    """ground facts: the 8 elements of b2b_tbl(b) are the bits of b, MSB first"""
    arr = t.app('b2b_tbl', t.ARR, b)
    return [t.eq(t.select(arr, I(j)), bit(b, 7 - j)) for j in range(8)]


class Table:
    def __init__(self, name):
        self.name = name


class Bytes2Bits(Table):
    def lookup(self, eng, key, st):
        iv, ok = eng.as_int(key, st)
        if iv is None:
            return eng.raise_(st, 'KeyError', origin='BYTES2BITS_CACHE key')
        good, bad = eng.fork(st, t.and_(ok, t.le(t.ZERO, iv), t.lt(iv, I(256))))
        out = []
        if good is not None:
            arr = t.app('b2b_tbl', t.ARR, iv)
            for ax in b2b_axioms(iv):
                good.assume(ax)
            out.append((good, VBytes(arr, t.ZERO, I(8))))
        if bad is not None:
            out.extend(eng.raise_(bad, 'KeyError', origin='BYTES2BITS_CACHE key out of range'))
        return out


class Bits2Bytes(Table):
    def lookup(self, eng, key, st):
        b = eng.models.as_bytes(eng, key, st)
        if b is None:
            return eng.raise_(st, 'KeyError', origin='BITS2BYTES_CACHE key')
        bits = [b.at(I(j)) for j in range(8)]
        okc = t.and_(t.eq(b.len, I(8)), *[t.and_(t.le(t.ZERO, x), t.le(x, t.ONE)) for x in bits])
        good, bad = eng.fork(st, okc)
        out = []
        if good is not None:
            val = t.add(*[t.mul(I(2 ** (7 - j)), bits[j]) for j in range(8)])
            out.append((good, VInt(val)))
        if bad is not None:
            out.extend(eng.raise_(bad, 'KeyError', origin='BITS2BYTES_CACHE key is not 8 bits'))
        return out


class SwapBits(Table):
    def lookup(self, eng, key, st):
        iv, ok = eng.as_int(key, st)
        if iv is None:
            return eng.raise_(st, 'KeyError', origin='SWAPBITSINBYTES_CACHE key')
        good, bad = eng.fork(st, t.and_(ok, t.le(t.ZERO, iv), t.lt(iv, I(256))))
        out = []
        if good is not None:
            out.append((good, VInt(t.app('rev8', t.INT, iv))))
        if bad is not None:
            out.extend(eng.raise_(bad, 'KeyError', origin='SWAPBITSINBYTES_CACHE key out of range'))
        return out


class Int2Byte(Table):
    def lookup(self, eng, key, st):
        iv, ok = eng.as_int(key, st)
        if iv is None:
            return eng.raise_(st, 'KeyError', origin='INT2BYTE_CACHE key')
        good, bad = eng.fork(st, t.and_(ok, t.le(t.ZERO, iv), t.lt(iv, I(256))))
        out = []
        if good is not None:
            out.append((good, VBytes(t.store(t.const_arr(t.ZERO), t.ZERO, iv), t.ZERO, I(1))))
        if bad is not None:
            out.extend(eng.raise_(bad, 'KeyError', origin='INT2BYTE_CACHE key out of range'))
        return out


class SingleRotations(Table):
    """precomputed_single_rotations[amount] -> row; row[i] = rotl8(i, amount)"""

    def lookup(self, eng, key, st):
        iv, ok = eng.as_int(key, st)
        if iv is None or iv.op != 'int':
            raise OutOfReach('rotation table with a symbolic amount')
        a = iv.args[0]
        if not 1 <= a <= 7:
            return eng.raise_(st, 'KeyError', origin='precomputed_single_rotations key out of 1..7')
        return [(st, VFunc('rotrow%d' % a, model=('table', 'rotrow%d' % a)))]


class RotRow(Table):
    def __init__(self, a):
        self.a = a

    def lookup(self, eng, key, st):
        iv, ok = eng.as_int(key, st)
        if iv is None:
            return eng.raise_(st, 'TypeError', origin='list index')
        good, bad = eng.fork(st, t.and_(ok, t.le(I(-256), iv), t.lt(iv, I(256))))
        out = []
        if good is not None:
            idx = t.ite(t.lt(iv, t.ZERO), t.add(iv, I(256)), iv)
            p = 2 ** self.a
            out.append((good, VInt(t.add(t.pymod(t.mul(idx, I(p)), I(256)), t.pyfloordiv(idx, I(256 // p))))))
        if bad is not None:
            out.extend(eng.raise_(bad, 'IndexError', origin='rotation table index'))
        return out


TABLES = {
    'BYTES2BITS_CACHE': Bytes2Bits('BYTES2BITS_CACHE'),
    'BITS2BYTES_CACHE': Bits2Bytes('BITS2BYTES_CACHE'),
    'SWAPBITSINBYTES_CACHE': SwapBits('SWAPBITSINBYTES_CACHE'),
    'INT2BYTE_CACHE': Int2Byte('INT2BYTE_CACHE'),
    'ProcessRotateLeft.precomputed_single_rotations': SingleRotations('precomputed_single_rotations'),
}
for _a in range(1, 8):
    TABLES['rotrow%d' % _a] = RotRow(_a)


def enumerate_tables(C):
    """native, exhaustive check of every table against its specification -> list of (name, entries, mismatches)"""
    from construct.lib import binary, py3compat
    out = []
    bad = [b for b in range(256) if binary.BYTES2BITS_CACHE.get(b) != bytes((b >> (7 - j)) & 1 for j in range(8))]
    bad += ['extra keys'] if set(binary.BYTES2BITS_CACHE) != set(range(256)) else []
    out.append(('BYTES2BITS_CACHE', 256, bad))
    exp = {bytes((b >> (7 - j)) & 1 for j in range(8)): b for b in range(256)}
    out.append(('BITS2BYTES_CACHE', 256, [] if dict(binary.BITS2BYTES_CACHE) == exp else ['table differs']))
    bad = [b for b in range(256) if binary.SWAPBITSINBYTES_CACHE.get(b) != int('{:08b}'.format(b)[::-1], 2)]
    bad += ['extra keys'] if set(binary.SWAPBITSINBYTES_CACHE) != set(range(256)) else []
    out.append(('SWAPBITSINBYTES_CACHE', 256, bad))
    bad = [b for b in range(256) if py3compat.INT2BYTE_CACHE.get(b) != bytes([b])]
    bad += ['extra keys'] if set(py3compat.INT2BYTE_CACHE) != set(range(256)) else []
    out.append(('INT2BYTE_CACHE', 256, bad))
    rot = C.ProcessRotateLeft.precomputed_single_rotations
    bad = []
    for a in range(1, 8):
        row = rot.get(a)
        if row is None or list(row) != [((i << a) & 255) | (i >> (8 - a)) for i in range(256)]:
            bad.append(a)
    bad += ['extra keys'] if set(rot) != set(range(1, 8)) else []
    out.append(('ProcessRotateLeft.precomputed_single_rotations', 7 * 256, bad))
    enc = C.possiblestringencodings
    expect = dict(ascii=1, utf8=1, utf_8=1, u8=1, utf16=2, utf_16=2, u16=2, utf_16_be=2, utf_16_le=2, utf32=4, utf_32=4, u32=4, utf_32_be=4, utf_32_le=4)
    out.append(('possiblestringencodings', len(expect), [] if dict(enc) == expect else ['table differs']))
    return out

from pyvc.interface import Interface
Interface.TABLES = TABLES
