"""Directed native battery for C16: lazy vs eager parsing of the same bytes, for member lists mixing fixed-size, length-prefixed
and unsizable members (no cross references), under several access orders.  Only used to attach failing inputs to failed
obligations and as a labelled differential in the thorough tier."""
import io
import itertools


def members(C):
    return [('fixed', C.Int16ub, b'\x01\x02'), ('pref', C.Prefixed(C.Byte, C.GreedyBytes), b'\x02xy'), ('parr', C.PrefixedArray(C.Byte, C.Byte), b'\x02\x07\x08'),
            ('cstr', C.CString('ascii'), b'ab\x00'), ('byte', C.Byte, b'\x09'), ('vint', C.VarInt, b'\x85\x01'),
            # measures itself by reading its count, then cannot say the size of its elements: _actualsize raises after consuming
            ('parrs', C.PrefixedArray(C.Byte, C.CString('ascii')), b'\x02a\x00bc\x00')]


def _plain(C, v):
    if callable(v) and not isinstance(v, (dict, list)):
        v = v()
    if isinstance(v, dict):
        return {k: _plain(C, v[k]) for k in v.keys() if not (isinstance(k, str) and k.startswith('_'))}
    if isinstance(v, (list, tuple)):
        return [_plain(C, x) for x in v]
    return v


def run(C):
    fails, n = [], 0
    ms = members(C)
    # Lazy(x) followed by a sentinel: same value when forced, same final position
    for name, con, enc in ms:
        if name in ('cstr', 'vint', 'parrs'):
            continue        # Lazy needs a measurable member (documented limitation): unsizable members are only claimed for LazyStruct / LazyArray
        n += 1
        data = enc + b'\x55\x66'
        eager = C.Struct('a' / con, 'z' / C.Byte)
        lazy = C.Struct('a' / C.Lazy(con), 'z' / C.Byte)
        try:
            e = eager.parse(data)
            l = lazy.parse(data)
            if _plain(C, l.a) != _plain(C, e.a) or l.z != e.z:
                fails.append('Struct(a=Lazy(%s), z=Byte).parse(%r): a=%r z=%r, eager a=%r z=%r' % (name, data, _plain(C, l.a), l.z, _plain(C, e.a), e.z))
        except Exception as ex:
            fails.append('Struct(a=Lazy(%s), z=Byte).parse(%r) raises %s: %s' % (name, data, type(ex).__name__, str(ex)[:80]))
    # LazyStruct / LazyArray under access orders
    for combo in itertools.permutations(ms, 3):
        names = [c[0] for c in combo]
        data = b''.join(c[2] for c in combo) + b'\x77'
        eager = C.Struct(*[c[0] / c[1] for c in combo], 'z' / C.Byte)
        lazy = C.Struct('s' / C.LazyStruct(*[c[0] / c[1] for c in combo]), 'z' / C.Byte)
        # (members are Renamed here, which hides an own _actualsize; the bare form is exercised through LazyArray below)
        try:
            e = eager.parse(data)
        except Exception:
            continue
        for order in (names, names[::-1], [names[1], names[1], names[0], names[2]]):
            n += 1
            try:
                s = io.BytesIO(data)
                l = lazy.parse_stream(s)
                end = s.tell()
                got = {k: _plain(C, l.s[k]) for k in order}
                if any(got[k] != _plain(C, e[k]) for k in order) or l.z != e.z or end != len(data):
                    fails.append('LazyStruct(%s) access order %s: %r z=%r final position %d, eager %r z=%r final position %d' % (', '.join(names), order, got, l.z, end, {k: _plain(C, e[k]) for k in order}, e.z, len(data)))
            except Exception as ex:
                fails.append('LazyStruct(%s) access order %s raises %s: %s' % (', '.join(names), order, type(ex).__name__, str(ex)[:80]))
    for name, con, enc in ms:
        for order in ([0, 1, 2], [2, 1, 0], [1, 1, 0, 2, -1]):
            n += 1
            data = enc * 3 + b'\x77'
            try:
                e = C.Struct('s' / C.Array(3, con), 'z' / C.Byte).parse(data)
                s = io.BytesIO(data)
                l = C.Struct('s' / C.LazyArray(3, con), 'z' / C.Byte).parse_stream(s)
                end = s.tell()
                got = [_plain(C, l.s[i]) for i in order]
                if got != [_plain(C, e.s[i]) for i in order] or l.z != e.z or end != len(data):
                    fails.append('LazyArray(3, %s) access order %s: %r z=%r, eager %r z=%r' % (name, order, got, l.z, [_plain(C, e.s[i]) for i in order], e.z))
            except Exception as ex:
                fails.append('LazyArray(3, %s) access order %s raises %s: %s' % (name, order, type(ex).__name__, str(ex)[:80]))
    # lazy containers nested in lazy containers: the outer one skips the inner by its size, anonymous members included
    nested = [
        ('LazyArray(3, LazyStruct(Const, a=Byte))', C.LazyArray(3, C.LazyStruct(C.Const(b'\xaa'), 'a' / C.Byte)), C.Array(3, C.Struct(C.Const(b'\xaa'), 'a' / C.Byte)), b'\xaa\x01\xaa\x02\xaa\x03',
         lambda l, e: [_plain(C, l[i].a) for i in (2, 0, 1)] == [e[i].a for i in (2, 0, 1)]),
        ('LazyStruct(hdr=LazyStruct(Padding(2), x=Byte), b=Byte)', C.LazyStruct('hdr' / C.LazyStruct(C.Padding(2), 'x' / C.Byte), 'b' / C.Byte),
         C.Struct('hdr' / C.Struct(C.Padding(2), 'x' / C.Byte), 'b' / C.Byte), b'\x00\x00\x05\x06', lambda l, e: (l.b, l.hdr.x) == (e.b, e.hdr.x)),
    ]
    for name, lz, eg, data, same in nested:
        n += 1
        try:
            s1, s2 = io.BytesIO(data + b'\x77'), io.BytesIO(data + b'\x77')
            e = eg.parse_stream(s1)
            l = lz.parse_stream(s2)
            if not same(l, e) or s1.tell() != s2.tell():
                fails.append('%s.parse(%r): values or final position (%d) differ from the eager parse (%d)' % (name, data, s2.tell(), s1.tell()))
        except Exception as ex:
            fails.append('%s raises %s: %s' % (name, type(ex).__name__, str(ex)[:80]))
    # access during the enclosing parse must not disturb it
    n += 1
    try:
        d = C.Struct('s' / C.LazyStruct('a' / C.Byte, 'b' / C.Byte), 'peek' / C.Computed(lambda ctx: ctx.s.a), 'c' / C.Byte)
        r = d.parse(b'\x01\x02\x03')
        if r.c != 3 or r.peek != 1:
            fails.append('Struct(s=LazyStruct(a=Byte, b=Byte), peek=Computed(this.s.a), c=Byte).parse(b"\\x01\\x02\\x03"): c=%r (eager 3): the access moved the stream' % (r.c,))
    except Exception as ex:
        fails.append('access during the enclosing parse raises %s' % type(ex).__name__)
    return n, fails


if __name__ == '__main__':
    import construct
    n, fails = run(construct)
    print(n, 'cases;', len(fails), 'failures')
    for f in fails[:30]:
        print(' ', f[:260])
