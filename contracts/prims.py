"""Functional contracts of the primitive constructs against the wire-format specifications (C03), with the extent
clauses C05 / C06 (prefix rejection: running out of bytes is a StreamError) and the values C01/C02 lemmas consume.

VarInt   LEB128: groups of 7 bits, least significant first, bit 7 = continuation.
ZigZag   protobuf sign folding: x >= 0 -> 2x, x < 0 -> -2x-1.
Bytes / GreedyBytes / Flag / BytesInteger / BitsInteger / FormatField: see each contract.
"""
from pyvc import terms as t, prelude
from pyvc.terms import I, S
from pyvc.values import *  # noqa
from pyvc.contract import FnContract, Case, register, rk_dyn, rk_none
from pyvc.exec import LoopSpec
from pyvc.lemma import Lemma
from . import specs
from .specs import forall_range, pow2, llen, lall
from .classes import method_setup, path_clause, heap_frame, CORE

T = ('C03', 'C01', 'C02', 'C05', 'C06')
D = prelude.define

# first index after the LEB128 terminator scanning a[p:n], or -1 when the data ends first
D('leb_scan', """(define-fun-rec leb_scan ((a (Array Int Int)) (p Int) (n Int)) Int
  (ite (>= p n) (- 1) (ite (< (select a p) 128) (+ p 1) (leb_scan a (+ p 1) n))))""",
  py=lambda a, p, n: next((i + 1 for i in range(p, n) if a[i] < 128), -1))


def S_(pre):
    return pre.obj('stream')


def leb_scan(o):
    return t.app('leb_scan', t.INT, o.buf, o.pos, o.len)


def val7(a, lo, hi):
    return t.app('val7', t.INT, a, lo, hi)


def shr7(x, k):
    return t.app('shr7', t.INT, x, k)


def leb_len(x):
    return t.app('leb_len', t.INT, x)


def result_int(post):
    iv, ok = post.eng.as_int(post.result, post.st)
    return iv, ok


def size_is(post, term):
    iv, ok = result_int(post)
    return t.and_(ok, t.eq(iv, term))


def stream_error(post):
    return t.eq(post.exc.cls, I(post.eng.src.exc_code['StreamError']))


def buffer_same(pre, post):
    a, b = pre.obj('stream'), post.obj('stream')
    return t.and_(t.eq(a.buf, b.buf), t.eq(a.len, b.len))


def generic_raise(pre, post):
    return [('only-ConstructError-escapes', post.eng.exc_sub_term(post.exc.cls, 'ConstructError'), ('C06',)),
            ('error-path-extends-path-argument', path_clause(pre, post), ('C18',))]


LOOPS = {}      # qual -> loop specs, shared with the generic contracts of contracts/classes.py


def _with_length_clause(ensures):
    def f(pre, post):
        out = list(ensures(pre, post))
        if 'stream' in pre.args:
            o, o2 = pre.obj('stream'), post.obj('stream')
            if o.model != 'adv':
                # sequential builders only append at the current position: the stream grows to the final position if anything
                # was written (an empty write never extends an io.BytesIO)
                out.append(('stream-length-is-max-of-old-length-and-final-position',
                            t.eq(o2.len, t.ite(t.gt(o2.pos, o.pos), t.imax(o.len, o2.pos), o.len)), ('C01', 'C02', 'C05', 'C03')))
                i = t.var('i!', t.INT)
                out.append(('written-region-holds-byte-values',
                            forall_range(i, o.pos, o2.pos, t.and_(t.le(t.ZERO, t.select(o2.buf, i)), t.lt(t.select(o2.buf, i), I(256))), [[t.select(o2.buf, i)]]),
                            ('C01', 'C02', 'C03')))
        return out
    return f


def fcontract(cls, meth, cases, loops=None, lemmas=(), requires=None, sub_seq=True, tags=T, extra_fields=None, models=('bytesio',), instance_cls=None,
              sequential_build=True, foreign_errors=False):
    qual = '%s:%s.%s' % (CORE, cls, meth)
    if meth == '_build' and sequential_build:
        for case in cases:
            if case.kind == 'return':
                case.ensures = _with_length_clause(case.ensures)
    c = FnContract(qual, cases, requires=requires, loops=loops or {}, setup=method_setup(instance_cls or cls, extra_fields), tags=tags, lemmas=lemmas,
                   stream_models=models)
    c.iface = dict(sub_seq=sub_seq, params_total=True, foreign_errors=foreign_errors)
    c.modifies_heap = False
    c.heap_pure = False         # used at a call site, the scope heap afterwards is what the clauses say, nothing more
    if loops:
        LOOPS[qual] = loops
    return register(c)


# ================================================================================================ VarInt
def _vi_parse_ok(pre, post):
    o, o2 = S_(pre), post.obj('stream')
    end = leb_scan(o)
    iv, ok = result_int(post)
    return [('value-is-base128-little-endian', t.and_(ok, t.eq(iv, val7(o.buf, o.pos, end)))),
            ('consumes-through-terminator', t.eq(o2.pos, end)),
            ('buffer-unchanged', buffer_same(pre, post), ('C17', 'C08'))]


def _vi_l1_inv(L):
    pre = L.extra['pre']
    o0 = pre.obj('stream')
    o = L.obj('stream')
    acc = L.obj('acc')
    if o0.model == 'adv':
        return []
    return [('position', t.and_(t.le(o0.pos, o.pos), t.eq(o.pos, t.add(o0.pos, llen(acc))), t.eq(o.buf, o0.buf), t.eq(o.len, o0.len))),
            ('scan-continues', t.eq(t.app('leb_scan', t.INT, o0.buf, o0.pos, o0.len), t.app('leb_scan', t.INT, o0.buf, o.pos, o0.len))),
            ('groups-collected', lall(acc, lambda j, e: t.eq(e, t.pymod(t.select(o0.buf, t.add(o0.pos, j)), I(128)))))]


def _bytes_left(L):
    """termination measure of a scanning loop: the bytes left in the stream (no measure under the adversarial model)"""
    o = L.obj('stream')
    if getattr(o, 'model', None) == 'adv' or o.len is None:
        return None
    return t.sub(t.imax(o.len, o.pos), o.pos)


def _vi_l2_inv(L):
    pre = L.extra['pre']
    o0 = pre.obj('stream')
    acc = L.obj('acc')
    n = llen(acc)
    if o0.model == 'adv':
        return []
    return [('partial-value', t.eq(L['num'].t, val7(o0.buf, t.sub(t.add(o0.pos, n), L.k), t.add(o0.pos, n))))]


def _intlist(eng, st, name):
    ln = fresh(name + '_len', t.INT)
    st.assume(t.ge(ln, t.ZERO))
    return st.alloc(OList(arr=fresh(name + '_arr', t.ARR), ln=ln, ekind='int'), 'list')


fcontract('VarInt', '_parse', [
    Case('ok', 'return', lambda pre: t.ge(leb_scan(S_(pre)), t.ZERO), ensures=_vi_parse_ok, rkind=rk_dyn, modifies=['stream']),
    Case('truncated', 'raise', lambda pre: t.lt(leb_scan(S_(pre)), t.ZERO),
         ensures=lambda pre, post: [('running-out-of-bytes-is-StreamError', stream_error(post), ('C06', 'C03'))] + generic_raise(pre, post),
         modifies=['stream']),
], loops={'while True': LoopSpec(_vi_l1_inv, variant=_bytes_left, variant_tags=('C06',), tags=T, havoc_kinds={}, modifies=(), generic_ok=True),
          'for b in reversed(acc)': LoopSpec(_vi_l2_inv, tags=T, modifies=(), generic_ok=True)})


def _leb_byte(x, j, n):
    return t.add(t.pymod(shr7(x, j), I(128)), t.ite(t.lt(j, t.sub(n, t.ONE)), I(128), t.ZERO))


def _vi_build_ok(pre, post):
    o, o2 = S_(pre), post.obj('stream')
    x = t.app('toint', t.INT, pre['obj'].t)
    n = leb_len(x)
    j = t.var('j!', t.INT)
    return [('advances-by-group-count', t.eq(o2.pos, t.add(o.pos, n)))] + _leb_written(o, o2, x, n) + [
            ('returns-the-value', t.app('pyeq', t.BOOL, post.eng.to_dyn(post.result, post.st), pre['obj'].t))]


def _leb_written(o, o2, x, n):
    """the n = leb_len(x) bytes at o.pos are the LEB128 groups of x: continuation groups, then the final group"""
    j = t.var('j!', t.INT)
    last = t.sub(n, t.ONE)
    return [('writes-continuation-groups', forall_range(j, t.ZERO, last, t.eq(t.select(o2.buf, t.add(o.pos, j)), t.add(t.pymod(shr7(x, j), I(128)), I(128))),
                                                         [[t.select(o2.buf, t.add(o.pos, j))]])),
            ('writes-final-group', t.and_(t.ge(n, t.ONE), t.eq(t.select(o2.buf, t.add(o.pos, last)), t.pymod(shr7(x, last), I(128))), t.lt(shr7(x, last), I(128))))]


def _vi_build_inv(L):
    pre = L.extra['pre']
    x0 = t.app('toint', t.INT, pre['obj'].t)
    B = L.obj_of_kind('B', OBytearray)
    xv, okx = L.eng.as_int(L['x'], L.st)
    return [('x-is-int', okx),
            ('x-is-remaining-value', t.and_(t.eq(xv, shr7(x0, llen(B))), t.ge(xv, t.ZERO))),
            ('group-count', t.eq(leb_len(x0), t.add(llen(B), leb_len(xv)))),
            ('groups-written', lall(B, lambda j, e: t.eq(e, t.add(I(128), t.pymod(shr7(x0, j), I(128))))))]


fcontract('VarInt', '_build', [
    Case('ok', 'return', lambda pre: t.and_(t.app('isint', t.BOOL, pre['obj'].t), t.ge(t.app('toint', t.INT, pre['obj'].t), t.ZERO)),
         ensures=_vi_build_ok, rkind=rk_dyn, modifies=['stream']),
    Case('rejects', 'raise', lambda pre: t.not_(t.and_(t.app('isint', t.BOOL, pre['obj'].t), t.ge(t.app('toint', t.INT, pre['obj'].t), t.ZERO))),
         ensures=lambda pre, post: [('rejection-is-IntegerError', t.eq(post.exc.cls, I(post.eng.src.exc_code['IntegerError'])), ('C03',))] + generic_raise(pre, post)),
], loops={'while x > 127': LoopSpec(_vi_build_inv, variant=lambda L: L.eng.as_int(L['x'], L.st)[0], tags=T, variant_tags=('C06',), modifies=(), generic_ok=True)})


# ================================================================================================ ZigZag
def _zz_dec(u):
    return t.ite(t.eq(t.pymod(u, I(2)), t.ZERO), t.pyfloordiv(u, I(2)), t.neg(t.add(t.pyfloordiv(u, I(2)), t.ONE)))


def _zz_parse_ok(pre, post):
    o, o2 = S_(pre), post.obj('stream')
    end = leb_scan(o)
    iv, ok = result_int(post)
    return [('value-is-zigzag-of-varint', t.and_(ok, t.eq(iv, _zz_dec(val7(o.buf, o.pos, end))))),
            ('consumes-through-terminator', t.eq(o2.pos, end)),
            ('buffer-unchanged', buffer_same(pre, post), ('C17', 'C08'))]


fcontract('ZigZag', '_parse', [
    Case('ok', 'return', lambda pre: t.ge(leb_scan(S_(pre)), t.ZERO), ensures=_zz_parse_ok, rkind=rk_dyn, modifies=['stream']),
    Case('truncated', 'raise', lambda pre: t.lt(leb_scan(S_(pre)), t.ZERO),
         ensures=lambda pre, post: [('running-out-of-bytes-is-StreamError', stream_error(post), ('C06', 'C03'))] + generic_raise(pre, post), modifies=['stream']),
])


def _zz_enc(x):
    return t.ite(t.ge(x, t.ZERO), t.mul(I(2), x), t.sub(t.mul(I(-2), x), t.ONE))


def _zz_build_ok(pre, post):
    o, o2 = S_(pre), post.obj('stream')
    x = _zz_enc(t.app('toint', t.INT, pre['obj'].t))
    n = leb_len(x)
    j = t.var('j!', t.INT)
    return [('advances-by-group-count', t.eq(o2.pos, t.add(o.pos, n)))] + _leb_written(o, o2, x, n) + [
            ('returns-the-value', t.app('pyeq', t.BOOL, post.eng.to_dyn(post.result, post.st), pre['obj'].t))]


fcontract('ZigZag', '_build', [
    Case('ok', 'return', lambda pre: t.app('isint', t.BOOL, pre['obj'].t), ensures=_zz_build_ok, rkind=rk_dyn, modifies=['stream']),
    Case('rejects', 'raise', lambda pre: t.not_(t.app('isint', t.BOOL, pre['obj'].t)),
         ensures=lambda pre, post: [('rejection-is-IntegerError', t.eq(post.exc.cls, I(post.eng.src.exc_code['IntegerError'])), ('C03',))] + generic_raise(pre, post)),
])


# ================================================================================================ Bytes / GreedyBytes / Flag
def _param_int(pre, name):
    """value of an int parameter of self in the entry context (constant or expression)"""
    eng = pre.eng
    p = pre.self.fields[name]
    iface = eng.models.interface
    H, D = pre.st.ghost['H'], pre.st.ghost['D']
    c = pre.obj('context').addr
    const = iface.param_const(eng, p, pre.st)
    return t.ite(p.callable_t, t.app('ev_int', t.INT, p.ident, H, D, c), const.t)


def _avail(o):
    return t.imax(t.sub(o.len, o.pos), t.ZERO)


def _bytes_parse_ok(pre, post):
    o, o2 = S_(pre), post.obj('stream')
    n = _param_int(pre, 'length')
    r = post.result
    rb = r if isinstance(r, VBytes) else None
    cl = [('consumes-exactly-length', t.eq(o2.pos, t.add(o.pos, n))), ('buffer-unchanged', buffer_same(pre, post), ('C17', 'C08'))]
    if rb is not None:
        cl.insert(0, ('returns-next-length-bytes', t.and_(t.eq(rb.arr, o.buf), t.eq(rb.off, o.pos), t.eq(rb.len, n))))
    else:
        cl.insert(0, ('returns-next-length-bytes', t.FALSE))
    return cl


fcontract('Bytes', '_parse', [
    Case('ok', 'return', lambda pre: t.and_(t.ge(_param_int(pre, 'length'), t.ZERO), t.le(_param_int(pre, 'length'), _avail(S_(pre)))),
         ensures=_bytes_parse_ok, rkind=rk_dyn, modifies=['stream']),
    Case('short', 'raise', lambda pre: t.not_(t.and_(t.ge(_param_int(pre, 'length'), t.ZERO), t.le(_param_int(pre, 'length'), _avail(S_(pre))))),
         ensures=lambda pre, post: [('running-out-of-bytes-is-StreamError', stream_error(post), ('C06', 'C03'))] + generic_raise(pre, post), modifies=['stream']),
])

fcontract('Bytes', '_sizeof', [
    Case('ok', 'return', lambda pre: t.TRUE,
         ensures=lambda pre, post: [('size-is-length', size_is(post, _param_int(pre, 'length')), ('C05',))], rkind=rk_dyn),
], tags=('C05',))


def _flag_parse_ok(pre, post):
    o, o2 = S_(pre), post.obj('stream')
    r = post.result
    return [('true-iff-byte-nonzero', t.eq(post.eng.truth(r, post.st), t.ne(t.select(o.buf, o.pos), t.ZERO)) if isinstance(r, VBool) else t.FALSE),
            ('consumes-one-byte', t.eq(o2.pos, t.add(o.pos, t.ONE))), ('buffer-unchanged', buffer_same(pre, post), ('C17', 'C08'))]


fcontract('Flag', '_parse', [
    Case('ok', 'return', lambda pre: t.ge(_avail(S_(pre)), t.ONE), ensures=_flag_parse_ok, rkind=rk_dyn, modifies=['stream']),
    Case('short', 'raise', lambda pre: t.lt(_avail(S_(pre)), t.ONE),
         ensures=lambda pre, post: [('running-out-of-bytes-is-StreamError', stream_error(post), ('C06', 'C03'))] + generic_raise(pre, post), modifies=['stream']),
])


def _flag_build_ok(pre, post):
    o, o2 = S_(pre), post.obj('stream')
    return [('writes-01-for-truthy-00-for-falsy', t.eq(t.select(o2.buf, o.pos), t.ite(t.app('truthy', t.BOOL, pre['obj'].t), t.ONE, t.ZERO))),
            ('advances-by-one', t.eq(o2.pos, t.add(o.pos, t.ONE))),
            ('returns-the-value', t.eq(post.eng.to_dyn(post.result, post.st), pre['obj'].t))]


fcontract('Flag', '_build', [Case('ok', 'return', lambda pre: t.TRUE, ensures=_flag_build_ok, rkind=rk_dyn, modifies=['stream'])])


def _gb_parse_ok(pre, post):
    o, o2 = S_(pre), post.obj('stream')
    r = post.result
    ok = t.and_(t.eq(r.arr, o.buf), t.eq(r.off, o.pos), t.eq(r.len, _avail(o))) if isinstance(r, VBytes) else t.FALSE
    return [('returns-rest-of-stream', ok), ('position-at-end', t.eq(o2.pos, t.add(o.pos, _avail(o)))),
            ('buffer-unchanged', buffer_same(pre, post), ('C17', 'C08'))]


fcontract('GreedyBytes', '_parse', [Case('ok', 'return', lambda pre: t.TRUE, ensures=_gb_parse_ok, rkind=rk_dyn, modifies=['stream'])])


# ================================================================================================ Renamed (C18: the member name enters the path)
def _renamed_path(pre):
    name = pre.self.fields['name']
    from pyvc import prelude as _p
    _p.declare_fun('tostr', [t.VAL], t.STR)
    return t.str_concat(pre['path'].t, S(' -> '), t.app('tostr', t.STR, name.t))


def _renamed_raise(pre, post):
    e = post.exc
    if isinstance(e.path, VStr) and e.path.t is not None:
        goal = t.str_prefixof(_renamed_path(pre), e.path.t)
    else:
        goal = t.FALSE
    return [('error-path-includes-this-member-name', goal, ('C18',))]


for _m in ('_parse', '_build', '_sizeof'):
    fcontract('Renamed', _m, [
        Case('returns', 'return', lambda pre: t.TRUE, rkind=rk_dyn, modifies=['stream'] if _m != '_sizeof' else []),
        Case('raises', 'raise', lambda pre: t.TRUE, ensures=_renamed_raise, modifies=['stream'] if _m != '_sizeof' else []),
    ], tags=('C18',), sub_seq=False, models=('bytesio',), sequential_build=False)
    contract_ = None


# ================================================================================================ BytesInteger / BitsInteger
def le_val(a, lo, hi):
    return t.app('le_val', t.INT, a, lo, hi)


from pyvc import structmodel  # noqa  (defines le_val)
from .specs import be_val, bits_val

def _param_truth(pre, name):
    eng = pre.eng
    p = pre.self.fields[name]
    iface = eng.models.interface
    H, D = pre.st.ghost['H'], pre.st.ghost['D']
    c = pre.obj('context').addr
    const = iface.param_const(eng, p, pre.st)
    return t.ite(p.callable_t, t.app('truthy', t.BOOL, t.app('ev_val', t.VAL, p.ident, H, D, c)), eng.truth(const, pre.st))


def _bi_value(pre, bits=False):
    """reference value of the integer field at the current position"""
    o = S_(pre)
    L = _param_int(pre, 'length')
    sw = _param_truth(pre, 'swapped')
    sg = pre.eng.truth(pre.self.fields['signed'], pre.st)
    if not bits:
        u = t.ite(sw, le_val(o.buf, o.pos, t.add(o.pos, L)), be_val(o.buf, o.pos, t.add(o.pos, L)))
        top = t.ite(sw, t.select(o.buf, t.sub(t.add(o.pos, L), t.ONE)), t.select(o.buf, o.pos))
        return t.ite(t.and_(sg, t.ge(top, I(128))), t.sub(u, pow2(t.mul(I(8), L))), u)
    raise NotImplementedError


def _bytesint_ok(pre):
    L = _param_int(pre, 'length')
    return t.and_(t.ge(L, t.ONE), t.le(L, _avail(S_(pre))))


def _bytesint_parse_ok(pre, post):
    o, o2 = S_(pre), post.obj('stream')
    L = _param_int(pre, 'length')
    iv, ok = result_int(post)
    return [('consumes-exactly-length', t.eq(o2.pos, t.add(o.pos, L))),
            ('value-is-twos-complement-in-stated-byte-order', t.and_(ok, t.eq(iv, _bi_value(pre)))),
            ('buffer-unchanged', buffer_same(pre, post), ('C17', 'C08'))]


def _bytesint_parse_bad(pre, post):
    L = _param_int(pre, 'length')
    return [('running-out-of-bytes-is-StreamError', t.implies(t.ge(L, t.ONE), stream_error(post)), ('C06', 'C03'))] + generic_raise(pre, post)


fcontract('BytesInteger', '_parse', [
    Case('ok', 'return', _bytesint_ok, ensures=_bytesint_parse_ok, rkind=rk_dyn, modifies=['stream']),
    Case('rejects', 'raise', lambda pre: t.not_(_bytesint_ok(pre)), ensures=_bytesint_parse_bad, modifies=['stream']),
])

fcontract('BytesInteger', '_sizeof', [
    Case('ok', 'return', lambda pre: t.TRUE,
         ensures=lambda pre, post: [('size-is-length', size_is(post, _param_int(pre, 'length')), ('C05',))], rkind=rk_dyn),
], tags=('C05',))
fcontract('BitsInteger', '_sizeof', [
    Case('ok', 'return', lambda pre: t.TRUE,
         ensures=lambda pre, post: [('size-is-length', size_is(post, _param_int(pre, 'length')), ('C05',))], rkind=rk_dyn),
], tags=('C05',))


def _bytesint_range(pre):
    x = t.app('toint', t.INT, pre['obj'].t)
    L = _param_int(pre, 'length')
    sg = pre.eng.truth(pre.self.fields['signed'], pre.st)
    half = pow2(t.sub(t.mul(I(8), L), t.ONE))
    return t.and_(t.app('isint', t.BOOL, pre['obj'].t), t.ge(L, t.ONE),
                  t.ite(sg, t.and_(t.le(t.neg(half), x), t.lt(x, half)), t.and_(t.le(t.ZERO, x), t.lt(x, pow2(t.mul(I(8), L))))))


def _bytesint_build_ok(pre, post):
    o, o2 = S_(pre), post.obj('stream')
    L = _param_int(pre, 'length')
    x = t.app('toint', t.INT, pre['obj'].t)
    sw = _param_truth(pre, 'swapped')
    u = t.ite(t.lt(x, t.ZERO), t.add(x, pow2(t.mul(I(8), L))), x)
    written = t.ite(sw, le_val(o2.buf, o.pos, t.add(o.pos, L)), be_val(o2.buf, o.pos, t.add(o.pos, L)))
    return [('advances-by-length', t.eq(o2.pos, t.add(o.pos, L))),
            ('writes-twos-complement-in-stated-byte-order', t.eq(written, u)),
            ('returns-the-value', t.app('pyeq', t.BOOL, post.eng.to_dyn(post.result, post.st), pre['obj'].t))]


fcontract('BytesInteger', '_build', [
    Case('ok', 'return', _bytesint_range, ensures=_bytesint_build_ok, rkind=rk_dyn, modifies=['stream']),
    Case('rejects', 'raise', lambda pre: t.not_(_bytesint_range(pre)),
         ensures=lambda pre, post: [('rejection-is-IntegerError', t.eq(post.exc.cls, I(post.eng.src.exc_code['IntegerError'])), ('C03',))] + generic_raise(pre, post)),
], lemmas=['pow2_pos'])


# ------------------------------------------------------------------------------------------------ BitsInteger
# swapgroups(buf, pos, L): the L bits at pos with their 8-bit groups in reverse order (L a multiple of 8):
#   i -> buf[pos + 8*(L/8 - 1 - i div 8) + i mod 8]
prelude.declare_fun('swapgroups', [t.ARR, t.INT, t.INT], t.ARR)


def _swapgroups_axioms(x):
    buf, pos, L = x.args
    i = t.var('sg!', t.INT)
    src = t.add(pos, t.add(t.mul(I(8), t.sub(t.sub(t.pyfloordiv(L, I(8)), t.ONE), t.pyfloordiv(i, I(8)))), t.pymod(i, I(8))))
    return [t.forall([i], t.implies(t.and_(t.le(t.ZERO, i), t.lt(i, L)), t.eq(t.select(x, i), t.select(buf, src))), pats=[[t.select(x, i)]])]


prelude.AXIOMATIZED['swapgroups'] = _swapgroups_axioms
from .specs import isbits
from .bitstream import isbits8  # noqa


def _region(pre):
    o = S_(pre)
    return VBytes(o.buf, o.pos, _param_int(pre, 'length'))


def _bitsint_ok(pre):
    L = _param_int(pre, 'length')
    sw = _param_truth(pre, 'swapped')
    return t.and_(t.ge(L, t.ONE), t.le(L, _avail(S_(pre))), t.implies(sw, t.eq(t.pymod(L, I(8)), t.ZERO)))


def _bitsint_parse_ok(pre, post):
    o, o2 = S_(pre), post.obj('stream')
    L = _param_int(pre, 'length')
    sw = _param_truth(pre, 'swapped')
    sg = pre.eng.truth(pre.self.fields['signed'], pre.st)
    iv, ok = result_int(post)
    u = bits_val(o.buf, o.pos, t.add(o.pos, L))
    val = t.ite(t.and_(sg, t.ne(t.select(o.buf, o.pos), t.ZERO)), t.sub(u, pow2(L)), u)
    G = t.app('swapgroups', t.ARR, o.buf, o.pos, L)
    us = bits_val(G, t.ZERO, L)
    vals = t.ite(t.and_(sg, t.ne(t.select(G, t.ZERO), t.ZERO)), t.sub(us, pow2(L)), us)
    return [('consumes-exactly-length', t.eq(o2.pos, t.add(o.pos, L))),
            ('result-is-int', ok),
            ('value-is-msb-first-twos-complement', t.implies(t.and_(t.not_(sw), isbits(_region(pre))), t.eq(iv, val))),
            ('byte-swapped-value-is-that-of-the-8-bit-groups-in-reverse-order', t.implies(t.and_(sw, isbits(_region(pre))), t.eq(iv, vals)), ('C10', 'C03')),
            ('buffer-unchanged', buffer_same(pre, post), ('C17', 'C08'))]


fcontract('BitsInteger', '_parse', [
    Case('ok', 'return', _bitsint_ok, ensures=_bitsint_parse_ok, rkind=rk_dyn, modifies=['stream']),
    Case('rejects', 'raise', lambda pre: t.not_(_bitsint_ok(pre)),
         ensures=lambda pre, post: [('running-out-of-bytes-is-StreamError',
                                     t.implies(t.and_(t.ge(_param_int(pre, 'length'), t.ONE), t.gt(_param_int(pre, 'length'), _avail(S_(pre)))), stream_error(post)), ('C06', 'C03'))] + generic_raise(pre, post),
         modifies=['stream']),
], tags=T + ('C10',))


def _bitsint_range(pre):
    x = t.app('toint', t.INT, pre['obj'].t)
    L = _param_int(pre, 'length')
    sw = _param_truth(pre, 'swapped')
    sg = pre.eng.truth(pre.self.fields['signed'], pre.st)
    half = pow2(t.sub(L, t.ONE))
    return t.and_(t.app('isint', t.BOOL, pre['obj'].t), t.ge(L, t.ONE), t.implies(sw, t.eq(t.pymod(L, I(8)), t.ZERO)),
                  t.ite(sg, t.and_(t.le(t.neg(half), x), t.lt(x, half)), t.and_(t.le(t.ZERO, x), t.lt(x, pow2(L)))))


def _bitsint_build_ok(pre, post):
    o, o2 = S_(pre), post.obj('stream')
    L = _param_int(pre, 'length')
    x = t.app('toint', t.INT, pre['obj'].t)
    sw = _param_truth(pre, 'swapped')
    N = t.ite(t.lt(x, t.ZERO), t.add(x, pow2(L)), x)
    j = t.var('j!', t.INT)
    digits = forall_range(j, t.ZERO, L, t.eq(t.select(o2.buf, t.add(o.pos, j)), t.pymod(specs.shr(N, t.sub(t.sub(L, t.ONE), j)), I(2))),
                          [[t.select(o2.buf, t.add(o.pos, j))]])
    k = t.var('k!', t.INT)
    srcbit = t.add(t.mul(I(8), t.sub(t.sub(t.pyfloordiv(L, I(8)), t.ONE), t.pyfloordiv(k, I(8)))), t.pymod(k, I(8)))
    sdigits = forall_range(k, t.ZERO, L, t.eq(t.select(o2.buf, t.add(o.pos, k)), t.pymod(specs.shr(N, t.sub(t.sub(L, t.ONE), srcbit)), I(2))),
                           [[t.select(o2.buf, t.add(o.pos, k))]])
    return [('advances-by-length', t.eq(o2.pos, t.add(o.pos, L))),
            ('writes-msb-first-twos-complement-digits', t.implies(t.not_(sw), digits)),
            ('byte-swapped-writes-the-8-bit-groups-of-those-digits-in-reverse-order', t.implies(sw, sdigits), ('C10', 'C03')),
            ('returns-the-value', t.app('pyeq', t.BOOL, post.eng.to_dyn(post.result, post.st), pre['obj'].t))]


fcontract('BitsInteger', '_build', [
    Case('ok', 'return', _bitsint_range, ensures=_bitsint_build_ok, rkind=rk_dyn, modifies=['stream']),
    Case('rejects', 'raise', lambda pre: t.not_(_bitsint_range(pre)),
         ensures=lambda pre, post: [('rejection-is-IntegerError', t.eq(post.exc.cls, I(post.eng.src.exc_code['IntegerError'])), ('C03',))] + generic_raise(pre, post)),
], tags=T + ('C10',), lemmas=['pow2_pos'])


# ------------------------------------------------------------------------------------------------ Bytes / GreedyBytes build
def _bytes_build_guard(pre):
    """accepted values: bytes of exactly `length` bytes (ints and bytearrays are converted first; see the evidence for what is covered)"""
    v = pre['obj'].t
    L = _param_int(pre, 'length')
    return t.and_(t.app('(_ is VBytes)', t.BOOL, v), t.ge(L, t.ZERO), t.eq(t.app('blen', t.INT, v), L))


def _bytes_build_ok(pre, post):
    o, o2 = S_(pre), post.obj('stream')
    v = pre['obj'].t
    L = _param_int(pre, 'length')
    i = t.var('i!', t.INT)
    written = forall_range(i, o.pos, t.add(o.pos, L), t.eq(t.select(o2.buf, i), t.select(t.app('barr', t.ARR, v), t.add(t.app('boff', t.INT, v), t.sub(i, o.pos)))),
                           [[t.select(o2.buf, i)]])
    return [('advances-by-length', t.eq(o2.pos, t.add(o.pos, L))), ('writes-the-bytes', written),
            ('returns-the-bytes', t.app('pyeq', t.BOOL, post.eng.to_dyn(post.result, post.st), v))]


def _bytes_build_bad(pre, post):
    v = pre['obj'].t
    isb = t.app('(_ is VBytes)', t.BOOL, v)
    return [('wrong-length-bytes-is-StreamError', t.implies(isb, stream_error(post)), ('C03',)),
            ('error-path-extends-path-argument', t.implies(post.eng.exc_sub_term(post.exc.cls, 'ConstructError'), path_clause(pre, post)), ('C18',))]


fcontract('Bytes', '_build', [
    Case('ok-bytes', 'return', _bytes_build_guard, ensures=_bytes_build_ok, rkind=rk_dyn, modifies=['stream']),
    Case('other-values', 'return', lambda pre: t.not_(t.app('(_ is VBytes)', t.BOOL, pre['obj'].t)), rkind=rk_dyn, modifies=['stream']),
    Case('rejects', 'raise', lambda pre: t.not_(_bytes_build_guard(pre)), ensures=_bytes_build_bad, modifies=['stream']),
])


def _gb_build_ok(pre, post):
    o, o2 = S_(pre), post.obj('stream')
    v = pre['obj'].t
    L = t.app('blen', t.INT, v)
    i = t.var('i!', t.INT)
    written = forall_range(i, o.pos, t.add(o.pos, L), t.eq(t.select(o2.buf, i), t.select(t.app('barr', t.ARR, v), t.add(t.app('boff', t.INT, v), t.sub(i, o.pos)))),
                           [[t.select(o2.buf, i)]])
    return [('advances-by-len', t.eq(o2.pos, t.add(o.pos, L))), ('writes-the-bytes', written),
            ('returns-the-bytes', t.app('pyeq', t.BOOL, post.eng.to_dyn(post.result, post.st), v))]


fcontract('GreedyBytes', '_build', [
    Case('ok-bytes', 'return', lambda pre: t.app('(_ is VBytes)', t.BOOL, pre['obj'].t), ensures=_gb_build_ok, rkind=rk_dyn, modifies=['stream']),
    Case('other-values', 'return', lambda pre: t.not_(t.app('(_ is VBytes)', t.BOOL, pre['obj'].t)), rkind=rk_dyn, modifies=['stream']),
    Case('rejects', 'raise', lambda pre: t.not_(t.app('(_ is VBytes)', t.BOOL, pre['obj'].t)),
         ensures=lambda pre, post: [('error-path-extends-path-argument', t.implies(post.eng.exc_sub_term(post.exc.cls, 'ConstructError'), path_clause(pre, post)), ('C18',))], modifies=['stream']),
])


# ------------------------------------------------------------------------------------------------ FormatField (one contract instance per format)
FMT_VARIANTS = [e + f for e in '<>=' for f in 'BHLQbhlqefd?']


def _fmt_of(view):
    f = view.self.fields['fmtstr']
    return f.t.args[0]


def _ff_value(pre):
    o = S_(pre)
    fmt = _fmt_of(pre)
    ch = fmt[1]
    w = structmodel.SIZES[ch]
    little = structmodel.little(fmt[0])
    if ch == '?':
        return 'bool', t.ne(t.select(o.buf, o.pos), t.ZERO)
    if ch in 'efd':
        code = I({'e': 2, 'f': 4, 'd': 8}[ch] * 10 + (1 if little else 0))
        return 'val', t.app('f_dec', t.VAL, code, o.buf, o.pos)
    u = (le_val if little else be_val)(o.buf, o.pos, t.add(o.pos, I(w)))
    if ch.islower():
        top = t.select(o.buf, t.add(o.pos, I(w - 1))) if little else t.select(o.buf, o.pos)
        return 'int', t.ite(t.ge(top, I(128)), t.sub(u, I(2 ** (8 * w))), u)
    return 'int', u


def _ff_parse_ok(pre, post):
    o, o2 = S_(pre), post.obj('stream')
    w = structmodel.SIZES[_fmt_of(pre)[1]]
    kind, val = _ff_value(pre)
    r = post.result
    if kind == 'int':
        iv, ok = post.eng.as_int(r, post.st)
        vc = t.and_(ok, t.eq(iv, val)) if iv is not None else t.FALSE
    elif kind == 'bool':
        vc = t.eq(post.eng.truth(r, post.st), val) if isinstance(r, VBool) else t.FALSE
    else:
        vc = t.eq(post.eng.to_dyn(r, post.st), val)
    return [('consumes-the-format-width', t.eq(o2.pos, t.add(o.pos, I(w)))), ('value-per-format', vc),
            ('buffer-unchanged', buffer_same(pre, post), ('C17', 'C08'))]


def _ff_width(pre):
    return I(structmodel.SIZES[_fmt_of(pre)[1]])


_c = fcontract('FormatField', '_parse', [
    Case('ok', 'return', lambda pre: t.le(_ff_width(pre), _avail(S_(pre))), ensures=_ff_parse_ok, rkind=rk_dyn, modifies=['stream']),
    Case('short', 'raise', lambda pre: t.gt(_ff_width(pre), _avail(S_(pre))),
         ensures=lambda pre, post: [('running-out-of-bytes-is-StreamError', stream_error(post), ('C06', 'C03'))] + generic_raise(pre, post), modifies=['stream']),
])
_c.variants = FMT_VARIANTS


def _ff_build_range(pre):
    fmt = _fmt_of(pre)
    ch = fmt[1]
    w = structmodel.SIZES[ch]
    v = pre['obj'].t
    if ch == '?':
        return t.TRUE
    if ch in 'efd':
        code = I({'e': 2, 'f': 4, 'd': 8}[ch] * 10 + (1 if structmodel.little(fmt[0]) else 0))
        return t.app('f_packable', t.BOOL, code, v)
    lo, hi = (-(2 ** (8 * w - 1)), 2 ** (8 * w - 1) - 1) if ch.islower() else (0, 2 ** (8 * w) - 1)
    x = t.app('toint', t.INT, v)
    return t.and_(t.app('isint', t.BOOL, v), t.le(I(lo), x), t.le(x, I(hi)))


def _ff_build_ok(pre, post):
    o, o2 = S_(pre), post.obj('stream')
    fmt = _fmt_of(pre)
    ch = fmt[1]
    w = structmodel.SIZES[ch]
    v = pre['obj'].t
    cl = [('advances-by-the-format-width', t.eq(o2.pos, t.add(o.pos, I(w))))]
    if ch == '?':
        cl.append(('writes-01-or-00', t.eq(t.select(o2.buf, o.pos), t.ite(t.app('truthy', t.BOOL, v), t.ONE, t.ZERO))))
    elif ch not in 'efd':
        x = t.app('toint', t.INT, v)
        u = t.ite(t.lt(x, t.ZERO), t.add(x, I(2 ** (8 * w))), x)
        fn = le_val if structmodel.little(fmt[0]) else be_val
        cl.append(('writes-twos-complement-in-stated-byte-order', t.eq(fn(o2.buf, o.pos, t.add(o.pos, I(w))), u)))
    cl.append(('returns-the-value', t.eq(post.eng.to_dyn(post.result, post.st), v)))
    return cl


_c = fcontract('FormatField', '_build', [
    Case('ok', 'return', _ff_build_range, ensures=_ff_build_ok, rkind=rk_dyn, modifies=['stream']),
    Case('rejects', 'raise', lambda pre: t.not_(_ff_build_range(pre)),
         ensures=lambda pre, post: [('rejection-is-FormatFieldError', t.eq(post.exc.cls, I(post.eng.src.exc_code['FormatFieldError'])), ('C03',))] + generic_raise(pre, post)),
])
_c.variants = FMT_VARIANTS
_c = fcontract('FormatField', '_sizeof', [
    Case('ok', 'return', lambda pre: t.TRUE, ensures=lambda pre, post: [('size-is-format-width', size_is(post, _ff_width(pre)), ('C05',))], rkind=rk_dyn)],
    tags=('C05',))
_c.variants = FMT_VARIANTS
