"""Directed native round-trip battery (C01/C02): a fixed family of real constructs x boundary-directed values.
NOT a proof and never counted as one: it is run after a supporting obligation failed, to attach a failing input to
the failed obligation (replay), and in the thorough tier as a labelled bounded differential."""
import io
import itertools


def _edge_ints(lo, hi):
    vals = {lo, hi, lo + 1, hi - 1, 0, 1, -1, 2, 127, 128, 255, 256, -128, -129, (lo + hi) // 2}
    k = 1
    while k <= hi:
        vals.update((k - 1, k, k + 1))
        k *= 2
    k = -1
    while k >= lo:
        vals.update((k - 1, k, k + 1))
        k *= 2
    return sorted(v for v in vals if lo <= v <= hi)


def families(C):
    """yield (description, construct, iterable of values, greedy)"""
    for name in ('Int8ub', 'Int16ub', 'Int32ub', 'Int64ub', 'Int8sb', 'Int16sb', 'Int32sb', 'Int64sb', 'Int8ul', 'Int16ul', 'Int32ul', 'Int64ul',
                 'Int8sl', 'Int16sl', 'Int32sl', 'Int64sl', 'Int24ub', 'Int24ul', 'Int24sb', 'Int24sl'):
        con = getattr(C, name)
        n = con.sizeof() * 8
        signed = name[-2] == 's'
        lo, hi = (-(1 << (n - 1)), (1 << (n - 1)) - 1) if signed else (0, (1 << n) - 1)
        yield name, con, _edge_ints(lo, hi), False
    for n, signed, swapped in itertools.product((1, 2, 3, 5, 8), (False, True), (False, True)):
        lo, hi = (-(1 << (8 * n - 1)), (1 << (8 * n - 1)) - 1) if signed else (0, (1 << (8 * n)) - 1)
        yield 'BytesInteger(%d, signed=%r, swapped=%r)' % (n, signed, swapped), C.BytesInteger(n, signed=signed, swapped=swapped), _edge_ints(lo, hi), False
    for w, signed in itertools.product((1, 2, 3, 7, 8, 9, 15, 16, 17, 24, 32, 64), (False, True)):
        if signed and w == 1:
            lo, hi = -1, 0
        else:
            lo, hi = (-(1 << (w - 1)), (1 << (w - 1)) - 1) if signed else (0, (1 << w) - 1)
        yield 'BitsInteger(%d, signed=%r) over bit-granular data' % (w, signed), C.BitsInteger(w, signed=signed), _edge_ints(lo, hi), False
        if w % 8 == 0:
            yield 'Bitwise(BitsInteger(%d, signed=%r))' % (w, signed), C.Bitwise(C.BitsInteger(w, signed=signed)), _edge_ints(lo, hi), False
            yield 'Bitwise(BitsInteger(%d, signed=%r, swapped=True))' % (w, signed), C.Bitwise(C.BitsInteger(w, signed=signed, swapped=True)), _edge_ints(lo, hi), False
    yield 'VarInt', C.VarInt, _edge_ints(0, 1 << 70), False
    yield 'ZigZag', C.ZigZag, _edge_ints(-(1 << 70), 1 << 70), False
    yield 'Flag', C.Flag, [False, True], False
    blobs = [b'', b'\x00', b'\xff', b'ab', b'\x00\x00\x00', bytes(range(256)), b'x' * 300]
    for n in (0, 1, 2, 3, 300):
        yield 'Bytes(%d)' % n, C.Bytes(n), [b for b in blobs if len(b) == n], False
    yield 'GreedyBytes', C.GreedyBytes, blobs, True
    yield 'Const', C.Const(b'MZ'), [b'MZ'], False
    for n in (1, 2, 5):
        yield 'Padded(%d, Byte)' % n, C.Padded(n, C.Byte), [0, 1, 255], False
    for m in (2, 3, 4, 8):
        for k in (0, 1, 3, 4, 9):
            yield 'Aligned(%d, Bytes(%d))' % (m, k), C.Aligned(m, C.Bytes(k)), [b'\x01' * k], False
    yield 'FixedSized(6, GreedyBytes)', C.FixedSized(6, C.GreedyBytes), [b'abcdef'], False
    yield 'FixedSized(6, Int16ub)', C.FixedSized(6, C.Int16ub), [0, 65535], False
    for lf in ('Byte', 'Int16ul', 'VarInt'):
        yield 'Prefixed(%s, GreedyBytes)' % lf, C.Prefixed(getattr(C, lf), C.GreedyBytes), [b for b in blobs if len(b) < 256], False
        yield 'PrefixedArray(%s, Int16sb)' % lf, C.PrefixedArray(getattr(C, lf), C.Int16sb), [[], [0], [-1, 1, -32768, 32767], list(range(130))], False
    yield 'Prefixed(Byte, GreedyBytes, includelength=True)', C.Prefixed(C.Byte, C.GreedyBytes, includelength=True), [b'', b'abc', b'x' * 254], False
    yield 'Array(3, Byte)', C.Array(3, C.Byte), [[0, 1, 255]], False
    yield 'Array(0, Byte)', C.Array(0, C.Byte), [[]], False
    yield 'GreedyRange(Int16ub)', C.GreedyRange(C.Int16ub), [[], [1], [1, 2, 65535]], True
    yield 'RepeatUntil(x==0, Byte)', C.RepeatUntil(lambda x, lst, ctx: x == 0, C.Byte), [[0], [5, 4, 0]], False
    yield 'PascalString(Byte, utf8)', C.PascalString(C.Byte, 'utf8'), ['', 'a', 'Афон', 'x' * 100], False
    yield 'CString(utf8)', C.CString('utf8'), ['', 'a', 'Афон'], False
    yield 'CString(utf16)', C.CString('utf16'), ['', 'a', 'Афон'], False
    yield 'PaddedString(10, utf8)', C.PaddedString(10, 'utf8'), ['', 'a', 'Афон', 'x' * 10], False
    yield 'GreedyString(utf8)', C.GreedyString('utf8'), ['', 'a', 'Афон'], True
    yield 'Enum(Byte, a=1, b=2)', C.Enum(C.Byte, a=1, b=2), ['a', 'b', 7], False
    yield 'FlagsEnum(Byte, a=1, b=2, c=128)', C.FlagsEnum(C.Byte, a=1, b=2, c=128), [C.Container(a=x, b=y, c=z) for x in (False, True) for y in (False, True) for z in (False, True)], False
    # labels whose masks overlap (a multi-bit label beside its single bits): only the values a parse can return are round-trip values
    yield 'FlagsEnum(Byte, r=1, w=2, rw=3)', C.FlagsEnum(C.Byte, r=1, w=2, rw=3), [C.Container(r=x, w=y, rw=(x and y)) for x in (False, True) for y in (False, True)], False
    yield 'FlagsEnum(Int16ub, lo=0x00ff, bit=0x0001, hi=0xff00)', C.FlagsEnum(C.Int16ub, lo=0x00ff, bit=0x0001, hi=0xff00), [C.Container(lo=False, bit=True, hi=False), C.Container(lo=True, bit=True, hi=False), C.Container(lo=False, bit=False, hi=True)], False
    yield 'Mapping(Byte, {x:1,y:2})', C.Mapping(C.Byte, {'x': 1, 'y': 2}), ['x', 'y'], False
    st = C.Struct('a' / C.Byte, 'b' / C.Int16ul, 'c' / C.Struct('n' / C.Byte, 'd' / C.Bytes(C.this.n), 'e' / C.Bytes(C.this._.a)))
    yield 'Struct(nested, lengths from siblings and parent)', st, [C.Container(a=x, b=513, c=C.Container(n=n, d=b'q' * n, e=b'r' * x)) for x in (0, 2) for n in (0, 1, 3)], False
    yield 'Sequence(Byte, Int16ub, Flag)', C.Sequence(C.Byte, C.Int16ub, C.Flag), [[1, 2, True], [255, 65535, False]], False
    yield 'FocusedSeq(b)', C.FocusedSeq('b', 'a' / C.Const(b'\x01'), 'b' / C.Int16ub, 'c' / C.Const(b'\x02')), [0, 65535], False
    yield 'Select(Int32ub, Int8ub) value build', C.Struct('t' / C.Byte, 'v' / C.IfThenElse(C.this.t == 1, C.Int32ub, C.Int8ub)), [C.Container(t=1, v=1 << 30), C.Container(t=0, v=200)], False
    yield 'Switch(this.t)', C.Struct('t' / C.Byte, 'v' / C.Switch(C.this.t, {1: C.Int16ub, 2: C.Bytes(3)}, default=C.Pass)), [C.Container(t=1, v=5), C.Container(t=2, v=b'abc'), C.Container(t=3, v=None)], False
    yield 'ByteSwapped(Int24ub)', C.ByteSwapped(C.Int24ub), [0, 1, 0x010203, 0xffffff], False
    yield 'ByteSwapped(Bytes(5))', C.ByteSwapped(C.Bytes(5)), [b'abcde'], False
    yield 'BitsSwapped(Bytes(3))', C.BitsSwapped(C.Bytes(3)), [b'\x01\x80\xf0'], False
    bs = C.BitStruct('a' / C.BitsInteger(3), 'b' / C.Flag, 'c' / C.Nibble, 'd' / C.BitsInteger(12, signed=True), 'e' / C.Padding(4))
    yield 'BitStruct', bs, [C.Container(a=a, b=b, c=c, d=d, e=None) for a in (0, 7) for b in (False, True) for c in (0, 15) for d in (-2048, -1, 0, 2047)], False
    yield 'Bitwise(Bytewise(Int16ub))', C.Bitwise(C.Bytewise(C.Int16ub)), [0, 258, 65535], False
    yield 'NullTerminated(GreedyBytes)', C.NullTerminated(C.GreedyBytes), [b'', b'abc'], False
    yield 'NullTerminated(GreedyBytes, term=2 bytes)', C.NullTerminated(C.GreedyBytes, term=b'\x00\x00'), [b'', b'ab', b'abcd'], False
    yield 'NullStripped(GreedyBytes)', C.NullStripped(C.GreedyBytes), [b'', b'abc', b'\x00a'], True
    yield 'RawCopy(Int16ub)', C.RawCopy(C.Int16ub), [dict(value=7), dict(data=b'\x00\x07')], False
    yield 'ProcessXor(0x5a, GreedyBytes)', C.ProcessXor(0x5a, C.GreedyBytes), [b'', b'abc', bytes(range(256))], True
    yield 'ProcessXor(key3, Bytes(7))', C.ProcessXor(b'\x01\x80\xff', C.Bytes(7)), [b'abcdefg'], True
    for amount, group in ((1, 1), (4, 1), (9, 2), (3, 3), (0, 2), (-3, 2), (17, 2)):
        yield 'ProcessRotateLeft(%d, %d, Bytes(6))' % (amount, group), C.ProcessRotateLeft(amount, group, C.Bytes(6)), [b'\x01\x80\xf0\x0f\xaa\x55', b'\x00' * 6], True
    yield 'Rebuild(Byte, len_)', C.Struct('n' / C.Rebuild(C.Byte, C.len_(C.this.items)), 'items' / C.Array(C.this.n, C.Byte)), [C.Container(n=0, items=[]), C.Container(n=3, items=[1, 2, 3])], False
    yield 'Default(Byte, 7)', C.Default(C.Byte, 7), [0, 7, 255], False
    yield 'Hex(Int32ub)', C.Hex(C.Int32ub), [0, 1, 0xffffffff], False
    yield 'Hex(GreedyBytes)', C.Hex(C.GreedyBytes), [b'', b'\x01\xff'], True
    yield 'HexDump(Bytes(4))', C.HexDump(C.Bytes(4)), [b'\x00\x01\xfe\xff'], False
    yield 'Optional(Int16ub) present', C.Optional(C.Int16ub), [0, 65535], False
    yield 'Pickled', C.Pickled, [[1, 'a', None], {'k': (1, 2)}], True
    yield 'LazyStruct', C.LazyStruct('a' / C.Byte, 'b' / C.Int16ub), [C.Container(a=1, b=2)], False
    yield 'LazyArray(3, Byte)', C.LazyArray(3, C.Byte), [[1, 2, 3]], False
    yield 'Lazy(Int16ub)', C.Lazy(C.Int16ub), [513], False
    yield 'Compressed(GreedyBytes, zlib)', C.Compressed(C.GreedyBytes, 'zlib'), [b'', b'abc' * 50], True
    yield 'Checksum', C.Struct('f' / C.RawCopy(C.Struct('x' / C.Int16ub)), 'h' / C.Checksum(C.Bytes(1), lambda d: bytes([sum(d) % 256]), C.this.f.data)), [dict(f=dict(value=dict(x=x))) for x in (0, 258, 65535)], False
    yield 'Timestamp(Int64ub, 1., 1970)', C.Timestamp(C.Int64ub, 1., 1970), None, False
    yield 'NamedTuple', C.NamedTuple('coord', 'x y z', C.Byte[3]), None, False


def _eq(C, a, b):
    if callable(a):
        a = a()
    if isinstance(a, dict) and isinstance(b, dict):
        ka = {k for k in a if not (isinstance(k, str) and k.startswith('_'))}
        kb = {k for k in b if not (isinstance(k, str) and k.startswith('_'))}
        return ka == kb and all(_eq(C, a[k], b[k]) for k in ka)
    if isinstance(a, (list, tuple)) and isinstance(b, (list, tuple)):
        return len(a) == len(b) and all(_eq(C, x, y) for x, y in zip(a, b))
    return a == b


def run(C, only=None, trailers=(b'', b'\xa5\x00\xff')):
    """-> (checked, list of failure descriptions)"""
    fails = []
    n = 0
    for desc, con, values, greedy in families(C):
        if only and not any(o in desc for o in only):
            continue
        if values is None:
            continue
        for v in values:
            for trail in ((b'',) if greedy else trailers):
                n += 1
                try:
                    data = con.build(v)
                except Exception as e:
                    fails.append('%s: build(%r) raises %s: %s' % (desc, v, type(e).__name__, e))
                    break
                try:
                    s = io.BytesIO(data + trail)
                    got = con.parse_stream(s)
                    used = s.tell()
                except Exception as e:
                    fails.append('%s: build(%r)=%r but parse(%r) raises %s: %s' % (desc, v, data, data + trail, type(e).__name__, e))
                    break
                want = v
                if 'RawCopy' in desc and isinstance(v, dict) and 'Checksum' not in desc:
                    ok = (got.value == (v['value'] if 'value' in v else 7)) and got.data == data
                elif 'Checksum' in desc:
                    ok = got.f.value.x == v['f']['value']['x']
                elif 'Rebuild' in desc:
                    ok = _eq(C, got, want)
                else:
                    ok = _eq(C, got, want)
                if not ok:
                    fails.append('%s: build(%r)=%r, parse(%r) returned %r' % (desc, v, data, data + trail, got))
                    break
                if used != len(data):
                    fails.append('%s: build(%r) wrote %d bytes, parse consumed %d' % (desc, v, len(data), used))
                    break
    return n, fails


if __name__ == '__main__':
    import sys
    import construct
    n, fails = run(construct, sys.argv[1:] or None)
    print(n, 'round trips;', len(fails), 'failures')
    for f in fails[:40]:
        print(' ', f[:300])
