"""Array against a specification fold (C03 count arithmetic and element order, C07 _index, C05 size):
the state after k elements is afold(k): element j is parsed at the position where element j-1 ended, in the scope whose
_index is j; the result list holds the element values in order; sizeof = count * element size."""
from pyvc import terms as t, prelude
from pyvc.terms import I, S
from pyvc.values import *  # noqa
from pyvc.contract import Case, rk_dyn, rk_list
from pyvc.exec import LoopSpec
from .prims import fcontract, S_, generic_raise, buffer_same, size_is, _param_int
from .composites import ps, mkPS, _base
from .wrappers import Sub, result_is

T = ('C03', 'C07')


def define_array_folds():
    # one step: set _index = i in the scope, parse the element at the current position
    prelude.define('astep', """(define-fun astep ((m Int) (s PS) (i Int) (buf (Array Int Int)) (len Int) (base Int) (c Int)) PS
  (ite (not (ps_ok s)) s
  (let ((H0 (store (ps_H s) c (store (select (ps_H s) c) "_index" (VInt i)))) (D0 (store (ps_D s) c (store (select (ps_D s) c) "_index" true))))
  (ite (P_ok m buf len (ps_pos s) base H0 D0 c)
    (mkPS true false (P_end m buf len (ps_pos s) base H0 D0 c) (P_H m buf len (ps_pos s) base H0 D0 c) (P_D m buf len (ps_pos s) base H0 D0 c))
    (mkPS false false (ps_pos s) H0 D0)))))""", deps=['P_ok', 'P_H', 'P_D', 'P_end'])
    prelude.define('afold', """(define-fun-rec afold ((m Int) (k Int) (s0 PS) (buf (Array Int Int)) (len Int) (base Int) (c Int)) PS
  (ite (<= k 0) s0 (astep m (afold m (- k 1) s0 buf len base c) (- k 1) buf len base c)))""", deps=['astep'])
    # value of element j: what the element construct returns at the state before it
    prelude.define('aval', """(define-fun aval ((m Int) (j Int) (s0 PS) (buf (Array Int Int)) (len Int) (base Int) (c Int)) Val
  (let ((s (afold m j s0 buf len base c)))
  (P_val m buf len (ps_pos s) base (store (ps_H s) c (store (select (ps_H s) c) "_index" (VInt j))) (store (ps_D s) c (store (select (ps_D s) c) "_index" true)) c)))""", deps=['afold', 'P_val'])


def _discard(eng, pre, st):
    """the discard flag of the repeater (LazyArray has none: it always collects)"""
    f = pre.self.fields.get('discard')
    return t.FALSE if f is None else eng.truth(f, st)


def _s0(pre):
    o = S_(pre)
    return mkPS(t.TRUE, t.FALSE, o.pos, pre.st.ghost['H'], pre.st.ghost['D'])


def afold(pre, k):
    o = S_(pre)
    return t.app('afold', 'PS', pre.self.fields['subcon'].ident, k, _s0(pre), o.buf, o.len, _base(o), pre.obj('context').addr)


def aval(pre, j):
    o = S_(pre)
    return t.app('aval', t.VAL, pre.self.fields['subcon'].ident, j, _s0(pre), o.buf, o.len, _base(o), pre.obj('context').addr)


def _unfold(pre, k):
    o = S_(pre)
    m = pre.self.fields['subcon'].ident
    prev = afold(pre, t.sub(k, t.ONE))
    step = t.app('astep', 'PS', m, prev, t.sub(k, t.ONE), o.buf, o.len, _base(o), pre.obj('context').addr)
    return t.implies(t.ge(k, t.ONE), t.eq(afold(pre, k), step))


def _parse_inv(L):
    pre = L.extra['pre']
    o0 = pre.obj('stream')
    if o0.model == 'adv':
        return []
    o = L.obj('stream')
    F = afold(pre, L.k)
    obj = L.obj('obj')
    discard = _discard(L.eng, pre, L.st)
    hints = [_unfold(pre, L.k)] if L.k.op != 'int' else []
    out = [('state-after-k-elements-is-the-specification-fold', t.and_(ps('ps_ok', F), t.eq(o.pos, ps('ps_pos', F)), t.eq(L.st.ghost['H'], ps('ps_H', F)), t.eq(L.st.ghost['D'], ps('ps_D', F))), None, hints),
           ('buffer-unchanged', t.and_(t.eq(o.buf, o0.buf), t.eq(o.len, o0.len)))]
    if obj.items is None:
        j = t.var('aj!', t.INT)
        out.append(('result-holds-the-values-of-the-elements-parsed-so-far-in-order',
                    t.and_(t.eq(obj.len, t.ite(discard, t.ZERO, L.k)),
                           t.forall([j], t.implies(t.and_(t.le(t.ZERO, j), t.lt(j, obj.len)), t.eq(t.T(t.VAL, 'select', (obj.arr, j)), aval(pre, j))), pats=[[t.T(t.VAL, 'select', (obj.arr, j))]]))))
    return out


def _array_parse_ok(pre, post):
    o, o2 = S_(pre), post.obj('stream')
    n = _param_int(pre, 'count')
    F = afold(pre, n)
    r = post.st.get(post.result) if isinstance(post.result, VRef) else None
    out = [('count-is-not-negative', t.ge(n, t.ZERO), T),
           ('elements-parsed-one-after-the-other-each-with-_index-equal-to-its-position', t.and_(ps('ps_ok', F), t.eq(o2.pos, ps('ps_pos', F))), T),
           ('scope-as-the-last-element-left-it', t.and_(t.eq(post.st.ghost['H'], ps('ps_H', F)), t.eq(post.st.ghost['D'], ps('ps_D', F))), ('C07',)),
           ('buffer-unchanged', buffer_same(pre, post), ('C17', 'C08'))]
    if r is not None and r.items is None:
        j = t.var('aj!', t.INT)
        discard = _discard(post.eng, pre, pre.st)
        out.append(('returns-exactly-count-element-values-in-order', t.and_(t.eq(r.len, t.ite(discard, t.ZERO, n)),
                    t.forall([j], t.implies(t.and_(t.le(t.ZERO, j), t.lt(j, r.len)), t.eq(t.T(t.VAL, 'select', (r.arr, j)), aval(pre, j))), pats=[[t.T(t.VAL, 'select', (r.arr, j))]])), T))
    return out


def _array_guard(pre):
    n = _param_int(pre, 'count')
    return t.and_(t.ge(n, t.ZERO), ps('ps_ok', afold(pre, n)))


def _array_parse_bad(pre, post):
    n = _param_int(pre, 'count')
    range_err = t.eq(post.exc.cls, I(post.eng.src.exc_code['RangeError']))
    out = [('negative-count-is-RangeError', t.implies(t.lt(n, t.ZERO), range_err), ('C03', 'C06'))] + list(generic_raise(pre, post))
    kk = post.st.ghost.get('loop_k')
    if kk is None:
        if getattr(post.eng.models, 'ghost_mode', False) or not post.st.ghost.get('LE'):
            kk = fresh('failed_element', t.INT)
        else:
            return out
    F = afold(pre, t.add(kk, t.ONE))
    hints = [('def', _unfold(pre, t.add(kk, t.ONE)))]
    out.append(('a-failure-is-the-failure-of-some-element-in-the-specification-fold', t.implies(t.ge(n, t.ZERO), t.and_(t.le(t.ZERO, kk), t.lt(kk, n), t.not_(ps('ps_ok', F)))), T, hints))
    return out


def register_repeaters(src):
    define_array_folds()
    fcontract('Array', '_parse', [
        Case('ok', 'return', lambda pre: t.TRUE, ensures=_array_parse_ok, rkind=rk_list, modifies=['stream']),
        Case('fails', 'raise', lambda pre: t.TRUE, ensures=_array_parse_bad, modifies=['stream']),
    ], loops={'for i in range(count)': LoopSpec(_parse_inv, tags=T, modifies=())}, tags=T)
    fcontract('Array', '_sizeof', [
        Case('ok', 'return', lambda pre: Sub(pre, 'subcon', kind='sizeof').ok,
             ensures=lambda pre, post: [('size-is-count-times-the-element-size', size_is(post, t.mul(_param_int(pre, 'count'), Sub(pre, 'subcon', kind='sizeof').val)), ('C05',))], rkind=rk_dyn),
        Case('no-size', 'raise', lambda pre: t.not_(Sub(pre, 'subcon', kind='sizeof').ok)),
    ], tags=('C05',))


# ================================================================================================ Array._build
from .composites import bs  # noqa
prelude.declare_fun('dyn_item', [t.VAL, t.INT], t.VAL)
prelude.declare_fun('dyn_len', [t.VAL], t.INT)
prelude.declare_fun('dyn_sized', [t.VAL], t.BOOL)


def define_array_build_folds():
    # element i of the supplied sequence v is built at the current position with _index = i; the stream grows by what it wrote
    prelude.define('abstep', """(define-fun abstep ((m Int) (s BS) (i Int) (v Val) (base Int) (c Int)) BS
  (ite (not (bs_ok s)) s
  (let ((H0 (store (bs_H s) c (store (select (bs_H s) c) "_index" (VInt i)))) (D0 (store (bs_D s) c (store (select (bs_D s) c) "_index" true))) (e (dyn_item v i)))
  (ite (B_ok m e (+ (bs_pos s) base) H0 D0 c)
    (let ((n (B_len m e (+ (bs_pos s) base) H0 D0 c)) (W (B_bytes m e (+ (bs_pos s) base) H0 D0 c)))
      (mkBS true (ite (> n 0) (awrite (bs_buf s) (bs_len s) (bs_pos s) W 0 n) (bs_buf s))
            (ite (> n 0) (ite (>= (bs_len s) (+ (bs_pos s) n)) (bs_len s) (+ (bs_pos s) n)) (bs_len s))
            (+ (bs_pos s) n) (B_H m e (+ (bs_pos s) base) H0 D0 c) (B_D m e (+ (bs_pos s) base) H0 D0 c)))
    (mkBS false (bs_buf s) (bs_len s) (bs_pos s) H0 D0)))))""", deps=['B_ok', 'B_len', 'B_bytes', 'B_H', 'B_D', 'awrite', 'dyn_item'])
    prelude.define('abfold', """(define-fun-rec abfold ((m Int) (k Int) (s0 BS) (v Val) (base Int) (c Int)) BS
  (ite (<= k 0) s0 (abstep m (abfold m (- k 1) s0 v base c) (- k 1) v base c)))""", deps=['abstep'])
    prelude.define('abret', """(define-fun abret ((m Int) (j Int) (s0 BS) (v Val) (base Int) (c Int)) Val
  (let ((s (abfold m j s0 v base c)))
  (B_ret m (dyn_item v j) (+ (bs_pos s) base) (store (bs_H s) c (store (select (bs_H s) c) "_index" (VInt j))) (store (bs_D s) c (store (select (bs_D s) c) "_index" true)) c)))""",
                   deps=['abfold', 'B_ret', 'dyn_item'])


def _b0(pre):
    o = S_(pre)
    return t.app('mkBS', 'BS', t.TRUE, o.buf, o.len, o.pos, pre.st.ghost['H'], pre.st.ghost['D'])


def abfold(pre, k):
    o = S_(pre)
    return t.app('abfold', 'BS', pre.self.fields['subcon'].ident, k, _b0(pre), pre['obj'].t, _base(o), pre.obj('context').addr)


def abret(pre, j):
    o = S_(pre)
    return t.app('abret', t.VAL, pre.self.fields['subcon'].ident, j, _b0(pre), pre['obj'].t, _base(o), pre.obj('context').addr)


def _bunfold(pre, k):
    o = S_(pre)
    m = pre.self.fields['subcon'].ident
    prev = abfold(pre, t.sub(k, t.ONE))
    step = t.app('abstep', 'BS', m, prev, t.sub(k, t.ONE), pre['obj'].t, _base(o), pre.obj('context').addr)
    return t.implies(t.ge(k, t.ONE), t.eq(abfold(pre, k), step))


def _build_inv(L):
    pre = L.extra['pre']
    o0 = pre.obj('stream')
    if o0.model == 'adv':
        return []
    o = L.obj('stream')
    F = abfold(pre, L.k)
    rl = L.obj('retlist')
    discard = _discard(L.eng, pre, L.st)
    hints = [_bunfold(pre, L.k)] if L.k.op != 'int' else []
    out = [('state-after-k-elements-is-the-specification-fold', t.and_(bs('bs_ok', F), t.eq(o.buf, bs('bs_buf', F)), t.eq(o.len, bs('bs_len', F)), t.eq(o.pos, bs('bs_pos', F)),
                                                                    t.eq(L.st.ghost['H'], bs('bs_H', F)), t.eq(L.st.ghost['D'], bs('bs_D', F))), None, hints)]
    if rl.items is None:
        j = t.var('abj!', t.INT)
        out.append(('returned-list-holds-what-each-element-build-returned',
                    t.and_(t.eq(rl.len, t.ite(discard, t.ZERO, L.k)),
                           t.forall([j], t.implies(t.and_(t.le(t.ZERO, j), t.lt(j, rl.len)), t.eq(t.T(t.VAL, 'select', (rl.arr, j)), abret(pre, j))), pats=[[t.T(t.VAL, 'select', (rl.arr, j))]]))))
    return out


def _array_build_ok(pre, post):
    o, o2 = S_(pre), post.obj('stream')
    n = _param_int(pre, 'count')
    F = abfold(pre, n)
    r = post.st.get(post.result) if isinstance(post.result, VRef) else None
    out = [('count-is-not-negative-and-equals-the-number-of-supplied-elements', t.and_(t.ge(n, t.ZERO), t.eq(t.app('dyn_len', t.INT, pre['obj'].t), n)), T),
           ('elements-built-one-after-the-other-each-with-_index-equal-to-its-position', t.and_(bs('bs_ok', F), t.eq(o2.buf, bs('bs_buf', F)), t.eq(o2.len, bs('bs_len', F)), t.eq(o2.pos, bs('bs_pos', F))), T),
           ('scope-as-the-last-element-left-it', t.and_(t.eq(post.st.ghost['H'], bs('bs_H', F)), t.eq(post.st.ghost['D'], bs('bs_D', F))), ('C07',))]
    if r is not None and r.items is None:
        j = t.var('abj!', t.INT)
        discard = _discard(post.eng, pre, pre.st)
        out.append(('returns-what-each-element-build-returned-in-order', t.and_(t.eq(r.len, t.ite(discard, t.ZERO, n)),
                    t.forall([j], t.implies(t.and_(t.le(t.ZERO, j), t.lt(j, r.len)), t.eq(t.T(t.VAL, 'select', (r.arr, j)), abret(pre, j))), pats=[[t.T(t.VAL, 'select', (r.arr, j))]])), T))
    return out


def _array_build_bad(pre, post):
    n = _param_int(pre, 'count')
    range_err = t.eq(post.exc.cls, I(post.eng.src.exc_code['RangeError']))
    out = [('negative-count-is-RangeError', t.implies(t.lt(n, t.ZERO), range_err), ('C03', 'C06'))] + list(generic_raise(pre, post))
    if pre.obj('stream').model == 'adv':
        return out
    kk = post.st.ghost.get('loop_k')
    ghost_mode = getattr(post.eng.models, 'ghost_mode', False)
    if kk is None or ghost_mode:
        kk = fresh('failed_element', t.INT)
    F = abfold(pre, t.add(kk, t.ONE))
    out.append(('a-failure-is-a-bad-count-or-the-failure-of-some-element-build',
                t.or_(t.lt(n, t.ZERO), t.ne(t.app('dyn_len', t.INT, pre['obj'].t), n), t.and_(t.le(t.ZERO, kk), t.lt(kk, n), t.not_(bs('bs_ok', F)))), T + ('C02',),
                [('def', _bunfold(pre, t.add(kk, t.ONE)))]))
    return out


def register_array_build(src):
    define_array_build_folds()
    fcontract('Array', '_build', [
        Case('ok', 'return', lambda pre: t.TRUE, ensures=_array_build_ok, rkind=rk_list, modifies=['stream']),
        Case('fails', 'raise', lambda pre: t.TRUE, ensures=_array_build_bad, modifies=['stream']),
    ], loops={'for (i, e) in enumerate(obj)': LoopSpec(_build_inv, tags=T)}, tags=T, sequential_build=False,
        requires=lambda pre: [('the-supplied-value-is-a-list-like-sequence', t.and_(t.app('dyn_sized', t.BOOL, pre['obj'].t), t.app('(_ is VOpq)', t.BOOL, pre['obj'].t)))])


# ================================================================================================ sizeof of the member-list composites
prelude.define('zsum', """(define-fun-rec zsum ((sl Int) (k Int) (H (Array Int (Array String Val))) (D (Array Int (Array String Bool))) (c Int)) Int
  (ite (<= k 0) 0 (+ (zsum sl (- k 1) H D c) (Z_val (sl_at sl (- k 1)) H D c))))""", deps=['Z_val', 'sl_at'])


def _sum_size_ok(pre, post):
    snap = post.st.ghost.get('first_sub_ctx')
    sl = pre.self.fields['subcons'].ident
    n = t.app('sl_len', t.INT, sl)
    if snap is None:
        if not getattr(post.eng.models, 'ghost_mode', False):
            # no member was asked (not even symbolically): only possible for an empty member list
            return [('size-of-an-empty-member-list-is-zero', size_is(post, t.ZERO), ('C05',))]
        snap = (fresh('scope', t.INT), fresh('scope_H', 'Heap'), fresh('scope_D', 'Dom'))
    c1, H1, D1 = snap
    return [('size-is-the-sum-of-the-member-sizes-in-the-nested-scope', size_is(post, t.app('zsum', t.INT, sl, n, H1, D1, c1)), ('C05', 'C03'))]


def register_sum_sizes(src):
    for cls in ('Struct', 'Sequence', 'FocusedSeq', 'LazyStruct'):
        fcontract(cls, '_sizeof', [
            Case('ok', 'return', lambda pre: t.TRUE, ensures=_sum_size_ok, rkind=rk_dyn),
            Case('no-size', 'raise', lambda pre: t.TRUE),
        ], tags=('C05', 'C03'))


# ================================================================================================ GreedyRange._build
# Every supplied element is built in order, each with _index equal to its position, appending after the previous one (the same
# specification fold as Array._build, over as many elements as were supplied); a StopFieldError ends the range.
def _gr_build_ok(pre, post):
    o, o2 = S_(pre), post.obj('stream')
    n = t.app('dyn_len', t.INT, pre['obj'].t)
    F = abfold(pre, n)
    r = post.st.get(post.result) if isinstance(post.result, VRef) else None
    if r is None:
        # left through the StopFieldError handler: nothing is returned, nothing is claimed about how far it got
        return []
    out = [('elements-built-one-after-the-other-each-with-_index-equal-to-its-position', t.and_(bs('bs_ok', F), t.eq(o2.buf, bs('bs_buf', F)), t.eq(o2.len, bs('bs_len', F)), t.eq(o2.pos, bs('bs_pos', F))), T + ('C01',)),
           ('scope-as-the-last-element-left-it', t.and_(t.eq(post.st.ghost['H'], bs('bs_H', F)), t.eq(post.st.ghost['D'], bs('bs_D', F))), ('C07',))]
    if r.items is None:
        j = t.var('abj!', t.INT)
        discard = _discard(post.eng, pre, pre.st)
        out.append(('returns-what-each-element-build-returned-in-order', t.and_(t.eq(r.len, t.ite(discard, t.ZERO, n)),
                    t.forall([j], t.implies(t.and_(t.le(t.ZERO, j), t.lt(j, r.len)), t.eq(t.T(t.VAL, 'select', (r.arr, j)), abret(pre, j))), pats=[[t.T(t.VAL, 'select', (r.arr, j))]])), T + ('C01',)))
    return out


def register_greedyrange_build(src):
    fcontract('GreedyRange', '_build', [
        Case('ok', 'return', lambda pre: t.TRUE, ensures=_gr_build_ok, rkind=rk_dyn, modifies=['stream']),
        Case('fails', 'raise', lambda pre: t.TRUE, ensures=generic_raise, modifies=['stream']),
    ], loops={'for (i, e) in enumerate(obj)': LoopSpec(_build_inv, tags=T + ('C01',))}, tags=T + ('C01',), sequential_build=False,
        requires=lambda pre: [('the-supplied-value-is-a-list-like-sequence', t.and_(t.app('dyn_sized', t.BOOL, pre['obj'].t), t.app('(_ is VOpq)', t.BOOL, pre['obj'].t)))])


# ================================================================================================ LazyArray._build / _sizeof (copies of Array's)
def register_lazyarray_build(src):
    fcontract('LazyArray', '_build', [
        Case('ok', 'return', lambda pre: t.TRUE, ensures=_array_build_ok, rkind=rk_list, modifies=['stream']),
        Case('fails', 'raise', lambda pre: t.TRUE, ensures=_array_build_bad, modifies=['stream']),
    ], loops={'for (i, e) in enumerate(obj)': LoopSpec(_build_inv, tags=T + ('C16',))}, tags=T + ('C16',), sequential_build=False,
        requires=lambda pre: [('the-supplied-value-is-a-list-like-sequence', t.and_(t.app('dyn_sized', t.BOOL, pre['obj'].t), t.app('(_ is VOpq)', t.BOOL, pre['obj'].t)))])
    fcontract('LazyArray', '_sizeof', [
        Case('ok', 'return', lambda pre: Sub(pre, 'subcon', kind='sizeof').ok,
             ensures=lambda pre, post: [('size-is-count-times-the-element-size', size_is(post, t.mul(_param_int(pre, 'count'), Sub(pre, 'subcon', kind='sizeof').val)), ('C05', 'C16'))], rkind=rk_dyn),
        Case('no-size', 'raise', lambda pre: t.not_(Sub(pre, 'subcon', kind='sizeof').ok)),
    ], tags=('C05', 'C16'))
