"""Public numeric names of construct (Int8ub ... Int64sn, Int24*, Float*, Byte/Short/Int/Long/Half/Single/Double,
Bit/Nibble/Octet) checked against the meaning of their names: complete enumeration of a finite table on the imported
module (C03, C12).  The classes they instantiate are under functional contract for every parameter value."""
import sys


def expected():
    exp = {}
    sizes = {8: 'B', 16: 'H', 32: 'L', 64: 'Q'}
    for bits, ch in sizes.items():
        for sg in 'us':
            for en, ec in (('b', '>'), ('l', '<'), ('n', '=')):
                exp['Int%d%s%s' % (bits, sg, en)] = ('FormatField', ec + (ch if sg == 'u' else ch.lower()), bits // 8)
    for bits, ch in ((16, 'e'), (32, 'f'), (64, 'd')):
        for en, ec in (('b', '>'), ('l', '<'), ('n', '=')):
            exp['Float%d%s' % (bits, en)] = ('FormatField', ec + ch, bits // 8)
    native_little = sys.byteorder == 'little'
    for sg in 'us':
        for en, sw in (('b', False), ('l', True), ('n', native_little)):
            exp['Int24%s%s' % (sg, en)] = ('BytesInteger', 3, sg == 's', sw)
    for name, n in (('Bit', 1), ('Nibble', 4), ('Octet', 8)):
        exp[name] = ('BitsInteger', n, False, False)
    return exp


SAME = {'Byte': 'Int8ub', 'Short': 'Int16ub', 'Int': 'Int32ub', 'Long': 'Int64ub', 'Half': 'Float16b', 'Single': 'Float32b', 'Double': 'Float64b'}


def enumerate_aliases(C):
    bad = []
    exp = expected()
    for name, e in exp.items():
        o = getattr(C, name, None)
        if o is None:
            bad.append('%s missing' % name)
            continue
        if type(o).__name__ != e[0]:
            bad.append('%s is a %s, expected %s' % (name, type(o).__name__, e[0]))
            continue
        if e[0] == 'FormatField':
            if (o.fmtstr, o.length) != (e[1], e[2]):
                bad.append('%s has format %r length %r, expected %r %r' % (name, o.fmtstr, o.length, e[1], e[2]))
        else:
            got = (o.length, bool(o.signed), bool(o.swapped))
            if got != e[1:]:
                bad.append('%s has (length, signed, swapped) = %r, expected %r' % (name, got, e[1:]))
    for a, b in SAME.items():
        if getattr(C, a, None) is not getattr(C, b, object()):
            bad.append('%s is not %s' % (a, b))
    return [('public numeric aliases', len(exp) + len(SAME), bad)]
