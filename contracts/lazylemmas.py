"""Layer-B lemmas for C16 (LazyArray): wherever the eager parse (the Array fold) succeeds over k elements, the lazy bookkeeping
(lzpos / lzok of contracts/lazyarray.py) succeeds and finds element k at the very position the eager parse reached, and the value
an element yields at that position in the reference scope is the eager value.

Hypotheses about the element construct (listed in the evidence), instantiated on the elements of the fold:
  scope independence (C16's "no cross references")  - parse and _actualsize answer alike in every scope;
  measured-is-parsed   - when _actualsize answers n and the parse succeeds, the parse advances by exactly n;
  measurable-or-says-so - an element that parses either answers _actualsize or raises SizeofError (it has no other way to fail)."""
from pyvc import terms as t
from pyvc.terms import I, S
from pyvc.lemma import Lemma, LEMMAS
from pyvc import ghost
from .composites import ps, mkPS
from .lazyarray import REF
from .foldlemmas import _indexed

T = ('C16',)
V = [('m', t.INT), ('buf', t.ARR), ('len', t.INT), ('p0', t.INT), ('H', 'Heap'), ('D', 'Dom'), ('base', t.INT), ('c', t.INT)]
SIZEOF_CODES = []


def s0(v):
    return mkPS(t.TRUE, t.FALSE, v['p0'], v['H'], v['D'])


def PF(v, k):
    return t.app('afold', 'PS', v['m'], k, s0(v), v['buf'], v['len'], v['base'], v['c'])


def pargs(v, i):
    s = PF(v, i)
    H0, D0 = _indexed(ps('ps_H', s), ps('ps_D', s), v['c'], i)
    return (v['m'], v['buf'], v['len'], ps('ps_pos', s), v['base'], H0, D0, v['c'])


def rargs(v, p):
    return (v['m'], v['buf'], v['len'], p, v['base']) + REF


def lzpos(v, j):
    return t.app('lzpos', t.INT, v['m'], j, v['p0'], v['buf'], v['len'], v['base'], *REF)


def lzok(v, j):
    return t.app('lzok', t.BOOL, v['m'], j, v['p0'], v['buf'], v['len'], v['base'], *REF)


def def_p_zero(v):
    return t.eq(PF(v, t.ZERO), s0(v))


def def_p_step(v, k):
    i = t.sub(k, t.ONE)
    s, s1 = PF(v, i), PF(v, k)
    ok = t.app('P_ok', t.BOOL, *pargs(v, i))
    return t.implies(t.ge(k, t.ONE), t.and_(t.implies(t.not_(ps('ps_ok', s)), t.not_(ps('ps_ok', s1))),
                                            t.implies(ps('ps_ok', s), t.ite(ok, t.and_(ps('ps_ok', s1), t.eq(ps('ps_pos', s1), t.app('P_end', t.INT, *pargs(v, i)))), t.not_(ps('ps_ok', s1))))))


def def_lz(v, k):
    prev = lzpos(v, t.sub(k, t.ONE))
    a = (v['m'], prev, v['buf'], v['len'], v['base']) + REF
    return t.and_(t.eq(lzpos(v, t.ZERO), v['p0']), lzok(v, t.ZERO),
                  t.implies(t.ge(k, t.ONE), t.and_(t.eq(lzpos(v, k), t.app('lzstep_pos', t.INT, *a)), t.eq(lzok(v, k), t.and_(lzok(v, t.sub(k, t.ONE)), t.app('lzstep_ok', t.BOOL, *a))))))


def traits(v, i, src_codes):
    """the hypotheses about the element construct on step i of the eager fold"""
    a = pargs(v, i)
    r = rargs(v, a[3])
    out = []
    for fn, sort in (('P_ok', t.BOOL), ('P_val', t.VAL), ('P_end', t.INT), ('A_ok', t.BOOL), ('A_val', t.INT), ('A_exc', t.INT)):
        out.append(t.eq(t.app(fn, sort, *a), t.app(fn, sort, *r)))                                   # scope independence
    pok, aok = t.app('P_ok', t.BOOL, *r), t.app('A_ok', t.BOOL, *r)
    out.append(t.implies(t.and_(aok, pok), t.eq(t.app('P_end', t.INT, *r), t.add(a[3], t.app('A_val', t.INT, *r)))))     # measured is parsed
    out.append(t.implies(pok, t.or_(aok, t.or_(*[t.eq(t.app('A_exc', t.INT, *r), I(c)) for c in src_codes]))))           # measurable or says so
    return out


def make(src):
    codes = sorted(src.exc_code[n] for n in src.exc_descendants('SizeofError'))
    SIZEOF_CODES[:] = codes
    Lemma('afold_ok_prefix', V + [('k', t.INT)],
          lambda v: t.implies(t.and_(t.ge(v['k'], t.ONE), ps('ps_ok', PF(v, v['k']))), ps('ps_ok', PF(v, t.sub(v['k'], t.ONE)))),
          tags=T, defs=lambda v: [def_p_step(v, v['k'])], doc='an eager parse that got through k elements got through k-1')
    Lemma('afold_ok_mono', V + [('j', t.INT), ('d', t.INT)],
          lambda v: t.implies(t.and_(t.ge(v['j'], t.ZERO), t.ge(v['d'], t.ZERO), ps('ps_ok', PF(v, t.add(v['j'], v['d'])))), ps('ps_ok', PF(v, v['j']))),
          induct=('d', 0), tags=T, ih_instances=lambda v: [{n: v[n] for n, _ in V + [('j', t.INT)]}],
          hints=lambda v: [LEMMAS['afold_ok_prefix'].stmt(dict({n: v[n] for n, _ in V}, k=t.add(v['j'], v['d'])))])
    Lemma('lazy_positions', V + [('k', t.INT)],
          lambda v: t.implies(t.and_(t.ge(v['k'], t.ZERO), ps('ps_ok', PF(v, v['k']))), t.and_(lzok(v, v['k']), t.eq(lzpos(v, v['k']), ps('ps_pos', PF(v, v['k']))))),
          induct=('k', 0), tags=T, ih_instances=lambda v: [{n: v[n] for n, _ in V}],
          hints=lambda v: [LEMMAS['afold_ok_prefix'].stmt(v)], traits=lambda v: traits(v, t.sub(v['k'], t.ONE), codes),
          defs=lambda v: [def_p_zero(v), def_p_step(v, v['k']), def_lz(v, v['k'])],
          doc='where the eager parse stands after k elements is where the lazy bookkeeping puts element k')

    def values(v):
        av = t.app('aval', t.VAL, v['m'], v['j'], s0(v), v['buf'], v['len'], v['base'], v['c'])
        return t.implies(t.and_(t.le(t.ZERO, v['j']), t.lt(v['j'], v['K']), ps('ps_ok', PF(v, v['K']))),
                         t.and_(t.app('P_ok', t.BOOL, *rargs(v, lzpos(v, v['j']))), t.eq(av, t.app('P_val', t.VAL, *rargs(v, lzpos(v, v['j']))))))
    Lemma('lazy_values', V + [('j', t.INT), ('K', t.INT)], values, tags=T,
          hints=lambda v: [LEMMAS['lazy_positions'].stmt(dict({n: v[n] for n, _ in V}, k=v['j'])),
                           LEMMAS['afold_ok_mono'].stmt(dict({n: v[n] for n, _ in V}, j=t.add(v['j'], t.ONE), d=t.sub(v['K'], t.add(v['j'], t.ONE)))),
                           LEMMAS['afold_ok_mono'].stmt(dict({n: v[n] for n, _ in V}, j=v['j'], d=t.sub(v['K'], v['j'])))],
          traits=lambda v: traits(v, v['j'], codes), defs=lambda v: [def_p_step(v, t.add(v['j'], t.ONE))],
          doc='the eager value of element j is what the element yields at its lazy offset in the reference scope')


def post_hints(ob):
    """instances of the proved lemmas on the eager fold applications of a ghost obligation"""
    apps = ghost.find_apps(list(ob.hyps) + [ob.goal], ('afold', 'lzpos', 'lzok'))
    out, seen = [], set()

    def add(x):
        if x.smt() not in seen:
            seen.add(x.smt())
            out.append(x)
    idx = {}
    stack, seen_t = [ob.goal] + list(ob.hyps), set()
    while stack:
        x = stack.pop()
        if id(x) in seen_t or not isinstance(x, t.T):
            continue
        seen_t.add(id(x))
        if x.op in ('lzpos', 'lzok') and not ghost.has_bound_var(x):
            idx[x.args[1].smt()] = x.args[1]
        if x.op == 'select' and getattr(x.args[0], 'sort', None) == 'VArr' and not ghost.has_bound_var(x):
            idx[x.args[1].smt()] = x.args[1]
        if x.op == 'select' and getattr(x.args[0], 'sort', None) in ('VMapHas', 'VMapGet') and x.args[1].op == 'VInt' and not ghost.has_bound_var(x):
            idx[x.args[1].args[0].smt()] = x.args[1].args[0]          # an integer key of the offsets / values tables
        if x.op not in ('int', 'bool', 'strlit', 'var', 'raw', 'forall'):
            stack.extend(a for a in x.args if isinstance(a, t.T))
    for pf in apps['afold'].values():
        if ghost.has_bound_var(pf):
            continue
        m, K, s0_, buf, ln, base, c = pf.args
        if s0_.op != 'mkPS' or s0_.args[0].smt() != 'true' or s0_.args[1].smt() != 'false':
            continue
        v = dict(m=m, buf=buf, len=ln, p0=s0_.args[2], H=s0_.args[3], D=s0_.args[4], base=base, c=c)
        add(LEMMAS['lazy_positions'].stmt(dict(v, k=K)))
        for j in idx.values():
            add(LEMMAS['lazy_positions'].stmt(dict(v, k=j)))
            add(LEMMAS['afold_ok_mono'].stmt(dict(v, j=j, d=t.sub(K, j))))
            add(LEMMAS['lazy_values'].stmt(dict(v, j=j, K=K)))
    return out


# ================================================================================================ LazyStruct against the eager Struct fold
VS = [('sl', t.INT), ('buf', t.ARR), ('len', t.INT), ('p0', t.INT), ('H', 'Heap'), ('D', 'Dom'), ('base', t.INT), ('c', t.INT), ('r', t.INT)]


def SF(v, k):
    return t.app('pfold', 'PS', v['sl'], k, s0(v), v['buf'], v['len'], v['base'], v['c'], v['r'])


def sgood(s):
    return t.and_(ps('ps_ok', s), t.not_(ps('ps_stop', s)))


def smember(v, i):
    return t.app('sl_at', t.INT, v['sl'], i)


def spargs(v, i):
    s = SF(v, i)
    return (smember(v, i), v['buf'], v['len'], ps('ps_pos', s), v['base'], ps('ps_H', s), ps('ps_D', s), v['c'])


def srargs(v, i, p):
    return (smember(v, i), v['buf'], v['len'], p, v['base']) + REF


def lzspos(v, j):
    return t.app('lzspos', t.INT, v['sl'], j, v['p0'], v['buf'], v['len'], v['base'], *REF)


def lzsok(v, j):
    return t.app('lzsok', t.BOOL, v['sl'], j, v['p0'], v['buf'], v['len'], v['base'], *REF)


def sdef_zero(v):
    return t.eq(SF(v, t.ZERO), s0(v))


def sdef_step(v, k):
    """good(k) needs good(k-1) and a successful parse of member k-1, and then stands where that parse ended"""
    i = t.sub(k, t.ONE)
    s, s1 = SF(v, i), SF(v, k)
    ok = t.app('P_ok', t.BOOL, *spargs(v, i))
    return t.implies(t.ge(k, t.ONE), t.and_(t.implies(sgood(s1), t.and_(sgood(s), ok)),
                                            t.implies(t.and_(sgood(s), ok), t.and_(sgood(s1), t.eq(ps('ps_pos', s1), t.app('P_end', t.INT, *spargs(v, i)))))))


def sdef_lz(v, k):
    prev = lzspos(v, t.sub(k, t.ONE))
    a = (smember(v, t.sub(k, t.ONE)), prev, v['buf'], v['len'], v['base']) + REF
    return t.and_(t.eq(lzspos(v, t.ZERO), v['p0']), lzsok(v, t.ZERO),
                  t.implies(t.ge(k, t.ONE), t.and_(t.eq(lzspos(v, k), t.app('lzstep_pos', t.INT, *a)), t.eq(lzsok(v, k), t.and_(lzsok(v, t.sub(k, t.ONE)), t.app('lzstep_ok', t.BOOL, *a))))))


def straits(v, i, codes):
    a = spargs(v, i)
    r = srargs(v, i, a[3])
    out = []
    for fn, sort in (('P_ok', t.BOOL), ('P_val', t.VAL), ('P_end', t.INT), ('A_ok', t.BOOL), ('A_val', t.INT), ('A_exc', t.INT)):
        out.append(t.eq(t.app(fn, sort, *a), t.app(fn, sort, *r)))
    pok, aok = t.app('P_ok', t.BOOL, *r), t.app('A_ok', t.BOOL, *r)
    out.append(t.implies(t.and_(aok, pok), t.eq(t.app('P_end', t.INT, *r), t.add(a[3], t.app('A_val', t.INT, *r)))))
    out.append(t.implies(pok, t.or_(aok, t.or_(*[t.eq(t.app('A_exc', t.INT, *r), I(c)) for c in codes]))))
    return out


def make_struct(src):
    codes = sorted(src.exc_code[n] for n in src.exc_descendants('SizeofError'))
    keep = lambda v: [{n: v[n] for n, _ in VS}]     # noqa
    Lemma('pfold_good_prefix', VS + [('k', t.INT)],
          lambda v: t.implies(t.and_(t.ge(v['k'], t.ONE), sgood(SF(v, v['k']))), sgood(SF(v, t.sub(v['k'], t.ONE)))),
          tags=T, defs=lambda v: [sdef_step(v, v['k'])])
    Lemma('pfold_good_mono', VS + [('j', t.INT), ('d', t.INT)],
          lambda v: t.implies(t.and_(t.ge(v['j'], t.ZERO), t.ge(v['d'], t.ZERO), sgood(SF(v, t.add(v['j'], v['d'])))), sgood(SF(v, v['j']))),
          induct=('d', 0), tags=T, ih_instances=lambda v: [{n: v[n] for n, _ in VS + [('j', t.INT)]}],
          hints=lambda v: [LEMMAS['pfold_good_prefix'].stmt(dict({n: v[n] for n, _ in VS}, k=t.add(v['j'], v['d'])))])
    Lemma('lazy_struct_positions', VS + [('k', t.INT)],
          lambda v: t.implies(t.and_(t.ge(v['k'], t.ZERO), sgood(SF(v, v['k']))), t.and_(lzsok(v, v['k']), t.eq(lzspos(v, v['k']), ps('ps_pos', SF(v, v['k']))))),
          induct=('k', 0), tags=T, ih_instances=keep, hints=lambda v: [LEMMAS['pfold_good_prefix'].stmt(v)],
          traits=lambda v: straits(v, t.sub(v['k'], t.ONE), codes), defs=lambda v: [sdef_zero(v), sdef_step(v, v['k']), sdef_lz(v, v['k'])],
          doc='where the eager Struct parse stands after k members is where the lazy bookkeeping puts member k')

    def values(v):
        j, K = v['j'], v['K']
        return t.implies(t.and_(t.le(t.ZERO, j), t.lt(j, K), sgood(SF(v, K))),
                         t.and_(t.app('P_ok', t.BOOL, *srargs(v, j, lzspos(v, j))), t.eq(t.app('P_val', t.VAL, *spargs(v, j)), t.app('P_val', t.VAL, *srargs(v, j, lzspos(v, j))))))
    Lemma('lazy_struct_values', VS + [('j', t.INT), ('K', t.INT)], values, tags=T,
          hints=lambda v: [LEMMAS['lazy_struct_positions'].stmt(dict({n: v[n] for n, _ in VS}, k=v['j'])),
                           LEMMAS['pfold_good_mono'].stmt(dict({n: v[n] for n, _ in VS}, j=t.add(v['j'], t.ONE), d=t.sub(v['K'], t.add(v['j'], t.ONE)))),
                           LEMMAS['pfold_good_mono'].stmt(dict({n: v[n] for n, _ in VS}, j=v['j'], d=t.sub(v['K'], v['j'])))],
          traits=lambda v: straits(v, v['j'], codes), defs=lambda v: [sdef_step(v, t.add(v['j'], t.ONE))],
          doc='what member j parses to in the eager fold is what it yields at its lazy offset in the reference scope')


def no_stop_members(sl, stop_codes):
    """domain restriction (listed in the evidence): no member of the list ends a parse with StopFieldError (no StopIf inside)"""
    j = t.var('nsj!', t.INT)
    buf, ln, base = t.var('nsb!', t.ARR), t.var('nsl!', t.INT), t.var('nss!', t.INT)
    p, H, D, c = t.var('nsp!', t.INT), t.var('nsH!', 'Heap'), t.var('nsD!', 'Dom'), t.var('nsc!', t.INT)
    a = t.app('P_exc', t.INT, t.app('sl_at', t.INT, sl, j), buf, ln, p, base, H, D, c)
    return t.forall([j, buf, ln, p, base, H, D, c], t.not_(t.or_(*[t.eq(a, I(x)) for x in stop_codes])), pats=[[a]])


def make_nostop(src):
    stop = sorted(src.exc_code[n] for n in src.exc_descendants('StopFieldError'))

    def step_full(v, k):
        prev = SF(v, t.sub(k, t.ONE))
        step = t.app('pstep', 'PS', smember(v, t.sub(k, t.ONE)), prev, v['buf'], v['len'], v['base'], v['c'], v['r'])
        return t.implies(t.ge(k, t.ONE), t.eq(SF(v, k), step))
    Lemma('pfold_never_stops', VS + [('k', t.INT)],
          lambda v: t.implies(no_stop_members(v['sl'], stop), t.not_(ps('ps_stop', SF(v, v['k'])))),
          induct=('k', 0), tags=T, ih_instances=lambda v: [{n: v[n] for n, _ in VS}],
          defs=lambda v: [sdef_zero(v), step_full(v, v['k'])], doc='without a StopIf among the members the eager fold never stops early')
    return stop


def struct_post_hints(src):
    stop = sorted(src.exc_code[n] for n in src.exc_descendants('StopFieldError'))

    def hints(ob):
        apps = ghost.find_apps(list(ob.hyps) + [ob.goal], ('pfold', 'sl_at', 'P_exc', 'lzspos', 'lzsok'))
        out, seen = [], set()

        def add(x):
            if x.smt() not in seen:
                seen.add(x.smt())
                out.append(x)
        idx = {a.args[1].smt(): a.args[1] for a in apps['sl_at'].values() if not ghost.has_bound_var(a)}
        for a in list(apps['lzspos'].values()) + list(apps['lzsok'].values()):
            if not ghost.has_bound_var(a):
                idx[a.args[1].smt()] = a.args[1]
        for pf in apps['pfold'].values():
            if ghost.has_bound_var(pf):
                continue
            sl, K, s0_, buf, ln, base, c, r = pf.args
            if s0_.op != 'mkPS' or s0_.args[0].smt() != 'true' or s0_.args[1].smt() != 'false':
                continue
            v = dict(sl=sl, buf=buf, len=ln, p0=s0_.args[2], H=s0_.args[3], D=s0_.args[4], base=base, c=c, r=r)
            add(LEMMAS['lazy_struct_positions'].stmt(dict(v, k=K)))
            add(LEMMAS['pfold_never_stops'].stmt(dict(v, k=K)))
            for j in idx.values():
                add(LEMMAS['lazy_struct_positions'].stmt(dict(v, k=j)))
                add(LEMMAS['pfold_good_mono'].stmt(dict(v, j=j, d=t.sub(K, j))))
                add(LEMMAS['lazy_struct_values'].stmt(dict(v, j=j, K=K)))
                # the eager value of member j sits in the result container under its name (lemma struct_result_holds)
                fv = {'sl': sl, 'base': base, 'pbuf': buf, 'plen': ln, 'q0': s0_.args[2], 'Hp': s0_.args[3], 'Dp': s0_.args[4], 'cp': c, 'r': r}
                add(LEMMAS['struct_result_holds'].stmt(dict(fv, j=j, d=t.sub(t.sub(K, j), t.ONE))))
        return out
    return hints
