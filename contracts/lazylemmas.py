"""Layer-B lemmas for C16 (LazyArray): wherever the eager parse (the Array fold) succeeds over k elements, the lazy bookkeeping
(lzpos / lzok of contracts/lazyarray.py) succeeds and finds element k at the very position the eager parse reached, and the value
an element yields at that position in the reference scope is the eager value.

Hypotheses about the element construct (listed in the evidence), instantiated on the elements of the fold:
  scope independence (C16's "no cross references")  - parse and _actualsize answer alike in every scope;
  measured-is-parsed   - when _actualsize answers n and the parse succeeds, the parse advances by exactly n;
  measurable-or-says-so - an element that parses either answers _actualsize or raises SizeofError (it has no other way to fail)."""
from pyvc import terms as t
from pyvc.terms import I, S
from pyvc.lemma import Lemma, LEMMAS
from pyvc import ghost
from .composites import ps, mkPS
from .lazyarray import REF
from .foldlemmas import _indexed

T = ('C16',)
V = [('m', t.INT), ('buf', t.ARR), ('len', t.INT), ('p0', t.INT), ('H', 'Heap'), ('D', 'Dom'), ('base', t.INT), ('c', t.INT)]
SIZEOF_CODES = []


def s0(v):
    return mkPS(t.TRUE, t.FALSE, v['p0'], v['H'], v['D'])


def PF(v, k):
    return t.app('afold', 'PS', v['m'], k, s0(v), v['buf'], v['len'], v['base'], v['c'])


def pargs(v, i):
    s = PF(v, i)
    H0, D0 = _indexed(ps('ps_H', s), ps('ps_D', s), v['c'], i)
    return (v['m'], v['buf'], v['len'], ps('ps_pos', s), v['base'], H0, D0, v['c'])


def rargs(v, p):
    return (v['m'], v['buf'], v['len'], p, v['base']) + REF


def lzpos(v, j):
    return t.app('lzpos', t.INT, v['m'], j, v['p0'], v['buf'], v['len'], v['base'], *REF)


def lzok(v, j):
    return t.app('lzok', t.BOOL, v['m'], j, v['p0'], v['buf'], v['len'], v['base'], *REF)


def def_p_zero(v):
    return t.eq(PF(v, t.ZERO), s0(v))


def def_p_step(v, k):
    i = t.sub(k, t.ONE)
    s, s1 = PF(v, i), PF(v, k)
    ok = t.app('P_ok', t.BOOL, *pargs(v, i))
    return t.implies(t.ge(k, t.ONE), t.and_(t.implies(t.not_(ps('ps_ok', s)), t.not_(ps('ps_ok', s1))),
                                            t.implies(ps('ps_ok', s), t.ite(ok, t.and_(ps('ps_ok', s1), t.eq(ps('ps_pos', s1), t.app('P_end', t.INT, *pargs(v, i)))), t.not_(ps('ps_ok', s1))))))


def def_lz(v, k):
    prev = lzpos(v, t.sub(k, t.ONE))
    a = (v['m'], prev, v['buf'], v['len'], v['base']) + REF
    return t.and_(t.eq(lzpos(v, t.ZERO), v['p0']), lzok(v, t.ZERO),
                  t.implies(t.ge(k, t.ONE), t.and_(t.eq(lzpos(v, k), t.app('lzstep_pos', t.INT, *a)), t.eq(lzok(v, k), t.and_(lzok(v, t.sub(k, t.ONE)), t.app('lzstep_ok', t.BOOL, *a))))))


def traits(v, i, src_codes):
    """the hypotheses about the element construct on step i of the eager fold"""
    a = pargs(v, i)
    r = rargs(v, a[3])
    out = []
    for fn, sort in (('P_ok', t.BOOL), ('P_val', t.VAL), ('P_end', t.INT), ('A_ok', t.BOOL), ('A_val', t.INT), ('A_exc', t.INT)):
        out.append(t.eq(t.app(fn, sort, *a), t.app(fn, sort, *r)))                                   # scope independence
    pok, aok = t.app('P_ok', t.BOOL, *r), t.app('A_ok', t.BOOL, *r)
    out.append(t.implies(t.and_(aok, pok), t.eq(t.app('P_end', t.INT, *r), t.add(a[3], t.app('A_val', t.INT, *r)))))     # measured is parsed
    out.append(t.implies(pok, t.or_(aok, t.or_(*[t.eq(t.app('A_exc', t.INT, *r), I(c)) for c in src_codes]))))           # measurable or says so
    return out


def make(src):
    codes = sorted(src.exc_code[n] for n in src.exc_descendants('SizeofError'))
    SIZEOF_CODES[:] = codes
    Lemma('afold_ok_prefix', V + [('k', t.INT)],
          lambda v: t.implies(t.and_(t.ge(v['k'], t.ONE), ps('ps_ok', PF(v, v['k']))), ps('ps_ok', PF(v, t.sub(v['k'], t.ONE)))),
          tags=T, defs=lambda v: [def_p_step(v, v['k'])], doc='an eager parse that got through k elements got through k-1')
    Lemma('afold_ok_mono', V + [('j', t.INT), ('d', t.INT)],
          lambda v: t.implies(t.and_(t.ge(v['j'], t.ZERO), t.ge(v['d'], t.ZERO), ps('ps_ok', PF(v, t.add(v['j'], v['d'])))), ps('ps_ok', PF(v, v['j']))),
          induct=('d', 0), tags=T, ih_instances=lambda v: [{n: v[n] for n, _ in V + [('j', t.INT)]}],
          hints=lambda v: [LEMMAS['afold_ok_prefix'].stmt(dict({n: v[n] for n, _ in V}, k=t.add(v['j'], v['d'])))])
    Lemma('lazy_positions', V + [('k', t.INT)],
          lambda v: t.implies(t.and_(t.ge(v['k'], t.ZERO), ps('ps_ok', PF(v, v['k']))), t.and_(lzok(v, v['k']), t.eq(lzpos(v, v['k']), ps('ps_pos', PF(v, v['k']))))),
          induct=('k', 0), tags=T, ih_instances=lambda v: [{n: v[n] for n, _ in V}],
          hints=lambda v: [LEMMAS['afold_ok_prefix'].stmt(v)], traits=lambda v: traits(v, t.sub(v['k'], t.ONE), codes),
          defs=lambda v: [def_p_zero(v), def_p_step(v, v['k']), def_lz(v, v['k'])],
          doc='where the eager parse stands after k elements is where the lazy bookkeeping puts element k')

    def values(v):
        av = t.app('aval', t.VAL, v['m'], v['j'], s0(v), v['buf'], v['len'], v['base'], v['c'])
        return t.implies(t.and_(t.le(t.ZERO, v['j']), t.lt(v['j'], v['K']), ps('ps_ok', PF(v, v['K']))),
                         t.and_(t.app('P_ok', t.BOOL, *rargs(v, lzpos(v, v['j']))), t.eq(av, t.app('P_val', t.VAL, *rargs(v, lzpos(v, v['j']))))))
    Lemma('lazy_values', V + [('j', t.INT), ('K', t.INT)], values, tags=T,
          hints=lambda v: [LEMMAS['lazy_positions'].stmt(dict({n: v[n] for n, _ in V}, k=v['j'])),
                           LEMMAS['afold_ok_mono'].stmt(dict({n: v[n] for n, _ in V}, j=t.add(v['j'], t.ONE), d=t.sub(v['K'], t.add(v['j'], t.ONE)))),
                           LEMMAS['afold_ok_mono'].stmt(dict({n: v[n] for n, _ in V}, j=v['j'], d=t.sub(v['K'], v['j'])))],
          traits=lambda v: traits(v, v['j'], codes), defs=lambda v: [def_p_step(v, t.add(v['j'], t.ONE))],
          doc='the eager value of element j is what the element yields at its lazy offset in the reference scope')


def post_hints(ob):
    """instances of the proved lemmas on the eager fold applications of a ghost obligation"""
    apps = ghost.find_apps(list(ob.hyps) + [ob.goal], ('afold', 'lzpos', 'lzok'))
    out, seen = [], set()

    def add(x):
        if x.smt() not in seen:
            seen.add(x.smt())
            out.append(x)
    idx = {}
    stack, seen_t = [ob.goal] + list(ob.hyps), set()
    while stack:
        x = stack.pop()
        if id(x) in seen_t or not isinstance(x, t.T):
            continue
        seen_t.add(id(x))
        if x.op in ('lzpos', 'lzok') and not ghost.has_bound_var(x):
            idx[x.args[1].smt()] = x.args[1]
        if x.op == 'select' and getattr(x.args[0], 'sort', None) == 'VArr' and not ghost.has_bound_var(x):
            idx[x.args[1].smt()] = x.args[1]
        if x.op == 'select' and getattr(x.args[0], 'sort', None) in ('VMapHas', 'VMapGet') and x.args[1].op == 'VInt' and not ghost.has_bound_var(x):
            idx[x.args[1].args[0].smt()] = x.args[1].args[0]          # an integer key of the offsets / values tables
        if x.op not in ('int', 'bool', 'strlit', 'var', 'raw', 'forall'):
            stack.extend(a for a in x.args if isinstance(a, t.T))
    for pf in apps['afold'].values():
        if ghost.has_bound_var(pf):
            continue
        m, K, s0_, buf, ln, base, c = pf.args
        if s0_.op != 'mkPS' or s0_.args[0].smt() != 'true' or s0_.args[1].smt() != 'false':
            continue
        v = dict(m=m, buf=buf, len=ln, p0=s0_.args[2], H=s0_.args[3], D=s0_.args[4], base=base, c=c)
        add(LEMMAS['lazy_positions'].stmt(dict(v, k=K)))
        for j in idx.values():
            add(LEMMAS['lazy_positions'].stmt(dict(v, k=j)))
            add(LEMMAS['afold_ok_mono'].stmt(dict(v, j=j, d=t.sub(K, j))))
            add(LEMMAS['lazy_values'].stmt(dict(v, j=j, K=K)))
    return out
