"""Functional contracts of constants/validators/label mappings (C13) and of the Adapter plumbing (C01/C02):
Check, Validator (and through it ExprValidator / OneOf / NoneOf), Enum, Mapping, FlagsEnum, Adapter._parse/_build."""
from pyvc import terms as t, prelude
from pyvc.terms import I, S
from pyvc.values import *  # noqa
from pyvc.contract import Case, rk_dyn, rk_none
from .classes import FIELDS, Func, path_clause
from .prims import fcontract, generic_raise, _param_truth
from .wrappers import Sub, result_is, S_

T = ('C13',)


def exc_is(post, name):
    return t.eq(post.exc.cls, I(post.eng.src.exc_code[name]))


# ------------------------------------------------------------------------------------------------ Check
def _check_passes(pre):
    return _param_truth(pre, 'func')


for _m in ('_parse', '_build'):
    fcontract('Check', _m, [
        Case('passes', 'return', _check_passes, rkind=rk_none,
             ensures=lambda pre, post: [('returns-None', t.eq(post.eng.to_dyn(post.result, post.st), t.app('VNone', t.VAL)), T)]),
        Case('fails', 'raise', lambda pre: t.not_(_check_passes(pre)),
             ensures=lambda pre, post: [('falsy-condition-is-CheckError', exc_is(post, 'CheckError'), T)] + generic_raise(pre, post)),
    ], tags=T, sub_seq=False)


# ------------------------------------------------------------------------------------------------ Validator (ExprValidator, OneOf, NoneOf)
# the predicate is an attribute of the instance (ExprValidator stores a lambda; subclasses define a method): a pure
# function of (object, context)
FIELDS['Validator'] = dict(FIELDS['Validator'], _validate=Func('dyn'))


def _valid(pre):
    f = pre.self.fields['_validate']
    res = f.model[1](None, pre.eng, [pre['obj'], pre['context'], pre['path']], {}, pre.st.clone(), None)
    return pre.eng.truth(res[0][1], pre.st)


fcontract('Validator', '_decode', [
    Case('admitted', 'return', _valid, rkind=rk_dyn,
         ensures=lambda pre, post: [('admitted-value-is-returned-unchanged', t.eq(post.eng.to_dyn(post.result, post.st), pre['obj'].t), T)]),
    Case('rejected', 'raise', lambda pre: t.not_(_valid(pre)),
         ensures=lambda pre, post: [('predicate-false-is-ValidationError', exc_is(post, 'ValidationError'), T)] + generic_raise(pre, post)),
], tags=T, sub_seq=False)

# SymmetricAdapter._encode is _decode: the same predicate guards building
fcontract('SymmetricAdapter', '_encode', [
    Case('admitted', 'return', _valid, rkind=rk_dyn,
         ensures=lambda pre, post: [('admitted-value-is-returned-unchanged', t.eq(post.eng.to_dyn(post.result, post.st), pre['obj'].t), T)]),
    Case('rejected', 'raise', lambda pre: t.not_(_valid(pre)),
         ensures=lambda pre, post: [('predicate-false-is-ValidationError', exc_is(post, 'ValidationError'), T)]),
], tags=T, sub_seq=False, instance_cls='Validator')


TM = ('C13', 'C03')      # label mappings are part of the wire-format specification as well
# ------------------------------------------------------------------------------------------------ Enum / Mapping
def mhas(pre, field, key):
    return t.app('map_has', t.BOOL, pre.self.fields[field].ident, key)


def mget(pre, field, key):
    return t.app('map_get', t.VAL, pre.self.fields[field].ident, key)


def _isint(v):
    return t.app('isint', t.BOOL, v)


fcontract('Enum', '_decode', [
    Case('any-int', 'return', lambda pre: t.TRUE, rkind=rk_dyn,
         ensures=lambda pre, post: [('known-value-gives-its-label', t.implies(mhas(pre, 'decmapping', pre['obj'].t), result_is(post, mget(pre, 'decmapping', pre['obj'].t))), TM),
                                    ('unmapped-integer-passes-through-unchanged', t.implies(t.not_(mhas(pre, 'decmapping', pre['obj'].t)),
                                                                                           t.app('pyeq', t.BOOL, post.eng.to_dyn(post.result, post.st), pre['obj'].t)), TM)]),
], tags=TM, sub_seq=False, requires=lambda pre: [('obj-is-int', _isint(pre['obj'].t))])

prelude.declare_fun('opq_hashable', [t.VAL], t.BOOL)


def _hashable(v):
    return t.or_(t.not_(t.or_(t.app('(_ is VRef)', t.BOOL, v), t.app('(_ is VOpq)', t.BOOL, v))), t.app('opq_hashable', t.BOOL, v))


def _enum_enc_ok(pre):
    v = pre['obj'].t
    return t.or_(_isint(v), t.and_(_hashable(v), mhas(pre, 'encmapping', v)))


fcontract('Enum', '_encode', [
    Case('ok', 'return', _enum_enc_ok, rkind=rk_dyn,
         ensures=lambda pre, post: [('integers-pass-through', t.implies(_isint(pre['obj'].t), t.eq(post.eng.to_dyn(post.result, post.st), pre['obj'].t)), TM),
                                    ('known-label-gives-its-value', t.implies(t.not_(_isint(pre['obj'].t)), result_is(post, mget(pre, 'encmapping', pre['obj'].t))), TM)]),
    Case('unknown-label', 'raise', lambda pre: t.not_(_enum_enc_ok(pre)),
         ensures=lambda pre, post: [('unknown-label-is-MappingError', t.implies(_hashable(pre['obj'].t), exc_is(post, 'MappingError')), TM)]),
], tags=TM, sub_seq=False)

fcontract('Mapping', '_decode', [
    Case('known', 'return', lambda pre: t.and_(_hashable(pre['obj'].t), mhas(pre, 'decmapping', pre['obj'].t)), rkind=rk_dyn,
         ensures=lambda pre, post: [('known-value-gives-its-label', result_is(post, mget(pre, 'decmapping', pre['obj'].t)), TM)]),
    Case('unknown', 'raise', lambda pre: t.not_(t.and_(_hashable(pre['obj'].t), mhas(pre, 'decmapping', pre['obj'].t))),
         ensures=lambda pre, post: [('unknown-value-is-MappingError', exc_is(post, 'MappingError'), TM)] + generic_raise(pre, post)),
], tags=TM, sub_seq=False)

fcontract('Mapping', '_encode', [
    Case('known', 'return', lambda pre: t.and_(_hashable(pre['obj'].t), mhas(pre, 'encmapping', pre['obj'].t)), rkind=rk_dyn,
         ensures=lambda pre, post: [('known-label-gives-its-value', result_is(post, mget(pre, 'encmapping', pre['obj'].t)), TM)]),
    Case('unknown', 'raise', lambda pre: t.not_(t.and_(_hashable(pre['obj'].t), mhas(pre, 'encmapping', pre['obj'].t))),
         ensures=lambda pre, post: [('unknown-label-is-MappingError', exc_is(post, 'MappingError'), TM)] + generic_raise(pre, post)),
], tags=TM, sub_seq=False)


# ------------------------------------------------------------------------------------------------ Adapter plumbing
def _ad_parse_guard(pre):
    return Sub(pre, 'subcon').ok


# Adapter._parse = _decode(subcon parse); Adapter._build = subcon build(_encode(obj)) and returns the ORIGINAL obj.
# The hooks are abstract in Adapter: they are named by the interface functions K_ok / K_val / K_exc (kind 0 = decode, 1 = encode).
for _fn, _srt in (('K_ok', t.BOOL), ('K_val', t.VAL), ('K_exc', t.INT)):
    prelude.declare_fun(_fn, [t.INT, t.INT, t.VAL, 'Heap', 'Dom', t.INT], _srt)


def hook(pre, kind, val, H=None, D=None):
    a = (I(kind), pre.self.ident, val, H if H is not None else pre.st.ghost['H'], D if D is not None else pre.st.ghost['D'], pre.obj('context').addr)
    return t.app('K_ok', t.BOOL, *a), t.app('K_val', t.VAL, *a)


def _ad_parse_guard2(pre):
    s = Sub(pre, 'subcon')
    return t.and_(s.ok, hook(pre, 0, s.val, s.H, s.D)[0])


def _ad_parse_ok(pre, post):
    s = Sub(pre, 'subcon')
    o2 = post.obj('stream')
    return [('returns-the-decode-hook-applied-to-what-the-inner-construct-parsed', result_is(post, hook(pre, 0, s.val, s.H, s.D)[1]), ('C13', 'C03', 'C01')),
            ('consumes-what-the-inner-construct-consumed', t.eq(o2.pos, s.end), ('C03',))]


def _ad_encoded(pre):
    return hook(pre, 1, pre['obj'].t)


def _ad_bsub(pre):
    return Sub(pre, 'subcon', obj=_ad_encoded(pre)[1], kind='build')


def _ad_build_ok(pre, post):
    o, o2 = S_(pre), post.obj('stream')
    s = _ad_bsub(pre)
    from .wrappers import _written
    return [('returns-the-value-it-was-given', t.eq(post.eng.to_dyn(post.result, post.st), pre['obj'].t), ('C01', 'C02', 'C13')),
            ('the-inner-construct-builds-the-encode-hook-of-the-value', t.eq(o2.pos, t.add(o.pos, s.len)), ('C13', 'C03')),
            _written(o, o2, s.len, lambda i: t.select(s.bytes, i), 'emits-exactly-the-inner-encoding-of-the-encoded-value')]


_a1 = fcontract('Adapter', '_parse', [
    Case('ok', 'return', _ad_parse_guard2, ensures=_ad_parse_ok, rkind=rk_dyn, modifies=['stream']),
    Case('fails', 'raise', lambda pre: t.not_(_ad_parse_guard2(pre)), ensures=generic_raise, modifies=['stream']),
], tags=('C13', 'C03', 'C01'), sub_seq=True)
_a2 = fcontract('Adapter', '_build', [
    Case('ok', 'return', lambda pre: t.and_(_ad_encoded(pre)[0], _ad_bsub(pre).ok), ensures=_ad_build_ok, rkind=rk_dyn, modifies=['stream']),
    Case('fails', 'raise', lambda pre: t.not_(t.and_(_ad_encoded(pre)[0], _ad_bsub(pre).ok)), modifies=['stream']),
], tags=('C01', 'C02', 'C13', 'C03'), sub_seq=True)
for _c in (_a1, _a2):
    _c.iface = dict(_c.iface or {}, hooks_as_functions=True)


# ------------------------------------------------------------------------------------------------ FlagsEnum._decode (C13)
from pyvc.exec import LoopSpec  # noqa
prelude.declare_fun('map_len', [t.INT], t.INT)
prelude.declare_fun('map_key', [t.INT, t.INT], t.VAL)


def _fe_entries(m, x, H, D, addr, upto):
    """every label among the first `upto` entries of the flags mapping is present in the container at addr and is True exactly
    when ALL bits of its mask are set in x  (x & mask == mask)"""
    j = t.var('fe!', t.INT)
    key = t.app('map_key', t.VAL, m.ident, j)
    name = t.app('sval', t.STR, key)
    mask = t.app('ival', t.INT, t.app('map_get', t.VAL, m.ident, key))
    fields, keys = t.T('Fields', 'select', (H, addr)), t.T('Keys', 'select', (D, addr))
    want = t.app('VBool', t.VAL, t.eq(t.app('band', t.INT, x, mask), mask))
    body = t.and_(t.T(t.BOOL, 'select', (keys, name)), t.eq(t.T(t.VAL, 'select', (fields, name)), want))
    return t.forall([j], t.implies(t.and_(t.le(t.ZERO, j), t.lt(j, upto)), body), pats=[[key]])


def _fe_only_labels(m, D, addr):
    """the container holds nothing but labels of the flags table and the private marker"""
    key = t.var('fek!', t.STR)
    present = t.T(t.BOOL, 'select', (t.T('Keys', 'select', (D, addr)), key))
    return t.forall([key], t.implies(present, t.or_(t.eq(key, S('_flagsenum')), t.app('map_has', t.BOOL, m.ident, t.app('VStr', t.VAL, key)))), pats=[[present]])


def _fe_inv(L):
    pre = L.extra['pre']
    m = pre.self.fields['flags']
    x = t.app('toint', t.INT, pre['obj'].t)
    R = L.obj('obj2')
    return [('labels-decoded-so-far', _fe_entries(m, x, L.st.ghost['H'], L.st.ghost['D'], R.addr, L.k)),
            ('nothing-but-labels-and-the-marker', _fe_only_labels(m, L.st.ghost['D'], R.addr)),
            ('result-container-keeps-its-identity', t.eq(R.addr, L.oldobj('obj2').addr))]


def _fe_decode_ok(pre, post):
    m = pre.self.fields['flags']
    x = t.app('toint', t.INT, pre['obj'].t)
    r = post.result
    addr = post.st.get(r).addr if isinstance(r, VRef) else t.app('ref', t.INT, r.t)
    n = t.app('map_len', t.INT, m.ident)
    return [('every-label-is-set-exactly-when-all-bits-of-its-mask-are-set', _fe_entries(m, x, post.st.ghost['H'], post.st.ghost['D'], addr, n), TM),
            ('result-holds-nothing-but-labels-and-the-private-marker', _fe_only_labels(m, post.st.ghost['D'], addr), TM + ('C02',)),
            ('returns-a-container', t.TRUE if isinstance(r, VRef) else t.app('(_ is VRef)', t.BOOL, r.t), TM),
            ('result-is-a-fresh-container', t.ge(addr, pre.st.ghost['alloc']), TM + ('C17',))]


fcontract('FlagsEnum', '_decode', [
    Case('any-int', 'return', lambda pre: t.TRUE, rkind=rk_dyn, ensures=_fe_decode_ok),
], loops={'for (name, value) in self.flags.items()': LoopSpec(_fe_inv, tags=TM)}, tags=TM, sub_seq=False,
    requires=lambda pre: [('obj-is-int', _isint(pre['obj'].t))])


# ------------------------------------------------------------------------------------------------ FlagsEnum._encode (C13, C03, C02)
# An integer passes through unchanged.  A mapping label -> truth value encodes to the bitwise OR of the masks of the labels whose value
# is true (labels starting with '_' are ignored); a string "a|b|c" to the OR of the masks of its non-empty, stripped parts.  A label
# the flags table does not know is MappingError.  Anything else is MappingError.
prelude.declare_fun('cont_len', ['Keys'], t.INT)
prelude.declare_fun('cont_key', ['Keys', t.INT], t.STR)
prelude.declare_fun('split_count', [t.STR, t.STR], t.INT)
prelude.declare_fun('split_part', [t.STR, t.STR, t.INT], t.STR)
prelude.declare_fun('str_strip', [t.STR], t.STR)
prelude.define('fe_dict_val', """(define-fun-rec fe_dict_val ((m Int) (H (Array Int (Array String Val))) (D (Array Int (Array String Bool))) (a Int) (k Int)) Int
  (ite (<= k 0) 0
  (let ((key (cont_key (select D a) (- k 1))))
  (ite (and (not (str.prefixof "_" key)) (truthy (select (select H a) key)))
       (bor (fe_dict_val m H D a (- k 1)) (ival (map_get m (VStr key))))
       (fe_dict_val m H D a (- k 1))))))""", deps=['cont_key', 'truthy', 'bor', 'map_get'])
prelude.define('fe_dict_ok', """(define-fun-rec fe_dict_ok ((m Int) (H (Array Int (Array String Val))) (D (Array Int (Array String Bool))) (a Int) (k Int)) Bool
  (ite (<= k 0) true
  (let ((key (cont_key (select D a) (- k 1))))
  (and (fe_dict_ok m H D a (- k 1))
       (=> (and (not (str.prefixof "_" key)) (truthy (select (select H a) key))) (map_has m (VStr key)))))))""", deps=['cont_key', 'truthy', 'map_has'])
prelude.define('fe_str_val', """(define-fun-rec fe_str_val ((m Int) (s String) (k Int)) Int
  (ite (<= k 0) 0
  (let ((part (str_strip (split_part s "|" (- k 1)))))
  (ite (> (str.len part) 0) (bor (fe_str_val m s (- k 1)) (ival (map_get m (VStr part)))) (fe_str_val m s (- k 1))))))""", deps=['split_part', 'str_strip', 'bor', 'map_get'])
prelude.define('fe_str_ok', """(define-fun-rec fe_str_ok ((m Int) (s String) (k Int)) Bool
  (ite (<= k 0) true
  (let ((part (str_strip (split_part s "|" (- k 1)))))
  (and (fe_str_ok m s (- k 1)) (=> (> (str.len part) 0) (map_has m (VStr part)))))))""", deps=['split_part', 'str_strip', 'map_has'])


def _fe_obj(pre):
    return pre['obj'].t


def _fe_dict_terms(pre, k):
    m = pre.self.fields['flags']
    a = t.app('ref', t.INT, _fe_obj(pre))
    H, D = pre.st.ghost['H'], pre.st.ghost['D']
    return t.app('fe_dict_val', t.INT, m.ident, H, D, a, k), t.app('fe_dict_ok', t.BOOL, m.ident, H, D, a, k), t.app('cont_len', t.INT, t.T('Keys', 'select', (D, a)))


def _fe_str_terms(pre, k):
    m = pre.self.fields['flags']
    s = t.app('sval', t.STR, _fe_obj(pre))
    return t.app('fe_str_val', t.INT, m.ident, s, k), t.app('fe_str_ok', t.BOOL, m.ident, s, k), t.app('split_count', t.INT, s, S('|'))


def _fe_unfold(fnv, fnok, args, k):
    """definitional unfolding of the two folds at k (an obligation of its own where it is used)"""
    return None


def _fe_dict_inv(L):
    pre = L.extra['pre']
    val, ok, n = _fe_dict_terms(pre, L.k)
    fl = L['flags']
    return [('flags-so-far-is-the-OR-of-the-masks-of-the-true-labels-seen', t.and_(ok, t.eq(L.eng.as_int(fl, L.st)[0], val)))]


def _fe_str_inv(L):
    pre = L.extra['pre']
    val, ok, n = _fe_str_terms(pre, L.k)
    fl = L['flags']
    return [('flags-so-far-is-the-OR-of-the-masks-of-the-labels-seen', t.and_(ok, t.eq(L.eng.as_int(fl, L.st)[0], val)))]


def _fe_kind(pre):
    v = _fe_obj(pre)
    isint = t.app('isint', t.BOOL, v)
    isstr = t.app('(_ is VStr)', t.BOOL, v)
    isdict = t.app('(_ is VRef)', t.BOOL, v)
    return isint, isstr, isdict


def _fe_encode_ok(pre, post):
    isint, isstr, isdict = _fe_kind(pre)
    r = post.eng.as_int(post.result, post.st)[0]
    dv, dok, dn = _fe_dict_terms(pre, None) if False else (None, None, None)
    m = pre.self.fields['flags']
    a = t.app('ref', t.INT, _fe_obj(pre))
    H, D = pre.st.ghost['H'], pre.st.ghost['D']
    dn = t.app('cont_len', t.INT, t.T('Keys', 'select', (D, a)))
    dv = t.app('fe_dict_val', t.INT, m.ident, H, D, a, dn)
    s = t.app('sval', t.STR, _fe_obj(pre))
    sn = t.app('split_count', t.INT, s, S('|'))
    sv = t.app('fe_str_val', t.INT, m.ident, s, sn)
    return [('an-integer-passes-through-unchanged', t.implies(isint, t.eq(r, t.app('toint', t.INT, _fe_obj(pre)))), TM + ('C02',)),
            ('a-string-encodes-to-the-OR-of-the-masks-of-its-labels', t.implies(t.and_(t.not_(isint), isstr), t.eq(r, sv)), TM + ('C02',)),
            ('a-mapping-encodes-to-the-OR-of-the-masks-of-its-true-labels', t.implies(t.and_(t.not_(isint), t.not_(isstr), isdict), t.eq(r, dv)), TM + ('C02',))]


def _fe_encode_bad(pre, post):
    out = [('anything-refused-is-MappingError', exc_is(post, 'MappingError'), TM)] + list(generic_raise(pre, post))
    isint, isstr, isdict = _fe_kind(pre)
    m = pre.self.fields['flags']
    a = t.app('ref', t.INT, _fe_obj(pre))
    H, D = pre.st.ghost['H'], pre.st.ghost['D']
    d = t.T('Keys', 'select', (D, a))
    kk = post.st.ghost.get('loop_k')
    ghost_mode = getattr(post.eng.models, 'ghost_mode', False)
    if kk is None or ghost_mode:
        kk = fresh('refused_entry', t.INT)
    key = t.app('cont_key', t.STR, d, kk)
    val = t.T(t.VAL, 'select', (t.T('Fields', 'select', (H, a)), key))
    out.append(('a-mapping-is-refused-only-for-a-true-label-the-table-does-not-know',
                t.implies(t.and_(t.not_(isint), t.not_(isstr), isdict),
                          t.and_(t.le(t.ZERO, kk), t.lt(kk, t.app('cont_len', t.INT, d)), t.T(t.BOOL, 'select', (d, key)), t.not_(t.str_prefixof(S('_'), key)), t.app('truthy', t.BOOL, val),
                                 t.not_(t.app('map_has', t.BOOL, m.ident, t.app('VStr', t.VAL, key))))), TM + ('C02',)))
    out.append(('an-integer-is-never-refused', t.not_(isint), TM))
    return out


fcontract('FlagsEnum', '_encode', [
    Case('ok', 'return', lambda pre: t.TRUE, rkind=rk_dyn, ensures=_fe_encode_ok),
    Case('refused', 'raise', lambda pre: t.TRUE, ensures=_fe_encode_bad),
], loops={"for name in obj.split('|')": LoopSpec(_fe_str_inv, tags=TM), 'for (name, value) in obj.items()': LoopSpec(_fe_dict_inv, tags=TM)}, tags=TM + ('C02',), sub_seq=False)
