"""Layer-B lemmas about the integer wire formats (all linear: shifts are iterated halving, never multiplication by 2^k).
They connect what the build contracts establish (digits / positional value) with what the parse contracts return, so
that the round-trip ghost programs of BytesInteger and BitsInteger close.  Every lemma is its own obligation (induction);
ghost programs receive ground instances only."""
from pyvc import terms as t
from pyvc.terms import I
from pyvc.lemma import Lemma, LEMMAS
from .specs import shr, bits_val, be_val, pow2, forall_range

T = ('C01', 'C02', 'C03', 'C10')


def le_val(a, lo, hi):
    return t.app('le_val', t.INT, a, lo, hi)


# ---- instances of the DEFINITIONS (define-fun-rec bodies instantiated at given arguments; true by definition)
def unfold_shr(n, k):
    return t.eq(t.app('shr', t.INT, n, k), t.ite(t.le(k, t.ZERO), n, t.pyfloordiv(t.app('shr', t.INT, n, t.sub(k, t.ONE)), I(2))))


def unfold_pow2(k):
    return t.eq(t.app('pow2', t.INT, k), t.ite(t.le(k, t.ZERO), t.ONE, t.mul(I(2), t.app('pow2', t.INT, t.sub(k, t.ONE)))))


def unfold_be(a, lo, hi):
    return t.eq(be_val(a, lo, hi), t.ite(t.le(hi, lo), t.ZERO, t.add(t.mul(I(256), be_val(a, lo, t.sub(hi, t.ONE))), t.select(a, t.sub(hi, t.ONE)))))


def unfold_le(a, lo, hi):
    return t.eq(le_val(a, lo, hi), t.ite(t.le(hi, lo), t.ZERO, t.add(t.select(a, lo), t.mul(I(256), le_val(a, t.add(lo, t.ONE), hi)))))


def unfold_bits(a, lo, hi):
    return t.eq(bits_val(a, lo, hi), t.ite(t.le(hi, lo), t.ZERO, t.add(t.mul(I(2), bits_val(a, lo, t.sub(hi, t.ONE))), t.select(a, t.sub(hi, t.ONE)))))


def S(n, k):
    return t.app('shr', t.INT, n, k)


def P(k):
    return t.app('pow2', t.INT, k)


def inst(name, **kw):
    return LEMMAS[name].stmt(kw)


# shr(shr(x,a),b) == shr(x,a+b)
Lemma('shr_add', [('x', t.INT), ('a', t.INT), ('b', t.INT)],
      lambda v: t.implies(t.and_(t.ge(v['a'], t.ZERO), t.ge(v['b'], t.ZERO)), t.eq(S(S(v['x'], v['a']), v['b']), S(v['x'], t.add(v['a'], v['b'])))),
      induct=('b', 0), ih_instances=lambda v: [{'x': v['x'], 'a': v['a']}], tags=T,
      defs=lambda v: [unfold_shr(S(v['x'], v['a']), v['b']), unfold_shr(v['x'], t.add(v['a'], v['b'])), unfold_shr(v['x'], v['a'])])

# x >= 0:  shr(x,k) >= 1  <=>  x >= 2^k
Lemma('shr_ge', [('x', t.INT), ('k', t.INT)],
      lambda v: t.implies(t.and_(t.ge(v['x'], t.ZERO), t.ge(v['k'], t.ZERO)), t.eq(t.ge(S(v['x'], v['k']), t.ONE), t.ge(v['x'], P(v['k'])))),
      induct=('k', 0), ih_instances=lambda v: [{'x': t.pyfloordiv(v['x'], I(2))}], tags=T,
      hints=lambda v: [inst('shr_div2', n=v['x'], k=v['k']), inst('pow2_pos', k=t.sub(v['k'], t.ONE))],
      defs=lambda v: [unfold_pow2(v['k']), unfold_shr(v['x'], v['k'])])


def _shr_const(x, k):
    """hints that unfold shr(x, k) for a literal k all the way down"""
    return [unfold_shr(x, I(j)) for j in range(k, 0, -1)] + [unfold_shr(x, t.ZERO)]


Lemma('shr8', [('x', t.INT)], lambda v: t.eq(S(v['x'], I(8)), t.pyfloordiv(v['x'], I(256))), tags=T, defs=lambda v: _shr_const(v['x'], 8))
Lemma('shr7_', [('x', t.INT)], lambda v: t.eq(S(v['x'], I(7)), t.pyfloordiv(v['x'], I(128))), tags=T, defs=lambda v: _shr_const(v['x'], 7))


def _bytes_in(a, lo, n):
    i = t.var('bt!', t.INT)
    return forall_range(i, lo, t.add(lo, n), t.and_(t.le(t.ZERO, t.select(a, i)), t.lt(t.select(a, i), I(256))), [[t.select(a, i)]])


def _be_top(v):
    a, lo, n = v['a'], v['lo'], v['n']
    return t.implies(t.and_(t.ge(n, t.ONE), _bytes_in(a, lo, n)),
                     t.and_(t.eq(S(be_val(a, lo, t.add(lo, n)), t.mul(I(8), t.sub(n, t.ONE))), t.select(a, lo)), t.ge(be_val(a, lo, t.add(lo, n)), t.ZERO)))


def _be_top_hints(v):
    a, lo, n = v['a'], v['lo'], v['n']
    V = be_val(a, lo, t.add(lo, n))
    return [inst('shr_add', x=V, a=I(8), b=t.mul(I(8), t.sub(n, I(2)))), inst('shr8', x=V)]


def _be_top_defs(v):
    a, lo, n = v['a'], v['lo'], v['n']
    V = be_val(a, lo, t.add(lo, n))
    return [unfold_be(a, lo, t.add(lo, n)), unfold_be(a, lo, t.add(lo, t.ONE)), unfold_be(a, lo, lo), unfold_shr(V, t.mul(I(8), t.sub(n, t.ONE)))]


# the most significant byte of a big-endian value is its first byte
Lemma('be_top', [('a', t.ARR), ('lo', t.INT), ('n', t.INT)], _be_top, induct=('n', 1), ih_instances=lambda v: [{'a': v['a'], 'lo': v['lo']}], tags=T, hints=_be_top_hints, defs=_be_top_defs)


def _le_top(v):
    a, lo, n = v['a'], v['lo'], v['n']
    return t.implies(t.and_(t.ge(n, t.ONE), _bytes_in(a, lo, n)),
                     t.and_(t.eq(S(le_val(a, lo, t.add(lo, n)), t.mul(I(8), t.sub(n, t.ONE))), t.select(a, t.sub(t.add(lo, n), t.ONE))), t.ge(le_val(a, lo, t.add(lo, n)), t.ZERO)))


def _le_top_hints(v):
    a, lo, n = v['a'], v['lo'], v['n']
    V = le_val(a, lo, t.add(lo, n))
    return [inst('shr_add', x=V, a=I(8), b=t.mul(I(8), t.sub(n, I(2)))), inst('shr8', x=V)]


def _le_top_defs(v):
    a, lo, n = v['a'], v['lo'], v['n']
    V = le_val(a, lo, t.add(lo, n))
    return [unfold_le(a, lo, t.add(lo, n)), unfold_le(a, t.add(lo, t.ONE), t.add(lo, n)), unfold_shr(V, t.mul(I(8), t.sub(n, t.ONE)))]


# the most significant byte of a little-endian value is its last byte
Lemma('le_top', [('a', t.ARR), ('lo', t.INT), ('n', t.INT)], _le_top, induct=('n', 1), ih_instances=lambda v: [{'a': v['a'], 'lo': t.add(v['lo'], t.ONE)}], tags=T, hints=_le_top_hints, defs=_le_top_defs)


def digits(a, off, L, N):
    j = t.var('dg!', t.INT)
    return forall_range(j, off, t.add(off, L), t.eq(t.select(a, j), t.pymod(S(N, t.sub(t.sub(L, t.ONE), t.sub(j, off))), I(2))), [[t.select(a, j)]])


def _bits_prefix(v):
    a, off, L, N, k = v['a'], v['off'], v['L'], v['N'], v['k']
    return t.implies(t.and_(t.le(t.ZERO, k), t.le(k, L), t.ge(N, t.ZERO), t.eq(S(N, L), t.ZERO), digits(a, off, L, N)),
                     t.eq(bits_val(a, off, t.add(off, k)), S(N, t.sub(L, k))))


# the first k digits of the L-digit msb-first expansion of N (N < 2^L) are the number N >> (L-k)
Lemma('bits_prefix', [('a', t.ARR), ('off', t.INT), ('L', t.INT), ('N', t.INT), ('k', t.INT)], _bits_prefix, induct=('k', 0),
      ih_instances=lambda v: [{'a': v['a'], 'off': v['off'], 'L': v['L'], 'N': v['N']}], tags=T,
      hints=lambda v: [inst('shr_nonneg', n=v['N'], k=t.sub(v['L'], v['k']))],
      defs=lambda v: [unfold_bits(v['a'], v['off'], t.add(v['off'], v['k'])), unfold_shr(v['N'], t.add(t.sub(v['L'], v['k']), t.ONE))])


# ---- one-step forms of the definitions, as lemmas (so that ghost programs receive only lemma instances)
Lemma('pow2_step', [('k', t.INT)], lambda v: t.implies(t.ge(v['k'], t.ONE), t.eq(P(v['k']), t.mul(I(2), P(t.sub(v['k'], t.ONE))))), tags=T,
      defs=lambda v: [unfold_pow2(v['k'])])
Lemma('shr_step', [('n', t.INT), ('k', t.INT)], lambda v: t.implies(t.ge(v['k'], t.ONE), t.eq(S(v['n'], v['k']), t.pyfloordiv(S(v['n'], t.sub(v['k'], t.ONE)), I(2)))), tags=T,
      defs=lambda v: [unfold_shr(v['n'], v['k'])])
Lemma('shr_zero', [('n', t.INT)], lambda v: t.eq(S(v['n'], t.ZERO), v['n']), tags=T, defs=lambda v: [unfold_shr(v['n'], t.ZERO)])
Lemma('bits_one', [('a', t.ARR), ('lo', t.INT)], lambda v: t.eq(bits_val(v['a'], v['lo'], t.add(v['lo'], t.ONE)), t.select(v['a'], v['lo'])), tags=T,
      defs=lambda v: [unfold_bits(v['a'], v['lo'], t.add(v['lo'], t.ONE)), unfold_bits(v['a'], v['lo'], v['lo'])])


# ================================================================================================ ghost-program hints
def _param_terms(eng, st, selfv):
    iface = eng.models.interface
    H, D = st.ghost['H'], st.ghost['D']
    c = iface.ctx_addr(eng, st.env['context'], st)

    def pint(name):
        p = selfv.fields[name]
        return t.ite(p.callable_t, t.app('ev_int', t.INT, p.ident, H, D, c), iface.param_const(eng, p, st).t)

    def ptruth(name):
        p = selfv.fields[name]
        return t.ite(p.callable_t, t.app('truthy', t.BOOL, t.app('ev_val', t.VAL, p.ident, H, D, c)), eng.truth(iface.param_const(eng, p, st), st))
    return pint, ptruth


def bytesinteger_hints(eng, st, args):
    from .ghostreg import default_hints
    default_hints(eng, st, args)
    selfv, obj, data, whole = args[0], args[1], args[2], args[3]
    w = eng.models.as_bytes(eng, whole, st)
    if w is None:
        return
    pint, ptruth = _param_terms(eng, st, selfv)
    L = pint('length')
    hi = t.add(w.off, L)
    for val, top in ((be_val(w.arr, w.off, hi), 'be_top'), (le_val(w.arr, w.off, hi), 'le_top')):
        st.assume(inst(top, a=w.arr, lo=w.off, n=L))
        st.assume(inst('shr_add', x=val, a=t.mul(I(8), t.sub(L, t.ONE)), b=I(7)))
        st.assume(inst('shr_ge', x=val, k=t.sub(t.mul(I(8), L), t.ONE)))
    st.assume(inst('shr7_', x=t.select(w.arr, w.off)))
    st.assume(inst('shr7_', x=t.select(w.arr, t.sub(hi, t.ONE))))
    st.assume(inst('pow2_step', k=t.mul(I(8), L)))
    st.assume(inst('pow2_pos', k=t.sub(t.mul(I(8), L), t.ONE)))
    # canonical lemma (C02): the value read from L bytes is below 2^(8L); two L-byte strings with the same value are the same bytes
    st.assume(inst('be_bound', A=w.arr, ao=w.off, n=L))
    st.assume(inst('le_bound', A=w.arr, ao=w.off, n=L))
    d = eng.models.as_bytes(eng, data, st)
    if d is not None and d.arr.smt() != w.arr.smt():
        k = t.var('inj!', t.INT)
        for nm in ('be_injective', 'le_injective'):
            body = inst(nm, A=d.arr, ao=d.off, Bq=w.arr, bo=w.off, n=L, i=t.sub(k, d.off))
            st.assume(t.forall([k], body, pats=[[t.select(d.arr, k)]]))


def bit_digits(a, lo, n):
    j = t.var('bd!', t.INT)
    return forall_range(j, lo, t.add(lo, n), t.and_(t.le(t.ZERO, t.select(a, j)), t.le(t.select(a, j), t.ONE)), [[t.select(a, j)]])


# n binary digits denote a number below 2^n
Lemma('bits_bound', [('a', t.ARR), ('lo', t.INT), ('n', t.INT)],
      lambda v: t.implies(t.and_(t.ge(v['n'], t.ZERO), bit_digits(v['a'], v['lo'], v['n'])),
                          t.and_(t.le(t.ZERO, bits_val(v['a'], v['lo'], t.add(v['lo'], v['n']))), t.lt(bits_val(v['a'], v['lo'], t.add(v['lo'], v['n'])), P(v['n'])))),
      induct=('n', 0), ih_instances=lambda v: [{'a': v['a'], 'lo': v['lo']}], tags=T + ('C02',),
      defs=lambda v: [unfold_bits(v['a'], v['lo'], t.add(v['lo'], v['n'])), unfold_pow2(v['n']), unfold_pow2(t.ZERO)])


# the first of n binary digits weighs 2^(n-1)
def _bits_front(v):
    a, lo, n = v['a'], v['lo'], v['n']
    return t.implies(t.and_(t.ge(n, t.ONE), bit_digits(a, lo, n)),
                     t.eq(bits_val(a, lo, t.add(lo, n)), t.add(t.ite(t.eq(t.select(a, lo), t.ONE), P(t.sub(n, t.ONE)), t.ZERO), bits_val(a, t.add(lo, t.ONE), t.add(lo, n)))))


Lemma('bits_front', [('a', t.ARR), ('lo', t.INT), ('n', t.INT)], _bits_front, induct=('n', 1), ih_instances=lambda v: [{'a': v['a'], 'lo': v['lo']}], tags=T + ('C02',),
      hints=lambda v: [inst('pow2_step', k=t.sub(v['n'], t.ONE))],
      defs=lambda v: [unfold_bits(v['a'], v['lo'], t.add(v['lo'], v['n'])), unfold_bits(v['a'], t.add(v['lo'], t.ONE), t.add(v['lo'], v['n'])),
                      unfold_bits(v['a'], v['lo'], t.add(v['lo'], t.ONE)), unfold_bits(v['a'], v['lo'], v['lo']), unfold_pow2(t.ZERO)])


def bitsinteger_hints(eng, st, args):
    from .ghostreg import default_hints
    default_hints(eng, st, args)
    selfv, obj, data, whole = args[0], args[1], args[2], args[3]
    w = eng.models.as_bytes(eng, whole, st)
    if w is None:
        return
    pint, ptruth = _param_terms(eng, st, selfv)
    L = pint('length')
    x = t.app('toint', t.INT, eng.to_dyn(obj, st))
    N = t.ite(t.lt(x, t.ZERO), t.add(x, P(L)), x)
    st.assume(inst('pow2_step', k=L))
    st.assume(inst('pow2_pos', k=t.sub(L, t.ONE)))
    st.assume(inst('shr_small', n=N, k=L))
    st.assume(inst('bits_prefix', a=w.arr, off=w.off, L=L, N=N, k=L))
    st.assume(inst('shr_zero', n=N))
    st.assume(inst('bits_one', a=w.arr, lo=w.off))
    st.assume(inst('shr_step', n=N, k=L))
    st.assume(inst('shr_nonneg', n=N, k=t.sub(L, t.ONE)))
    st.assume(inst('shr_ge', x=N, k=t.sub(L, t.ONE)))
    d = eng.models.as_bytes(eng, data, st)
    if d is not None:
        st.assume(inst('bits_bound', a=d.arr, lo=d.off, n=L))
        st.assume(inst('bits_front', a=d.arr, lo=d.off, n=L))
        st.assume(inst('bits_bound', a=d.arr, lo=t.add(d.off, t.ONE), n=t.sub(L, t.ONE)))
    st.assume(inst('bits_bound', a=w.arr, lo=w.off, n=L))


def bitsinteger_domain(eng, st):
    """the round-trip lemma is stated for BitsInteger without byte swapping (the swapped form is not under this lemma)"""
    pint, ptruth = _param_terms(eng, st, st.env['self'])
    st.assume(t.not_(ptruth('swapped')))
    if 'data0' in st.env:
        # canonical form (C02): BitsInteger reads a stream of bits - inside Bitwise every byte of it is 0 or 1 (a hypothesis of the
        # lemma, listed in the evidence: on raw bytes that are not bits BitsInteger.parse accepts digits build can never produce)
        d0 = eng.models.as_bytes(eng, st.env['data0'], st)
        st.assume(bit_digits(d0.arr, d0.off, d0.len))
