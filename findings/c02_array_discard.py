"""witness: parse accepts, build of the parsed value fails (exit 0 = defect present).
Array(count, subcon, discard=True) parses count elements and hands back an EMPTY list; its own build then refuses that
list whenever count > 0 (it wants count elements), so what parse accepted cannot be built again."""
import sys
from construct import Array, Byte, Struct, Int16ub, this, ConstructError
bad = 0
for d, data in ((Array(2, Byte, discard=True), b"ab"), (Struct("n" / Byte, "xs" / Array(this.n, Int16ub, discard=True)), b"\x01\x00\x07")):
    v = d.parse(data)
    try:
        d.build(v)
    except ConstructError as e:
        print("%r: parse(%r) = %r but build of it raises %s" % (d, data, v, type(e).__name__))
        bad += 1
sys.exit(0 if bad else 1)
