"""witness: Compressed over malformed data leaks the codec library's exception (exit 0 = defect still present)"""
import sys
from construct import Compressed, GreedyBytes, ConstructError
try:
    Compressed(GreedyBytes, "zlib").parse(b"garbage")
except ConstructError:
    sys.exit(1)
except Exception as e:
    print("leaks", type(e).__name__)
    sys.exit(0)
sys.exit(1)
