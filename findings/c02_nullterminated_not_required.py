"""witness: parse accepts, build of the parsed value fails (exit 0 = defect present).
NullTerminated(require=False) accepts input without a terminator; building always appends one, so its canonical encoding
is LONGER than the accepted input and no longer fits a delimiting parent of the same size."""
import sys
from construct import Padded, FixedSized, NullTerminated, GreedyBytes, ConstructError
bad = 0
for outer in (Padded, FixedSized):
    d = outer(2, NullTerminated(GreedyBytes, require=False))
    v = d.parse(b"ab")
    try:
        d.build(v)
    except ConstructError as e:
        print("%s(2, NullTerminated(GreedyBytes, require=False)): parse(b'ab') = %r but build of it raises %s" % (outer.__name__, v, type(e).__name__))
        bad += 1
n = NullTerminated(GreedyBytes, require=False)
if len(n.build(n.parse(b"ab"))) > 2:
    print("NullTerminated(GreedyBytes, require=False): build(parse(b'ab')) = %r is longer than the accepted input" % n.build(n.parse(b"ab")))
    bad += 1
sys.exit(0 if bad else 1)
