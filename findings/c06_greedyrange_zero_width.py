"""witness: GreedyRange over an element that consumes no bytes never stops (exit 0 = defect present).
The run is cut by a timer after 2 s (a BaseException, so that GreedyRange's own `except Exception` cannot swallow it)."""
import sys
from construct import GreedyRange, Pass


class Cut(BaseException):
    pass


d = GreedyRange(Pass)
import signal


def alarm(sig, frm):
    raise Cut()


signal.signal(signal.SIGALRM, alarm)
signal.setitimer(signal.ITIMER_REAL, 2.0)
try:
    d.parse(b"")
except Cut:
    print("GreedyRange(Pass).parse(b'') was still running after 2 s on an empty input")
    sys.exit(0)
except MemoryError:
    print("GreedyRange(Pass).parse(b'') ended with MemoryError")
    sys.exit(0)
finally:
    signal.setitimer(signal.ITIMER_REAL, 0)
sys.exit(1)
