"""witness: ExplicitError escaping Select._build carries a path restarted at (building) (exit 0 = defect present)"""
import sys
from construct import Struct, Select, Error, ConstructError
d = Struct("outer" / Select(Error))
try:
    d.build(dict(outer=1))
except ConstructError as e:
    print("path:", e.path)
    sys.exit(0 if "outer" not in str(e.path) else 1)
sys.exit(1)
