"""witness: an error inside a Tunnel (Compressed) loses the names of the members enclosing the tunnel (exit 0 = defect present)"""
import sys, zlib
from construct import Struct, Compressed, Byte, ConstructError
d = Struct("outer" / Compressed(Struct("inner" / Byte), "zlib"))
try:
    d.parse(zlib.compress(b""))
except ConstructError as e:
    print("path:", e.path)
    sys.exit(0 if "outer" not in str(e.path) else 1)
sys.exit(1)
