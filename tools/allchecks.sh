#!/bin/bash
# run every claimed quick check (4 at a time) and print exit codes; logs in $OUT (default /tmp/allchecks)
cd "$(dirname "$0")/.."
OUT=${OUT:-/tmp/allchecks}
mkdir -p $OUT
ids=$(python3 -c "import json;print(' '.join(c['property_id'] for c in json.load(open('MANIFEST.json'))['checks']))" 2>/dev/null || python3 -c "import props;print(' '.join(props.PROPS))")
echo $ids | tr ' ' '\n' | xargs -P ${PAR:-4} -I{} sh -c "./check {} $* > $OUT/{}.log 2>&1; echo {} exit=\$?"
