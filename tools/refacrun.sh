#!/bin/sh
# run every claimed quick check against a behaviour-preserving refactoring (refactors/<id>/patch.diff) applied to a scratch copy of the
# tree; a VIOLATION line here is a false alarm.   usage: refacrun.sh <refactor dir> [PAR]
D=$(cd "$1" && pwd); PAR=${2:-3}
T=$(mktemp -d /tmp/refactree.XXXXXX)
OUT=$(mktemp -d /tmp/refacrun.XXXXXX)
cp -r /repo/construct "$T/"
(cd "$T" && patch -p1 -s < "$D/patch.diff") || { rm -rf "$T" "$OUT"; exit 3; }
ids=$(python3 -c "import json;print(' '.join(c['property_id'] for c in json.load(open('/verif/MANIFEST.json'))['checks']))")
echo $ids | tr ' ' '\n' | xargs -P $PAR -I{} sh -c "PYVC_REPO=$T PYVC_OUT=$OUT /verif/check {} > $OUT/{}.log 2>&1; echo {} exit=\$? \$(grep -c VIOLATION $OUT/{}.log) violations \$(grep -c UNDECIDED $OUT/{}.log) undecided"
grep -h "VIOLATION\|UNDECIDED\|CHECKER" $OUT/*.log | cut -c1-260 | head -40
rm -rf "$T" "$OUT"
