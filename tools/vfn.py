"""verify the obligations of one function under contract and print verdicts:  tools/vfn.py <qual> [--generic] [--model M] [--variant V] [--dump PATTERN FILE]"""
import sys, os, argparse
sys.path.insert(0, os.path.dirname(os.path.dirname(os.path.abspath(__file__))))
from pyvc.source import Source
from pyvc import contract, driver, prelude, solve
from pyvc.check import load_contracts, ConstructInterface
ap = argparse.ArgumentParser()
ap.add_argument('qual'); ap.add_argument('--generic', action='store_true'); ap.add_argument('--model', default=None); ap.add_argument('--variant', default=None)
ap.add_argument('--dump', nargs=2); ap.add_argument('--timeout', type=int, default=12); ap.add_argument('--all', action='store_true')
a = ap.parse_args()
src = Source(); generic = load_contracts(src)
c = (generic if a.generic else contract.REGISTRY)[a.qual]
make = driver.make_models_factory(src, ConstructInterface)
for model in ([a.model] if a.model else c.stream_models):
    for v in c.variants:
        if a.variant and str(v) != a.variant:
            continue
        vr = c.verify(src, make, model, v)
        if vr.out_of_reach:
            print('OUT OF REACH', model, v, vr.out_of_reach); continue
        jobs = []
        for i, ob in enumerate(vr.obligations):
            if ob.goal.op == 'bool' and ob.goal.args[0] is True:
                continue
            jobs.append((i, prelude.build_query(ob.hyps, ob.goal), prelude.pre_query(ob)))
            if a.dump and a.dump[0] in ob.name:
                open(a.dump[1], 'w').write(jobs[-1][1]); print('dumped', ob.name)
        res = solve.solve_many(jobs, timeout=a.timeout, tier='quick')
        bad = 0
        for i, text, _ in jobs:
            r = res[i]
            if r.verdict != 'unsat' or a.all:
                print('%-8s %s,%s %s   [%s]' % (r.verdict, model, v, vr.obligations[i].name, vr.obligations[i].meta.get('origin')))
                bad += r.verdict != 'unsat'
        print('%s,%s: %d obligations, %d not discharged, %d paths' % (model, v, len(jobs), bad, vr.paths))
