#!/bin/sh
# confirm a seeded change in a scratch worktree: demo passes on the pinned tree, fails with the patch; test suite unchanged
# usage: confirm_seed.sh <dir with patch.diff demo.py> <scratch worktree path>
set -u
S=$1; W=$2
git -C /repo worktree add --detach "$W" HEAD >/dev/null 2>&1 || exit 3
cd "$W"
PYTHONPATH=$W /venv/bin/python $S/demo.py >/dev/null 2>&1; echo "demo on unchanged tree: exit $?"
git apply $S/patch.diff || { echo "patch does not apply"; git -C /repo worktree remove --force "$W"; exit 3; }
PYTHONPATH=$W /venv/bin/python $S/demo.py > $W.demo.out 2>&1; echo "demo on changed tree: exit $?"; tail -3 $W.demo.out
PYTHONPATH=$W /venv/bin/python -m pytest -q -p no:cacheprovider --timeout=900 --continue-on-collection-errors 2>&1 | tail -1
cd /; git -C /repo worktree remove --force "$W"; rm -f $W.demo.out
