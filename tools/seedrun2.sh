#!/bin/sh
# like seedrun.sh but without touching /repo: the seeded change is applied to a scratch copy of the tree and the checks are pointed
# at it (PYVC_REPO), so it can run while other checks read /repo.   usage: seedrun2.sh <seeded dir> <pid> [<pid> ...]
D=$(cd "$1" && pwd); shift
T=$(mktemp -d /tmp/seedtree.XXXXXX)
OUT=$(mktemp -d /tmp/seedrun.XXXXXX)
cp -r /repo/construct "$T/" && cp /repo/setup.py "$T/" 2>/dev/null
(cd "$T" && patch -p1 -s < "$D/patch.diff") || { rm -rf "$T" "$OUT"; exit 3; }
for p in "$@"; do PYVC_REPO=$T PYVC_OUT=$OUT /verif/check $p 2>&1 | grep -E "tier=|VIOLATION|UNDECIDED|KNOWN|CHECKER" | cut -c1-330 | head -6; done
rm -rf "$T" "$OUT"
