"""apply one textual mutation to a scratch copy of /repo/construct and run a command with PYVC_REPO pointing at it"""
import os, shutil, subprocess, sys, tempfile
def run(file, old, new, cmd, count=1):
    d = tempfile.mkdtemp(prefix='mut-', dir='/tmp')
    try:
        shutil.copytree('/repo/construct', os.path.join(d, 'construct'))
        p = os.path.join(d, file)
        s = open(p).read()
        assert s.count(old) >= 1, 'pattern not found: %r' % old
        s = s.replace(old, new, count)
        open(p, 'w').write(s)
        env = dict(os.environ, PYVC_REPO=d)
        return subprocess.run(cmd, env=env, capture_output=True, text=True)
    finally:
        shutil.rmtree(d, ignore_errors=True)
