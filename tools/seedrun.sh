#!/bin/sh
# run the checks of the given properties against a seeded change: apply to /repo, check, undo straight afterwards
# usage: seedrun.sh <seeded dir> <pid> [<pid> ...]     (outputs go to a scratch dir, evidence/ is not touched)
D=$(cd "$1" && pwd); shift
OUT=$(mktemp -d /tmp/seedrun.XXXXXX)
git -C /repo apply "$D/patch.diff" || exit 3
for p in "$@"; do PYVC_OUT=$OUT /verif/check $p 2>&1 | grep -E "tier=|VIOLATION|UNDECIDED|KNOWN" | cut -c1-330 | head -6; done
git -C /repo checkout -- .
rm -rf "$OUT"
