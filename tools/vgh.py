"""verify one ghost program or lemmas by name pattern:
   tools/vgh.py ghost <program> <cls> [--variant V] [--dump PATTERN FILE] [--all]
   tools/vgh.py lemma <pattern> [--dump PATTERN FILE] [--all]"""
import sys, os, argparse
sys.path.insert(0, os.path.dirname(os.path.dirname(os.path.abspath(__file__))))
from pyvc.source import Source
from pyvc import contract, driver, prelude, solve, terms as t
from pyvc.check import load_contracts
from pyvc.lemma import LEMMAS
ap = argparse.ArgumentParser()
ap.add_argument('kind'); ap.add_argument('a'); ap.add_argument('b', nargs='?')
ap.add_argument('--variant', default=None); ap.add_argument('--dump', nargs=2); ap.add_argument('--timeout', type=int, default=12); ap.add_argument('--all', action='store_true')
a = ap.parse_args()
src = Source(); load_contracts(src)
jobs, names = [], {}
if a.kind == 'ghost':
    from pyvc import ghost
    import contracts.ghostreg as ghostreg
    variant = a.variant
    for spec in ghostreg.PROGRAMS:
        if spec['program'] == a.a and spec['cls'] == a.b and (a.variant is None or str(spec.get('variant')) == a.variant):
            variant = spec.get('variant')
            break
    obls, why, paths = ghost.run(src, a.a, a.b, ('X',), variant, ghostreg.DOMAIN.get(a.b))
    print('paths', paths, 'out of reach:', why)
    for i, ob in enumerate(obls):
        if ob.goal.op == 'bool' and ob.goal.args[0] is True:
            continue
        jobs.append((i, prelude.build_query(ob.hyps, ob.goal), prelude.build_query(ob.hyps, ob.goal, opaque=True)))
        names[i] = '%s [%s]' % (ob.name, ob.meta.get('origin'))
        if 'assert' in ob.kind:
            jobs.append(('cover%d' % i, prelude.build_query(ob.hyps, t.FALSE), None))
            names['cover%d' % i] = 'COVER ' + ob.name
else:
    for ln, lem in LEMMAS.items():
        if a.a in ln:
            for ob in lem.obligations():
                jobs.append((ob.name, prelude.build_query(ob.hyps, ob.goal), prelude.build_query(ob.hyps, ob.goal, opaque=True)))
                names[ob.name] = ob.name
                if ob.kind == 'lemma' and ob.hyps:
                    jobs.append(('cover ' + ob.name, prelude.build_query(ob.hyps, t.FALSE), None))
                    names['cover ' + ob.name] = 'COVER ' + ob.name
if a.dump:
    for k, text, _ in jobs:
        if a.dump[0] in names[k]:
            open(a.dump[1], 'w').write(text); print('dumped', names[k]); break
res = solve.solve_many(jobs, timeout=a.timeout, tier='quick')
bad = 0
for k, text, _ in jobs:
    r = res[k]
    cover = str(k).startswith('cover')
    good = (r.verdict != 'unsat') if cover else (r.verdict == 'unsat')
    if not good or a.all:
        print('%-8s %s' % (r.verdict, names[k]))
    bad += not good
print('%d queries, %d not as expected' % (len(jobs), bad))
