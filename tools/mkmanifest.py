"""regenerate MANIFEST.json from props.PROPS (claimed) and the list of all properties (unclaimed -> not_applicable)"""
import json, sys, os
ROOT = os.path.dirname(os.path.dirname(os.path.abspath(__file__)))
sys.path.insert(0, ROOT)
from props import PROPS, NOT_APPLICABLE
ids = [json.loads(l)['id'] for l in open(os.path.join(ROOT, 'properties.jsonl'))]
checks = []
for pid in ids:
    if pid not in PROPS or not PROPS[pid].get('claimed', True):
        continue
    P = PROPS[pid]
    checks.append({
        'property_id': pid,
        'quick_cmd': './check %s --tier quick' % pid,
        'thorough_cmd': './check %s --tier thorough' % pid,
        'evidence_file': 'evidence/%s.json' % pid,
        'replay_cmd_template': './check %s --replay {path}' % pid,
        'engine': 'pyvc',
        'level_claimed': {'category': P.get('level', 'proof'), 'text': P['level_text'], 'design_ref': P.get('design_ref', 'DESIGN.md 5 ' + pid)},
        'level_note': P['level_note'],
        'technique': P.get('technique', 'contract-based deductive verification: sidecar contracts on the real functions, VCs generated from the AST, discharged by z3/cvc5'),
    })
na = [{'property_id': pid, 'reason': NOT_APPLICABLE.get(pid, 'check not built yet (framework under construction)')} for pid in ids if pid not in [c['property_id'] for c in checks]]
m = {
    'version': 1,
    'setup_cmd': './check --selftest',
    'hooks': {'guard': 'CONSTRUCT_VERIF', 'enable': 'none needed: contracts are sidecar files under /verif; /repo is not instrumented (no hook commits)',
              'baseline_off_cmd': 'cd /repo && /venv/bin/python -m pytest -q -p no:cacheprovider --timeout=900 --continue-on-collection-errors',
              'source_commits': [], 'add_only': True},
    'engines': [{'name': 'pyvc', 'path': 'pyvc', 'serves_properties': [c['property_id'] for c in checks],
                 'kind_free_text': 'verification-condition generator over the real Python AST of /repo (re-read every run) + sidecar contracts in contracts/, discharged by z3 5.1 / cvc5 1.0.3 / z3 4.8.12 run as a racing portfolio'}],
    'checks': checks,
    'notes': 'Exit codes: 0 held, 1 violation (VIOLATION line), 2 undecided only, 3 checker failure. Known findings: known_findings.json. See DESIGN.md.',
    'not_applicable': na,
}
json.dump(m, open(os.path.join(ROOT, 'MANIFEST.json'), 'w'), indent=1)
print('claimed:', [c['property_id'] for c in checks])
