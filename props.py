"""Per-property configuration of the check: which layers run, the level claimed, trusted base and assumptions."""

PY_SEM = ['P1 int is mathematical; // and % are floor-based', 'P2 bit operations encoded as mod/div/mul (+ bor/band/bxor with ground facts)',
          'P3 left-to-right evaluation, short-circuit and/or', 'P4 exception hierarchy read from the source; builtins from a fixed table',
          'P7 building an error message never raises']
E1 = 'E1 struct.pack/unpack: two\'s complement in the stated byte order; floats uninterpreted (IEEE-754 not modelled)'
E2 = 'E2 int.to_bytes/from_bytes big-endian two\'s complement'
E3 = 'E3 io.BytesIO read/write/seek/tell/getvalue model (pyvc/streams.py)'
E4 = 'E4 bytes.decode/str.encode are uninterpreted partial functions raising UnicodeError/LookupError'
E5 = 'E5 parameter expressions are total functions of the context of the declared type (may raise KeyError/AttributeError only where stated)'

def native_tables(pid, which):
    """exhaustive native enumeration of finite tables of the tree under verification"""
    def extra(src, tier, seed):
        from pyvc import replay
        out = {'tables': [], 'violations': [], 'bounded': []}
        try:
            C = replay.import_repo()
        except Exception as e:
            out['violations'].append('VIOLATION property=%s replay=- obligation=table/import (importing construct raises %s: %s)' % (pid, type(e).__name__, e))
            return out
        rows = []
        if 'tables' in which:
            from contracts.tables import enumerate_tables
            rows += enumerate_tables(C)
        if 'aliases' in which:
            from contracts.aliases import enumerate_aliases
            rows += enumerate_aliases(C)
        for name, n, bad in rows:
            out['tables'].append({'table': name, 'entries': n, 'mismatches': len(bad), 'exhaustive': True})
            if bad:
                import os, json, hashlib
                d = os.path.join(os.environ.get('PYVC_OUT', os.path.dirname(os.path.abspath(__file__))), 'replay', pid)
                os.makedirs(d, exist_ok=True)
                fn = os.path.join(d, 'table-' + hashlib.sha1(name.encode()).hexdigest()[:10] + '.json')
                json.dump({'property': pid, 'obligation': 'table/' + name, 'mismatches': [str(b) for b in bad][:50]}, open(fn, 'w'), indent=1)
                out['violations'].append('VIOLATION property=%s replay=%s obligation=table/%s' % (pid, fn, name.replace(' ', '-')))
        return out
    return extra


GENERIC_NOTE = ('every _parse/_build/_sizeof/_decode/_encode/_actualsize body of construct/core.py (core classes; Pickled, Numpy, NamedTuple, Timestamp, '
                'Slicing, Indexing, CompressedLZ4, Encrypted*, Rebuffered, Expr* adapters are out of scope) is executed symbolically from the real AST '
                'against the Construct interface contract, assuming only that contract of its sub-constructs (structural induction over construct trees)')

NOT_APPLICABLE = {}

PROPS = {
    'C03': dict(functional=True, generic=False, level='proof', extra=native_tables('C03', ('tables', 'aliases')),
                level_text='Each function under contract is proved, path by path and for all inputs (symbolic values, buffers, positions; loops by invariant), to build exactly the bytes / parse exactly the value and extent that a specification written from the wire format prescribes, and to reject exactly what the specification rejects. Functions covered so far are listed in the evidence (functions_under_contract); constructs not listed there are not yet covered by this check.',
                level_note='Trusted: the VC generator pyvc and its Python-subset semantics (DESIGN.md 1.3), the solvers, the assumed contracts of CPython built-ins E1 struct (floats uninterpreted), E2 int.to_bytes/from_bytes, E3 io.BytesIO. Module tables are enumerated natively.',
                trusted_base=[E1, E2, E3],
                assumptions=PY_SEM + [E1, E2, E3, E5, 'floats: bit patterns not verified'],
                explanation='each function under contract is verified path by path against a specification written from the wire format'),
    'C06': dict(functional=True, generic=True, level='proof', trusted_base=[E3, E5],
                level_text='For ' + GENERIC_NOTE + ': on every path, under an exact io.BytesIO model and under an adversarial stream model (every stream call may raise any Exception, return data of any length or any integer), only ConstructError subclasses escape _parse (StreamError for the stream helpers), no stream exception escapes _build unwrapped, and a normal return never hides a short write. Truncated input is StreamError for the primitives under functional contract. Termination is proved only for the loops that carry a variant (VarInt._build, integer2bits).',
                level_note='Assumes E5 (context expressions total and of the declared type in parse/build), valid parameterisation (documented parameter types; FocusedSeq/Union selectors name a member), sub-constructs satisfying the same clauses (induction), user callables outside the property. Known finding: Compressed leaks codec library errors.',
                assumptions=PY_SEM + [E3, E5, 'adversarial stream: methods raise any Exception subclass, read returns bytes of any length, write/seek/tell return any int',
                                      'sub-constructs satisfy the interface contract (structural induction)'],
                explanation='exception classes escaping every _parse/_build/_sizeof under both stream models'),
    'C18': dict(functional=True, generic=True, level='proof', trusted_base=[E5],
                level_text='For ' + GENERIC_NOTE + ': every ConstructError raised carries path= and that path extends the method\'s path argument; every sub-construct call receives the method\'s path (Renamed: path + " -> name", proved as a postcondition on the escaping error); the stream helpers raise with the path they were given. By induction on nesting the escaping path is the operation tag followed by the names of the enclosing Renamed members in order. The public entry points and the truncation-offset lemma are not yet under contract.',
                level_note='Assumes the interface clause for sub-constructs (errors extend the path they were handed), which is what each class is proved to establish. Known findings: Tunnel._parse and Select._build restart the path by re-entering through the public parse/build.',
                assumptions=PY_SEM + [E5, 'sub-constructs raise errors whose path extends the path they were given (interface clause, established per class)']),
    'C05': dict(functional=True, generic=True, level='proof', trusted_base=[E5],
                level_text='For every _sizeof body of the core classes: whatever the context expressions do (including raising KeyError/AttributeError for a missing key), only SizeofError escapes and a returned size is an int >= 0, assuming only that of sub-constructs. Exactness of the size against the stream advance of build and parse is proved for the classes under functional contract listed in the evidence.',
                level_note='Documented exemptions are preconditions: lengths/counts >= 0, moduli >= 2. Sub-constructs are assumed to satisfy the same clauses (induction).',
                assumptions=PY_SEM + [E5, 'lengths/counts are non-negative and moduli >= 2 (documented exemption)']),
    'C10': dict(functional=True, generic=False, level='proof', trusted_base=[], assumptions=PY_SEM, claimed=False,
                level_text='bit/byte regrouping helpers proved against MSB-first specifications', level_note='helpers only so far'),
    'C09': dict(functional=True, generic=False, level='proof', trusted_base=[], assumptions=PY_SEM, claimed=False, level_text='wip', level_note='wip'),
    'C13': dict(functional=True, generic=True, level='proof', trusted_base=[], assumptions=PY_SEM, claimed=False, level_text='wip', level_note='wip'),
    'C14': dict(functional=True, generic=False, level='proof', trusted_base=[], assumptions=PY_SEM, claimed=False, level_text='wip', level_note='wip'),
    'C08': dict(functional=True, generic=False, level='proof', trusted_base=[], assumptions=PY_SEM, claimed=False, level_text='wip', level_note='wip'),
    'C01': dict(functional=False, generic=False, level='proof', trusted_base=[], assumptions=PY_SEM, claimed=False, level_text='wip', level_note='wip'),
    'C07': dict(functional=True, generic=False, level='proof', trusted_base=[], assumptions=PY_SEM, claimed=False, level_text='wip', level_note='wip'),
    'C17': dict(functional=False, generic=True, level='proof', trusted_base=[E3],
                level_text='Frame conditions for ' + GENERIC_NOTE + ': no method stores to an attribute of self, of a sub-construct, of a class or module; parsing leaves the stream buffer unchanged; the context argument is modified only at _index and unrelated pre-existing containers are untouched (proved through every loop as an invariant). Outcomes of sub-construct calls are functions of (construct, buffer, position, context), so repeated or interleaved calls agree. Threads are not explored: with the frames proved, calls share no mutable state except caller-supplied arguments.',
                level_note='Thread schedules are argued from the frames, not explored. parse_file/build_file and the bytes/bytearray/memoryview entry points are not under contract yet. Documented exceptions (Rebuffered.stream2, Debugger.retval) are out of scope.',
                assumptions=PY_SEM + ['threads: not explored; argued from the proved frames (no shared mutable state)']),
}
