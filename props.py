"""Per-property configuration of the check: which layers run, the level claimed, trusted base and assumptions."""

PY_SEM = ['P1 int is mathematical; // and % are floor-based', 'P2 bit operations encoded as mod/div/mul (+ bor/band/bxor with ground facts)',
          'P3 left-to-right evaluation, short-circuit and/or', 'P4 exception hierarchy read from the source; builtins from a fixed table',
          'P7 building an error message never raises']
E1 = 'E1 struct.pack/unpack: two\'s complement in the stated byte order; floats uninterpreted (IEEE-754 not modelled)'
E2 = 'E2 int.to_bytes/from_bytes big-endian two\'s complement'
E3 = 'E3 io.BytesIO read/write/seek/tell/getvalue model (pyvc/streams.py)'
E4 = 'E4 bytes.decode/str.encode are uninterpreted partial functions raising UnicodeError/LookupError'
E5 = 'E5 parameter expressions are total functions of the context of the declared type (may raise KeyError/AttributeError only where stated)'

def native_tables(pid, which):
    """exhaustive native enumeration of finite tables of the tree under verification"""
    def extra(src, tier, seed):
        from pyvc import replay
        out = {'tables': [], 'violations': [], 'bounded': []}
        try:
            C = replay.import_repo()
        except Exception as e:
            out['violations'].append('VIOLATION property=%s replay=- obligation=table/import (importing construct raises %s: %s)' % (pid, type(e).__name__, e))
            return out
        rows = []
        if 'tables' in which:
            from contracts.tables import enumerate_tables
            rows += enumerate_tables(C)
        if 'aliases' in which:
            from contracts.aliases import enumerate_aliases
            rows += enumerate_aliases(C)
        if 'exprs' in which:
            from contracts.exprs import enumerate_junctions, check_opnames
            n, bad = enumerate_junctions(C)
            rows.append(('repr/str junction table (node form x slot x operand class)', n, bad))
            n, bad = check_opnames(C)
            rows.append(('opnames', n, bad))
            from contracts.exprs import enumerate_evaluation
            n, bad = enumerate_evaluation(C)
            rows.append(('expression evaluation (node form x operand kind x call shape), spy operands', n, bad))
        if 'swaps' in which:
            from contracts.transforms import enumerate_swap_macros
            rows += enumerate_swap_macros(C)
        for name, n, bad in rows:
            out['tables'].append({'table': name, 'entries': n, 'mismatches': len(bad), 'exhaustive': True})
            if bad:
                import os, json, hashlib
                d = os.path.join(os.environ.get('PYVC_OUT', os.path.dirname(os.path.abspath(__file__))), 'replay', pid)
                os.makedirs(d, exist_ok=True)
                fn = os.path.join(d, 'table-' + hashlib.sha1(name.encode()).hexdigest()[:10] + '.json')
                json.dump({'property': pid, 'obligation': 'table/' + name, 'mismatches': [str(b) for b in bad][:50]}, open(fn, 'w'), indent=1)
                out['violations'].append('VIOLATION property=%s replay=%s obligation=table/%s' % (pid, fn, name.replace(' ', '-')))
        return out
    return extra


GENERIC_NOTE = ('every _parse/_build/_sizeof/_decode/_encode/_actualsize body of construct/core.py (core classes; Pickled, Numpy, NamedTuple, Timestamp, '
                'Slicing, Indexing, CompressedLZ4, Encrypted*, Rebuffered, Expr* adapters are out of scope) is executed symbolically from the real AST '
                'against the Construct interface contract, assuming only that contract of its sub-constructs (structural induction over construct trees)')

NOT_APPLICABLE = {
    'C02': 'not decided: needs the closure / equality-congruence traits of the interface contract and the canonical ghost program over contracts that are not written yet (canonical VarInt, strings, mappings). Not reached in the time available; nothing is claimed.',
    'C04': 'not decided: the compiler emits source text with holes for the members; putting those fragments under contract needs a second front end (emitted text -> AST with hole substitution) that was not built. Nothing is claimed.',
    'C10': 'not decided as a whole: the helpers it rests on (bytes2bits, bits2bytes, swapbitsinbytes, RestreamedBytesIO.write/close, BitsInteger) are verified under C03/C06, but the packing lemma across byte boundaries for Bitwise/Restreamed/Transformed (two code paths) is not written, so the property is not claimed.',
    'C12': 'not decided: macro equivalences need the macro graph plus extensional equality of the contracts of both sides; only the alias-table enumeration exists (used by C03). Nothing is claimed.',
    'C15': 'not claimed: contracts for ProcessXor exist and discharge within the thorough budget, but one obligation (ProcessXor._build, cycled-key clause) needs 26-50 s and is not reliable within the quick budget; ProcessRotateLeft and the byte/bit swaps as inverses are not under a lemma yet. Claiming it would risk a verdict that flips under load.',
    'C16': 'not decided: needs representation invariants over LazyContainer / LazyListContainer (offset tables, cached values, stream position discipline) that were not written. Nothing is claimed.',
    'C19': 'not applicable to this technique here: the property relates the exported KSY text to the byte layout a KSY compiler would derive; there is no executable KSY semantics offline to state a postcondition against, and checking emitted attribute names against a hand table decides nothing of the stated property.',
    'C20': 'not decided: Container/ListContainer are dict/list subclasses whose behaviour is mostly that of CPython builtins (dict equality and ordering, copy, pickle, re in search, string formatting in hexdump) outside the modelled Python subset; a contract would restate assumed builtin contracts rather than verify repository code.',
}

PROPS = {
    'C03': dict(functional=True, generic=False, level='proof', extra=native_tables('C03', ('tables', 'aliases')),
                level_text='Each function under contract is proved, path by path and for all inputs (symbolic values, buffers, positions; loops by invariant), to build exactly the bytes / parse exactly the value and extent that a specification written from the wire format prescribes, and to reject exactly what the specification rejects. Functions covered so far are listed in the evidence (functions_under_contract); constructs not listed there are not yet covered by this check.',
                level_note='Trusted: the VC generator pyvc and its Python-subset semantics (DESIGN.md 1.3), the solvers, the assumed contracts of CPython built-ins E1 struct (floats uninterpreted), E2 int.to_bytes/from_bytes, E3 io.BytesIO. Module tables are enumerated natively.',
                trusted_base=[E1, E2, E3],
                assumptions=PY_SEM + [E1, E2, E3, E5, 'floats: bit patterns not verified'],
                explanation='each function under contract is verified path by path against a specification written from the wire format'),
    'C06': dict(functional=True, generic=True, level='proof', trusted_base=[E3, E5],
                level_text='For ' + GENERIC_NOTE + ': on every path, under an exact io.BytesIO model and under an adversarial stream model (every stream call may raise any Exception, return data of any length or any integer), only ConstructError subclasses escape _parse (StreamError for the stream helpers), no stream exception escapes _build unwrapped, and a normal return never hides a short write. Truncated input is StreamError for the primitives under functional contract. Termination: loops over member lists and supplied sequences are finite by construction; the scanning loops carry variants (bytes left in the stream: VarInt._parse, NullTerminated._parse, GreedyRange._parse; value halving: VarInt._build, integer2bits). RepeatUntil ends when the user predicate says so (outside the property).',
                level_note='Assumes E5 (context expressions total and of the declared type in parse/build), valid parameterisation (documented parameter types; FocusedSeq/Union selectors name a member), sub-constructs satisfying the same clauses (induction), user callables outside the property. Known findings: Compressed leaks codec library errors; GreedyRange over a zero-width element does not terminate (its variant obligation fails).',
                assumptions=PY_SEM + [E3, E5, 'adversarial stream: methods raise any Exception subclass, read returns bytes of any length, write/seek/tell return any int',
                                      'sub-constructs satisfy the interface contract (structural induction)'],
                explanation='exception classes escaping every _parse/_build/_sizeof under both stream models'),
    'C18': dict(functional=True, generic=True, level='proof', trusted_base=[E5],
                level_text='For ' + GENERIC_NOTE + ': every ConstructError raised carries path= and that path extends the method\'s path argument; every sub-construct call receives the method\'s path (Renamed: path + " -> name", proved as a postcondition on the escaping error); the stream helpers raise with the path they were given. By induction on nesting the escaping path is the operation tag followed by the names of the enclosing Renamed members in order. An error raised by a raise statement inside an except handler (an error that replaces the error of a member) is proved to keep the path of that member. The public entry points and the truncation-offset lemma are not yet under contract.',
                level_note='Assumes the interface clause for sub-constructs (errors extend the path they were handed), which is what each class is proved to establish. Known findings: Tunnel._parse and Select._build restart the path by re-entering through the public parse/build.',
                assumptions=PY_SEM + [E5, 'sub-constructs raise errors whose path extends the path they were given (interface clause, established per class)']),
    'C05': dict(functional=True, generic=True, level='proof', trusted_base=[E5],
                level_text='For every _sizeof body of the core classes: whatever the context expressions do (including raising KeyError/AttributeError for a missing key), only SizeofError escapes and a returned size is an int >= 0, assuming only that of sub-constructs. Exactness of the size against the stream advance of build and parse is proved by the sized ghost program (sizeof answers n => a successful build appends n bytes and a successful parse of them, followed by any tail, advances n) for Padded, Aligned, FixedSized, Prefixed, Const, Flag, Bytes, BytesInteger, BitsInteger, FormatField, IfThenElse (the same branch in sizeof, build and parse) and Default; the _sizeof bodies of Padded, Aligned, FixedSized, Prefixed, IfThenElse and plain delegation are proved against functional contracts.',
                level_note='Documented exemptions are preconditions: lengths/counts >= 0, moduli >= 2. Sub-constructs are assumed to satisfy the same clauses (induction).',
                assumptions=PY_SEM + [E5, 'lengths/counts are non-negative and moduli >= 2 (documented exemption)']),
    'C10': dict(functional=True, generic=False, level='proof', trusted_base=[], assumptions=PY_SEM, claimed=False,
                level_text='bit/byte regrouping helpers proved against MSB-first specifications', level_note='helpers only so far'),
    'C09': dict(functional=True, generic=False, level='proof', trusted_base=[], assumptions=PY_SEM,
                level_text='Peek: position restored on success, on a swallowed ConstructError and when ExplicitError propagates; result is the inner value or None. Pointer._parse: inner construct processed at the absolute (or end-relative) target of the stream the Pointer designates (the enclosing one, or the one its stream= parameter names: modelled by a second, unrelated stream object), and the position of THAT stream restored while the other is untouched. RawCopy._parse: final position is the end of the inner parse. Stream helpers: exact seek/tell semantics. Select, GreedyRange, Union and the build side of Pointer are covered by the cross-cutting clauses (no swallowed ExplicitError, frames) but not yet by functional position clauses.',
                level_note='Trusted: pyvc, solvers, E3.'),
    'C13': dict(functional=True, generic=True, level='proof', trusted_base=[], assumptions=PY_SEM,
                level_text="Const (parse accepts only a value == the constant, build always emits the constant's encoding and refuses any other supplied value with ConstError), Check (parse and build raise CheckError exactly when the condition is falsy), Validator and through it ExprValidator/OneOf/NoneOf (decode and encode are the same predicate: admit-on-parse iff admit-on-build iff predicate), Enum and Mapping encode/decode (unknown labels are MappingError, known labels/values translate through the tables, unmapped integers of any magnitude pass through unchanged) are proved against their contracts. For every core class: an ExplicitError raised by a sub-construct is never swallowed, through every handler and loop (Select, Optional, GreedyRange, Peek for parse and build). FlagsEnum._decode is proved, for any number of labels, to set every label exactly when ALL bits of its mask are set (loop invariant over the flags mapping). FlagsEnum._encode (string splitting) and the mutual inverseness of the Enum tables built by __init__ are not yet under contract.",
                level_note='Label tables are uninterpreted finite maps; validators are pure functions of (object, context). Trusted: pyvc, solvers.'),
    'C14': dict(functional=True, generic=False, level='proof', trusted_base=[], assumptions=PY_SEM,
                level_text='RawCopy._parse is proved to return data == the stream slice between the reported offsets, length == their difference, value == the inner value, offsets == absolute positions before/after, final position == end of the inner parse, buffer unchanged. RawCopy._build is proved for both branches: from data (writes exactly the given bytes, offsets before/after) and from value (the stream stands right after the bytes the inner build wrote, offsets are the positions before and after, data is exactly the bytes between them in the final buffer, value is what the inner build returned or the given value). Checksum is covered only by the cross-cutting clauses so far.',
                level_note='Trusted: pyvc, solvers, E3. Hash collision-freedom would be an explicit assumption (not yet needed).'),
    'C08': dict(functional=True, generic=False, level='proof', trusted_base=[], assumptions=PY_SEM,
                level_text='BytesIOWithOffsets.tell/seek and from_reading are proved against the abstract substream model (tell = inner position + parent offset; absolute seek subtracts it; the substream holds exactly the next n bytes and starts reporting at the absolute outer position); FixedSized and Prefixed (with and without includelength) are proved to hand their inner construct a substream over exactly the region, to return its value, and to leave the outer stream at the region end whatever the inner construct consumed; Pointer and RawCopy offsets are absolute. NullTerminated._parse is proved against a specification scan for terminators of 1, 2 and 3 bytes (stride = terminator length): the inner construct sees exactly the bytes before the first aligned terminator (with it when include is set), the outer stream stands after the terminator, or at it when consume is unset, a missing terminator is StreamError when required. NullStripped, OffsettedEnd, longer terminators and ProcessXor are covered only by the cross-cutting clauses so far.',
                level_note='Inner constructs are known through the interface functions, whose arguments include the absolute base of the stream. Trusted: pyvc, solvers, E3.'),
    'C01': dict(functional=False, generic=False, closure_tags=('C03', 'C08', 'C10', 'C14', 'C15'), level='proof', trusted_base=[], assumptions=PY_SEM,
                level_text='Round-trip lemma proved as a ghost program over the verified method contracts (build, then parse the built bytes followed by arbitrary trailing data: parse succeeds, returns the value build returned and consumes exactly the built bytes) for: Padded, Aligned, FixedSized, Prefixed, Const, Flag, Bytes, GreedyBytes, BytesInteger (any width, both byte orders, signed and unsigned), BitsInteger (any width, signed and unsigned, not byte-swapped), Default, IfThenElse and FormatField in its 27 integer/bool formats. The integer cases rest on Layer-B lemmas proved by induction (shr_add, shr_ge, be_top, le_top, bits_prefix) whose definitional unfoldings are obligations of their own. Every contract the ghost programs apply (and, transitively, the contracts those apply: lib/binary helpers, stream helpers) is verified against the code in the same run; ghost assertions carry a vacuity check. The lemma is parametric in the sub-constructs (any construct satisfying the round-trip trait, at any nesting depth, by structural induction) and holds for all values, lengths, moduli and trailing data. Struct is verified against specification folds (Layer A) but its fold round-trip lemma, VarInt/ZigZag, byte-swapped BitsInteger, strings, arrays, Switch, the Enum family and the remaining combinators are not yet under this lemma.',
                level_note='Hypotheses (listed in the evidence): round-trip and sized traits of sub-constructs (induction hypotheses), context agreement, sub-constructs that do not observe absolute stream positions, value-faithful length fields. Trusted: pyvc, solvers, E1-E3.'),
    'C07': dict(functional=True, generic=True, level='proof', trusted_base=[], assumptions=PY_SEM,
                level_text="Struct._parse and Struct._build are proved equal, member by member for any number of members, to specification folds over the member list (loop invariant: state after k members = fold(k)); the nested scope is proved to be a child of the enclosing scope (_ is the enclosing scope, _params/_parsing/_building/_sizing copied, _root resolved through the parent, _index inherited), fresh and distinct; every named member value is stored in the scope and in the result after the member and before the next one; when building, all supplied siblings are in the scope before the first member is built and each member's returned value replaces it afterwards. evaluate() returns the parameter's value in the context it is given. For every scope-opening site (Struct, Sequence, FocusedSeq, Union, LazyStruct in parse, build and sizeof: 14 sites) the scope handed to the members is proved to be a fresh child of the enclosing scope, to keep its structural entries through the member loop (invariant), and to be the scope every member receives. The specification folds exist for Struct only; Array/_index and the public entry points are covered only by the frame clauses (C17).",
                level_note='Members are sub-constructs known through the interface functions; member names, and the keys of a mapping supplied for building, are assumed not to shadow the structural scope entries (_, _params, _root, flags, _index). Trusted: pyvc, solvers.'),
    'C11': dict(functional=True, generic=False, level='proof', trusted_base=[], assumptions=PY_SEM, extra=native_tables('C11', ('exprs',)),
                level_text="Every operator method of ExprMixin (12 binary, 12 reflected, 3 unary, 7 comparison/containment) is proved by symbolic execution to build the node Python's data model prescribes (operator and operand order). Printing and evaluation are decided by complete enumeration of finite tables on the real classes: every node form x slot x syntactic class of operand is rendered with repr and str, evaluated by Python itself with the placeholders bound, and compared with the operator tree (a junction's parse depends only on the class of the operand text, so by structural induction the result holds for every tree); evaluation is checked with spy operands for every operand kind and both call shapes; opnames is checked entry by entry.",
                level_note="Python's own parser/evaluator is the trusted grammar. The induction step (junction independence) is an argument, not a machine-checked proof."),
    'C15': dict(functional=True, generic=False, level='proof', trusted_base=[], assumptions=PY_SEM + ['E6: the stdlib compression codecs are inverse (assumed, not verified); Compressed/Tunnel are not under this check'],
                extra=native_tables('C15', ('tables', 'swaps')),
                level_text='ProcessXor._parse/_build are proved, for every integer or byte-string key (any length, cycled; the zero-key shortcuts included) and all data, to present the inner construct with, and to emit, exactly the xor of the bytes with the cycled key (both directions are stated with the same key function of the index); lemma bxor_involution: (a ^ k) ^ k = a on bytes, so the two directions are inverse byte for byte. ProcessRotateLeft._parse/_build are proved against a specification of rotation within big-endian groups written from the documentation, for symbolic data of any length and enumerated parameters (quick: 24 representative (amount, group) pairs covering every branch - no-op, single-byte table, whole-byte permutation, bit pairs, negative and over-wide amounts, invalid group; thorough: all amounts -64..64 x groups 1..8): parse presents the rest of the stream rotated by the amount, build emits the inner bytes rotated by the negated amount, lengths that are not a multiple of the group are RotationError; for every enumerated pair a lemma proves that the parse-side rotation undoes the build-side rotation byte for byte. swapbytes and swapbitsinbytes are verified against their specifications (C03) and proved to be involutions; ByteSwapped/BitsSwapped are checked, on the real objects for sizes 1..16, to hand the same helper to both directions of Transformed. The single-byte rotation table and the bit-reversal table are enumerated completely.',
                level_note='Transformed/Restreamed themselves (that they apply the decode function to exactly the region and the encode function to exactly the built bytes) are covered only by the cross-cutting clauses, so the swap half rests on helper contracts + involution lemmas + the macro table, not on a contract of the wrapper. Compression codecs are assumed (E6). Trusted: pyvc, solvers.'),
    'C17': dict(functional=True, generic=True, level='proof', trusted_base=[E3],
                level_text='Frame conditions for ' + GENERIC_NOTE + ': no method stores to an attribute of self, of a sub-construct, of a class or module, nor mutates a mapping or member list belonging to the construct (item stores, dict.setdefault/update/pop/clear); parsing leaves the stream buffer unchanged; the context argument is modified only at _index and unrelated pre-existing containers are untouched (proved through every loop as an invariant). Outcomes of sub-construct calls are functions of (construct, buffer, position, context), so repeated or interleaved calls agree. Threads are not explored: with the frames proved, calls share no mutable state except caller-supplied arguments.',
                level_note='Thread schedules are argued from the frames, not explored. parse_file/build_file and the bytes/bytearray/memoryview entry points are not under contract yet. Documented exceptions (Rebuffered.stream2, Debugger.retval) are out of scope.',
                assumptions=PY_SEM + ['threads: not explored; argued from the proved frames (no shared mutable state)']),
}
