"""Per-property configuration of the check: which layers run, the level claimed, trusted base and assumptions."""

PY_SEM = ['P1 int is mathematical; // and % are floor-based', 'P2 bit operations encoded as mod/div/mul (+ bor/band/bxor with ground facts)',
          'P3 left-to-right evaluation, short-circuit and/or', 'P4 exception hierarchy read from the source; builtins from a fixed table',
          'P7 building an error message never raises']
E1 = 'E1 struct.pack/unpack: two\'s complement in the stated byte order; floats uninterpreted (IEEE-754 not modelled)'
E2 = 'E2 int.to_bytes/from_bytes big-endian two\'s complement'
E3 = 'E3 io.BytesIO read/write/seek/tell/getvalue model (pyvc/streams.py)'
E4 = 'E4 bytes.decode/str.encode are uninterpreted partial functions raising UnicodeError/LookupError'
E5 = 'E5 parameter expressions are total functions of the context of the declared type (may raise KeyError/AttributeError only where stated)'

PROPS = {
    'C03': dict(functional=True, generic=False, level='proof',
                trusted_base=[E1, E2, E3],
                assumptions=PY_SEM + [E1, E2, E3, E5, 'floats: bit patterns not verified'],
                explanation='each function under contract is verified path by path against a specification written from the wire format'),
    'C06': dict(functional=True, generic=True, level='proof', trusted_base=[E3, E5],
                assumptions=PY_SEM + [E3, E5, 'adversarial stream: methods raise any Exception subclass, read returns bytes of any length, write/seek/tell return any int',
                                      'sub-constructs satisfy the interface contract (structural induction)'],
                explanation='exception classes escaping every _parse/_build/_sizeof under both stream models'),
    'C18': dict(functional=True, generic=True, level='proof', trusted_base=[E5],
                assumptions=PY_SEM + [E5, 'sub-constructs raise errors whose path extends the path they were given (interface clause, established per class)']),
    'C05': dict(functional=True, generic=True, level='proof', trusted_base=[E5],
                assumptions=PY_SEM + [E5, 'lengths/counts are non-negative and moduli >= 2 (documented exemption)']),
    'C10': dict(functional=True, generic=False, level='proof', trusted_base=[], assumptions=PY_SEM),
    'C17': dict(functional=False, generic=True, level='proof', trusted_base=[E3],
                assumptions=PY_SEM + ['threads: not explored; argued from the proved frames (no shared mutable state)']),
}
