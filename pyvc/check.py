"""./check <property> [--tier quick|thorough] [--relock] : decide one property on /repo's current working tree.

Exit codes (DESIGN.md 4):  0 every obligation discharged (known findings printed) | 1 violation (VIOLATION line) |
2 undecided only (UNDECIDED lines) | 3 checker failure (vacuity, crash, missing tool).
"""
import argparse
import hashlib
import json
import os
import random
import re
import sys
import time
import traceback

ROOT = os.path.dirname(os.path.dirname(os.path.abspath(__file__)))
sys.path.insert(0, ROOT)

from pyvc import terms as t, prelude, solve, driver, contract, replay  # noqa
from pyvc.source import Source  # noqa
from pyvc.constructs import ConstructInterface  # noqa
from pyvc.lemma import LEMMAS  # noqa


def _atomic_dump(obj, path):
    """write JSON so that a concurrent reader sees the old or the new file, never a torn one"""
    tmp = '%s.tmp%d' % (path, os.getpid())
    with open(tmp, 'w') as f:
        json.dump(obj, f, indent=0, sort_keys=True)
    os.replace(tmp, path)


def stable_key(name):
    # path numbers vary with the exploration order; a loop is identified by its static position, not by its text (an edit of the
    # guard or of the loop variable keeps the key)
    name = re.sub(r'/path[0-9]+/', '/', name)
    return re.sub(r'/loop\[#(\d+) .*?\]/(entry|preserve|variant)', r'/loop[#\1]/\2', name)


def load_contracts(src):
    import contracts.streams, contracts.binary, contracts.classes, contracts.prims, contracts.oracles, contracts.tables, contracts.bitstream  # noqa
    for mod in ('wrappers', 'adapters', 'transforms', 'delimited', 'intlemmas', 'conditionals', 'simple', 'bitregions', 'equivlemmas', 'leblemmas', 'lazy', 'lazy', 'exprs', 'containers', 'codegen', 'ksy', 'lemmas', 'entry'):
        try:
            __import__('contracts.' + mod)
        except ModuleNotFoundError as e:
            if ('contracts.' + mod) not in str(e):
                raise
    import contracts.exprs as exprs
    if 'construct.expr:ExprMixin.__add__' not in contract.REGISTRY:
        exprs.register_exprs(src)
    import contracts.composites as comp
    if 'construct.core:Struct._parse' not in contract.REGISTRY:
        comp.register_composites(src)
        import contracts.unions as _un
        _un.register_unions(src)
        _un.register_union_build(src)
        import contracts.repeaters as _rp
        _rp.register_repeaters(src)
        _rp.register_array_build(src)
        _rp.register_greedyrange_build(src)
        _rp.register_lazyarray_build(src)
        import contracts.repeatuntil as _ru
        _ru.register_repeatuntil(src)
        _ru.register_repeatuntil_build(src)
        _rp.register_sum_sizes(src)
        import contracts.sequences as _sq
        _sq.register_sequences(src)
        _sq.register_focused(src)
        _sq.register_sequence_build(src)
        _sq.register_focused_build(src)
        import contracts.alternatives as _al
        _al.register_alternatives(src)
        _al.register_select_build(src)
        import contracts.lazyarray as _lza
        _lza.register_lazyarray(src)
        import contracts.lazystruct as _lzs
        _lzs.register_lazystruct(src)
        import contracts.lazylemmas as _lzl
        _lzl.make(src)
        _lzl.make_struct(src)
        _lzl.make_nostop(src)
        import contracts.foldlemmas as _fl  # lemmas over the Array / Sequence folds; needs the fold definitions registered above
        _fl.install(src)
        import contracts.prefixedarray as _pa
        _pa.register_prefixedarray(src)
    import contracts.classes as cc
    gens = cc.generic_contracts(src)
    from contracts.prims import LOOPS
    generic = {}
    for g in gens:
        if g.qual in LOOPS:
            # loop specifications written for a functional contract are used by the cross-cutting run only when marked usable
            # there; the class-level specifications (contracts/classes.py CLASS_LOOPS) stay in force otherwise
            g.loops = dict(g.loops or {}, **{k: v for k, v in LOOPS[g.qual].items() if v.generic_ok})
        generic[g.qual] = g
        contract.GENERIC[g.qual] = g
        contract.REGISTRY.setdefault(g.qual, g)      # call sites of classes without a functional contract use the generic one
    return generic


class Finding:
    def __init__(self, d):
        self.d = d

    def matches(self, pid, r):
        m = self.d['match']
        if self.d['property'] != pid:
            return False
        if m.get('function') and ('/%s/' % m['function']) not in ('/' + r.name.split('/', 1)[1] + '/').replace('@', '/') and m['function'] != r.qual.split(':')[1]:
            return False
        if m.get('function_prefix') and not r.qual.split(':', 1)[-1].startswith(m['function_prefix']):
            return False
        if m.get('model') and not r.stream_model.startswith(m['model']):
            return False
        if m.get('clause') and not r.ob.name.endswith('/' + m['clause']) and m['clause'] not in r.ob.name:
            return False
        if m.get('origin') and m['origin'] not in str(r.ob.meta.get('origin')):
            return False
        return True


def load_findings():
    p = os.path.join(ROOT, 'known_findings.json')
    if not os.path.exists(p):
        return [], []
    d = json.load(open(p))
    return [Finding(x) for x in d.get('findings', [])], d.get('fixed', [])


def run_witness(f):
    """re-run the recorded witness against the tree under verification: True when the defect still reproduces"""
    w = f.d.get('witness')
    if not w:
        return True
    import subprocess
    path = os.path.join(ROOT, 'findings', w)
    env = dict(os.environ, PYTHONPATH=os.environ.get('PYVC_REPO', '/repo'))
    try:
        p = subprocess.run(['/venv/bin/python', path], env=env, capture_output=True, text=True, timeout=120)
    except subprocess.TimeoutExpired:
        return True
    return p.returncode == 0


def selftest():
    """setup_cmd: the tool chain is present and behaves: one obligation that must be proved, one that must be refuted"""
    vs = solve.solver_versions()
    ok = True
    for k, v in vs.items():
        print('%s: %s' % (k, v))
        if v.startswith('MISSING'):
            ok = False
    x = t.var('x', t.INT)
    good = prelude.build_query([t.ge(x, t.I(0))], t.ge(t.add(x, t.ONE), t.ONE))
    bad = prelude.build_query([t.ge(x, t.I(0))], t.ge(x, t.ONE))
    r1, r2 = solve.solve(good, 20), solve.solve(bad, 20)
    print('canary valid obligation:', r1.verdict, ' canary invalid obligation:', r2.verdict)
    ok = ok and r1.verdict == 'unsat' and r2.verdict == 'sat'
    src = Source()
    load_contracts(src)
    print('contracts registered:', len(contract.REGISTRY))
    return 0 if ok and len(contract.REGISTRY) > 50 else 3


def _protect_std_streams():
    """native replay runs the real library, which may close file descriptors it was (wrongly) handed: keep private copies of
    stdout / stderr so that the verdict can always be printed"""
    try:
        sys.stdout = os.fdopen(os.dup(1), 'w', buffering=1)
        sys.stderr = os.fdopen(os.dup(2), 'w', buffering=1)
    except OSError:
        pass


def main(argv=None):
    _protect_std_streams()
    if argv is None and '--selftest' in sys.argv:
        return selftest()
    ap = argparse.ArgumentParser()
    ap.add_argument('property')
    ap.add_argument('--tier', default=os.environ.get('VERIF_TIER', 'quick'))
    ap.add_argument('--relock', action='store_true')
    ap.add_argument('--replay')
    ap.add_argument('--timeout', type=int, default=None)
    ap.add_argument('--verbose', '-v', action='store_true')
    a = ap.parse_args(argv)
    os.environ['VERIF_TIER'] = a.tier          # contracts size their parameter enumerations by tier
    pid = a.property
    seed = int(os.environ.get('VERIF_SEED', '0') or 0)
    t0 = time.time()
    try:
        rc = do_replay(pid, a.replay, a) if a.replay else run(pid, a.tier, seed, a, t0)
    except Exception:
        traceback.print_exc()
        print('CHECKER-ERROR property=%s (crash)' % pid)
        rc = 3
    return rc


def do_replay(pid, path, a):
    """./check <Cxx> --replay <file>: show what the replay file recorded (obligation, solver verdict and model, the input found on
    the real code) and decide the SAME obligation again on the tree as it is now: exit 1 when it still fails, 0 when it is discharged"""
    doc = json.load(open(path))
    print('replay of %s' % path)
    print('  obligation : %s' % doc.get('obligation'))
    print('  function   : %s   (stream model %s)' % (doc.get('function'), doc.get('stream_model')))
    print('  recorded   : verdict=%s solver=%s' % (doc.get('verdict'), doc.get('solver')))
    nat = doc.get('native')
    if isinstance(nat, dict):
        print('  input on the real code: %s' % (nat.get('input'),))
        print('  observed   : %s   [%s]' % (nat.get('observed'), nat.get('source')))
    elif nat:
        print('  native     : %s' % (nat,))
    if doc.get('mismatches'):
        for m in doc['mismatches'][:10]:
            print('  mismatch   : %s' % (str(m)[:300],))
    if doc.get('query'):
        r = solve.solve_many([('q', doc['query'], None)], timeout=30, tier='quick')['q']
        print('  recorded query re-run: %s (%s)   [sat = the obligation is refuted for the tree the file was written from]' % (r.verdict, r.solver))
    src = Source()
    load_contracts(src)
    ob = doc.get('obligation') or ''
    if ob.startswith('table/') or ob.startswith('contract of '):
        from props import PROPS
        ex = PROPS[pid].get('extra')
        out = ex(src, 'quick', 0) if ex else {}
        bad = [v for v in out.get('violations', []) if ob.split('/', 1)[-1][:40].replace(' ', '-') in v.replace(' ', '-')]
        print('  on the current tree: %s' % ('table still has mismatches' if bad else 'table has no mismatch'))
        return 1 if bad else 0
    q = doc.get('function')
    c = contract.REGISTRY.get(q)
    if (doc.get('stream_model') or '').endswith('generic'):
        c = contract.GENERIC.get(q, c)
    if c is None or c.setup is None or not src.has(q):
        print('  on the current tree: function %s is not under contract / no longer exists' % q)
        return 2
    make = driver.make_models_factory(src, ConstructInterface)
    want = stable_key(ob)
    status = None
    for model in c.stream_models:
        for v in c.variants:
            vr = c.verify(src, make, model, v)
            if vr.out_of_reach:
                continue
            mname = model if v is None else '%s,%s' % (model, v)
            jobs = {}
            for i, o in enumerate(vr.obligations):
                name = driver.ObligationResult(o, q, mname + (',generic' if c.generic else '')).name
                if stable_key(name) == want and not (o.goal.op == 'bool' and o.goal.args[0] is True):
                    jobs[i] = (i, prelude.build_query(o.hyps, o.goal), prelude.pre_query(o))
            if jobs:
                res = solve.solve_many(list(jobs.values()), timeout=30, tier='quick')
                vs = sorted({res[i].verdict for i in jobs})
                status = vs if status is None else sorted(set(status) | set(vs))
    if status is None:
        print('  on the current tree: the obligation is not generated (trivially true, or the function changed shape)')
        return 0
    print('  on the current tree: %s' % ('discharged' if status == ['unsat'] else 'NOT discharged %s' % status))
    if status != ['unsat']:
        print('VIOLATION property=%s replay=%s obligation=%s' % (pid, path, ob))
        return 1
    return 0


def run(pid, tier, seed, a, t0):
    from props import PROPS
    if pid not in PROPS:
        print('unknown property', pid)
        return 3
    P = PROPS[pid]
    src = Source()
    generic = load_contracts(src)
    timeout = a.timeout or (25 if tier == 'quick' else 90)
    all_results = []
    oor_all = []
    stats_all = {'functions': 0, 'paths': 0, 'gen_s': 0.0, 'solve_s': 0.0}
    functions_under_contract = []
    # ---- Layer A: functional contracts
    fun_quals = [q for q, c in contract.REGISTRY.items() if c.setup is not None and not c.generic and P.get('functional', True)]
    res, oor, stats = driver.verify_functions(src, fun_quals, tags=[pid], interface_factory=ConstructInterface, timeout=timeout, tier=tier)
    all_results += res
    oor_all += oor
    functions_under_contract += fun_quals
    for k in stats_all:
        stats_all[k] += stats.get(k, 0)
    # ---- Layer A: generic (cross-cutting) contracts
    if P.get('generic'):
        gen_only = {q: g for q, g in generic.items() if pid in g.tags and g.setup is not None}
        res, oor, stats = verify_generic(src, gen_only, pid, timeout, tier)
        all_results += res
        oor_all += oor
        functions_under_contract += ['%s (generic)' % q for q in gen_only]
        for k in stats_all:
            stats_all[k] += stats.get(k, 0)
    # ---- Layer B: ghost programs (lemmas written as Python over the contracts)
    from pyvc import ghost as _ghost
    import contracts.ghostreg as ghostreg
    gjobs, gobs = [], {}
    cover_jobs = []
    cover_info = {}
    ts = time.time()
    contract.USE_LOG.clear()
    for spec in ghostreg.PROGRAMS:
        if pid not in spec['tags']:
            continue
        obls, why, paths = _ghost.run(src, spec['program'], spec['cls'], spec['tags'], spec.get('variant'), ghostreg.DOMAIN.get(spec['cls']))
        gname = 'ghost:%s[%s%s]' % (spec['program'], spec['cls'], ',' + str(spec['variant']) if spec.get('variant') else '')
        functions_under_contract.append(gname)
        if why:
            oor_all.append((gname, 'ghost', why))
            continue
        stats_all['paths'] += paths
        for k, ob in enumerate(obls):
            key = '%s#%d' % (gname, k)
            ob.name = '%s/%s' % (gname, ob.name.split('/', 1)[-1] if ob.name.startswith(('assert/',)) else ob.name.split('/', 1)[-1])
            r = driver.ObligationResult(ob, gname, 'ghost')
            if ob.goal.op == 'bool' and ob.goal.args[0] is True:
                r.trivial = True
                all_results.append(r)
                continue
            gobs[key] = r
            gjobs.append((key, prelude.build_query(ob.hyps, ob.goal), prelude.build_query(ob.hyps, ob.goal, opaque=True)))
            if ob.kind in ('assert', 'ghost-assert') or '/parse ' in ob.name or '/build ' in ob.name or 'assert' in ob.kind:
                # vacuity guard: the hypotheses reaching an assertion (domain, traits, lemma instances, contracts) must be consistent
                cover_jobs.append((key, prelude.build_query(ob.hyps, t.FALSE), None))
    stats_all['gen_s'] += time.time() - ts
    if gjobs:
        ts = time.time()
        solved = solve.solve_many(gjobs, timeout=timeout, tier=tier)
        stats_all['solve_s'] += time.time() - ts
        for key, text, _pre in gjobs:
            gobs[key].result = solved[key]
            gobs[key].text = text
            all_results.append(gobs[key])
        if cover_jobs:
            cov = solve.solve_many(cover_jobs, timeout=3, tier='cover')
            vac = [k for k, res in cov.items() if res.verdict == 'unsat']
            cover_info['cover_checks'] = len(cover_jobs)
            cover_info['vacuous'] = ['%s (%s)' % (gobs[k].name, k) for k in vac]
    # ---- supporting contracts: a ghost proof is a proof over the contracts it applies; those contracts (and, transitively,
    # the contracts THEY apply) must hold of the code.  Their functional clauses are verified here as part of this property.
    if P.get('closure_tags'):
        # functions already verified above WITH this property's clauses; a contract the ghost programs apply that carries no clause
        # of this property was selected above with nothing to prove and is verified here under its own (closure) tags
        # A function whose contract carries this property's tag was verified above for the clauses OF this property only; a ghost program
        # uses every clause of the contracts it applies, so those functions are verified here again under the closure tags and the
        # obligations already produced above are dropped by name
        done = set()
        have = {r.name for r in all_results}
        pending = {q for q in contract.USE_LOG if q in contract.REGISTRY and contract.REGISTRY[q].setup is not None and not contract.REGISTRY[q].generic}
        named = P.get('closure', ())
        if callable(named):
            named = named(contract.REGISTRY)         # a rule instead of a list (e.g. every _parse/_build contract stated relative to the start position)
        pending |= {q for q in named if q in contract.REGISTRY}       # contracts a lemma-level argument rests on, named explicitly
        while pending:
            contract.USE_LOG.clear()
            qs = sorted(pending)
            res, oor, stats = driver.verify_functions(src, qs, tags=list(P['closure_tags']) + [pid], interface_factory=ConstructInterface, timeout=timeout, tier=tier)
            res = [r for r in res if r.name not in have]
            have |= {r.name for r in res}
            for r in res:
                r.support = pid not in (r.ob.tags or ())
            all_results += res
            oor_all += oor
            functions_under_contract += ['%s (supporting contract)' % q for q in qs]
            for k in stats_all:
                stats_all[k] += stats.get(k, 0)
            done |= pending
            pending = {q for q in contract.USE_LOG if q in contract.REGISTRY and contract.REGISTRY[q].setup is not None and not contract.REGISTRY[q].generic} - done
    # ---- Layer B: lemmas
    lemma_results = []
    jobs = []
    lemma_cover = []
    for ln, lem in LEMMAS.items():
        if pid in lem.tags:
            for ob in lem.obligations():
                jobs.append((ob.name, prelude.build_query(ob.hyps, ob.goal), prelude.build_query(ob.hyps, ob.goal, opaque=True)))
                if ob.kind == 'lemma' and ob.hyps:
                    # vacuity guard: induction hypothesis + lemma instances + definition instances must be consistent
                    lemma_cover.append((ob.name, prelude.build_query(ob.hyps, t.FALSE), None))
    if jobs:
        ts = time.time()
        solved = solve.solve_many(jobs, timeout=timeout, tier=tier)
        stats_all['solve_s'] += time.time() - ts
        for name, text, _pre in jobs:
            r = driver.ObligationResult(type('O', (), {'name': name, 'meta': {}, 'kind': 'lemma', 'tags': (pid,)})(), 'lemma:' + name, 'smt', solved[name])
            r.text = text
            lemma_results.append(r)
    all_results += lemma_results
    if lemma_cover:
        cov = solve.solve_many(lemma_cover, timeout=3, tier='cover')
        cover_info['cover_checks'] = cover_info.get('cover_checks', 0) + len(lemma_cover)
        cover_info['vacuous'] = cover_info.get('vacuous', []) + [k for k, res in cov.items() if res.verdict == 'unsat']
    # ---- tables / native enumerations / bounded stand-ins supplied by the property
    extra = P.get('extra')
    extras = extra(src, tier, seed) if extra else {'tables': [], 'bounded': []}
    stats_all.update(cover_info)
    return conclude(pid, P, tier, seed, a, t0, src, all_results, oor_all, stats_all, functions_under_contract, extras)


def verify_generic(src, gen_only, pid, timeout, tier):
    results, oors = [], []
    stats_tot = {'functions': 0, 'paths': 0, 'gen_s': 0.0, 'solve_s': 0.0}
    make = driver.make_models_factory(src, ConstructInterface)
    jobs = []
    t0 = time.time()
    for q, c in gen_only.items():
        if not src.has(q):
            oors.append((q, '-', 'function no longer exists in the source'))
            continue
        for model, variant in [(m, v) for m in c.stream_models for v in c.variants]:
            try:
                vr = c.verify(src, make, model, variant)
            except Exception as e:
                oors.append((q, model if variant is None else '%s,%s' % (model, variant), 'executor error %s: %s' % (type(e).__name__, e)))
                stats_tot['functions'] += 1
                continue
            stats_tot['functions'] += 1
            mname = model if variant is None else '%s,%s' % (model, variant)
            if vr.out_of_reach:
                oors.append((q, mname, vr.out_of_reach))
                if not vr.obligations:
                    continue
            stats_tot['paths'] += vr.paths
            for ob in vr.obligations:
                if ob.tags and pid not in ob.tags:
                    continue
                r = driver.ObligationResult(ob, q, mname + ',generic')
                r.renamed = getattr(vr, 'renamed', False)
                if ob.kind.endswith(':trivial') or (ob.goal.op == 'bool' and ob.goal.args[0]):
                    r.trivial = True
                    results.append(r)
                    continue
                text = prelude.build_query(ob.hyps, ob.goal)
                jobs.append((len(results), text, prelude.pre_query(ob)))
                results.append(r)
    stats_tot['gen_s'] = time.time() - t0
    t1 = time.time()
    solved = solve.solve_many(jobs, timeout=timeout, tier=tier)
    stats_tot['solve_s'] = time.time() - t1
    texts = {j[0]: j[1] for j in jobs}
    for idx, res in solved.items():
        results[idx].result = res
        results[idx].text = texts[idx]
    return results, oors, stats_tot


def conclude(pid, P, tier, seed, a, t0, src, results, oor, stats, functions, extras):
    from contracts.oracles import ORACLES
    findings, fixed = load_findings()
    lockp = os.path.join(ROOT, 'obligations.lock')
    lock = json.load(open(lockp)) if os.path.exists(lockp) else {}
    locked = set(lock.get(pid, {}).get('keys', []))
    discharged = [r for r in results if r.verdict == 'unsat']
    failed = [r for r in results if r.verdict == 'sat']
    open_ = [r for r in results if r.verdict in ('unknown', 'timeout')]
    errors = [r for r in results if r.verdict == 'error']
    rng = random.Random(seed)
    lines = []
    violations = []
    known_hits = []
    undecided = []
    replay_dir = os.path.join(os.environ.get('PYVC_OUT', ROOT), 'replay', pid)
    C = None

    _cache = {}

    def native(r, vals):
        """-> (confirmed, detail); one confirmed input per function is enough, and the directed searches of one run share a budget"""
        if r.qual in _cache.get('confirmed', {}):
            return True, _cache['confirmed'][r.qual]
        if time.time() - _cache.setdefault('t0', time.time()) > (150 if tier == 'quick' else 900) and vals is None:
            return None, 'native search budget of this run used up by earlier failed obligations'
        ok, detail = native_(r, vals)
        if ok:
            _cache.setdefault('confirmed', {})[r.qual] = detail
        return ok, detail

    def native_(r, vals):
        nonlocal C
        o = ORACLES.get(r.qual)
        if C is None:
            try:
                C = replay.import_repo()
            except Exception as e:  # the tree under verification does not even import
                return True, {'input': 'import construct', 'observed': 'importing the package raises %s: %s' % (type(e).__name__, e), 'source': 'import'}
        if pid in ('C01', 'C02'):
            # round-trip properties: the witness is a value whose built bytes do not parse back to it
            from contracts import rtbattery
            if 'rt' not in _cache:
                try:
                    _cache['rt'] = rtbattery.run(C)
                except Exception as e:
                    _cache['rt'] = (0, [])
            n, fails = _cache['rt']
            if fails:
                return True, {'input': fails[0], 'observed': '%d of %d directed round trips fail on the real code' % (len(fails), n), 'more': fails[1:6],
                              'source': 'native round-trip battery after failed obligation'}
            if getattr(r, 'support', False) and 'C09' not in (getattr(r.ob, 'tags', None) or ()):
                return None, 'supporting contract no longer holds, but %d directed round trips all succeed on the real code' % n
        if pid == 'C09' or (getattr(r, 'support', False) and 'C09' in (getattr(r.ob, 'tags', None) or ())):
            from contracts import posbattery
            if 'pos' not in _cache:
                try:
                    _cache['pos'] = posbattery.run(C)
                except Exception as e:
                    _cache['pos'] = (0, [])
            n, fails = _cache['pos']
            if fails:
                return True, {'input': fails[0], 'observed': '%d of %d directed position cases fail on the real code' % (len(fails), n), 'more': fails[1:6],
                              'source': 'native position battery after failed obligation'}
        if 'scope' in r.name.rsplit('/', 1)[-1]:
            from contracts import scopecheck
            try:
                w = scopecheck.search(C, r.qual)
            except Exception as e:
                w = None
            if w:
                return True, {'input': w, 'observed': 'scope clause false on the real code', 'source': 'native scope probe after failed obligation'}
        if o is None:
            # no hand-written reference: evaluate the function's own contract natively on the real code (stub sub-constructs
            # taken from the real library), searching for an input on which a clause is false
            from contracts import nativecheck
            c = contract.REGISTRY.get(r.qual)
            if r.stream_model.endswith('generic'):
                c = contract.GENERIC.get(r.qual, c)
            if c is None or c.setup is None or not r.stream_model.startswith('bytesio'):
                return None, 'no native oracle for %s under the %s model' % (r.qual, r.stream_model)
            try:
                vname = r.stream_model.split(',', 1)[1] if ',' in r.stream_model else None
                if vname and vname.endswith(',generic'):
                    vname = vname[:-8]
                prefer = next((v for v in c.variants if v is not None and str(v) == vname), None)
                found, stats = nativecheck.search(c, src, C, rng, 400 if tier == 'quick' else 5000, prefer=prefer)
            except Exception as e:
                return None, 'native contract evaluation failed: %r' % (e,)
            if found:
                return True, {'input': found, 'observed': 'contract clause false on the real code', 'source': 'native contract evaluation after failed obligation'}
            return False, 'native contract evaluation agreed with the real code on %s' % (stats,)
        tried = 0
        if vals is not None:
            args = o.from_model(vals)
            if args is not None:
                tried += 1
                msg = o.run(C, args)
                if msg:
                    return True, {'input': repr(args), 'observed': msg, 'source': 'solver counter-model'}
        # directed search with the same oracle (bounded; used only to find a concrete witness for a failed obligation)
        budget = 3000 if tier == 'quick' else 30000
        for i, args in enumerate(o.gen(rng)):
            if i >= budget:
                break
            msg = o.run(C, args)
            if msg:
                return True, {'input': repr(args), 'observed': msg, 'source': 'oracle search after failed obligation (%d inputs)' % (i + 1)}
        return False, 'native oracle agreed with the real code on the model input and on %d searched inputs' % budget

    def write_replay(r, detail, model):
        os.makedirs(replay_dir, exist_ok=True)
        fn = os.path.join(replay_dir, hashlib.sha1(r.name.encode()).hexdigest()[:12] + '.json')
        doc = {'property': pid, 'obligation': r.name, 'function': r.qual, 'stream_model': r.stream_model, 'verdict': r.verdict,
               'solver': r.result.solver if r.result else None, 'origin': r.ob.meta.get('origin'),
               'model': {k: (v if not isinstance(v, list) else v[:64]) for k, v in (model or {}).items()} if model else None,
               'native': detail, 'solver_output': {k: (v[0], round(v[1], 3), (v[2] or '')[:400]) for k, v in r.result.outputs.items()} if r.result else None,
               'query': getattr(r, 'text', None)}
        json.dump(doc, open(fn, 'w'), indent=1, default=str)
        return fn

    if a.verbose:
        for r in failed + open_:
            print('  %-8s %s   [origin: %s]' % (r.verdict, r.name, r.ob.meta.get('origin')))
        for q, m, why in oor:
            print('  OOR      %s %s: %s' % (q, m, why[:160]))
    handled = set()
    for r in failed + open_:
        key = stable_key(r.name)
        kf = [f for f in findings if f.matches(pid, r)]
        if kf:
            known_hits.append((kf[0], r))
            continue
        if r.verdict == 'sat':
            model = replay.extract(r.text, r.result.solver) if getattr(r, 'text', None) else None
            ok, detail = native(r, model)
            fn = write_replay(r, detail, model)
            if key in handled:
                continue
            handled.add(key)
            if ok:
                violations.append('VIOLATION property=%s replay=%s obligation=%s' % (pid, fn, r.name))
            elif getattr(r, 'renamed', False):
                # locals of this function were renamed since the contracts were locked and were paired with the old names heuristically:
                # a failure that no input on the real code confirms may be an artefact of the pairing
                undecided.append('UNDECIDED property=%s obligation=%s fails after renamed locals were paired heuristically and no input confirms it; see %s' % (pid, r.name, fn))
            elif getattr(r, 'support', False):
                # a supporting contract (stated for another property) fails but no input violating THIS property was found:
                # the proof of this property is void, the property itself is not refuted
                undecided.append('UNDECIDED property=%s supporting obligation %s no longer holds (%s); see %s' % (pid, r.name, detail, fn))
            else:
                violations.append('VIOLATION property=%s replay=%s obligation=%s no-failing-input-found' % (pid, fn, r.name))
        else:
            # not discharged, no model.  Was it discharged on the unchanged tree?
            if key in locked:
                ok, detail = native(r, None)
                if ok:
                    fn = write_replay(r, detail, None)
                    if key not in handled:
                        handled.add(key)
                        violations.append('VIOLATION property=%s replay=%s obligation=%s' % (pid, fn, r.name))
                    continue
                reason = ','.join('%s=%s' % (k, v[0]) for k, v in r.result.outputs.items())
                if any(v[0] == 'unknown' for v in r.result.outputs.values()):
                    fn = write_replay(r, detail, None)
                    if key not in handled:
                        handled.add(key)
                        violations.append('VIOLATION property=%s replay=%s obligation=%s no-failing-input-found' % (pid, fn, r.name))
                    continue
            undecided.append('UNDECIDED property=%s obligation=%s (%s)' % (pid, r.name, r.result.solver))
    oor_done = set()
    # a function that can no longer be executed matters to THIS property only if it contributed obligations to it on the unchanged
    # tree (the lock knows) or carries the property's tag; every function is executed for every property (obligations are selected
    # by tag afterwards), so without this filter one undecided function would make all seventeen checks undecided
    def _relevant(q):
        if q.startswith('ghost:') or not locked:
            return True
        fname = q.split(':')[-1]
        c = contract.REGISTRY.get(q)
        return any(('/%s/' % fname) in k for k in locked) or (c is not None and pid in (c.tags or ()) and not c.generic)
    oor = [x for x in oor if _relevant(x[0])]
    for q, m, why in oor:
        # a function that was verified on the unchanged tree (its obligations are in the lock) and can no longer be executed
        # symbolically: its contract is still evaluated NATIVELY on the real code; an input on which a clause is false is a violation
        fname = q.split(':')[-1]
        was_verified = any(('/%s/' % fname) in k for k in locked)
        if was_verified and q not in oor_done and m.startswith('bytesio') and not q.startswith('ghost:'):
            oor_done.add(q)
            c = contract.REGISTRY.get(q)
            if m.endswith('generic'):
                c = contract.GENERIC.get(q, c)
            found = None
            if c is not None and c.setup is not None:
                try:
                    from contracts import nativecheck
                    if C is None:
                        C = replay.import_repo()
                    found, _stats = nativecheck.search(c, src, C, rng, 400 if tier == 'quick' else 5000)
                except Exception as e:
                    found = None
            if found:
                os.makedirs(replay_dir, exist_ok=True)
                fn = os.path.join(replay_dir, hashlib.sha1(('oor:' + q).encode()).hexdigest()[:12] + '.json')
                json.dump({'property': pid, 'function': q, 'obligation': 'contract of %s (function outside the executor after the change: %s)' % (q, why[:200]),
                           'native': {'input': found, 'observed': 'contract clause false on the real code', 'source': 'native contract evaluation of a function that fell out of reach'}},
                          open(fn, 'w'), indent=1, default=str)
                violations.append('VIOLATION property=%s replay=%s obligation=%s/contract-evaluated-natively' % (pid, fn, fname))
                continue
        undecided.append('UNDECIDED property=%s function=%s model=%s out-of-reach: %s' % (pid, q, m, why[:200]))
    # known findings: each listed finding that is hit is re-confirmed natively
    kf_lines = []
    seen_kf = set()
    for f, r in known_hits:
        ident = f.d['id']
        if ident in seen_kf:
            continue
        seen_kf.add(ident)
        if run_witness(f):
            kf_lines.append('KNOWN-FINDING: property=%s %s' % (pid, f.d['what']))
        else:
            fn = write_replay(r, 'recorded witness no longer reproduces but the obligation still fails', None)
            violations.append('VIOLATION property=%s replay=%s obligation=%s no-failing-input-found' % (pid, fn, r.name))
    # extras (tables, bounded stand-ins) may report violations themselves
    for v in extras.get('violations', []):
        violations.append(v)
    for k in extras.get('known', []):
        kf_lines.append(k)
    for u in extras.get('undecided', []):
        undecided.append(u)
    # vacuity / lock
    keys_now = sorted({stable_key(r.name) for r in discharged})
    checker_errors = []
    if a.relock:
        import fcntl
        with open(lockp + '.flock', 'w') as guard:       # relocks of different properties may run side by side: re-read under a lock
            fcntl.flock(guard, fcntl.LOCK_EX)
            cur = json.load(open(lockp)) if os.path.exists(lockp) else {}
            cur[pid] = {'keys': keys_now, 'count': len(discharged)}
            _atomic_dump(cur, lockp)
            # the local names of every function under contract, in order of first binding (see FnContract.verify: renamed locals)
            loc = {}
            for q, c in list(contract.REGISTRY.items()) + list(contract.GENERIC.items()):
                if c.setup is not None and src.has(q):
                    try:
                        loc[q] = src.local_order(src.find(q))
                    except Exception:
                        pass
            _atomic_dump(loc, os.path.join(ROOT, 'locals.lock'))
        os.remove(lockp + '.flock') if os.path.exists(lockp + '.flock') else None
        print('relocked %s: %d obligations, %d stable keys' % (pid, len(discharged), len(keys_now)))
    if not results and not extras.get('tables'):
        checker_errors.append('no obligations generated')
    for r in errors:
        checker_errors.append('solver error on %s: %s' % (r.name, str(r.result.outputs)[:300]))
    missing = sorted(locked - set(keys_now) - {stable_key(r.name) for r in failed + open_} - {stable_key(r.name) for _, r in known_hits})
    if missing and not oor and not a.relock:
        # Obligations that existed on the unchanged tree are gone although no function fell out of reach.  An edit may legitimately
        # remove some (a path that no longer exists); what must not happen silently is that a unit - a function under a stream model,
        # a ghost program, a lemma - that had obligations now produces NONE (a proof that became vacuous).
        def unit(k):
            parts = k.split('/')
            return '/'.join(parts[:2]) if '@' in parts[0] else parts[0]
        now_units = {unit(k) for k in keys_now} | {unit(stable_key(r.name)) for r in failed + open_} | {unit(stable_key(r.name)) for _, r in known_hits}
        dead = sorted({unit(k) for k in missing} - now_units)
        if dead:
            checker_errors.append('%d locked obligations were not generated; %d units produce no obligation any more, e.g. %s' % (len(missing), len(dead), dead[:3]))
        else:
            print('NOTE property=%s %d obligations of the locked tree are no longer generated (their units still produce obligations), e.g. %s' % (pid, len(missing), missing[:2]))
    wall = time.time() - t0
    write_evidence(pid, P, tier, seed, results, discharged, failed, open_, oor, stats, functions, extras, known_hits, violations, wall, lemma_names=[n for n, l in LEMMAS.items() if pid in l.tags])
    for l in kf_lines:
        print(l)
    n_ob = len(results)
    print('%s tier=%s: %d obligations, %d discharged, %d failed, %d open, %d out-of-reach functions, %d known-finding obligations, %.1fs'
          % (pid, tier, n_ob, len(discharged), len(failed), len(open_), len(oor), len(known_hits), wall))
    if violations:
        for v in violations:
            print(v)
        return 1
    for v in stats.get('vacuous', []) or []:
        checker_errors.append('vacuous proof: the hypotheses reaching %s are contradictory' % v)
    if checker_errors:
        for c in checker_errors:
            print('CHECKER-ERROR property=%s %s' % (pid, c))
        return 3
    if undecided:
        for u in undecided[:50]:
            print(u)
        return 2
    return 0


def write_evidence(pid, P, tier, seed, results, discharged, failed, open_, oor, stats, functions, extras, known_hits, violations, wall, lemma_names):
    by_solver = {}
    slow = []
    for r in discharged:
        if r.trivial:
            by_solver['syntactic'] = by_solver.get('syntactic', 0) + 1
        else:
            by_solver[r.result.solver] = by_solver.get(r.result.solver, 0) + 1
            if r.result.secs > 10:
                slow.append((r.name, round(r.result.secs, 1)))
    samples = []
    for r in discharged[:: max(1, len(discharged) // 6)][:6]:
        samples.append({'obligation': r.name, 'backend': 'syntactic' if r.trivial else r.result.solver,
                        'secs': 0 if r.trivial else round(r.result.secs, 3)})
    kf_ob = len(known_hits)
    hyps = []
    if any(str(f).startswith('ghost:') for f in functions):
        # hypotheses under which the Layer-B lemmas of this property are proved (traits of sub-constructs, domain restrictions)
        import contracts.ghostreg as _g
        for h in _g.HYPOTHESES:
            if not re.match(r'C\d\d', h) or h.startswith(pid):
                hyps.append('hypothesis of the lemmas (not a fact about the code): ' + h)
    ev = {
        'property_id': pid, 'tier': tier, 'seed': seed, 'level': P.get('level', 'proof'),
        'coverage': {
            'obligations': len(results) - kf_ob, 'discharged': len(discharged),
            'checker_cmd': './check %s --tier %s' % (pid, tier),
            'trusted_base': P.get('trusted_base', []) + ['pyvc (this VC generator and its Python-subset semantics, DESIGN.md 1.3)',
                                                          'z3 5.1.0 / cvc5 1.0.3 / z3 4.8.12'],
            'samples': samples,
            'functions_under_contract': functions,
            'lemmas': lemma_names,
            'obligations_by_backend': by_solver,
            'failed': [r.name for r in failed if r not in [x for _, x in known_hits]][:50],
            'open': [r.name for r in open_][:50],
            'out_of_reach': [{'function': q, 'model': m, 'why': w[:300]} for q, m, w in oor],
            'known_finding_obligations': sorted({r.name for _, r in known_hits})[:100],
            'solver_seconds': round(stats.get('solve_s', 0), 2), 'vc_generation_seconds': round(stats.get('gen_s', 0), 2),
            'paths_explored': stats.get('paths', 0),
            'vacuity_checks': {'ghost_assertions_whose_hypotheses_were_checked_for_consistency': stats.get('cover_checks', 0), 'found_contradictory': stats.get('vacuous', [])},
            'slow_obligations': slow[:20],
            'tables_enumerated': extras.get('tables', []),
            'bounded_standins': extras.get('bounded', []),
            'explanation': P.get('explanation', '') or P.get('level_text', ''),
        },
        'assumptions': P.get('assumptions', []) + hyps,
        'wall_s': round(wall, 2),
        'violations': len(violations),
    }
    out = os.environ.get('PYVC_OUT', ROOT)
    os.makedirs(os.path.join(out, 'evidence'), exist_ok=True)
    json.dump(ev, open(os.path.join(out, 'evidence', pid + '.json'), 'w'), indent=1, default=str)


if __name__ == '__main__':
    sys.exit(main())
