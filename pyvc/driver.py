"""Runs verification of contracted functions and discharges the obligations with the solver portfolio."""
import hashlib
import time

from . import terms as t
from . import prelude, solve
from .source import Source
from .models import CallModels
from .contract import REGISTRY


class ObligationResult:
    def __init__(self, ob, qual, model, result=None, trivial=False):
        self.ob, self.qual, self.stream_model, self.result, self.trivial = ob, qual, model, result, trivial

    @property
    def name(self):
        if self.stream_model == 'ghost':
            return self.ob.name
        return '%s@%s/%s' % (self.qual.split(':')[0].replace('construct.', ''), self.stream_model, self.ob.name)

    @property
    def verdict(self):
        return 'unsat' if self.trivial else self.result.verdict


def make_models_factory(src, interface_factory=None, ghost=False):
    def make(stream_model):
        m = CallModels(src, contracts=REGISTRY, stream_mode=stream_model, ghost_mode=ghost)
        if interface_factory is not None:
            m.interface = interface_factory(m)
        return m
    return make


def verify_functions(src, quals, tags=None, interface_factory=None, timeout=30, tier='quick', log=None):
    """-> (list of ObligationResult, list of (qual, model, reason) out of reach, stats)"""
    make = make_models_factory(src, interface_factory)
    jobs = []
    results = []
    oor = []
    stats = {'functions': 0, 'paths': 0, 'gen_s': 0.0}
    t0 = time.time()
    for qual in quals:
        c = REGISTRY[qual]
        if c.setup is None:
            continue
        if not src.has(qual):
            oor.append((qual, '-', 'function no longer exists in the source'))
            continue
        for model, variant in [(m, v) for m in c.stream_models for v in c.variants]:
            try:
                vr = c.verify(src, make, model, variant)
            except Exception as e:
                # an internal error of the executor on THIS function (typically on changed code that leaves the modelled subset in an
                # unforeseen way) makes the function undecided; it must not take the whole check down
                import traceback
                oor.append((qual, model if variant is None else '%s,%s' % (model, variant), 'executor error %s: %s (%s)' % (type(e).__name__, e, traceback.format_exc().strip().splitlines()[-3].strip()[:120])))
                stats['functions'] += 1
                continue
            stats['functions'] += 1
            if variant is not None:
                model = '%s,%s' % (model, variant)
            if vr.out_of_reach:
                oor.append((qual, model, vr.out_of_reach))
                if not vr.obligations:
                    continue
            stats['paths'] += vr.paths
            for lk in vr.loops_unused:
                oor.append((qual, model, 'loop specification %r matched no loop (the loop changed shape)' % (lk,)))
            for ob in vr.obligations:
                if tags is not None and ob.tags and not (set(ob.tags) & set(tags)):
                    continue
                r = ObligationResult(ob, qual, model)
                r.renamed = getattr(vr, 'renamed', False)
                if ob.kind.endswith(':trivial') or (ob.goal.op == 'bool' and ob.goal.args[0]):
                    r.trivial = True
                    results.append(r)
                    continue
                text = prelude.build_query(ob.hyps, ob.goal)
                jobs.append((len(results), text, prelude.pre_query(ob)))
                results.append(r)
    stats['gen_s'] = time.time() - t0
    t1 = time.time()
    solved = solve.solve_many(jobs, timeout=timeout, tier=tier)
    stats['solve_s'] = time.time() - t1
    texts = {j[0]: j[1] for j in jobs}
    for idx, res in solved.items():
        results[idx].result = res
        results[idx].text = texts[idx]
    return results, oor, stats


def summarize(results):
    by = {}
    for r in results:
        by.setdefault(r.verdict, []).append(r)
    return by
