"""Driver for ghost programs (contracts/ghost/programs.py): Layer-B lemmas executed symbolically over contracts."""
import ast
import os

from . import terms as t
from .values import *  # noqa
from .state import State, OutOfReach
from .exec import Engine, Obligation
from .models import CallModels
from .constructs import ConstructInterface
from . import contract as _contract
from . import streams

ROOT = os.path.dirname(os.path.dirname(os.path.abspath(__file__)))
PROGRAMS = os.path.join(ROOT, 'contracts', 'ghost', 'programs.py')
from . import prelude as _prelude
_prelude.declare_fun('sc_faithful', [t.INT], t.BOOL)
_prelude.declare_fun('sc_posindep', [t.INT], t.BOOL)
FAITHFUL = {'Const': ('subcon',)}     # sub-construct fields assumed value-faithful (stated in the evidence as a hypothesis)
HINTS = {}          # class name -> function(eng, st, selfv, args) adding lemma instances
POST_HINTS = {}     # class name -> function(obligation) -> instances of proved lemmas on the applications occurring in the obligation


def load_programs():
    tree = ast.parse(open(PROGRAMS).read())
    return {n.name: n for n in tree.body if isinstance(n, ast.FunctionDef)}


def run(src, program, cls, tags, variant=None, domain=None):
    """-> (obligations, out_of_reach reason | None, paths)"""
    from contracts.classes import method_setup
    from . import values as _values
    _values._counter[0] = 0
    node = load_programs()[program]
    models = CallModels(src, contracts=_contract.REGISTRY, stream_mode='bytesio', ghost_mode=True)
    iface = ConstructInterface(models, sub_seq=True, params_total=True)
    iface.ghost = True
    models.interface = iface
    eng = Engine(src, models, fnname='%s[%s]' % (program, cls if variant is None else '%s,%s' % (cls, variant)), module='construct.core')
    eng.variant = variant
    st = State()
    # build `self` exactly as the method contracts do; the remaining parameters by name
    fake = ast.parse('def f(self): pass').body[0]
    try:
        selfv, _ = method_setup(cls)(eng, st, fake, 'bytesio')
    except OutOfReach as e:
        return [], 'setup: %s' % e, 0
    st.env['self'] = selfv
    for a in node.args.args[1:]:
        n = a.arg
        if n == 'context':
            st.env[n] = iface.new_context(eng, st, 'context')
        elif n == 'path':
            st.env[n] = VStr(fresh('path', t.STR))
        elif n == 'eager':
            # the eager twin of a lazy construct: same fields, eager class
            twin = {'LazyArray': 'Array', 'LazyStruct': 'Struct'}[cls]
            f = dict(selfv.fields)
            if twin == 'Array':
                f['discard'] = VBool(t.FALSE)
            st.env[n] = VObj(twin, f, ident=fresh('eager', t.INT))
        elif n == 'j':
            st.env[n] = VInt(fresh('j', t.INT))       # an arbitrary index
        elif n in ('tail', 'data0'):
            st.env[n] = eng.fresh_bytes(st, n)
        else:
            st.env[n] = VDyn(fresh(n, t.VAL))
            eng.assume_val_invariant(st, st.env[n].t)
    for ln in src.local_names(node):
        st.env.setdefault(ln, UNBOUND)
    if domain is not None:
        domain(eng, st)

    for fname, fv in selfv.fields.items():
        if isinstance(fv, VSub) and (getattr(fv, 'returns', None) == 'int' or fname in FAITHFUL.get(cls, ())):
            st.assume(t.app('sc_faithful', t.BOOL, fv.ident))
        if isinstance(fv, VSub):
            # hypothesis of the round-trip lemmas: sub-constructs do not observe absolute stream positions
            st.assume(t.app('sc_posindep', t.BOOL, fv.ident))

    def hints(models_, eng_, args, kws, st_, node_):
        h = HINTS.get(cls)
        if h is not None:
            h(eng_, st_, args)
        return [(st_, NONE)]
    models.globals['lemma_hints'] = VFunc('lemma_hints', model=('model', hints))
    try:
        finals = eng.block(node.body, st)
    except OutOfReach as e:
        return [], str(e), 0
    for i, (fs, flow) in enumerate(finals):
        if fs.infeasible():
            continue
        if flow is not None and flow[0] == 'raise':
            eng.emit(fs, '%s/path%d/no-exception-escapes' % (eng.fnname, i), t.FALSE, kind='ghost-raise', meta={'origin': flow[1].origin})
    for ob in eng.obls:
        if not ob.tags:
            ob.tags = tuple(tags)
        ob.canonical_traits = program.startswith('canonical')
        ob.hyps = list(ob.hyps) + trait_instances(ob)
        if cls in POST_HINTS:
            n0 = len(ob.hyps)
            ob.hyps = list(ob.hyps) + POST_HINTS[cls](ob)
            if ob.canonical_traits and len(ob.hyps) > n0:
                # the lemma instances compare values too: close == over those comparisons as well
                ob.hyps = ob.hyps + pyeq_instances(ob, [], known=ob.hyps)
    return eng.obls, None, len(finals)


def find_apps(terms, names):
    out = {n: {} for n in names}
    seen = set()
    stack = list(terms)
    while stack:
        x = stack.pop()
        if id(x) in seen:
            continue
        seen.add(id(x))
        if x.op in out:
            out[x.op][x.smt()] = x
        if x.op == 'forall':
            stack.append(x.args[1])
        elif x.op not in ('int', 'bool', 'strlit', 'var', 'raw'):
            stack.extend(a for a in x.args if isinstance(a, t.T))
    return out


def has_bound_var(x):
    return '!|' in x.smt() and any(v.endswith('!') for v in x.free_vars())


def same_sc(a, b):
    """premise under which two sub-construct terms denote the same sub-construct: TRUE when they are the same term, None (no
    instance) when both are distinct plain symbols, otherwise their equality (e.g. the case a Switch selects in two heaps)"""
    if a.smt() == b.smt():
        return t.TRUE
    if a.op == 'var' and b.op == 'var':
        return None
    return t.eq(a, b)


def rt_instance(b, p, eqsc=None):
    """round-trip trait of one sub-construct on one pair of applications: build b = B_ok(sc,obj,pabs,H,D,c) succeeded and the
    bytes it produced stand at the parse position of p = P_ok(sc,buf,len,pos,base,H',D',c)  =>  the parse succeeds, returns a
    value equal to what build returned and ends right after those bytes"""
    i = t.var('rt!', t.INT)
    sc, obj, pabs, Hb, Db, cb = b.args
    n = t.app('B_len', t.INT, *b.args)
    W = t.app('B_bytes', t.ARR, *b.args)
    ret = t.app('B_ret', t.VAL, *b.args)
    _, buf, ln, pos, base, H, D, c = p.args
    same = t.forall([i], t.implies(t.and_(t.le(pos, i), t.lt(i, t.add(pos, n))), t.eq(t.select(buf, i), t.select(W, t.sub(i, pos)))),
                    pats=[[t.select(buf, i)]])
    concl = t.and_(p, t.app('pyeq', t.BOOL, t.app('P_val', t.VAL, *p.args), ret), t.eq(t.app('P_end', t.INT, *p.args), t.add(pos, n)))
    return t.implies(t.and_(eqsc if eqsc is not None else t.TRUE, b, t.or_(t.eq(pabs, t.add(base, pos)), t.app('sc_posindep', t.BOOL, sc)), same, t.le(t.add(pos, n), ln)), concl)


def trait_instances(ob):
    """Induction hypotheses about sub-constructs, instantiated on the interface-function applications that occur in the
    obligation (ground facts, never quantified axioms):
      rt(sc)     B_ok(sc,obj,..) and the bytes it produces standing at the parse position  =>  P_ok, P_val == B_ret, P_end = pos + B_len
      sized(sc)  Z_ok(sc,..) => B_len == Z_val for every successful build and P_end - pos == Z_val for every successful parse"""
    apps = find_apps(list(ob.hyps) + [ob.goal], ('B_ok', 'P_ok', 'Z_ok', 'pyeq'))
    out = []
    i = t.var('rt!', t.INT)
    for b in apps['B_ok'].values():
        if has_bound_var(b):
            continue
        sc, obj, pabs, Hb, Db, cb = b.args
        n = t.app('B_len', t.INT, *b.args)
        W = t.app('B_bytes', t.ARR, *b.args)
        ret = t.app('B_ret', t.VAL, *b.args)
        out.append(t.implies(b, t.ge(n, t.ZERO)))
        # value-faithful sub-constructs (declared per field: length fields, the field under a Const): build returns its argument
        out.append(t.implies(t.and_(b, t.app('sc_faithful', t.BOOL, sc)), t.eq(ret, obj)))
        for p in apps['P_ok'].values():
            if has_bound_var(p) or same_sc(p.args[0], sc) is None:
                continue
            eqsc = same_sc(p.args[0], sc)
            out.append(rt_instance(b, p, eqsc))
        for z in apps['Z_ok'].values():
            if not has_bound_var(z) and same_sc(z.args[0], sc) is not None:
                out.append(t.implies(t.and_(same_sc(z.args[0], sc), z, b), t.eq(n, t.app('Z_val', t.INT, *z.args))))
    if getattr(ob, 'canonical_traits', False):
        # induction hypotheses of C02 about sub-constructs (only for the canonical programs):
        #   closure    a value a sub-construct parsed is accepted by its build, which returns an equal value
        #   congruence building equal values gives the same outcome and the same bytes
        bs = [b for b in apps['B_ok'].values() if not has_bound_var(b)]
        ps_ = [p for p in apps['P_ok'].values() if not has_bound_var(p)]
        for b in bs:
            for p in ps_:
                if same_sc(p.args[0], b.args[0]) is None:
                    continue
                pv = t.app('P_val', t.VAL, *p.args)
                used = t.sub(t.app('P_end', t.INT, *p.args), p.args[3])
                out.append(t.implies(t.and_(same_sc(p.args[0], b.args[0]), p, t.or_(t.eq(b.args[1], pv), t.app('pyeq', t.BOOL, b.args[1], pv))),
                                     t.and_(b, t.app('pyeq', t.BOOL, t.app('B_ret', t.VAL, *b.args), b.args[1]), t.le(t.app('B_len', t.INT, *b.args), used))))
        # length / count fields (value-faithful integer fields): the field that encoded the parsed length n also encodes every
        # smaller non-negative length, in no more bytes (downward closed and monotone - true of every integer wire format)
        for b in bs:
            for p in ps_:
                if same_sc(p.args[0], b.args[0]) is None:
                    continue
                pv = t.app('P_val', t.VAL, *p.args)
                b2 = t.app('B_ok', t.BOOL, b.args[0], pv, *b.args[2:])
                n2 = t.app('B_len', t.INT, b.args[0], pv, *b.args[2:])
                small = t.and_(t.app('isint', t.BOOL, b.args[1]), t.app('isint', t.BOOL, pv), t.le(t.ZERO, t.app('toint', t.INT, b.args[1])),
                               t.le(t.app('toint', t.INT, b.args[1]), t.app('toint', t.INT, pv)))
                out.append(t.implies(t.and_(same_sc(p.args[0], b.args[0]), t.app('sc_faithful', t.BOOL, b.args[0]), p),
                                     t.and_(b2, t.app('isint', t.BOOL, pv), t.le(n2, t.sub(t.app('P_end', t.INT, *p.args), p.args[3])),
                                            t.implies(small, t.and_(b, t.le(t.app('B_len', t.INT, *b.args), n2))))))
        for x in range(len(bs)):
            for y in range(x + 1, len(bs)):
                b1, b2 = bs[x], bs[y]
                if same_sc(b1.args[0], b2.args[0]) is None:
                    continue
                n1, n2 = t.app('B_len', t.INT, *b1.args), t.app('B_len', t.INT, *b2.args)
                W1, W2 = t.app('B_bytes', t.ARR, *b1.args), t.app('B_bytes', t.ARR, *b2.args)
                same = t.forall([i], t.implies(t.and_(t.le(t.ZERO, i), t.lt(i, n1)), t.eq(t.select(W1, i), t.select(W2, i))), pats=[[t.select(W1, i)], [t.select(W2, i)]])
                out.append(t.implies(t.and_(same_sc(b1.args[0], b2.args[0]), t.or_(t.eq(b1.args[1], b2.args[1]), t.app('pyeq', t.BOOL, b1.args[1], b2.args[1]))),
                                     t.and_(t.eq(b1, b2), t.implies(b1, t.and_(t.eq(n1, n2), same, t.app('pyeq', t.BOOL, t.app('B_ret', t.VAL, *b1.args), t.app('B_ret', t.VAL, *b2.args)))))))
    zs = [z for z in apps['Z_ok'].values() if not has_bound_var(z)]
    for a in zs:
        for b2 in zs:
            if a is not b2 and same_sc(a.args[0], b2.args[0]) is not None and a.smt() < b2.smt():
                # context agreement: the size of a sub-construct does not depend on what its siblings did to the context
                out.append(t.implies(same_sc(a.args[0], b2.args[0]), t.and_(t.eq(a, b2), t.eq(t.app('Z_val', t.INT, *a.args), t.app('Z_val', t.INT, *b2.args)))))
    for z in apps['Z_ok'].values():
        if has_bound_var(z):
            continue
        out.append(t.implies(z, t.ge(t.app('Z_val', t.INT, *z.args), t.ZERO)))
        for p in apps['P_ok'].values():
            if not has_bound_var(p) and same_sc(p.args[0], z.args[0]) is not None:
                out.append(t.implies(t.and_(same_sc(p.args[0], z.args[0]), z, p), t.eq(t.sub(t.app('P_end', t.INT, *p.args), p.args[3]), t.app('Z_val', t.INT, *z.args))))
    # a successful sequential parse ends between its start and the end of the data it was given
    for p in apps['P_ok'].values():
        if not has_bound_var(p):
            pe = t.app('P_end', t.INT, *p.args)
            out.append(t.implies(p, t.and_(t.le(p.args[3], pe), t.le(pe, t.imax(p.args[2], p.args[3])))))
    # context agreement for parameter expressions: a context expression of the construct evaluates to the same value (and fails
    # or not alike) in the scope before and after its sub-constructs ran (it does not read what they wrote)
    evs = find_apps(list(ob.hyps) + [ob.goal], ('ev_int', 'ev_val', 'ev_raises'))
    for fn, sort in (('ev_int', t.INT), ('ev_val', t.VAL), ('ev_raises', t.BOOL)):
        al = [a for a in evs[fn].values() if not has_bound_var(a)]
        for x in range(len(al)):
            for y in range(x + 1, len(al)):
                if al[x].args[0].smt() == al[y].args[0].smt() and al[x].args[3].smt() == al[y].args[3].smt():
                    out.append(t.eq(al[x], al[y]))
    return out + pyeq_instances(ob, out)


def pyeq_instances(ob, out, known=()):
    """ground instances of the equivalence laws of == over the comparisons occurring in the obligation (and in `out`)"""
    have = {x.smt() for x in known}
    eqs = [e for e in find_apps(list(ob.hyps) + [ob.goal] + list(out), ('pyeq',))['pyeq'].values() if not has_bound_var(e)]
    out = []
    for e in eqs:
        # == is reflexive (lemma pyeq_reflexive, proved by induction over the byte comparison): ground instance
        out.append(t.implies(t.eq(e.args[0], e.args[1]), e))
    if getattr(ob, 'canonical_traits', False) and len(eqs) <= 48:
        # == is symmetric and transitive on the modelled values (lemmas pyeq_symmetric / pyeq_transitive): ground instances
        terms = {}
        for e in eqs:
            terms[e.args[0].smt()] = e.args[0]
            terms[e.args[1].smt()] = e.args[1]
        for e in eqs:
            out.append(t.eq(e, t.app('pyeq', t.BOOL, e.args[1], e.args[0])))
        for e1 in eqs:
            for e2 in eqs:
                if e1 is e2:
                    continue
                for (a, m1), (m2, c) in (((e1.args[0], e1.args[1]), (e2.args[0], e2.args[1])), ((e1.args[0], e1.args[1]), (e2.args[1], e2.args[0])),
                                         ((e1.args[1], e1.args[0]), (e2.args[0], e2.args[1])), ((e1.args[1], e1.args[0]), (e2.args[1], e2.args[0]))):
                    if m1.smt() == m2.smt() and a.smt() != c.smt():
                        out.append(t.implies(t.and_(t.app('pyeq', t.BOOL, a, m1), t.app('pyeq', t.BOOL, m2, c)), t.app('pyeq', t.BOOL, a, c)))
    return [x for x in out if x.smt() not in have]
