"""Loads the real source of /repo on every run: function bodies by qualified name, class and exception
hierarchy.  Nothing is cached between runs.  What extraction drops is listed in DESIGN.md 1.2."""
import ast
import os

REPO = os.environ.get('PYVC_REPO', '/repo')

MODULE_FILES = {
    'construct.core': 'construct/core.py',
    'construct.expr': 'construct/expr.py',
    'construct.lib.binary': 'construct/lib/binary.py',
    'construct.lib.bitstream': 'construct/lib/bitstream.py',
    'construct.lib.containers': 'construct/lib/containers.py',
    'construct.lib.hex': 'construct/lib/hex.py',
    'construct.lib.py3compat': 'construct/lib/py3compat.py',
}

BUILTIN_EXC = {
    'BaseException': [],
    'Exception': ['BaseException'],
    'KeyboardInterrupt': ['BaseException'], 'SystemExit': ['BaseException'], 'GeneratorExit': ['BaseException'],
    'ArithmeticError': ['Exception'], 'OverflowError': ['ArithmeticError'], 'ZeroDivisionError': ['ArithmeticError'],
    'AssertionError': ['Exception'], 'AttributeError': ['Exception'],
    'LookupError': ['Exception'], 'IndexError': ['LookupError'], 'KeyError': ['LookupError'],
    'MemoryError': ['Exception'], 'NameError': ['Exception'], 'UnboundLocalError': ['NameError'],
    'OSError': ['Exception'], 'RuntimeError': ['Exception'], 'NotImplementedError': ['RuntimeError'],
    'RecursionError': ['RuntimeError'], 'StopIteration': ['Exception'], 'TypeError': ['Exception'],
    'ValueError': ['Exception'], 'UnicodeError': ['ValueError'], 'UnicodeDecodeError': ['UnicodeError'],
    'UnicodeEncodeError': ['UnicodeError'], 'BufferError': ['Exception'], 'EOFError': ['Exception'],
    'StructError': ['Exception'],          # struct.error
    'Unmodelled': ['BaseException'],       # pseudo-exception: a path the executor cannot model; must be proved infeasible
    'ForeignError': ['Exception'],         # any other Exception subclass (zlib.error, user stream errors, ...)
}
ALIASES = {'IOError': 'OSError', 'EnvironmentError': 'OSError'}


class Source:
    def __init__(self, repo=None):
        self.repo = repo or REPO
        self.modules = {}
        self.text = {}
        for mod, rel in MODULE_FILES.items():
            path = os.path.join(self.repo, rel)
            with open(path) as f:
                src = f.read()
            self.text[mod] = src
            self.modules[mod] = ast.parse(src, filename=path)
        self._index_classes()
        self._index_exceptions()

    # ---------------------------------------------------------------- lookup
    def local_order(self, node):
        """locals of the function (parameters excluded) in the order of their first binding in the source text"""
        params = {a.arg for a in node.args.args + node.args.kwonlyargs + node.args.posonlyargs}
        if node.args.vararg:
            params.add(node.args.vararg.arg)
        if node.args.kwarg:
            params.add(node.args.kwarg.arg)
        locs = self.local_names(node)
        first = {}
        for n in ast.walk(node):
            if isinstance(n, ast.Name) and isinstance(n.ctx, ast.Store) and n.id in locs and n.id not in params:
                pos = (n.lineno, n.col_offset)
                if n.id not in first or pos < first[n.id]:
                    first[n.id] = pos
        return [k for k, _ in sorted(first.items(), key=lambda kv: kv[1])]

    def alpha_rename(self, node, mapping):
        """a copy of the function with local names renamed (consistently, every occurrence)"""
        import copy

        class R(ast.NodeTransformer):
            def visit_Name(self, n):
                if n.id in mapping:
                    return ast.copy_location(ast.Name(id=mapping[n.id], ctx=n.ctx), n)
                return n
        return ast.fix_missing_locations(R().visit(copy.deepcopy(node)))

    def local_names(self, node):
        """names assigned anywhere in the function (they are locals: reading one before assignment is UnboundLocalError)"""
        names = set()
        for n in ast.walk(node):
            if isinstance(n, ast.Name) and isinstance(n.ctx, (ast.Store, ast.Del)):
                names.add(n.id)
            elif isinstance(n, ast.ExceptHandler) and n.name:
                names.add(n.name)
            elif isinstance(n, (ast.FunctionDef,)) and n is not node:
                names.add(n.name)
            elif isinstance(n, (ast.Import, ast.ImportFrom)):
                for a in n.names:
                    names.add((a.asname or a.name).split('.')[0])
        # names bound inside nested functions / comprehensions are not locals of this function: approximate by removing
        # comprehension targets
        for n in ast.walk(node):
            if isinstance(n, (ast.GeneratorExp, ast.ListComp, ast.DictComp, ast.SetComp)):
                for g in n.generators:
                    for x in ast.walk(g.target):
                        if isinstance(x, ast.Name):
                            names.discard(x.id) if not self._assigned_outside(node, x.id) else None
            if isinstance(n, (ast.Lambda,)):
                pass
        return names

    def _assigned_outside(self, fn, name):
        def walk(n, inside):
            if isinstance(n, (ast.GeneratorExp, ast.ListComp, ast.DictComp, ast.SetComp)):
                inside = True
            if isinstance(n, (ast.FunctionDef, ast.Lambda)) and n is not fn:
                return False
            if isinstance(n, ast.Name) and isinstance(n.ctx, ast.Store) and n.id == name and not inside:
                return True
            return any(walk(c, inside) for c in ast.iter_child_nodes(n))
        return walk(fn, False)

    def find(self, qual):
        """qual = 'construct.core:Padded._parse' -> ast.FunctionDef (or ClassDef)"""
        mod, _, name = qual.partition(':')
        body = self.modules[mod].body
        node = None
        for part in name.split('.'):
            for n in body:
                if isinstance(n, (ast.FunctionDef, ast.ClassDef)) and n.name == part:
                    node = n
                    body = n.body
                    break
                # singleton-decorated class / def keep their name
            else:
                raise KeyError(qual)
        return node

    def has(self, qual):
        try:
            self.find(qual)
            return True
        except KeyError:
            return False

    def segment(self, qual):
        mod = qual.partition(':')[0]
        return ast.get_source_segment(self.text[mod], self.find(qual))

    def _index_classes(self):
        self.classes = {}      # name -> (module, ClassDef, [base names])
        self.singletons = {}   # name -> class name (for @singleton class X) or ('factory', FunctionDef) (for @singleton def X)
        for mod, tree in self.modules.items():
            for n in tree.body:
                if isinstance(n, ast.ClassDef):
                    bases = []
                    for b in n.bases:
                        if isinstance(b, ast.Name):
                            bases.append(b.id)
                        elif isinstance(b, ast.Attribute):
                            bases.append(ast.unparse(b))
                    self.classes[n.name] = (mod, n, bases)
                    if any(isinstance(d, ast.Name) and d.id == 'singleton' for d in n.decorator_list):
                        self.singletons[n.name] = n.name
                elif isinstance(n, ast.FunctionDef) and any(isinstance(d, ast.Name) and d.id == 'singleton' for d in n.decorator_list):
                    self.singletons[n.name] = ('factory', n)

    def mro(self, cls):
        """linear base chain (single inheritance in this code base)"""
        out = []
        while cls in self.classes:
            out.append(cls)
            bases = self.classes[cls][2]
            cls = bases[0] if bases else None
        return out

    def resolve_method(self, cls, meth):
        """-> qualified name of the function that cls.meth resolves to, or None"""
        for c in self.mro(cls):
            mod, node, _ = self.classes[c]
            for n in node.body:
                if isinstance(n, ast.FunctionDef) and n.name == meth:
                    return '%s:%s.%s' % (mod, c, meth)
        return None

    def is_subclass(self, cls, base):
        return base in self.mro(cls)

    def methods_of(self, cls):
        mod, node, _ = self.classes[cls]
        return [n.name for n in node.body if isinstance(n, ast.FunctionDef)]

    # ---------------------------------------------------------------- exceptions
    def _index_exceptions(self):
        parents = dict(BUILTIN_EXC)
        core = self.modules['construct.core']
        for n in core.body:
            if isinstance(n, ast.ClassDef):
                bases = [b.id for b in n.bases if isinstance(b, ast.Name)]
                if any(b in parents for b in bases):
                    parents[n.name] = [b for b in bases if b in parents]
        if 'ConstructError' in parents:
            parents['OtherConstructError'] = ['ConstructError']      # user-defined subclasses
        self.exc_parents = parents
        names = sorted(parents)
        self.exc_code = {n: i + 1 for i, n in enumerate(names)}
        self.exc_name = {i: n for n, i in self.exc_code.items()}

    def exc_canon(self, name):
        name = ALIASES.get(name, name)
        if name in ('struct.error', 'error'):
            name = 'StructError'
        return name

    def exc_is_sub(self, a, b):
        a, b = self.exc_canon(a), self.exc_canon(b)
        if a == b:
            return True
        return any(self.exc_is_sub(p, b) for p in self.exc_parents.get(a, []))

    def exc_descendants(self, base):
        base = self.exc_canon(base)
        return [n for n in self.exc_parents if self.exc_is_sub(n, base)]

    def is_exc_class(self, name):
        return self.exc_canon(name) in self.exc_parents
