"""The Construct interface contract (DESIGN.md 2.3): what a method may assume about a sub-construct it calls, which is
exactly what every class must establish for itself (structural induction over construct trees).

Outcomes of sub-construct calls are uninterpreted functions of (sub-construct, stream buffer, length, position, heap,
context address) so that they are deterministic (C17) and can be named by class postconditions; every interface clause
is instantiated at the call site as a ground fact (never asserted as a global axiom).

sub_seq   True : sub-constructs are assumed *sequential* (trait seq): parse advances within the buffer, build appends
                 B_bytes at the current position.  Used for the functional clauses (C01-C03, C05, C08, ...).
          False: nothing is assumed about stream positions after a sub-construct call (weaker assumption), used for the
                 cross-cutting clauses (C06 exception classes, C18 paths, C17 frames, C05 error classes).
"""
import ast

from . import terms as t
from .terms import I, Bc, S
from .values import *  # noqa
from .state import OutOfReach
from . import prelude, streams, builtins
from .interface import Interface

PARGS = [t.INT, t.ARR, t.INT, t.INT, t.INT, 'Heap', 'Dom', t.INT]      # sub, buffer, length, position, absolute base of the stream, heap, dom, context
for nm, ret in (('P_ok', t.BOOL), ('P_val', t.VAL), ('P_end', t.INT), ('P_exc', t.INT), ('P_H', 'Heap'), ('P_D', 'Dom'),
                ('P_fpos', t.INT), ('P_fH', 'Heap'), ('P_fD', 'Dom')):       # P_f*: state left behind by a FAILED parse
    prelude.declare_fun(nm, PARGS, ret)
BARGS = [t.INT, t.VAL, t.INT, 'Heap', 'Dom', t.INT]
for nm, ret in (('B_ok', t.BOOL), ('B_ret', t.VAL), ('B_bytes', t.ARR), ('B_len', t.INT), ('B_exc', t.INT), ('B_H', 'Heap'), ('B_D', 'Dom')):
    prelude.declare_fun(nm, BARGS, ret)
ZARGS = [t.INT, 'Heap', 'Dom', t.INT]
for nm, ret in (('Z_ok', t.BOOL), ('Z_val', t.INT)):
    prelude.declare_fun(nm, ZARGS, ret)
prelude.declare_fun('sc_name', [t.INT], t.VAL)
prelude.declare_fun('sc_fbn', [t.INT], t.BOOL)
prelude.declare_fun('sl_len', [t.INT], t.INT)
prelude.declare_fun('sl_at', [t.INT, t.INT], t.INT)
prelude.declare_fun('sc_is', [t.INT, t.INT], t.BOOL)      # sc_is(sub, class-code): isinstance test on a sub-construct
prelude.declare_fun('sc_returns_int', [t.INT], t.BOOL)


def _find_apps(terms, name):
    out = {}
    seen = set()
    stack = list(terms)
    while stack:
        x = stack.pop()
        if id(x) in seen:
            continue
        seen.add(id(x))
        if x.op == name:
            out[x.smt()] = x
        if x.op == 'forall':
            stack.append(x.args[1])
        elif x.op not in ('int', 'bool', 'strlit', 'var', 'raw'):
            stack.extend(a for a in x.args if isinstance(a, t.T))
    return list(out.values())


def locality_instances(hyps, goal):
    """read-locality of parsing (interface clause): the outcome of a sub-construct on a stream depends on the buffer only
    through its first `len` bytes.  Instantiated for every pair of P_ok applications of the same sub-construct that differ only
    in the buffer argument: if the two buffers agree on [0, len) every outcome function agrees."""
    apps = [a for a in _find_apps(list(hyps) + [goal], 'P_ok') if not any(v.endswith('!|') or v.endswith('!') for v in a.free_vars())]
    out = []
    i = t.var('loc!', t.INT)
    for x in range(len(apps)):
        for y in range(x + 1, len(apps)):
            a, b = apps[x], apps[y]
            if a.args[0].smt() != b.args[0].smt() or a.args[1].smt() == b.args[1].smt():
                continue
            if [z.smt() for z in a.args[2:]] != [z.smt() for z in b.args[2:]]:
                # lengths / positions / heaps must be syntactically the same or provably equal: state equality as a premise
                same_rest = t.and_(*[t.eq(p, q) for p, q in zip(a.args[2:], b.args[2:])])
            else:
                same_rest = t.TRUE
            ln = a.args[2]
            agree = t.forall([i], t.implies(t.and_(t.le(t.ZERO, i), t.lt(i, ln)), t.eq(t.select(a.args[1], i), t.select(b.args[1], i))),
                             pats=[[t.select(a.args[1], i)], [t.select(b.args[1], i)]])
            concl = [t.eq(a, b)]
            for fn, sort in (('P_val', t.VAL), ('P_end', t.INT), ('P_exc', t.INT), ('P_H', 'Heap'), ('P_D', 'Dom'), ('P_fpos', t.INT)):
                concl.append(t.eq(t.app(fn, sort, *a.args), t.app(fn, sort, *b.args)))
            out.append(t.implies(t.and_(same_rest, agree), t.and_(*concl)))
    return out


prelude.INSTANCE_GENERATORS.append(locality_instances)


def fn_extensionality_instances(hyps, goal):
    """a bytes function stored on a construct (decode / encode callback) is a function of the CONTENT of the bytes object it
    is given: applied to two views of equal length that agree byte for byte it returns equal results (same length, same
    array).  Instantiated for every pair of applications of the same function that differ in the view."""
    apps = [a for a in _find_apps(list(hyps) + [goal], 'fn_bytes_len') if not any(v.endswith('!|') or v.endswith('!') for v in a.free_vars())]
    apps += [a for a in _find_apps(list(hyps) + [goal], 'fn_bytes_arr') if not any(v.endswith('!|') or v.endswith('!') for v in a.free_vars())]
    views = {}
    for a in apps:
        views[tuple(z.smt() for z in a.args)] = a.args
    vs = list(views.values())
    out = []
    i = t.var('fx!', t.INT)
    for x in range(len(vs)):
        for y in range(x + 1, len(vs)):
            (f1, a1, o1, n1), (f2, a2, o2, n2) = vs[x], vs[y]
            if f1.smt() != f2.smt():
                continue
            agree = t.forall([i], t.implies(t.and_(t.le(o1, i), t.lt(i, t.add(o1, n1))), t.eq(t.select(a1, i), t.select(a2, t.add(o2, t.sub(i, o1))))),
                             pats=[[t.select(a1, i)]])
            out.append(t.implies(t.and_(t.eq(n1, n2), agree),
                                 t.and_(t.eq(t.app('fn_bytes_len', t.INT, f1, a1, o1, n1), t.app('fn_bytes_len', t.INT, f2, a2, o2, n2)),
                                        t.eq(t.app('fn_bytes_arr', t.ARR, f1, a1, o1, n1), t.app('fn_bytes_arr', t.ARR, f2, a2, o2, n2)))))
    return out


prelude.INSTANCE_GENERATORS.append(fn_extensionality_instances)


class VSubList(Value):
    """self.subcons: a list of sub-constructs of unknown length"""
    kind = 'sublist'

    def __init__(self, ident):
        self.ident = ident


class ConstructInterface(Interface):
    def __init__(self, models, sub_seq=False, params_total=True):
        super().__init__(models)
        self.sub_seq = sub_seq
        self.params_total = params_total        # E5 for parse/build: parameter expressions do not raise

    # ----------------------------------------------------------------- parameters
    def call_param(self, eng, p, args, kws, st, node):
        if p.pkind == 'predicate3' and len(args) == 3:
            # RepeatUntil's predicate(element, list so far, context): a total, pure function of exactly what it is handed
            lst = st.get(args[1]) if isinstance(args[1], VRef) else None
            if lst is None or getattr(lst, 'arr', None) is None or lst.ekind != 'val':
                raise OutOfReach('predicate called with a list the model does not follow')
            prelude.declare_fun('ru_pred', [t.INT, t.VAL, 'VArr', t.INT, 'Heap', 'Dom', t.INT], t.BOOL)
            H, D = self.H(st)
            out = []
            nc, isc = eng.fork(st, t.not_(p.callable_t))
            if nc is not None:
                out.extend(eng.raise_(nc, 'TypeError', origin='calling a non-callable parameter'))
            if isc is not None:
                out.append((isc, VBool(t.app('ru_pred', t.BOOL, p.ident, eng.to_dyn(args[0], isc), lst.arr, lst.len, H, D, self.ctx_addr(eng, args[2], isc)))))
            return out
        out = super().call_param(eng, p, args, kws, st, node)
        return out

    # ----------------------------------------------------------------- attributes of sub-constructs
    def dyn_getattr(self, eng, v, attr, st):
        if attr in ('_parsereport', '_parse', '_build', '_sizeof'):
            # a value known (by an isinstance test) to be a Construct: a sub-construct identified by its opaque id
            sc = VSub(t.app('oid', t.INT, v.t), 'dynamic')
            return self.sub_attr(eng, sc, attr, st)
        return super().dyn_getattr(eng, v, attr, st)

    def sub_attr(self, eng, b, attr, st):
        if isinstance(b, VParam):
            return None
        if attr == 'name':
            v = t.app('sc_name', t.VAL, b.ident)
            st.assume(t.or_(t.app('(_ is VNone)', t.BOOL, v), t.app('(_ is VStr)', t.BOOL, v)))
            # member names do not shadow the structural entries of a scope (hypothesis on construct definitions)
            for k in self.RESERVED:
                st.assume(t.ne(v, t.app('VStr', t.VAL, S(k))))
            return [(st, VDyn(v))]
        if attr == 'flagbuildnone':
            return [(st, VBool(t.app('sc_fbn', t.BOOL, b.ident)))]
        if attr in ('_parsereport', '_parse', '_build', '_sizeof', '_actualsize', 'parse', 'build', 'sizeof', 'parse_stream', 'build_stream'):
            return [(st, VFunc(attr, bound=b, model=('model', lambda m, e, a, k, s, n, _attr=attr: self.sub_call(e, b, _attr, a, k, s))))]
        raise OutOfReach('attribute %s of a sub-construct' % attr)

    def isinstance(self, eng, v, tyname, st):
        if isinstance(v, VSub) and tyname in self.src.classes:
            code = sum(ord(ch) * (i + 1) for i, ch in enumerate(tyname))
            return t.app('sc_is', t.BOOL, v.ident, I(code))
        return super().isinstance(eng, v, tyname, st)

    def iterate(self, eng, itv, st):
        if isinstance(itv, VSubList):
            n = t.app('sl_len', t.INT, itv.ident)
            st.assume(t.ge(n, t.ZERO))
            return builtins.Iteration('sublist', n=n, item=lambda e, s, k: VSub(t.app('sl_at', t.INT, itv.ident, k), 'member'))
        return None

    def len(self, eng, v, st):
        if isinstance(v, VSubList):
            n = t.app('sl_len', t.INT, v.ident)
            st.assume(t.ge(n, t.ZERO))
            return [(st, VInt(n))]
        return None

    # ----------------------------------------------------------------- heap frame at a sub-construct call
    def known_addrs(self, st):
        out = []
        seen = set()
        for loc, o in st.store.items():
            if isinstance(o, OContainer):
                k = o.addr.smt()
                if k not in seen:
                    seen.add(k)
                    out.append(o.addr)
        return out

    def apply_heap_outcome(self, eng, st, H2, D2, ctx_addr):
        """install the heap after a sub-construct call with the frame instantiated on every known container"""
        H, D = self.H(st)
        alloc = st.ghost['alloc']
        alloc2 = fresh('alloc', t.INT)
        st.assume(t.ge(alloc2, alloc))
        for a in self.known_addrs(st):
            fa, da = t.T('Fields', 'select', (H, a)), t.T('Keys', 'select', (D, a))
            fa2, da2 = t.T('Fields', 'select', (H2, a)), t.T('Keys', 'select', (D2, a))
            if a.smt() == ctx_addr.smt():
                st.assume(t.eq(fa2, t.T('Fields', 'store', (fa, S('_index'), t.T(t.VAL, 'select', (fa2, S('_index')))))))
                st.assume(t.eq(da2, t.T('Keys', 'store', (da, S('_index'), t.T(t.BOOL, 'select', (da2, S('_index')))))))
            else:
                # another pre-existing container: unchanged unless it aliases the context
                same = t.eq(a, ctx_addr)
                st.assume(t.implies(t.not_(same), t.and_(t.eq(fa2, fa), t.eq(da2, da))))
        st.ghost['H'], st.ghost['D'], st.ghost['alloc'] = H2, D2, alloc2

    # ----------------------------------------------------------------- calls on sub-constructs
    def sub_call(self, eng, sc, meth, args, kws, st):
        if meth in ('_parsereport', '_parse'):
            return self.sub_parse(eng, sc, args[0], args[1], args[2], st)
        if meth == '_build':
            return self.sub_build(eng, sc, args[0], args[1], args[2], args[3], st)
        if meth == '_sizeof':
            return self.sub_sizeof(eng, sc, args[0], args[1], st)
        if meth == '_actualsize':
            return self.sub_actualsize(eng, sc, args[0], args[1], args[2], st)
        if meth == 'sizeof' and not args:
            return self.sub_public_sizeof(eng, sc, kws, st)
        raise OutOfReach('sub-construct method %s' % meth)

    def exc_path(self, eng, st, path, what):
        """C18 interface clause: an escaping error's path extends the path argument"""
        if isinstance(path, VStr) and path.t is not None:
            p2 = fresh('excpath', t.STR)
            st.assume(t.str_prefixof(path.t, p2))
            return VStr(p2)
        return VStr(fresh('excpath', t.STR))

    foreign_errors = False

    def construct_error(self, eng, st, ec):
        # a failing sub-construct raises a ConstructError; under `foreign_errors` (set for the functions whose handlers catch
        # Exception: GreedyRange, Select) it may raise ANY Exception - a user callback inside the element may raise whatever it
        # likes, and the handler's contract has to hold for those too
        st.assume(eng.exc_sub_term(ec, 'Exception' if self.foreign_errors else 'ConstructError'))

    def wrapper_stream(self, eng, stream, st, writes=True):
        """a RestreamedBytesIO handed to a sub-construct: the sub-construct may call any of its methods any number of times,
        so afterwards its buffers and the underlying stream are arbitrary (nothing is assumed; in particular NOT that short
        writes of the underlying stream were noticed)"""
        from .builtins import havoc_object
        o = st.get(stream)
        f = dict(o.fields)
        for k in ('rbuffer', 'wbuffer'):
            f[k] = eng.fresh_bytes(st, 'rs_' + k)
        n = fresh('rs_since', t.INT)
        st.assume(t.ge(n, t.ZERO))
        f['sincereadwritten'] = VInt(n)
        st.put(stream, OObject(o.cls, f))
        sub = f.get('substream')
        if isinstance(sub, VRef) and isinstance(st.get(sub), OStream):
            so = st.get(sub)
            if so.model == 'adv':
                # the sub-construct reaches the underlying stream only through RestreamedBytesIO's methods, and write() (the
                # only one that writes) does not accept a short write silently (contract of RestreamedBytesIO.write)
                self.havoc_adv(eng, st, sub)
            else:
                havoc_object(eng, st, sub, 'rs_sub', writes=writes)

    def sub_on_wrapper(self, eng, sc, stream, ctx, path, st, what):
        H, D = self.H(st)
        c = self.ctx_addr(eng, ctx, st)
        ok = fresh('W_ok', t.BOOL)
        good, bad = eng.fork(st, ok)
        out = []
        for s2, isgood in ((good, True), (bad, False)):
            if s2 is None:
                continue
            self.wrapper_stream(eng, stream, s2, writes=(what != 'parse'))
            self.apply_heap_outcome(eng, s2, fresh('W_H', 'Heap'), fresh('W_D', 'Dom'), c)
            if isgood:
                out.append((s2, VDyn(fresh('W_val', t.VAL))))
            else:
                ec = fresh('W_exc', t.INT)
                self.construct_error(eng, s2, ec)
                out.append((s2, Raised(VExc(ec, self.exc_path(eng, s2, path, what), origin='sub-construct %s %s failed' % (sc.label, what), explicit_path=True))))
        return out

    def instantiate_rt(self, eng, st, sc, o, ok, val, end):
        """round-trip trait of a sub-construct (induction hypothesis of C01), instantiated against every earlier build
        of the same sub-construct in this ghost program: if the bytes it wrote stand at the current position (and, for the
        stream as a whole, at least that many bytes are available), parsing succeeds, returns the value build returned and
        ends right after them.  Context agreement is assumed (the sub-construct reads the context only at keys on which the
        building and the parsing context agree)."""
        i = t.var('rt!', t.INT)
        for ent in st.log:
            if ent[0] != 'build' or ent[1].smt() != sc.ident.smt():
                continue
            _, _, o_b, c_b, H_b, D_b, ov, ret, w = ent
            n = w.len
            same = t.forall([i], t.implies(t.and_(t.le(o.pos, i), t.lt(i, t.add(o.pos, n))), t.eq(t.select(o.buf, i), t.select(w.arr, t.sub(i, o.pos)))),
                            pats=[[t.select(o.buf, i)]])
            st.assume(t.implies(t.and_(same, t.le(t.add(o.pos, n), o.len)), t.and_(ok, t.app('pyeq', t.BOOL, val, ret), t.eq(end, t.add(o.pos, n)))))

    REPEATERS = ('Array', 'GreedyRange', 'RepeatUntil')      # the shapes C07 names; LazyArray._parse does not maintain _index (outside C07's list)

    def index_obligation(self, eng, st, H, D, c):
        """C07: inside a repeater every element is processed with _index = its position (checked where the element is called)"""
        cls = eng.fnname.split('.')[0].split('[')[-1]
        k = st.ghost.get('loop_k')
        if cls not in self.REPEATERS or k is None or eng.models.ghost_mode:
            return
        want = t.app('VInt', t.VAL, k)
        got = t.T(t.VAL, 'select', (t.T('Fields', 'select', (H, c)), S('_index')))
        has = t.T(t.BOOL, 'select', (t.T('Keys', 'select', (D, c)), S('_index')))
        eng.emit(st, '%s/element-is-processed-with-_index-equal-to-its-position' % eng.fnname, t.and_(has, t.eq(got, want)), kind='call-pre', tags=('C07',))

    def sub_parse(self, eng, sc, stream, ctx, path, st):
        o = st.get(stream) if isinstance(stream, VRef) else None
        if isinstance(o, OObject) and o.cls == 'RestreamedBytesIO':
            return self.sub_on_wrapper(eng, sc, stream, ctx, path, st, 'parse')
        if isinstance(stream, VDyn):
            # a stream object supplied by the user (RestreamData with an io.BytesIO): a stream in an arbitrary state
            stream = streams.symbolic_stream(eng, st, 'userstream', self.models.stream_mode if self.models.stream_mode in ('bytesio', 'adv') else 'bytesio')
            o = st.get(stream)
        if not isinstance(o, OStream):
            raise OutOfReach('sub-construct parse on %r' % (str(stream)[:80],))
        H, D = self.H(st)
        c = self.ctx_addr(eng, ctx, st)
        st.ghost.setdefault('first_sub_ctx', (c, H, D))
        self.index_obligation(eng, st, H, D, c)
        out = []
        if o.model == 'adv':
            ok = fresh('P_ok', t.BOOL)
            val, ec = fresh('P_val', t.VAL), fresh('P_exc', t.INT)
            H2, D2 = fresh('P_H', 'Heap'), fresh('P_D', 'Dom')
            end = None
        else:
            base = o.offset if o.model == 'offsets' else t.ZERO
            # results may depend on absolute offsets (Tell, RawCopy, Pointer inside a substream): the base is an argument
            a = (sc.ident, o.buf, o.len, o.pos, base, H, D, c)
            ok = t.app('P_ok', t.BOOL, *a)
            val, ec = t.app('P_val', t.VAL, *a), t.app('P_exc', t.INT, *a)
            H2, D2 = t.app('P_H', 'Heap', *a), t.app('P_D', 'Dom', *a)
            end = t.app('P_end', t.INT, *a)
        if getattr(self, 'ghost', False) and o.model != 'adv':
            self.instantiate_rt(eng, st, sc, o, ok, val, end)
        good, bad = eng.fork(st, ok)
        if good is not None:
            if o.model != 'adv':
                if self.sub_seq:
                    good.assume(t.and_(t.le(o.pos, end), t.le(end, t.imax(o.len, o.pos))))
                    newpos = end
                else:
                    newpos = fresh('subpos', t.INT)
                    good.assume(t.ge(newpos, t.ZERO))
                good.put(stream, o.replace(pos=newpos))
            else:
                from .builtins import havoc_object
                self.havoc_adv(eng, good, stream)
            self.apply_heap_outcome(eng, good, H2, D2, c)
            good.log.append(('parse', sc.ident, o, c, H, D, val, end))
            if getattr(sc, 'returns', None) == 'int':
                good.assume(t.app('isint', t.BOOL, val))
            if sc.label == 'dynamic':
                # RestreamData(datafunc = a Construct): documented to produce the bytes to be re-parsed
                good.assume(t.app('(_ is VBytes)', t.BOOL, val))
                good.assume(t.ge(t.app('blen', t.INT, val), t.ZERO))
            out.append((good, VDyn(val)))
        if bad is not None:
            self.construct_error(eng, bad, ec)
            if o.model != 'adv':
                newpos = t.app('P_fpos', t.INT, *a)
                bad.assume(t.ge(newpos, t.ZERO))
                bad.put(stream, o.replace(pos=newpos))
                H3, D3 = t.app('P_fH', 'Heap', *a), t.app('P_fD', 'Dom', *a)
            else:
                self.havoc_adv_failed(eng, bad, stream)
                H3, D3 = fresh('P_H', 'Heap'), fresh('P_D', 'Dom')
            self.apply_heap_outcome(eng, bad, H3, D3, c)
            out.append((bad, Raised(VExc(ec, self.exc_path(eng, bad, path, 'parse'), origin='sub-construct %s parse failed' % sc.label, explicit_path=True))))
        return out

    def havoc_adv(self, eng, st, stream):
        """after a successful sub-construct call on an adversarial stream: interface clause 'a normal return does not hide a
        short read/write' (every class establishes it: no-silent-short-io)"""
        from .builtins import havoc_object
        o = st.get(stream)
        before = o.extra['__short'].t
        havoc_object(eng, st, stream, 'sub')
        after = st.get(stream).extra['__short'].t
        st.assume(t.implies(t.not_(before), t.not_(after)))

    def havoc_adv_failed(self, eng, st, stream):
        """a sub-construct call that RAISES on an adversarial stream: whatever short read/write happened inside is
        accounted to that failure (it was reported), so the ghost flag 'silently accepted short io' is unchanged"""
        from .builtins import havoc_object
        o = st.get(stream)
        before = o.extra['__short']
        havoc_object(eng, st, stream, 'sub')
        o2 = st.get(stream)
        st.put(stream, o2.replace(extra=dict(o2.extra, __short=before)))

    def sub_build(self, eng, sc, obj, stream, ctx, path, st):
        o = st.get(stream) if isinstance(stream, VRef) else None
        if isinstance(o, OObject) and o.cls == 'RestreamedBytesIO':
            return self.sub_on_wrapper(eng, sc, stream, ctx, path, st, 'build')
        if not isinstance(o, OStream):
            raise OutOfReach('sub-construct build on %r' % (stream,))
        H, D = self.H(st)
        c = self.ctx_addr(eng, ctx, st)
        st.ghost.setdefault('first_sub_ctx', (c, H, D))
        self.index_obligation(eng, st, H, D, c)
        ov = eng.to_dyn(obj, st)
        out = []
        if o.model == 'adv':
            ok = fresh('B_ok', t.BOOL)
            ret, ec = fresh('B_ret', t.VAL), fresh('B_exc', t.INT)
            H2, D2 = fresh('B_H', 'Heap'), fresh('B_D', 'Dom')
        else:
            base = o.offset if o.model == 'offsets' else t.ZERO
            a = (sc.ident, ov, t.add(o.pos, base), H, D, c)
            ok = t.app('B_ok', t.BOOL, *a)
            ret, ec = t.app('B_ret', t.VAL, *a), t.app('B_exc', t.INT, *a)
            H2, D2 = t.app('B_H', 'Heap', *a), t.app('B_D', 'Dom', *a)
        good, bad = eng.fork(st, ok)
        from .builtins import havoc_object
        if good is not None:
            if o.model != 'adv' and self.sub_seq:
                n = t.app('B_len', t.INT, *a)
                good.assume(t.ge(n, t.ZERO))
                w = VBytes(t.app('B_bytes', t.ARR, *a), t.ZERO, n)
                eng.assume_byte_range(good, w.arr, t.ZERO, n)
                # the write is the BytesIO write of exactly these bytes (covers n == 0)
                res = streams.do_write(eng, stream, o, w, good)
                for s2, _ in res:
                    self.apply_heap_outcome(eng, s2, H2, D2, c)
                    s2.log.append(('build', sc.ident, o, c, H, D, ov, ret, w))
                    out.append((s2, VDyn(ret)))
            else:
                if o.model == 'adv':
                    self.havoc_adv(eng, good, stream)
                else:
                    havoc_object(eng, good, stream, 'sub')
                self.apply_heap_outcome(eng, good, H2, D2, c)
                out.append((good, VDyn(ret)))
        if bad is not None:
            self.construct_error(eng, bad, ec)
            if o.model == 'adv':
                self.havoc_adv_failed(eng, bad, stream)
            else:
                havoc_object(eng, bad, stream, 'sub')
            H3, D3 = fresh('B_H', 'Heap'), fresh('B_D', 'Dom')
            self.apply_heap_outcome(eng, bad, H3, D3, c)
            out.append((bad, Raised(VExc(ec, self.exc_path(eng, bad, path, 'build'), origin='sub-construct %s build failed' % sc.label, explicit_path=True))))
        return out

    def sub_sizeof(self, eng, sc, ctx, path, st):
        H, D = self.H(st)
        c = self.ctx_addr(eng, ctx, st)
        st.ghost.setdefault('first_sub_ctx', (c, H, D))
        a = (sc.ident, H, D, c)
        ok = t.app('Z_ok', t.BOOL, *a)
        good, bad = eng.fork(st, ok)
        out = []
        if good is not None:
            n = t.app('Z_val', t.INT, *a)
            good.assume(t.ge(n, t.ZERO))
            good.log.append(('sizeof', sc.ident, c, H, D, n))
            out.append((good, VInt(n)))
        if bad is not None:
            ec = I(self.src.exc_code['SizeofError'])
            out.append((bad, Raised(VExc(ec, self.exc_path(eng, bad, path, 'sizeof'), origin='sub-construct %s has no size' % sc.label, explicit_path=True))))
        return out

    def sub_public_sizeof(self, eng, sc, kws, st):
        """subcon.sizeof(**kw) called at construction time (macros): an int >= 0 or SizeofError"""
        ok = fresh('Zpub_ok', t.BOOL)
        good, bad = eng.fork(st, ok)
        out = []
        if good is not None:
            n = fresh('Zpub', t.INT)
            good.assume(t.ge(n, t.ZERO))
            out.append((good, VInt(n)))
        if bad is not None:
            out.append((bad, Raised(VExc(I(self.src.exc_code['SizeofError']), VStr(S('(sizeof)')), origin='sub-construct has no size'))))
        return out

    def sub_actualsize(self, eng, sc, stream, ctx, path, st):
        """default _actualsize = _sizeof; overrides (Prefixed, PrefixedArray) read the stream: an int >= 0, or
        SizeofError (the caller falls back to parsing), or another ConstructError.  Like parsing it is a function of
        (construct, buffer, position, context): interface functions A_ok / A_val / A_exc."""
        o = st.get(stream)
        H, D = self.H(st)
        c = self.ctx_addr(eng, ctx, st)
        out = []
        from .builtins import havoc_object
        if o.model == 'adv':
            ok, n, ec = fresh('A_ok', t.BOOL), fresh('A_val', t.INT), fresh('A_exc', t.INT)
        else:
            base = o.offset if o.model == 'offsets' and o.offset is not None else t.ZERO
            a = (sc.ident, o.buf, o.len, o.pos, base, H, D, c)
            for fn, srt in (('A_ok', t.BOOL), ('A_val', t.INT), ('A_exc', t.INT)):
                prelude.declare_fun(fn, [t.INT, t.ARR, t.INT, t.INT, t.INT, 'Heap', 'Dom', t.INT], srt)
            ok, n, ec = t.app('A_ok', t.BOOL, *a), t.app('A_val', t.INT, *a), t.app('A_exc', t.INT, *a)
        good, bad = eng.fork(st, ok)
        if good is not None:
            good.assume(t.ge(n, t.ZERO))
            if o.model == 'adv':
                self.havoc_adv(eng, good, stream)
            else:
                havoc_object(eng, good, stream, 'asz', writes=False)
            out.append((good, VInt(n)))
        if bad is not None:
            self.construct_error(eng, bad, ec)
            if o.model == 'adv':
                self.havoc_adv_failed(eng, bad, stream)
            else:
                havoc_object(eng, bad, stream, 'asz', writes=False)
            out.append((bad, Raised(VExc(ec, self.exc_path(eng, bad, path, 'actualsize'), origin='sub-construct %s _actualsize failed' % sc.label, explicit_path=True))))
        return out


    # ----------------------------------------------------------------- singletons / known instances
    def singleton(self, eng, name, st):
        spec = self.src.singletons[name]
        if isinstance(spec, str):
            mod, node, bases = self.src.classes[spec]
            fbn = False
            for n in ast.walk(node):
                if isinstance(n, ast.Assign) and len(n.targets) == 1 and ast.unparse(n.targets[0]) == 'self.flagbuildnone':
                    fbn = isinstance(n.value, ast.Constant) and n.value.value is True
            fields = {'name': NONE, 'docs': VStr(S('')), 'parsed': NONE, 'flagbuildnone': VBool(Bc(fbn))}
            return VObj(spec, fields, ident=I(1000 + sorted(self.src.singletons).index(name)))
        # @singleton def X(): return Class(args)  -- an instance known only through the interface, identified by name
        v = VSub(I(2000 + sorted(self.src.singletons).index(name)), name)
        return v

    # ----------------------------------------------------------------- Container operations
    def key_term(self, eng, key, st):
        r = super().key_term(eng, key, st)
        if r is None and isinstance(key, VDyn):
            # used after a truthiness test of sc.name (str or None): the string payload
            if st.known(t.app('(_ is VStr)', t.BOOL, key.t)) is True or st.known(t.app('truthy', t.BOOL, key.t)) is True:
                return t.app('sval', t.STR, key.t)
            return None
        return r

    def container_method(self, eng, ref, name, args, kws, st):
        o = st.get(ref)
        if name == 'update' and len(args) == 1:
            src = args[0]
            if isinstance(src, VRef) and isinstance(st.get(src), OContainer):
                return self.container_update(eng, o.addr, st.get(src).addr, st)
            if isinstance(src, VDyn):
                isref = t.app('(_ is VRef)', t.BOOL, src.t)
                a, b = eng.fork(st, isref)
                out = []
                if a is not None:
                    out.extend(self.container_update(eng, o.addr, t.app('ref', t.INT, src.t), a))
                if b is not None:
                    b2 = b.clone()
                    out.extend(eng.raise_(b, 'TypeError', origin='Container.update with a non-mapping'))
                    out.extend(eng.raise_(b2, 'ValueError', origin='Container.update with a non-mapping'))
                return out
        return super().container_method(eng, ref, name, args, kws, st)

    def container_update(self, eng, dst, srcaddr, st):
        H, D = self.H(st)
        f1, d1 = t.T('Fields', 'select', (H, dst)), t.T('Keys', 'select', (D, dst))
        f2, d2 = t.T('Fields', 'select', (H, srcaddr)), t.T('Keys', 'select', (D, srcaddr))
        nf, nd = fresh('updfields', 'Fields'), fresh('updkeys', 'Keys')
        k = t.var('key!', t.STR)
        st.assume(t.forall([k], t.and_(
            t.eq(t.T(t.VAL, 'select', (nf, k)), t.ite(t.T(t.BOOL, 'select', (d2, k)), t.T(t.VAL, 'select', (f2, k)), t.T(t.VAL, 'select', (f1, k)))),
            t.eq(t.T(t.BOOL, 'select', (nd, k)), t.or_(t.T(t.BOOL, 'select', (d2, k)), t.T(t.BOOL, 'select', (d1, k))))),
            pats=[[t.T(t.VAL, 'select', (nf, k))], [t.T(t.BOOL, 'select', (nd, k))]]))
        st.ghost['H'] = t.T('Heap', 'store', (H, dst, nf))
        st.ghost['D'] = t.T('Dom', 'store', (D, dst, nd))
        return [(st, NONE)]

    # ----------------------------------------------------------------- iteration over values of unknown type
    def iterate(self, eng, itv, st):
        r = super().iterate(eng, itv, st) if False else None
        if isinstance(itv, VSubList):
            n = t.app('sl_len', t.INT, itv.ident)
            st.assume(t.ge(n, t.ZERO))
            return builtins.Iteration('sublist', n=n, item=lambda e, s, k: VSub(t.app('sl_at', t.INT, itv.ident, k), 'member'))
        if isinstance(itv, VDyn):
            # a value supplied by the user (build side): iterable with dyn_len items, or not iterable at all.
            prelude.declare_fun('dyn_len', [t.VAL], t.INT)
            prelude.declare_fun('dyn_item', [t.VAL, t.INT], t.VAL)
            n = t.app('dyn_len', t.INT, itv.t)
            st.assume(t.ge(n, t.ZERO))
            return builtins.Iteration('seq', n=n, item=lambda e, s, k: VDyn(t.app('dyn_item', t.VAL, itv.t, k)))
        if isinstance(itv, VIter) and itv.what == 'enumerate' and isinstance(itv.inner, VDyn):
            inner = self.iterate(eng, itv.inner, st)
            return builtins.Iteration('enumerate', n=inner.n, item=lambda e, s, k: VTuple([VInt(t.add(k, I(itv.start))), inner.item(e, s, k)]))
        return None

    # ----------------------------------------------------------------- sum(sc._sizeof(context, path) for sc in self.subcons)
    def fold(self, eng, name, gen, st):
        node = gen.node
        if len(node.generators) != 1 or node.generators[0].ifs:
            return None
        g = node.generators[0]
        s0 = st.clone()
        s0.env = dict(gen.env)
        res = eng.ev(g.iter, s0)
        if len(res) != 1 or not isinstance(res[0][1], VSubList):
            return None
        sl = res[0][1]
        n = t.app('sl_len', t.INT, sl.ident)
        k = fresh('member', t.INT)
        s1 = res[0][0]
        s1.assume(t.and_(t.le(t.ZERO, k), t.lt(k, n)))
        out = []
        member = VSub(t.app('sl_at', t.INT, sl.ident, k), 'member')
        anyfail = False
        for s2, fl in eng.assign(g.target, member, s1):
            for s3, v in eng.ev(node.elt, s2):
                if isinstance(v, Raised):
                    # some member fails: the fold raises that exception (witness member k)
                    s3.env = dict(st.env)
                    out.append((s3, v))
        good = st
        if name == 'sum':
            tot = fresh('sum', t.INT)
            e = node.elt
            if (isinstance(e, ast.Call) and isinstance(e.func, ast.Attribute) and e.func.attr == '_sizeof' and isinstance(e.func.value, ast.Name)
                    and isinstance(g.target, ast.Name) and e.func.value.id == g.target.id and len(e.args) == 2 and isinstance(e.args[0], ast.Name)
                    and e.args[0].id in gen.env and isinstance(gen.env[e.args[0].id], VRef) and isinstance(st.get(gen.env[e.args[0].id]), OContainer)):
                # sum(sc._sizeof(context, path) for sc in self.subcons): the specification sum of the members' sizes in that scope
                prelude.define('zsum', """(define-fun-rec zsum ((sl Int) (k Int) (H (Array Int (Array String Val))) (D (Array Int (Array String Bool))) (c Int)) Int
  (ite (<= k 0) 0 (+ (zsum sl (- k 1) H D c) (Z_val (sl_at sl (- k 1)) H D c))))""", deps=['Z_val', 'sl_at'])
                H, D = self.H(st)
                tot = t.app('zsum', t.INT, sl.ident, n, H, D, st.get(gen.env[e.args[0].id]).addr)
                good.ghost.setdefault('first_sub_ctx', (st.get(gen.env[e.args[0].id]).addr, H, D))
            if '._sizeof(' in ast.unparse(node.elt):
                good.assume(t.ge(tot, t.ZERO))     # every sub-construct size is >= 0 (interface clause)
            good.ghost['last_sum_over'] = sl.ident
            out.append((good, VInt(tot)))
        else:
            out.append((good, VBool(fresh(name, t.BOOL))))
        return out


    # ----------------------------------------------------------------- helper classes of the repository
    def construct_class(self, eng, cls, args, kws, st, node):
        r = super().construct_class(eng, cls, args, kws, st, node)
        if r is not None:
            return r
        if cls.name == 'RestreamedBytesIO':
            # the constructor only stores its arguments: executed from the real __init__ (constructor text, not a callee
            # with behaviour of its own)
            init = self.src.find('construct.lib.bitstream:RestreamedBytesIO.__init__')
            ref = st.alloc(OObject('RestreamedBytesIO', {}), 'object')
            names = [a.arg for a in init.args.args[1:]]
            saved = st.env
            st.env = dict(zip(names, args))
            st.env['self'] = ref
            out = []
            for s2, fl in eng.block(init.body, st):
                s2.env = dict(saved)
                if fl is None:
                    out.append((s2, ref))
                elif fl[0] == 'raise':
                    out.append((s2, Raised(fl[1])))
            return out
        if cls.name in ('BinExpr', 'UniExpr', 'Path', 'Path2', 'FuncPath'):
            # expression nodes: immutable records of their constructor arguments (the real __init__ only stores them)
            init = self.src.find('construct.expr:%s.__init__' % cls.name)
            names = [a.arg for a in init.args.args[1:]]
            fields = dict(zip(names, args))
            fields.update(kws)
            return [(st, VObj(cls.name, fields, ident=fresh('node', t.INT)))]
        if cls.name in ('LazyContainer', 'LazyListContainer'):
            # result objects of lazy parsing: their fields are the constructor arguments (real __init__ only stores them)
            init = self.src.find('construct.core:%s.__init__' % cls.name)
            names = [a.arg for a in init.args.args[1:]]
            return [(st, st.alloc(OObject(cls.name, {'_' + n: v for n, v in zip(names, args)}), 'object'))]
        if cls.name == 'Container' and len(args) == 1:
            a0 = args[0]
            if isinstance(a0, VRef) and isinstance(st.get(a0), ODict) and st.get(a0).items is not None:
                merged = {('str', k): v for k, v in kws.items()}
                items = dict(st.get(a0).items)
                items.update(merged)
                if all(k[0] == 'str' for k in items):
                    return self.new_container(eng, [], {k[1]: v for k, v in items.items()}, st)
            if isinstance(a0, VDyn):
                # Container(obj): a new container with the entries of obj
                r0 = self.new_container(eng, [], {}, st)
                (st1, ref), = r0
                isref = t.app('(_ is VRef)', t.BOOL, a0.t)
                a, b = eng.fork(st1, isref)
                out = []
                if a is not None:
                    for s2, _ in self.container_update(eng, a.get(ref).addr, t.app('ref', t.INT, a0.t), a):
                        for k, v in kws.items():
                            self.hset(s2, s2.get(ref).addr, S(k), eng.to_dyn(v, s2))
                        out.append((s2, ref))
                if b is not None:
                    out.extend(eng.raise_(b, 'TypeError', origin='Container(non-mapping)'))
                return out
        return None

    def bytes_method(self, eng, recv, name, args, kws, st):
        if name == 'rstrip' and len(args) == 1:
            pad = self.models.as_bytes(eng, args[0], st)
            if pad is not None and (pad.len.op == 'int' and pad.len.args[0] == 1 or st.known(t.eq(pad.len, t.ONE)) is True
                                    or st.known(t.eq(t.ONE, pad.len)) is True):
                prelude.define('rstrip_len', """(define-fun-rec rstrip_len ((a (Array Int Int)) (off Int) (n Int) (p Int)) Int
  (ite (<= n 0) 0 (ite (= (select a (+ off (- n 1))) p) (rstrip_len a off (- n 1) p) n)))""")
                n2 = t.app('rstrip_len', t.INT, recv.arr, recv.off, recv.len, pad.at(t.ZERO))
                st.assume(t.and_(t.le(t.ZERO, n2), t.le(n2, recv.len)))
                return [(st, VBytes(recv.arr, recv.off, n2))]
        if name == 'decode':
            return self.codec(eng, 'decode', recv, args, kws, st)
        return super().bytes_method(eng, recv, name, args, kws, st)

    def str_method(self, eng, recv, name, args, kws, st):
        if name == 'encode':
            return self.codec(eng, 'encode', recv, args, kws, st)
        if recv.t is None:
            return None
        if name == 'split' and len(args) == 1 and isinstance(args[0], VStr) and args[0].t is not None:
            prelude.declare_fun('split_count', [t.STR, t.STR], t.INT)
            prelude.declare_fun('split_part', [t.STR, t.STR, t.INT], t.STR)
            n = t.app('split_count', t.INT, recv.t, args[0].t)
            st.assume(t.ge(n, t.ONE))
            return [(st, VIter('seq', n=n, at=lambda i: VStr(t.app('split_part', t.STR, recv.t, args[0].t, i))))]
        if name in ('strip', 'lower') and not args:
            prelude.declare_fun('str_' + name, [t.STR], t.STR)
            return [(st, VStr(t.app('str_' + name, t.STR, recv.t)))]
        if name == 'startswith' and len(args) == 1 and isinstance(args[0], VStr) and args[0].t is not None:
            return [(st, VBool(t.str_prefixof(args[0].t, recv.t)))]
        if name == 'endswith' and len(args) == 1 and isinstance(args[0], VStr) and args[0].t is not None:
            return [(st, VBool(t.app('str.suffixof', t.BOOL, args[0].t, recv.t)))]
        if name == 'replace' and len(args) == 2:
            return [(st, VStr(fresh('replaced', t.STR)))]
        return None

    def codec(self, eng, direction, recv, args, kws, st):
        """E4: bytes.decode / str.encode with a codec: a str / bytes result or UnicodeError (LookupError for an unknown codec)"""
        prelude.declare_fun('codec_dec_ok', [t.STR, t.ARR, t.INT, t.INT], t.BOOL)
        prelude.declare_fun('codec_dec', [t.STR, t.ARR, t.INT, t.INT], t.STR)
        prelude.declare_fun('codec_enc_ok', [t.STR, t.STR], t.BOOL)
        prelude.declare_fun('codec_enc_arr', [t.STR, t.STR], t.ARR)
        prelude.declare_fun('codec_enc_len', [t.STR, t.STR], t.INT)
        enc = args[0] if args else kws.get('encoding')
        if not (isinstance(enc, VStr) and enc.t is not None):
            raise OutOfReach('codec name')
        out = []
        if direction == 'decode':
            ok = t.app('codec_dec_ok', t.BOOL, enc.t, recv.arr, recv.off, recv.len)
            res = VStr(t.app('codec_dec', t.STR, enc.t, recv.arr, recv.off, recv.len))
        else:
            if recv.t is None:
                raise OutOfReach('encode of opaque str')
            ok = t.app('codec_enc_ok', t.BOOL, enc.t, recv.t)
            ln = t.app('codec_enc_len', t.INT, enc.t, recv.t)
            arr = t.app('codec_enc_arr', t.ARR, enc.t, recv.t)
            res = VBytes(arr, t.ZERO, ln)
        good, bad = eng.fork(st, ok)
        if good is not None:
            if direction == 'encode':
                good.assume(t.ge(ln, t.ZERO))
                eng.assume_byte_range(good, arr, t.ZERO, ln)
            out.append((good, res))
        if bad is not None:
            b2 = bad.clone()
            out.extend(eng.raise_(bad, 'UnicodeError', origin='codec error'))
            out.extend(eng.raise_(b2, 'LookupError', origin='unknown codec'))
        return out

    ENTRY = ('parse', 'parse_stream', 'parse_file', 'build', 'build_stream', 'build_file', 'sizeof')

    def abstract_self_call(self, eng, qual, selfv, args, kws, st, node):
        """Under the public entry points `self` is an arbitrary construct: its abstract hooks _parse/_build/_sizeof are the
        interface functions of self (exactly how every sub-construct is known everywhere else)."""
        m0 = qual.split(':', 1)[1]
        if getattr(self, 'hooks_as_functions', False) and m0 in ('Adapter._decode', 'Adapter._encode') and isinstance(selfv, VObj) and selfv.ident is not None:
            # the adapter's own hooks (abstract here; every subclass supplies them): named through interface functions of
            # (adapter, value, scope) so that the plumbing of Adapter._parse / _build can be stated exactly
            kind = I(0 if m0.endswith('_decode') else 1)
            H, D = self.H(st)
            c = self.ctx_addr(eng, args[1], st)
            ov = eng.to_dyn(args[0], st)
            for fn, srt in (('K_ok', t.BOOL), ('K_val', t.VAL), ('K_exc', t.INT)):
                prelude.declare_fun(fn, [t.INT, t.INT, t.VAL, 'Heap', 'Dom', t.INT], srt)
            a = (kind, selfv.ident, ov, H, D, c)
            good, bad = eng.fork(st, t.app('K_ok', t.BOOL, *a))
            out = []
            if good is not None:
                out.append((good, VDyn(t.app('K_val', t.VAL, *a))))
            if bad is not None:
                ec = t.app('K_exc', t.INT, *a)
                self.construct_error(eng, bad, ec)
                out.append((bad, Raised(VExc(ec, self.exc_path(eng, bad, args[2], 'hook'), origin='adapter hook failed', explicit_path=True))))
            return out
        if not getattr(self, 'self_as_sub', False) or not isinstance(selfv, VObj) or selfv.ident is None:
            return None
        m = qual.split(':', 1)[1]
        sc = VSub(selfv.ident, 'self')
        if m in ('Construct._parse', 'Construct._parsereport'):
            # _parsereport = _parse followed by the optional `parsed` hook (a user callback, None unless attached with *)
            st.ghost.setdefault('first_sub_path', args[2] if len(args) > 2 else None)
            return self.sub_parse(eng, sc, args[0], args[1], args[2], st)
        if m == 'Construct._build':
            st.ghost.setdefault('first_sub_path', args[3] if len(args) > 3 else None)
            return self.sub_build(eng, sc, args[0], args[1], args[2], args[3], st)
        if m == 'Construct._sizeof':
            st.ghost.setdefault('first_sub_path', args[1] if len(args) > 1 else None)
            return self.sub_sizeof(eng, sc, args[0], args[1], st)
        return None

    def star_call(self, eng, node, st):
        """calls with ** : Container(**contextkw), sub.parse(data, **context), sub.build(obj, **context),
        self.parse_stream(..., **contextkw) and friends inside the public entry points"""
        f = node.func
        if isinstance(f, ast.Attribute) and f.attr in self.ENTRY and len(node.keywords) == 1 and node.keywords[0].arg is None and isinstance(f.value, ast.Name) and f.value.id == 'self':
            def k0(st1, vs):
                recv, args, kwv = vs[0], vs[1:-1], vs[-1]
                if isinstance(recv, VObj):
                    q = self.src.resolve_method(recv.cls, f.attr)
                    return self.models.call_contract(eng, q, recv, list(args), {'**': kwv}, st1, node)
                raise OutOfReach('entry point with ** on %r' % (recv,))
            return eng.bind(eng.ev_list([f.value] + list(node.args) + [node.keywords[0].value], st), k0)
        if isinstance(f, ast.Name) and f.id == 'Container' and not node.args and len(node.keywords) == 1 and node.keywords[0].arg is None:
            # Container(**kw): a fresh container holding the keyword arguments of the public call
            def k(st1, kwv):
                if isinstance(kwv, VRef) and isinstance(st1.get(kwv), OContainer):
                    r0 = self.new_container(eng, [], {}, st1)
                    (s2, ref), = r0
                    out = []
                    for s3, _ in self.container_update(eng, s2.get(ref).addr, s2.get(kwv).addr, s2):
                        out.append((s3, ref))
                    return out
                raise OutOfReach('Container(**%r)' % (kwv,))
            return eng.bind(eng.ev(node.keywords[0].value, st), k)
        if isinstance(f, ast.Attribute) and f.attr in ('parse', 'build') and len(node.keywords) == 1 and node.keywords[0].arg is None:
            def k2(st1, vs):
                recv, args, kwv = vs[0], vs[1:-1], vs[-1]
                if isinstance(recv, VSub):
                    return self.sub_public(eng, recv, f.attr, args, kwv, st1)
                raise OutOfReach('public %s with ** on %r' % (f.attr, recv))
            return eng.bind(eng.ev_list([f.value] + list(node.args) + [node.keywords[0].value], st), k2)
        return None

    def sub_public(self, eng, sc, meth, args, kwv, st):
        """sub.parse(data, **context) / sub.build(obj, **context): the public entry points re-enter with a *copy* of the
        context as keyword arguments and a fresh path: a value or any ConstructError whose path restarts at the
        operation tag (this is what Tunnel/Select do; the restarted path is the C18 finding recorded for them)"""
        out = []
        det = meth == 'build' and self.sub_seq and isinstance(kwv, VRef) and type(st.get(kwv)).__name__ == 'OContainer'
        if det:
            # functional contracts: the outcome of the public build is a function of (construct, value, the context it is given a
            # copy of); it starts a stream of its own, so the caller's stream and scope are untouched
            for fn, so in (('Q_ok', t.BOOL), ('Q_len', t.INT), ('Q_exc', t.INT)):
                prelude.declare_fun(fn, [t.INT, t.VAL, 'Heap', 'Dom', t.INT], so)
            prelude.declare_fun('Q_bytes', [t.INT, t.VAL, 'Heap', 'Dom', t.INT], t.ARR)
            H, D = self.H(st)
            qa = (sc.ident, eng.to_dyn(args[0], st), H, D, st.get(kwv).addr)
            ok = t.app('Q_ok', t.BOOL, *qa)
        else:
            ok = fresh('pub_ok', t.BOOL)
        good, bad = eng.fork(st, ok)
        if good is not None:
            if meth == 'parse':
                out.append((good, VDyn(fresh('pub_val', t.VAL))))
            elif det:
                ln = t.app('Q_len', t.INT, *qa)
                good.assume(t.ge(ln, t.ZERO))
                arr = t.app('Q_bytes', t.ARR, *qa)
                eng.assume_byte_range(good, arr, t.ZERO, ln)
                out.append((good, VBytes(arr, t.ZERO, ln)))
            else:
                out.append((good, eng.fresh_bytes(good, 'pub_bytes')))
        if bad is not None:
            ec = t.app('Q_exc', t.INT, *qa) if det else fresh('pub_exc', t.INT)
            self.construct_error(eng, bad, ec)
            p = VStr(fresh('pub_path', t.STR))
            bad.assume(t.str_prefixof(S('(parsing)' if meth == 'parse' else '(building)'), p.t))
            out.append((bad, Raised(VExc(ec, p, origin='public %s of sub-construct %s failed (path restarts)' % (meth, sc.label), explicit_path=True))))
        return out


    def list_comprehension(self, eng, node, st):
        """[<constant> for sc in self.subcons]: a list of len(subcons) copies of the constant"""
        if len(node.generators) == 1 and not node.generators[0].ifs and isinstance(node.elt, ast.Constant):
            res = eng.ev(node.generators[0].iter, st.clone())
            if len(res) == 1 and isinstance(res[0][1], VSubList):
                n = t.app('sl_len', t.INT, res[0][1].ident)
                st.assume(t.ge(n, t.ZERO))
                elt = eng.to_dyn(eng.from_const(node.elt.value, st), st)
                arr = t.T('VArr', 'constvarr', ())
                arr._s = '((as const (Array Int Val)) %s)' % elt.smt()
                return [(st, st.alloc(OList(arr=arr, ln=n, ekind='val'), 'list'))]
        return None


    # ----------------------------------------------------------------- super() inside BytesIOWithOffsets (its base is io.BytesIO)
    def super_call(self, eng, attr, node, st):
        selfv = st.env.get('self')
        o = st.get(selfv) if isinstance(selfv, VRef) else None
        if isinstance(o, OStream) and o.model == 'bytesio' and attr in ('tell', 'seek', 'read', 'write', 'getvalue'):
            def k(st1, vs):
                args = vs[:len(node.args)]
                kws = dict(zip([kw.arg for kw in node.keywords], vs[len(node.args):]))
                return streams.bytesio_method(self.models, eng, selfv, st1.get(selfv), attr, args, kws, st1)
            return eng.bind(eng.ev_list(list(node.args) + [kw.value for kw in node.keywords], st), k)
        raise OutOfReach('super().%s' % attr)
