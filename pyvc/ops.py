"""Operators on symbolic values: arithmetic, bit operations, comparisons, bytes construction.

Bit-operation encodings (P2 of DESIGN.md 1.3), all exact for unbounded Python ints:
  x & (2^k-1)  = x mod 2^k          x & 2^k = ((x div 2^k) mod 2) * 2^k
  x >> c       = x div 2^c          x << c  = x * 2^c            (symbolic c through pow2)
  a | b        = bor(a,b) uninterpreted, plus the ground fact  (a mod 2^k = 0 and 0 <= b < 2^k) => bor(a,b) = a+b
                 at every site where a is syntactically a multiple of 2^k
  a ^ b        = bxor(a,b) (defined through 8-bit vectors for bytes; uninterpreted beyond)
"""
import ast

from . import terms as t
from .terms import I, Bc
from .values import *  # noqa
from .state import OutOfReach
from . import prelude

prelude.define('pow2', '(define-fun-rec pow2 ((k Int)) Int (ite (<= k 0) 1 (* 2 (pow2 (- k 1)))))')
prelude.declare_fun('bor', [t.INT, t.INT], t.INT)
prelude.declare_fun('band', [t.INT, t.INT], t.INT)
prelude.define('bxor', """(define-fun bxor ((a Int) (b Int)) Int (bv2nat (bvxor ((_ int2bv 8) a) ((_ int2bv 8) b))))""")
prelude.declare_fun('bxor_big', [t.INT, t.INT], t.INT)


def pow2(k):
    if k.op == 'int':
        return I(2 ** k.args[0]) if k.args[0] >= 0 else None
    return t.app('pow2', t.INT, k)


def is_pow2(n):
    return n > 0 and (n & (n - 1)) == 0


def mult_of_pow2(term):
    """largest k such that `term` is syntactically a multiple of 2^k (0 if unknown)"""
    if term.op == 'int':
        v = term.args[0]
        if v == 0:
            return 10 ** 6
        k = 0
        while v % 2 == 0:
            v //= 2
            k += 1
        return k
    if term.op == '*':
        return sum(mult_of_pow2(a) for a in term.args)
    if term.op == '+':
        return min(mult_of_pow2(a) for a in term.args)
    if term.op == 'mod' and term.args[1].op == 'int' and is_pow2(term.args[1].args[0]):
        # (x mod 2^m) keeps every factor 2^k of x with k <= m
        return min(mult_of_pow2(term.args[0]), term.args[1].args[0].bit_length() - 1)
    return 0


def upper_bound_bits(term):
    """k such that 0 <= term < 2^k syntactically, else None"""
    if term.op == 'int':
        v = term.args[0]
        return v.bit_length() if v >= 0 else None
    if term.op == 'mod' and term.args[1].op == 'int' and is_pow2(term.args[1].args[0]):
        return term.args[1].args[0].bit_length() - 1
    if term.op == 'ite':
        a, b = upper_bound_bits(term.args[1]), upper_bound_bits(term.args[2])
        return None if a is None or b is None else max(a, b)
    return None


def int_binop(eng, op, a, b, st):
    """a, b Int terms -> list of (state, Value|Raised)"""
    if isinstance(op, ast.Add):
        return [(st, VInt(t.add(a, b)))]
    if isinstance(op, ast.Sub):
        return [(st, VInt(t.sub(a, b)))]
    if isinstance(op, ast.Mult):
        return [(st, VInt(t.mul(a, b)))]
    if isinstance(op, (ast.FloorDiv, ast.Mod)):
        ok, bad = eng.fork(st, t.ne(b, t.ZERO))
        out = []
        if ok is not None:
            r = t.pyfloordiv(a, b) if isinstance(op, ast.FloorDiv) else t.pymod(a, b)
            out.append((ok, VInt(r)))
        if bad is not None:
            out.extend(eng.raise_(bad, 'ZeroDivisionError', origin='division by zero'))
        return out
    if isinstance(op, ast.LShift):
        ok, bad = eng.fork(st, t.ge(b, t.ZERO))
        out = []
        if ok is not None:
            out.append((ok, VInt(t.mul(a, pow2(b)))))
        if bad is not None:
            out.extend(eng.raise_(bad, 'ValueError', origin='negative shift count'))
        return out
    if isinstance(op, ast.RShift):
        ok, bad = eng.fork(st, t.ge(b, t.ZERO))
        out = []
        if ok is not None:
            p = pow2(b)
            if p.op == 'int':
                out.append((ok, VInt(t.pyfloordiv(a, p))))
            else:
                ok.assume(t.gt(p, t.ZERO))
                out.append((ok, VInt(t.T(t.INT, 'div', (a, p)))))
        if bad is not None:
            out.extend(eng.raise_(bad, 'ValueError', origin='negative shift count'))
        return out
    if isinstance(op, ast.BitAnd):
        for x, y in ((a, b), (b, a)):
            if y.op == 'int' and y.args[0] >= 0:
                c = y.args[0]
                if c == 0:
                    return [(st, VInt(t.ZERO))]
                if is_pow2(c + 1):
                    return [(st, VInt(t.pymod(x, I(c + 1))))]
                if is_pow2(c):
                    return [(st, VInt(t.mul(t.pymod(t.pyfloordiv(x, I(c)), I(2)), I(c))))]
        if a.op == 'int' and b.op == 'int':
            return [(st, VInt(I(a.args[0] & b.args[0])))]
        return [(st, VInt(t.app('band', t.INT, a, b)))]
    if isinstance(op, ast.BitOr):
        if a.op == 'int' and b.op == 'int':
            return [(st, VInt(I(a.args[0] | b.args[0])))]
        r = t.app('bor', t.INT, a, b)
        # ground fact true of |: the result of two byte values is a byte value
        st.assume(t.implies(t.and_(t.le(t.ZERO, a), t.lt(a, I(256)), t.le(t.ZERO, b), t.lt(b, I(256))), t.and_(t.le(t.ZERO, r), t.lt(r, I(256)))))
        for x, y in ((a, b), (b, a)):
            k = mult_of_pow2(x)
            if k > 0:
                k = min(k, 4096)
                ub = upper_bound_bits(y)
                if ub is not None and ub <= k:
                    return [(st, VInt(t.add(x, y)))]
                kk = k if x.op != 'int' or x.args[0] != 0 else 1
                st.assume(t.implies(t.and_(t.le(t.ZERO, y), t.lt(y, I(2 ** kk))), t.eq(r, t.add(x, y))))
        return [(st, VInt(r))]
    if isinstance(op, ast.BitXor):
        if a.op == 'int' and b.op == 'int':
            return [(st, VInt(I(a.args[0] ^ b.args[0])))]
        # bytes: 8-bit vectors (exact); wider operands: uninterpreted
        inb = t.and_(t.le(t.ZERO, a), t.lt(a, I(256)), t.le(t.ZERO, b), t.lt(b, I(256)))
        x8 = t.app('bxor', t.INT, a, b)
        st.assume(t.and_(t.le(t.ZERO, x8), t.lt(x8, I(256))))      # by definition (bv2nat of an 8-bit vector)
        k = st.known(inb)
        if k is True:
            return [(st, VInt(x8))]
        return [(st, VInt(t.ite(inb, x8, t.app('bxor_big', t.INT, a, b))))]
    if isinstance(op, ast.Pow):
        if a.op == 'int' and b.op == 'int' and b.args[0] >= 0:
            return [(st, VInt(I(a.args[0] ** b.args[0])))]
        if a.op == 'int' and a.args[0] == 2:
            ok, bad = eng.fork(st, t.ge(b, t.ZERO))
            out = []
            if ok is not None:
                out.append((ok, VInt(pow2(b))))
            if bad is not None:
                out.extend(eng.raise_(bad, 'Unmodelled', origin='2 ** negative (float result)'))
            return out
        raise OutOfReach('general **')
    if isinstance(op, ast.Div):
        raise OutOfReach('true division (float)')
    raise OutOfReach('int binop %s' % type(op).__name__)


CMP = {ast.Lt: t.lt, ast.LtE: t.le, ast.Gt: t.gt, ast.GtE: t.ge}


def concat_bytes(eng, st, parts):
    """bytes concatenation of VBytes views -> VBytes over a fresh array defined pointwise (quantified, with patterns)"""
    parts = [p for p in parts if not (p.len.op == 'int' and p.len.args[0] == 0)]
    if not parts:
        return eng.from_const(b'', st)
    if len(parts) == 1:
        return parts[0]
    # all concrete -> build a concrete/stored array
    if all(p.len.op == 'int' for p in parts) and sum(p.len.args[0] for p in parts) <= 64:
        arr = t.const_arr(t.ZERO)
        pos = 0
        for p in parts:
            for i in range(p.len.args[0]):
                arr = t.store(arr, I(pos), p.at(I(i)))
                pos += 1
        return VBytes(arr, t.ZERO, I(pos))
    r = fresh('cat', t.ARR)
    i = t.var('i!', t.INT)
    off = t.ZERO
    for p in parts:
        body = t.implies(t.and_(t.le(off, i), t.lt(i, t.add(off, p.len))), t.eq(t.select(r, i), p.at(t.sub(i, off))))
        st.assume(t.forall([i], body, pats=[[t.select(r, i)]]))
        off = t.add(off, p.len)
    return VBytes(r, t.ZERO, off)


def repeat_byte(eng, st, pat, count):
    """pattern * count for a one-byte pattern: constant array"""
    v = pat.at(t.ZERO)
    if v.op == 'int':
        return VBytes(t.const_arr(v), t.ZERO, t.imax(count, t.ZERO))
    # cvc5 rejects constant arrays with a symbolic default: define pointwise instead
    r = fresh('rep', t.ARR)
    i = t.var('i!', t.INT)
    st.assume(t.forall([i], t.eq(t.select(r, i), v), pats=[[t.select(r, i)]]))
    return VBytes(r, t.ZERO, t.imax(count, t.ZERO))


def zero_bytes(count):
    return VBytes(t.const_arr(t.ZERO), t.ZERO, count)
