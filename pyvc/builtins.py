"""Built-in functions, methods of built-in types, iteration and comprehension models, loop havoc."""
import ast

from . import terms as t
from .terms import I, Bc, S
from .values import *  # noqa
from .state import OutOfReach
from . import ops, streams, prelude
from .ops import concat_bytes

# E2: int.to_bytes / int.from_bytes (big endian), specified arithmetically (two's complement), defined in contracts/specs
prelude.define('be_val', """(define-fun-rec be_val ((a (Array Int Int)) (lo Int) (hi Int)) Int
  (ite (<= hi lo) 0 (+ (* 256 (be_val a lo (- hi 1))) (select a (- hi 1)))))""",
               doc='big-endian unsigned value of a[lo:hi]')


class VTypeOf(Value):
    kind = 'typeof'

    def __init__(self, v):
        self.v = v


class SeqView:
    """read-only integer/Value sequence: length term + element function of an Int index term"""

    def __init__(self, n, at, ekind='int'):
        self.n, self.at, self.ekind = n, at, ekind


def seq_view(models, eng, v, st):
    if isinstance(v, VDyn) and st.known(t.app('(_ is VBytes)', t.BOOL, v.t)) is True:
        v = eng.dyn_bytes(v, st)
    if isinstance(v, VBytes):
        return SeqView(v.len, lambda i: VInt(v.at(i)))
    if isinstance(v, VRef):
        o = st.get(v)
        if isinstance(o, OBytearray):
            return SeqView(o.len, lambda i: VInt(t.select(o.arr, i)))
        if isinstance(o, OList):
            if o.concrete:
                items = o.items

                def at(i):
                    if i.op == 'int':
                        return items[i.args[0]]
                    raise OutOfReach('symbolic index into concrete list')
                return SeqView(I(len(items)), at, 'value')
            return SeqView(o.len, lambda i: models.list_elem(eng, o, i), o.ekind)
    if isinstance(v, VTuple):
        items = v.items
        return SeqView(I(len(items)), lambda i: items[i.args[0]], 'value')
    if isinstance(v, VIter):
        if v.what == 'range':
            return SeqView(v.n, lambda i: VInt(t.add(v.start, t.mul(i, v.step))))
        if v.what == 'seq':
            return SeqView(v.n, v.at)
        if v.what == 'concrete':
            items = v.items
            return SeqView(I(len(items)), lambda i: items[i.args[0]], 'value')
    return None


# ===================================================================== iteration
class Iteration:
    """what a for-loop needs: 'concrete' (items) or symbolic (n term or None, item(eng, st, k))"""

    def __init__(self, what, items=None, n=None, item=None):
        self.what, self.items, self.n, self._item = what, items, n, item

    def item(self, eng, st, k):
        return self._item(eng, st, k)


def iterate(models, eng, itv, st):
    if isinstance(itv, VIter):
        if itv.what == 'concrete':
            return Iteration('concrete', items=list(itv.items))
        if itv.what == 'range':
            if itv.n.op == 'int' and itv.start.op == 'int' and itv.n.args[0] <= eng.MAX_UNROLL:
                return Iteration('concrete', items=[VInt(I(itv.start.args[0] + j * itv.step.args[0])) for j in range(itv.n.args[0])])
            return Iteration('range', n=itv.n, item=lambda e, s, k: VInt(t.add(itv.start, t.mul(k, itv.step))))
        if itv.what == 'count':
            return Iteration('count', n=None, item=lambda e, s, k: VInt(t.add(itv.start, k)))
        if itv.what == 'seq':
            if itv.n.op == 'int' and itv.n.args[0] <= 64:
                return Iteration('concrete', items=[itv.at(I(j)) for j in range(itv.n.args[0])])
            return Iteration('seq', n=itv.n, item=lambda e, s, k: itv.at(k))
        if itv.what == 'enumerate':
            inner = iterate(models, eng, itv.inner, st)
            if inner is None:
                return None
            if inner.what == 'concrete':
                return Iteration('concrete', items=[VTuple([VInt(I(j + itv.start)), x]) for j, x in enumerate(inner.items)])
            return Iteration('enumerate', n=inner.n, item=lambda e, s, k: VTuple([VInt(t.add(k, I(itv.start))), inner.item(e, s, k)]))
        if itv.what == 'sublist':
            return Iteration('sublist', n=itv.n, item=itv.item)
        return None
    sv = seq_view(models, eng, itv, st)
    if sv is not None:
        if sv.n.op == 'int' and sv.n.args[0] <= 64:
            return Iteration('concrete', items=[sv.at(I(j)) for j in range(sv.n.args[0])])
        return Iteration('seq', n=sv.n, item=lambda e, s, k: sv.at(k))
    if isinstance(itv, VRef):
        o = st.get(itv)
        if isinstance(o, ODict):
            return Iteration('concrete', items=[eng.from_const(k[1] if len(k) > 1 else None, st) for k in o.items])
    if models.interface is not None:
        return models.interface.iterate(eng, itv, st)
    return None


# ===================================================================== comprehensions
def comprehension(models, eng, node, st, kind):
    """generator expressions are values consumed later (bytes(...), sum(...), all(...), b''.join(...), ListContainer(...));
    they are represented lazily and evaluated by the consumer (P8: element expression must be pure and total)."""
    if kind == 'dict':
        raise OutOfReach('dict comprehension')
    gens = node.generators
    if any(g.is_async for g in gens):
        raise OutOfReach('async comprehension')
    v = VIter('gen', node=node, env=dict(st.env))
    if kind == 'list':
        if models.interface is not None:
            r = models.interface.list_comprehension(eng, node, st)
            if r is not None:
                return r
        sv = gen_view(models, eng, v, st)
        if sv.n.op == 'int' and sv.n.args[0] <= 256:
            return [(st, st.alloc(OList(items=tuple(sv.at(I(j)) for j in range(sv.n.args[0]))), 'list'))]
        raise OutOfReach('list comprehension of symbolic length')
    return [(st, v)]


def gen_view(models, eng, g, st):
    """SeqView of a single-for generator expression without conditions; element evaluated symbolically per index"""
    node = g.node
    if len(node.generators) == 2 and not node.generators[0].ifs and not node.generators[1].ifs:
        return gen_view2(models, eng, g, st)
    if len(node.generators) != 1 or node.generators[0].ifs:
        raise OutOfReach('generator expression shape: ' + ast.unparse(node))
    gen = node.generators[0]
    st0 = st.clone()
    st0.env = dict(g.env)
    res = eng.ev(gen.iter, st0)
    if len(res) != 1 or isinstance(res[0][1], Raised):
        raise OutOfReach('generator source is not a single pure path')
    st1, src = res[0]
    sv = seq_view(models, eng, src, st1)
    # facts learned while evaluating the iterable (type invariants of its operands) hold in the caller's state too
    for c in st1.pc[len(st.pc):]:
        st.assume(c)
    if sv is None:
        if isinstance(src, VIter) and src.what == 'gen':
            sv = gen_view(models, eng, src, st1)
        else:
            raise OutOfReach('generator over %r' % (src,))

    def at(i):
        s2 = st1.clone()
        s2.env = dict(g.env)
        if i.op != 'int':
            s2.assume(t.and_(t.le(t.ZERO, i), t.lt(i, sv.n)))
        base = len(s2.pc)
        from . import values as _values
        c0 = _values._counter[0]
        for s3, fl in eng.assign(gen.target, sv.at(i), s2):
            if fl is not None:
                raise OutOfReach('generator target')
            rs = eng.ev(node.elt, s3)
            rs = [(a, b) for a, b in rs if not a.infeasible()]
            good = [(a, b) for a, b in rs if not isinstance(b, Raised)]
            bad = [(a, b) for a, b in rs if isinstance(b, Raised)]
            if len(good) != 1:
                raise OutOfReach('generator element is not a single pure path: ' + ast.unparse(node.elt))
            if i.op != 'int' and _values._counter[0] != c0:
                # a fresh constant created while evaluating the element at a symbolic index would be shared by all
                # indices under the quantifier: unsound, refuse
                raise OutOfReach('generator element introduces fresh symbols under a quantifier: ' + ast.unparse(node.elt))
            # the good path's added conditions split into: negations of failure conditions, and side facts
            failconds = []
            for a, b in bad:
                cond = t.and_(*a.pc[base:])
                failconds.append((cond, b.exc))
            fails[:] = failconds
            extra_facts[:] = []
            for c in good[0][0].pc[base:]:
                extra_facts.append(c)
            return good[0][1]
    extra_facts = []
    fails = []
    v = SeqView(sv.n, at)
    v.extra_facts = extra_facts
    v.fails = fails
    return v


def gen_view2(models, eng, g, st):
    """(elt for a in OUTER for b in INNER) where INNER is a concrete list that does not depend on a: the flattened
    sequence has len(OUTER) * len(INNER) elements; element q uses OUTER[q div m] and INNER[q mod m]"""
    node = g.node
    g1, g2 = node.generators
    st0 = st.clone()
    st0.env = dict(g.env)
    r1 = eng.ev(g1.iter, st0)
    if len(r1) != 1 or isinstance(r1[0][1], Raised):
        raise OutOfReach('generator source is not a single pure path')
    st1, src1 = r1[0]
    for c in st1.pc[len(st.pc):]:
        st.assume(c)
    sv1 = seq_view(models, eng, src1, st1)
    r2 = eng.ev(g2.iter, st1.clone())
    if sv1 is None or len(r2) != 1 or isinstance(r2[0][1], Raised):
        raise OutOfReach('nested generator shape: ' + ast.unparse(node))
    it2 = iterate(models, eng, r2[0][1], r2[0][0])
    if it2 is None or it2.what != 'concrete' or not it2.items:
        raise OutOfReach('nested generator: inner iterable must be a non-empty concrete list: ' + ast.unparse(node))
    inner = it2.items
    m = len(inner)
    fails = []
    extra_facts = []

    def elem(io, j, s2):
        outs = eng.assign(g1.target, sv1.at(io), s2)
        (s3, fl), = outs
        (s4, fl2), = eng.assign(g2.target, inner[j], s3)
        base = len(s4.pc)
        rs = [(a, b) for a, b in eng.ev(node.elt, s4) if not a.infeasible()]
        good = [(a, b) for a, b in rs if not isinstance(b, Raised)]
        bad = [(a, b) for a, b in rs if isinstance(b, Raised)]
        if len(good) != 1:
            raise OutOfReach('generator element is not a single pure path: ' + ast.unparse(node.elt))
        return good[0], bad, base

    def at(q):
        from . import values as _values
        s2 = st1.clone()
        s2.env = dict(g.env)
        n_total = t.mul(sv1.n, I(m))
        if q.op == 'int':
            (gs, gv), bad, base = elem(I(q.args[0] // m), q.args[0] % m, s2)
            return gv
        s2.assume(t.and_(t.le(t.ZERO, q), t.lt(q, n_total)))
        io = t.pyfloordiv(q, I(m))
        s2.assume(t.and_(t.le(t.ZERO, io), t.lt(io, sv1.n)))
        c0 = _values._counter[0]
        vals = []
        del fails[:]
        del extra_facts[:]
        for j in range(m):
            sel = t.eq(t.pymod(q, I(m)), I(j))
            (gs, gv), bad, base = elem(io, j, s2.clone())
            iv, ok = eng.as_int(gv, gs)
            if iv is None:
                raise OutOfReach('nested generator element kind')
            vals.append((sel, iv))
            for a, b in bad:
                fails.append((t.and_(sel, *a.pc[base:]), b.exc))
            for c in gs.pc[base:]:
                extra_facts.append(t.implies(sel, c))
        if _values._counter[0] != c0:
            raise OutOfReach('generator element introduces fresh symbols under a quantifier: ' + ast.unparse(node.elt))
        res = vals[-1][1]
        for sel, iv in reversed(vals[:-1]):
            res = t.ite(sel, iv, res)
        return VInt(res)
    v = SeqView(t.mul(sv1.n, I(m)), at)
    v.extra_facts = extra_facts
    v.fails = fails
    return v


def bytes_from_seq(models, eng, sv, st, what='bytes(...)'):
    """bytes(iterable of ints): ValueError unless every element is in range(256)"""
    n = sv.n
    if n.op == 'int' and n.args[0] <= 64:
        arr = t.const_arr(t.ZERO)
        conds = []
        for j in range(n.args[0]):
            e = sv.at(I(j))
            iv, ok = eng.as_int(e, st)
            if iv is None:
                raise OutOfReach('bytes() element kind')
            conds.append(t.and_(ok, t.le(t.ZERO, iv), t.lt(iv, I(256))))
            arr = t.store(arr, I(j), iv)
        for c in getattr(sv, 'extra_facts', []):
            st.assume(c)
        okc = t.and_(*conds) if conds else t.TRUE
        good, bad = eng.fork(st, okc)
        out = []
        if good is not None:
            out.append((good, VBytes(arr, t.ZERO, n)))
        if bad is not None:
            out.extend(eng.raise_(bad, 'ValueError', origin=what + ' element out of range(256)'))
        return out
    i = t.var('i!', t.INT)
    e = sv.at(i)
    iv, ok = eng.as_int(e, st)
    if iv is None:
        raise OutOfReach('bytes() element kind')
    r = fresh('gen', t.ARR)
    inr = t.and_(t.le(t.ZERO, i), t.lt(i, n))
    fails = list(getattr(sv, 'fails', []))
    failc = [c for c, _ in fails]
    # facts recorded on the good path include the negated failure conditions; keep only those not mentioning failure
    facts = [f for f in getattr(sv, 'extra_facts', []) if f.smt() != inr.smt() and f.smt() not in {x.smt() for x in inr.args}]
    rng = t.and_(ok, t.le(t.ZERO, iv), t.lt(iv, I(256)))
    out = []
    # failing branches first (skolemised witness index), each on its own clone
    i0 = fresh('badidx', t.INT)
    sub = {i.args[0]: i0}
    for cond, exc in fails:
        b = st.clone()
        b.assume(t.and_(t.le(t.ZERO, i0), t.lt(i0, n)))
        b.assume(t.substitute(cond, sub))
        if not b.infeasible():
            out.append((b, Raised(exc)))
    bad = st.clone()
    bad.assume(t.and_(t.le(t.ZERO, i0), t.lt(i0, n)))
    for f in facts:
        bad.assume(t.substitute(f, sub))
    bad.assume(t.not_(t.substitute(rng, sub)))
    if not bad.infeasible():
        out.extend(eng.raise_(bad, 'ValueError', origin=what + ' element out of range(256)'))
    good = st
    good.assume(t.forall([i], t.implies(inr, t.and_(t.eq(t.select(r, i), iv), rng, *facts)), pats=[[t.select(r, i)]]))
    out.insert(0, (good, VBytes(r, t.ZERO, t.imax(n, t.ZERO))))
    return out


# ===================================================================== builtins
def type_test(models, eng, v, tyname, st):
    """Bool term for isinstance(v, <tyname>)"""
    def const(b):
        return Bc(b)
    if isinstance(v, VDyn):
        if tyname == 'int':
            return t.app('isint', t.BOOL, v.t)
        if tyname == 'bool':
            return t.app('(_ is VBool)', t.BOOL, v.t)
        if tyname == 'bytes':
            return t.app('(_ is VBytes)', t.BOOL, v.t)
        if tyname == 'str':
            return t.app('(_ is VStr)', t.BOOL, v.t)
        if tyname == 'NoneType':
            return t.app('(_ is VNone)', t.BOOL, v.t)
        if models.interface is not None:
            r = models.interface.dyn_isinstance(eng, v, tyname, st)
            if r is not None:
                return r
        raise OutOfReach('isinstance(dyn, %s)' % tyname)
    if isinstance(v, VParam):
        c = models.param_const(eng, v, st)
        if tyname in ('int', 'bytes', 'str', 'bool', 'NoneType', 'dict', 'list', 'tuple', 'bytearray'):
            return t.and_(t.not_(v.callable_t), type_test(models, eng, c, tyname, st))
        if models.interface is not None:
            r = models.interface.param_isinstance(eng, v, tyname, st)
            if r is not None:
                return r
        raise OutOfReach('isinstance(param, %s)' % tyname)
    kind = v.kind
    if isinstance(v, VRef):
        o = st.get(v)
        kind = {'OList': 'list', 'OBytearray': 'bytearray', 'ODict': 'dict', 'OStream': 'stream', 'OContainer': 'container', 'OObject': 'object'}[type(o).__name__]
        if kind == 'list' and o.cls == 'ListContainer':
            kind = 'listcontainer'
    table = {
        'int': kind in ('int', 'bool'), 'bool': kind == 'bool', 'bytes': kind == 'bytes', 'str': kind == 'str',
        'NoneType': kind == 'none', 'bytearray': kind == 'bytearray', 'list': kind in ('list', 'listcontainer'),
        'tuple': kind == 'tuple', 'dict': kind in ('dict', 'container'), 'Container': kind == 'container',
        'ListContainer': kind == 'listcontainer', 'float': False, 'slice': False,
    }
    if tyname in table:
        return const(table[tyname])
    if tyname == 'io.BytesIO':
        if kind == 'stream':
            o = st.get(v)
            if o.model in ('bytesio', 'offsets'):
                return t.TRUE
            raise OutOfReach('isinstance(adversarial stream, BytesIO)')
        return t.FALSE
    if models.interface is not None:
        r = models.interface.isinstance(eng, v, tyname, st)
        if r is not None:
            return r
    raise OutOfReach('isinstance(%s, %s)' % (kind, tyname))


def type_names(eng, tv, st):
    """names of the classes in the second argument of isinstance"""
    if isinstance(tv, VTuple):
        out = []
        for x in tv.items:
            out.extend(type_names(eng, x, st))
        return out
    if isinstance(tv, VFunc) and tv.model and tv.model[0] == 'builtin':
        return [tv.model[1]]
    if isinstance(tv, VClass):
        return [tv.name]
    if isinstance(tv, VTypeOf) and isinstance(tv.v, VNone):
        return ['NoneType']
    raise OutOfReach('isinstance class argument %r' % (tv,))


def call_builtin(models, eng, name, args, kws, st, node):
    a0 = args[0] if args else None
    if name == 'len':
        return py_len(models, eng, a0, st)
    if name == 'isinstance':
        names = type_names(eng, args[1], st)
        return [(st, VBool(t.or_(*[type_test(models, eng, a0, n, st) for n in names])))]
    if name == 'callable':
        if isinstance(a0, VParam):
            return [(st, VBool(a0.callable_t))]
        if isinstance(a0, (VFunc, VClass)):
            return [(st, VBool(t.TRUE))]
        if isinstance(a0, (VInt, VBool, VNone, VBytes, VStr, VTuple)):
            return [(st, VBool(t.FALSE))]
        if isinstance(a0, VRef):
            return [(st, VBool(t.FALSE))]
        if models.interface is not None:
            r = models.interface.callable(eng, a0, st)
            if r is not None:
                return [(st, VBool(r))]
        raise OutOfReach('callable(%r)' % (a0,))
    if name == 'type':
        return [(st, VTypeOf(a0))]
    if name == 'bytes':
        return py_bytes(models, eng, args, kws, st)
    if name == 'bytearray':
        if not args:
            return [(st, st.alloc(OBytearray(t.const_arr(t.ZERO), t.ZERO), 'bytearray'))]
        iv, ok = eng.as_int(a0, st)
        if iv is not None:
            def go(st1):
                good, bad = eng.fork(st1, t.ge(iv, t.ZERO))
                out = []
                if good is not None:
                    out.append((good, good.alloc(OBytearray(t.const_arr(t.ZERO), iv), 'bytearray')))
                if bad is not None:
                    out.extend(eng.raise_(bad, 'ValueError', origin='negative count'))
                return out
            return eng.typed(st, ok, go, 'bytearray(n)')
        b = models.as_bytes(eng, a0, st)
        if b is not None:
            nb = streams.new_bytesio  # noqa (rebasing helper not needed: keep view semantics)
            if b.off.op == 'int' and b.off.args[0] == 0:
                return [(st, st.alloc(OBytearray(b.arr, b.len), 'bytearray'))]
        raise OutOfReach('bytearray(%r)' % (a0,))
    if name in ('binascii.hexlify', 'binascii.unhexlify'):
        b = models.as_bytes(eng, a0, st)
        if b is None and isinstance(a0, VDyn):
            # a dynamic value: bytes, or TypeError
            def go_hex(st1):
                return call_builtin(models, eng, name, [eng.dyn_bytes(a0, st1)] + list(args[1:]), kws, st1, node)
            return eng.typed(st, t.app('(_ is VBytes)', t.BOOL, a0.t), go_hex, '%s(non-bytes)' % name)
        if b is None:
            raise OutOfReach('%s(%r)' % (name, a0))
        r = eng.fresh_bytes(st, 'hex')
        if name == 'binascii.hexlify':
            # total on bytes: two digits per byte
            st.assume(t.eq(r.len, t.mul(I(2), b.len)))
            return [(st, r)]
        # unhexlify accepts only an even number of hexadecimal digits; anything else is binascii.Error (a ValueError)
        from . import prelude as _pl
        _pl.declare_fun('is_hex', [t.ARR, t.INT, t.INT], t.BOOL)
        good, bad = eng.fork(st, t.and_(t.app('is_hex', t.BOOL, b.arr, b.off, b.len), t.eq(t.pymod(b.len, I(2)), t.ZERO)))
        out = []
        if good is not None:
            good.assume(t.eq(t.mul(I(2), r.len), b.len))
            out.append((good, r))
        if bad is not None:
            out.extend(eng.raise_(bad, 'ValueError', origin='binascii.unhexlify of a string that is not hexadecimal'))
        return out
    if name in ('str', 'repr', 'hex', 'format'):
        if name == 'str' and isinstance(a0, VStr):
            return [(st, a0)]
        return [(st, VStr(None))]
    if name == 'print':
        return [(st, NONE)]
    if name == 'bool':
        return [(st, VBool(eng.truth(a0, st)))]
    if name == 'int':
        if isinstance(a0, (VInt, VBool)):
            iv, _ = eng.as_int(a0, st)
            return [(st, VInt(iv))]
        raise OutOfReach('int(%r)' % (a0,))
    if name == 'abs':
        iv, ok = eng.as_int(a0, st)
        if iv is None:
            raise OutOfReach('abs')
        return eng.typed(st, ok, lambda s: [(s, VInt(t.ite(t.lt(iv, t.ZERO), t.neg(iv), iv)))], 'abs')
    if name in ('min', 'max') and len(args) == 2:
        x, okx = eng.as_int(args[0], st)
        y, oky = eng.as_int(args[1], st)
        if x is None or y is None:
            raise OutOfReach(name)
        f = t.imin if name == 'min' else t.imax
        return eng.typed(st, t.and_(okx, oky), lambda s: [(s, VInt(f(x, y)))], name)
    if name == 'range':
        vals = []
        oks = []
        for a in args:
            iv, ok = eng.as_int(a, st)
            if iv is None:
                return eng.raise_(st, 'TypeError', origin='range argument')
            vals.append(iv)
            oks.append(ok)

        def go(st1):
            if len(vals) == 1:
                start, stop, step = t.ZERO, vals[0], t.ONE
            elif len(vals) == 2:
                start, stop, step = vals[0], vals[1], t.ONE
            else:
                start, stop, step = vals
            if step.op != 'int' or step.args[0] == 0:
                raise OutOfReach('range with symbolic/zero step')
            s = step.args[0]
            if s > 0:
                n = t.imax(t.pyfloordiv(t.add(t.sub(stop, start), I(s - 1)), I(s)), t.ZERO)
            else:
                n = t.imax(t.pyfloordiv(t.add(t.sub(start, stop), I(-s - 1)), I(-s)), t.ZERO)
            return [(st1, VIter('range', start=start, stop=stop, step=step, n=n))]
        return eng.typed(st, t.and_(*oks), go, 'range argument')
    if name == 'reversed':
        if isinstance(a0, VIter) and a0.what == 'range':
            last = t.add(a0.start, t.mul(t.sub(a0.n, t.ONE), a0.step))
            return [(st, VIter('range', start=last, stop=None, step=t.neg(a0.step) if a0.step.op != 'int' else I(-a0.step.args[0]), n=a0.n))]
        sv = seq_view(models, eng, a0, st)
        if sv is None:
            raise OutOfReach('reversed(%r)' % (a0,))
        return [(st, VIter('seq', n=sv.n, at=lambda i: sv.at(t.sub(t.sub(sv.n, t.ONE), i))))]
    if name == 'enumerate':
        start = 0
        if len(args) > 1:
            start = args[1].t.args[0]
        return [(st, VIter('enumerate', inner=a0, start=start))]
    if name == 'itertools.count':
        start = t.ZERO
        if args:
            start, _ = eng.as_int(a0, st)
        return [(st, VIter('count', start=start))]
    if name == 'itertools.cycle':
        sv = seq_view(models, eng, a0, st)
        if sv is None:
            raise OutOfReach('cycle')
        return [(st, VIter('cycle', inner=sv))]
    if name == 'zip' and len(args) == 2:
        x = seq_view(models, eng, args[0], st)
        if x is None:
            raise OutOfReach('zip')
        if isinstance(args[1], VIter) and args[1].what == 'cycle':
            inner = args[1].inner
            # zip(data, cycle(pad)): length of data; element i pairs with pad[i mod len(pad)] (empty pad -> empty zip)
            n = t.ite(t.gt(inner.n, t.ZERO), x.n, t.ZERO)
            return [(st, VIter('seq', n=n, at=lambda i: VTuple([x.at(i), inner.at(t.pymod(i, inner.n) if inner.n.op == 'int' else t.T(t.INT, 'mod', (i, inner.n)))])))]
        y = seq_view(models, eng, args[1], st)
        if y is None:
            raise OutOfReach('zip')
        return [(st, VIter('seq', n=t.imin(x.n, y.n), at=lambda i: VTuple([x.at(i), y.at(i)])))]
    if name in ('sum', 'all', 'any'):
        return py_fold(models, eng, name, a0, st)
    if name == 'list' or name == 'tuple':
        if not args:
            return [(st, st.alloc(OList(items=()), 'list'))] if name == 'list' else [(st, VTuple([]))]
        if isinstance(a0, VStr) and a0.t is not None and a0.t.op == 'strlit':
            items = tuple(VStr(S(c)) for c in a0.t.args[0])
            return [(st, st.alloc(OList(items=items), 'list'))] if name == 'list' else [(st, VTuple(items))]
        it = iterate(models, eng, a0, st)
        if it is not None and it.what == 'concrete':
            return [(st, st.alloc(OList(items=tuple(it.items)), 'list'))] if name == 'list' else [(st, VTuple(it.items))]
        if models.interface is not None:
            r = models.interface.to_list(eng, a0, st, name)
            if r is not None:
                return r
        raise OutOfReach('%s(%r)' % (name, a0))
    if name == 'dict':
        if not args:
            return [(st, st.alloc(ODict({('str', k): v for k, v in kws.items()}), 'dict'))]
        raise OutOfReach('dict(args)')
    if name in ('struct.pack', 'struct.unpack', 'struct.calcsize'):
        from . import structmodel
        return structmodel.call(models, eng, name, args, kws, st)
    if name == 'int.to_bytes':
        return int_to_bytes(models, eng, args, kws, st)
    if name == 'int.from_bytes':
        return int_from_bytes(models, eng, args, kws, st)
    if name == 'open':
        # a binary file: 'rb' -> arbitrary content, positioned at 0; 'w+b'/'wb' -> empty.  Under the adversarial stream mode it is
        # an adversarial stream like any other.  (open() itself failing - missing file, permissions - is outside the properties.)
        mode = args[1] if len(args) > 1 else kws.get('mode')
        mtxt = mode.t.args[0] if isinstance(mode, VStr) and mode.t is not None and mode.t.op == 'strlit' else None
        if mtxt not in ('rb', 'wb', 'w+b'):
            raise OutOfReach('open() with mode %r' % (mtxt,))
        if models.stream_mode == 'adv':
            ref = streams.symbolic_stream(eng, st, 'file', 'adv')
        elif mtxt == 'rb':
            ref = streams.symbolic_stream(eng, st, 'file', 'bytesio')
            st.assume(t.eq(st.get(ref).pos, t.ZERO))
        else:
            ref = streams.new_bytesio(eng, st)
        st.get(ref).is_file = True
        return [(st, ref)]
    if name == 'io.BytesIO':
        if not args:
            return [(st, streams.new_bytesio(eng, st))]
        b = models.as_bytes(eng, a0, st)
        if b is None:
            if isinstance(a0, VDyn):
                tb = t.app('(_ is VBytes)', t.BOOL, a0.t)

                def go(st1):
                    d2 = eng.dyn_bytes(a0, st1)
                    return [(st1, streams.new_bytesio(eng, st1, d2))]
                return eng.typed(st, tb, go, 'BytesIO(non-bytes)')
            return eng.raise_(st, 'TypeError', origin='BytesIO(non-bytes)')
        return [(st, streams.new_bytesio(eng, st, b))]
    if name == 'iter' and len(args) == 1:
        it = iterate(models, eng, a0, st)
        if it is None:
            raise OutOfReach('iter(%r)' % (a0,))
        return [(st, st.alloc(OIter(it, t.ZERO), 'iterator'))]
    if name == 'next' and len(args) in (1, 2) and not kws and isinstance(a0, VRef) and isinstance(st.get(a0), OIter):
        # next(it) raises StopIteration on an exhausted iterator, next(it, default) returns the default (and leaves it exhausted)
        o = st.get(a0)
        it = o.it

        def exhausted(s_):
            if len(args) == 2:
                return [(s_, args[1])]
            return eng.raise_(s_, 'StopIteration', origin='next() on an exhausted iterator')
        if it.what == 'concrete':
            if o.idx.op == 'int' and o.idx.args[0] < len(it.items):
                st.put(a0, OIter(it, I(o.idx.args[0] + 1)))
                return [(st, it.items[o.idx.args[0]])]
            if o.idx.op == 'int':
                return exhausted(st)
            raise OutOfReach('symbolic position in a concrete iterator')
        out = []
        more, done = eng.fork(st, t.lt(o.idx, it.n)) if it.n is not None else (st, None)
        if more is not None:
            item = it.item(eng, more, o.idx)
            more.put(a0, OIter(it, t.add(o.idx, t.ONE)))
            out.append((more, item))
        if done is not None:
            out.extend(exhausted(done))
        return out
    if name in ('iter', 'next', 'hasattr', 'getattr', 'id', 'sorted', 'super', 'object', 'slice'):
        if models.interface is not None:
            r = models.interface.builtin(eng, name, args, kws, st, node)
            if r is not None:
                return r
    if models.interface is not None:
        r = models.interface.builtin(eng, name, args, kws, st, node)
        if r is not None:
            return r
    raise OutOfReach('builtin %s' % name)


def py_len(models, eng, v, st):
    if isinstance(v, VBytes):
        return [(st, VInt(v.len))]
    if isinstance(v, VTuple):
        return [(st, VInt(I(len(v.items))))]
    if isinstance(v, VStr):
        if v.t is None:
            return [(st, VInt(fresh('opqstrlen', t.INT)))]
        if v.t.op == 'strlit':
            return [(st, VInt(I(len(v.t.args[0]))))]
        return [(st, VInt(t.app('str.len', t.INT, v.t)))]
    if isinstance(v, VRef):
        o = st.get(v)
        if isinstance(o, OList):
            return [(st, VInt(I(len(o.items)) if o.concrete else o.len))]
        if isinstance(o, OBytearray):
            return [(st, VInt(o.len))]
        if isinstance(o, ODict):
            if o.items is None:
                # a dict known only through its membership and value functions: its size is a non-negative function of the membership
                from . import prelude as _pl
                _pl.declare_fun('dict_card', ['VMapHas'], t.INT)
                n = t.app('dict_card', t.INT, o.has)
                st.assume(t.ge(n, t.ZERO))
                return [(st, VInt(n))]
            return [(st, VInt(I(len(o.items))))]
    if isinstance(v, VDyn):
        tb = t.app('(_ is VBytes)', t.BOOL, v.t)
        a, b = eng.fork(st, tb)
        out = []
        if a is not None:
            ln = t.app('blen', t.INT, v.t)
            a.assume(t.ge(ln, t.ZERO))
            out.append((a, VInt(ln)))
        if b is not None:
            if models.interface is not None:
                r = models.interface.dyn_len(eng, v, b)
                if r is not None:
                    out.extend(r)
                    return out
            out.extend(eng.raise_(b, 'TypeError', origin='len() of non-sized'))
        return out
    if isinstance(v, (VInt, VBool, VNone)):
        return eng.raise_(st, 'TypeError', origin='len() of %s' % v.kind)
    if models.interface is not None:
        r = models.interface.len(eng, v, st)
        if r is not None:
            return r
    raise OutOfReach('len(%r)' % (v,))


def py_bytes(models, eng, args, kws, st):
    if not args:
        return [(st, eng.from_const(b'', st))]
    a0 = args[0]
    if isinstance(a0, VBytes):
        return [(st, a0)]
    if isinstance(a0, VRef):
        o = st.get(a0)
        if isinstance(o, OBytearray):
            return [(st, VBytes(o.arr, t.ZERO, o.len))]
    if isinstance(a0, (VInt, VBool)):
        iv, _ = eng.as_int(a0, st)
        good, bad = eng.fork(st, t.ge(iv, t.ZERO))
        out = []
        if good is not None:
            out.append((good, ops.zero_bytes(iv)))
        if bad is not None:
            out.extend(eng.raise_(bad, 'ValueError', origin='negative count'))
        return out
    if isinstance(a0, VIter) and a0.what == 'gen':
        sv = gen_view(models, eng, a0, st)
        return bytes_from_seq(models, eng, sv, st)
    sv = seq_view(models, eng, a0, st)
    if sv is not None:
        return bytes_from_seq(models, eng, sv, st)
    if isinstance(a0, VDyn):
        tb = t.app('(_ is VBytes)', t.BOOL, a0.t)
        a, b = eng.fork(st, tb)
        out = []
        if a is not None:
            out.append((a, a0))
        if b is not None:
            # bytes(x) for a non-bytes value of unknown type: some bytes object, or TypeError/ValueError
            b2, b3 = b.clone(), b.clone()
            out.extend(eng.raise_(b, 'TypeError', origin='bytes() of a value of another type'))
            out.extend(eng.raise_(b2, 'ValueError', origin='bytes() of a value of another type'))
            out.append((b3, eng.fresh_bytes(b3, 'bytesof')))
        return out
    raise OutOfReach('bytes(%r)' % (a0,))


def py_fold(models, eng, name, a0, st):
    if isinstance(a0, VIter) and a0.what == 'gen':
        if models.interface is not None:
            r = models.interface.fold(eng, name, a0, st)
            if r is not None:
                return r
        sv = gen_view(models, eng, a0, st)
    else:
        sv = seq_view(models, eng, a0, st)
    if sv is None:
        raise OutOfReach('%s over %r' % (name, a0))
    if sv.n.op == 'int' and sv.n.args[0] <= 64:
        items = [sv.at(I(j)) for j in range(sv.n.args[0])]
        for c in getattr(sv, 'extra_facts', []):
            st.assume(c)
        if name == 'sum':
            acc = t.ZERO
            oks = []
            for x in items:
                iv, ok = eng.as_int(x, st)
                if iv is None:
                    raise OutOfReach('sum element')
                oks.append(ok)
                acc = t.add(acc, iv)
            return eng.typed(st, t.and_(*oks) if oks else t.TRUE, lambda s: [(s, VInt(acc))], 'sum')
        conds = [eng.truth(x, st) for x in items]
        return [(st, VBool(t.and_(*conds) if name == 'all' else t.or_(*conds)))]
    raise OutOfReach('%s over symbolic-length sequence' % name)


def int_to_bytes(models, eng, args, kws, st):
    """E2: int.to_bytes(number, width, 'big', signed=s): big-endian two's complement; OverflowError out of range"""
    num, width, order = args[0], args[1], args[2]
    signed = kws.get('signed', VBool(t.FALSE))
    if not (isinstance(order, VStr) and order.t is not None and order.t.op == 'strlit' and order.t.args[0] == 'big'):
        raise OutOfReach('to_bytes byteorder')
    n, okn = eng.as_int(num, st)
    w, okw = eng.as_int(width, st)
    if n is None or w is None:
        return eng.raise_(st, 'TypeError', origin='to_bytes args')
    sg = eng.truth(signed, st)

    def go(st1):
        out = []
        p = ops.pow2(t.mul(I(8), w))
        st1.assume(t.gt(p, t.ZERO))
        half = ops.pow2(t.sub(t.mul(I(8), w), t.ONE)) if not (w.op == 'int') else I(2 ** (8 * w.args[0] - 1)) if w.args[0] >= 1 else None
        wneg, wok = eng.fork(st1, t.lt(w, t.ZERO))
        if wneg is not None:
            out.extend(eng.raise_(wneg, 'ValueError', origin='length argument must be non-negative'))
        if wok is None:
            return out
        if half is None:
            half = ops.pow2(t.sub(t.mul(I(8), w), t.ONE))
        inrange = t.ite(sg, t.and_(t.le(t.neg(half), n), t.lt(n, half)), t.and_(t.le(t.ZERO, n), t.lt(n, p)))
        # width 0: only 0 fits (pow2(-1) folds to 1 in the spec function, guard explicitly)
        inrange = t.ite(t.eq(w, t.ZERO), t.eq(n, t.ZERO), inrange)
        good, bad = eng.fork(wok, inrange)
        if good is not None:
            r = fresh('tobytes', t.ARR)
            eng.assume_byte_range(good, r, t.ZERO, w)
            val = t.app('be_val', t.INT, r, t.ZERO, w)
            good.assume(t.eq(val, t.ite(t.lt(n, t.ZERO), t.add(n, p), n)))
            out.append((good, VBytes(r, t.ZERO, w)))
        if bad is not None:
            out.extend(eng.raise_(bad, 'OverflowError', origin='int too big to convert'))
        return out
    return eng.typed(st, t.and_(okn, okw), go, 'to_bytes args')


def int_from_bytes(models, eng, args, kws, st):
    data, order = args[0], args[1]
    signed = kws.get('signed', VBool(t.FALSE))
    if not (isinstance(order, VStr) and order.t is not None and order.t.op == 'strlit' and order.t.args[0] == 'big'):
        raise OutOfReach('from_bytes byteorder')
    b = models.as_bytes(eng, data, st)
    if b is None:
        raise OutOfReach('from_bytes data kind')
    sg = eng.truth(signed, st)
    val = t.app('be_val', t.INT, b.arr, b.off, t.add(b.off, b.len))
    p = ops.pow2(t.mul(I(8), b.len))
    top = t.and_(t.gt(b.len, t.ZERO), t.ge(b.at(t.ZERO), I(128)))
    return [(st, VInt(t.ite(t.and_(sg, top), t.sub(val, p), val)))]


# ===================================================================== constructing classes
def construct_class(models, eng, cls, args, kws, st, node):
    name = cls.name
    if models.src.is_exc_class(name):
        path = kws.get('path', NONE)
        explicit = 'path' in kws
        if len(args) >= 2 and not explicit:
            path = args[1]
            explicit = True
        return [(st, VExc(I(models.src.exc_code[name]), path, origin='%s(...)' % name, explicit_path=explicit))]
    if name == 'ListContainer':
        if not args:
            return [(st, st.alloc(OList(items=(), cls='ListContainer'), 'list'))]
        if len(args) == 1 and isinstance(args[0], VRef) and isinstance(st.get(args[0]), OList):
            o = st.get(args[0])
            return [(st, st.alloc(OList(items=o.items, arr=o.arr, ln=o.len, ekind=o.ekind, cls='ListContainer'), 'list'))]
    if name in ('EnumInteger', 'BitwisableString', 'HexDisplayedBytes', 'HexDumpDisplayedBytes', 'HexDisplayedDict', 'HexDumpDisplayedDict') and len(args) == 1:
        # display subclasses of int/str/bytes/dict: modelled as their base value (== and hashing are inherited)
        return [(st, args[0])]
    if models.interface is not None:
        r = models.interface.construct_class(eng, cls, args, kws, st, node)
        if r is not None:
            return r
    raise OutOfReach('construction of %s' % name)


# ===================================================================== methods of builtin kinds
def call_method(models, eng, recv, name, args, kws, st, node):
    if isinstance(recv, VRef):
        o = st.get(recv)
        if isinstance(o, OBytearray):
            if name == 'append':
                iv, ok = eng.as_int(args[0], st)
                if iv is None:
                    return eng.raise_(st, 'TypeError', origin='bytearray.append')

                def go(st1):
                    good, bad = eng.fork(st1, t.and_(t.le(t.ZERO, iv), t.lt(iv, I(256))))
                    out = []
                    if good is not None:
                        good.put(recv, OBytearray(t.store(o.arr, o.len, iv), t.add(o.len, t.ONE)))
                        out.append((good, NONE))
                    if bad is not None:
                        out.extend(eng.raise_(bad, 'ValueError', origin='byte must be in range(0, 256)'))
                    return out
                return eng.typed(st, ok, go, 'bytearray.append')
        if isinstance(o, OList):
            if name == 'append':
                v = args[0]
                if o.concrete:
                    st.put(recv, OList(items=o.items + (v,), cls=o.cls))
                    return [(st, NONE)]
                if o.ekind == 'int':
                    iv, ok = eng.as_int(v, st)
                    if iv is None or not (ok.op == 'bool' and ok.args[0]):
                        raise OutOfReach('append non-int to int list')
                    st.put(recv, OList(arr=t.store(o.arr, o.len, iv), ln=t.add(o.len, t.ONE), ekind='int', cls=o.cls))
                    return [(st, NONE)]
                if o.ekind == 'val':
                    st.put(recv, OList(arr=t.T(o.arr.sort, 'store', (o.arr, o.len, eng.to_dyn(v, st))), ln=t.add(o.len, t.ONE), ekind='val', cls=o.cls))
                    return [(st, NONE)]
            if name == 'extend' and o.concrete:
                it = iterate(models, eng, args[0], st)
                if it is not None and it.what == 'concrete':
                    st.put(recv, OList(items=o.items + tuple(it.items), cls=o.cls))
                    return [(st, NONE)]
        if isinstance(o, OIter):
            return None
        if isinstance(o, ODict) and o.items is None:
            if name == 'get':
                kt = eng.to_dyn(args[0], st)
                d = args[1] if len(args) > 1 else NONE
                return [(st, VDyn(t.ite(t.T(t.BOOL, 'select', (o.has, kt)), t.T(t.VAL, 'select', (o.get, kt)), eng.to_dyn(d, st))))]
            return None
        if isinstance(o, ODict):
            if name == 'get':
                try:
                    hk = eng.hashable(args[0])
                except OutOfReach:
                    return None
                d = args[1] if len(args) > 1 else NONE
                return [(st, o.items.get(hk, d))]
            if name == 'items':
                return [(st, VIter('concrete', items=[VTuple([eng.from_const(k[1] if len(k) > 1 else None, st), v]) for k, v in o.items.items()]))]
            if name == 'values':
                return [(st, VIter('concrete', items=list(o.items.values())))]
            if name == 'keys':
                return [(st, VIter('concrete', items=[eng.from_const(k[1] if len(k) > 1 else None, st) for k in o.items]))]
    if recv.kind == 'map' and models.interface is not None:
        return models.interface.map_method(eng, recv, name, args, kws, st)
    if isinstance(recv, VBytes):
        if name == 'join':
            a0 = args[0]
            if recv.len.op == 'int' and recv.len.args[0] == 0:
                if models.interface is not None:
                    r = models.interface.bytes_join(eng, a0, st)
                    if r is not None:
                        return r
                it = iterate(models, eng, a0, st)
                if it is not None and it.what == 'concrete':
                    parts = [models.as_bytes(eng, x, st) for x in it.items]
                    if all(p is not None for p in parts):
                        return [(st, concat_bytes(eng, st, parts))]
            raise OutOfReach('bytes.join')
        if name in ('decode', 'rstrip', 'lstrip', 'strip', 'startswith', 'find') and models.interface is not None:
            return models.interface.bytes_method(eng, recv, name, args, kws, st)
    if isinstance(recv, VStr):
        if models.interface is not None:
            r = models.interface.str_method(eng, recv, name, args, kws, st)
            if r is not None:
                return r
        if name == 'format':
            return [(st, VStr(None))]
    if isinstance(recv, VModule) or isinstance(recv, VFunc) and recv.model and recv.model[0] == 'builtin':
        return None
    return None


# ===================================================================== loop havoc
def assigned_names(nodes):
    names = set()
    mutated = set()
    calls_with = set()
    for root in nodes:
        for n in ast.walk(root):
            if isinstance(n, ast.Name) and isinstance(n.ctx, (ast.Store, ast.Del)):
                names.add(n.id)
            elif isinstance(n, ast.AugAssign) and isinstance(n.target, ast.Name):
                names.add(n.target.id)
            elif isinstance(n, (ast.Assign, ast.AugAssign)):
                tg = n.targets if isinstance(n, ast.Assign) else [n.target]
                for x in tg:
                    if isinstance(x, (ast.Subscript, ast.Attribute)) and isinstance(x.value, ast.Name):
                        mutated.add(x.value.id)
            elif isinstance(n, ast.Call):
                if isinstance(n.func, ast.Attribute) and isinstance(n.func.value, ast.Name):
                    mutated.add(n.func.value.id)
                for a in list(n.args) + [k.value for k in n.keywords]:
                    if isinstance(a, ast.Name):
                        calls_with.add(a.id)
            elif isinstance(n, ast.ExceptHandler) and n.name:
                names.add(n.name)
    return names, mutated, calls_with


def havoc_value(eng, st, v, name):
    if isinstance(v, VInt):
        return VInt(fresh(name, t.INT))
    if isinstance(v, VBool):
        return VBool(fresh(name, t.BOOL))
    if isinstance(v, VBytes):
        return eng.fresh_bytes(st, name)
    if isinstance(v, VDyn):
        return VDyn(fresh(name, t.VAL))
    if isinstance(v, VNone):
        return VDyn(fresh(name, t.VAL))
    if isinstance(v, VStr):
        return VStr(fresh(name, t.STR)) if v.t is not None else VStr(None)
    if isinstance(v, VTuple):
        return VTuple([havoc_value(eng, st, x, name) for x in v.items])
    return None


def havoc_object(eng, st, ref, name, writes=True):
    o = st.get(ref)
    if isinstance(o, OBytearray):
        arr, ln = fresh(name + '_arr', t.ARR), fresh(name + '_len', t.INT)
        st.assume(t.ge(ln, t.ZERO))
        eng.assume_byte_range(st, arr, t.ZERO, ln)
        st.put(ref, OBytearray(arr, ln))
    elif isinstance(o, OList):
        ek = o.ekind if not o.concrete else None
        if o.concrete:
            # a list built in the loop: element kind from the loop spec or the first element
            ek = 'val' if o.cls == 'ListContainer' else 'int'
            if o.items and not all(isinstance(x, (VInt, VBool)) for x in o.items):
                ek = 'val'
        ln = fresh(name + '_len', t.INT)
        st.assume(t.ge(ln, t.ZERO))
        arr = fresh(name + '_arr', t.ARR if ek == 'int' else 'VArr')
        st.put(ref, OList(arr=arr, ln=ln, ekind=ek, cls=o.cls))
    elif isinstance(o, OStream):
        if o.model == 'adv':
            st.put(ref, o.replace(extra=dict(o.extra, __short=VBool(fresh(name + '_short', t.BOOL)))))
            return
        pos = fresh(name + '_pos', t.INT)
        st.assume(t.ge(pos, t.ZERO))
        if writes:
            buf, ln = fresh(name + '_buf', t.ARR), fresh(name + '_len', t.INT)
            st.assume(t.ge(ln, t.ZERO))
            st.put(ref, o.replace(buf=buf, ln=ln, pos=pos))
        else:
            st.put(ref, o.replace(pos=pos))
    elif isinstance(o, OContainer):
        pass        # heap havoc is handled by the interface
    elif isinstance(o, ODict):
        st.put(ref, ODict(has=fresh(name + '_has', 'VMapHas'), get=fresh(name + '_get', 'VMapGet')))
    elif isinstance(o, OIter):
        k = fresh(name + '_idx', t.INT)
        st.assume(t.ge(k, t.ZERO))
        st.put(ref, OIter(o.it, k))
    elif isinstance(o, OObject):
        # a helper object (RestreamedBytesIO): every data field may change; streams it holds are havocked as well
        f = {}
        for k, v in o.fields.items():
            if isinstance(v, VRef):
                if isinstance(st.get(v), OStream):
                    so = st.get(v)
                    if so.model == 'adv':
                        before = so.extra['__short'].t
                        havoc_object(eng, st, v, name + '_' + k, writes)
                    else:
                        havoc_object(eng, st, v, name + '_' + k, writes)
                f[k] = v
                continue
            hv = havoc_value(eng, st, v, name + '_' + k) if isinstance(v, (VInt, VBool, VBytes, VDyn)) else None
            f[k] = hv if hv is not None else v
        st.put(ref, OObject(o.cls, f))


t.SORT_SMT['VArr'] = '(Array Int Val)'


def havoc_loop(models, eng, node, st, spec):
    body = list(node.body) + list(node.orelse)
    if isinstance(node, ast.While):
        body.append(node.test)
    names, mutated, calls_with = assigned_names(body)
    if isinstance(node, ast.For):
        for n in ast.walk(node.target):
            if isinstance(n, ast.Name):
                names.add(n.id)
    writes = spec.modifies is None or 'stream-content' in spec.modifies
    for name in sorted(names):
        v = st.env.get(name)
        if v is None or isinstance(v, Unbound):
            kind = spec.havoc_kinds.get(name)
            if kind is None:
                val = VDyn(fresh('h_' + name, t.VAL))
            else:
                val = kind(eng, st, 'h_' + name)
            st.env[name] = MaybeBound(val, fresh('bound_' + name, t.BOOL))
            continue
        if name in spec.havoc_kinds:
            st.env[name] = spec.havoc_kinds[name](eng, st, 'h_' + name)
            continue
        if isinstance(v, MaybeBound):
            hv = havoc_value(eng, st, v.value, 'h_' + name)
            st.env[name] = MaybeBound(hv if hv is not None else v.value, fresh('bound_' + name, t.BOOL))
            continue
        if isinstance(v, VRef):
            # rebinding a name that holds a reference: the loop may allocate a new object; treat as mutation of a fresh copy
            o = st.get(v)
            nv = st.alloc(o, v.okind)
            st.env[name] = nv
            havoc_object(eng, st, nv, 'h_' + name, writes)
            continue
        hv = havoc_value(eng, st, v, 'h_' + name)
        if hv is None:
            raise OutOfReach('cannot havoc local %s of kind %s' % (name, v.kind))
        st.env[name] = hv
    for name in sorted((mutated | calls_with) - names):
        v = st.env.get(name)
        if isinstance(v, VRef):
            o = st.get(v)
            if isinstance(o, (OStream, OIter)) or name in mutated:
                havoc_object(eng, st, v, 'h_' + name, writes)
    # attribute stores / method calls through self (helper objects whose fields are mutated in the loop)
    selfv = st.env.get('self')
    if isinstance(selfv, VRef) and isinstance(st.get(selfv), OObject):
        touched = any(isinstance(n, ast.Attribute) and isinstance(n.value, ast.Name) and n.value.id == 'self' for b in body for n in ast.walk(b))
        if touched:
            havoc_object(eng, st, selfv, 'h_self', writes)
    # objects reachable only through self-like objects (streams in OObject fields) are handled by interface
    if models.interface is not None:
        models.interface.havoc_loop(eng, node, st, spec, names, mutated, calls_with)
