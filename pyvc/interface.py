"""The construct-specific side of the call models: parameters (E5), context heap (DESIGN.md 2.5), module tables and
singletons, sub-construct interface contract (DESIGN.md 2.3).

Heap: containers are cells of  H : Int -> (String -> Val)  with key presence  D : Int -> (String -> Bool); `alloc` is the
allocation counter (every live address is < alloc).  Values stored in the heap are Val terms.
"""
import ast

from . import terms as t
from .terms import I, Bc, S
from .values import *  # noqa
from .state import OutOfReach
from . import prelude, ops, streams, builtins
from .ops import concat_bytes

# E5: parameter expressions are total functions of the context returning the declared type, except that they may raise
# KeyError / AttributeError on a missing key
prelude.declare_fun('ev_int', [t.INT, 'Heap', 'Dom', t.INT], t.INT)
prelude.declare_fun('ev_val', [t.INT, 'Heap', 'Dom', t.INT], t.VAL)
prelude.declare_fun('ev_raises', [t.INT, 'Heap', 'Dom', t.INT], t.BOOL)
prelude.declare_fun('ev_exc', [t.INT, 'Heap', 'Dom', t.INT], t.INT)

# tables (entry-by-entry checked against the imported module by contracts/tables.py)
prelude.define('bit_of', '(define-fun bit_of ((n Int) (k Int)) Int (mod (div n (pow2 k)) 2))', deps=['pow2'])


prelude.declare_fun('fn_sub', [t.INT], t.INT)
prelude.declare_fun('map_has', [t.INT, t.VAL], t.BOOL)
prelude.declare_fun('map_get', [t.INT, t.VAL], t.VAL)


class VMap(Value):
    """a dict attribute of a construct (encmapping, cases, flags): uninterpreted finite map over Val keys"""
    kind = 'map'

    def __init__(self, ident, values='dyn'):
        self.ident, self.values = ident, values


def param_kind_value(kind, term_int=None, term_val=None):
    if kind == 'int':
        return VInt(term_int)
    return VDyn(term_val)


class Interface:
    TABLES = {}

    def __init__(self, models):
        self.models = models
        self.src = models.src
        self.tables = dict(Interface.TABLES)
        self.singletons = {}
        self.extra_globals = {}

    def configure(self, **kw):
        for k, v in kw.items():
            setattr(self, k, v)

    def loop_touches_heap(self, node):
        for n in ast.walk(node):
            if isinstance(n, ast.Call):
                for a in list(n.args) + [k.value for k in n.keywords]:
                    if isinstance(a, ast.Name) and a.id in ('context', 'ctx', 'this'):
                        return True
                if isinstance(n.func, ast.Name) and n.func.id == 'Container':
                    return True
            if isinstance(n, (ast.Assign, ast.AugAssign)):
                tg = n.targets if isinstance(n, ast.Assign) else [n.target]
                for x in tg:
                    if isinstance(x, (ast.Attribute, ast.Subscript)):
                        return True
        return False

    RESERVED = ('_', '_params', '_root', '_parsing', '_building', '_sizing', '_index')

    def scope_keys_clauses(self, eng, st, entry):
        """scopes created by this function keep their structural entries (_ , _params, _root, flags) through every loop:
        members store only under their own (non-reserved) names; _index may be rewritten by repeaters"""
        out = []
        if 'H' not in st.ghost or 'H' not in entry.ghost:
            return out
        H1, D1, H0, D0 = st.ghost['H'], st.ghost['D'], entry.ghost['H'], entry.ghost['D']
        seen = set()
        scope = entry.env.get('context')
        scope = entry.get(scope) if isinstance(scope, VRef) else None
        for loc, o in entry.store.items():
            if o is scope and isinstance(o, OContainer) and getattr(o, 'local', False) and o.addr.smt() not in seen:
                seen.add(o.addr.smt())
                cl = []
                for k in self.RESERVED:
                    if k == '_index':
                        continue
                    cl.append(t.eq(t.T(t.VAL, 'select', (t.T('Fields', 'select', (H1, o.addr)), S(k))), t.T(t.VAL, 'select', (t.T('Fields', 'select', (H0, o.addr)), S(k)))))
                    cl.append(t.eq(t.T(t.BOOL, 'select', (t.T('Keys', 'select', (D1, o.addr)), S(k))), t.T(t.BOOL, 'select', (t.T('Keys', 'select', (D0, o.addr)), S(k)))))
                out.append(('local-scope-keeps-its-structural-entries', t.and_(*cl)))
        return out

    def loop_frame_clauses(self, eng, st):
        """the frame of the method under verification, as a loop invariant: the context argument differs from its entry
        value only at '_index'; the unrelated pre-existing container is unchanged"""
        pre = eng.loop_extra.get('pre')
        if pre is None or 'H' not in pre.st.ghost or 'H' not in st.ghost:
            return []
        cname = 'context' if 'context' in pre.args else ('ctx' if 'ctx' in pre.args else None)
        if cname is None or not isinstance(pre.args[cname], VRef):
            return []
        c = pre.st.get(pre.args[cname]).addr
        H0, D0, H1, D1 = pre.st.ghost['H'], pre.st.ghost['D'], st.ghost['H'], st.ghost['D']
        f0, f1 = t.T('Fields', 'select', (H0, c)), t.T('Fields', 'select', (H1, c))
        d0, d1 = t.T('Keys', 'select', (D0, c)), t.T('Keys', 'select', (D1, c))
        out = [('context-modified-only-at-_index', t.and_(
            t.eq(f1, t.T('Fields', 'store', (f0, S('_index'), t.T(t.VAL, 'select', (f1, S('_index')))))),
            t.eq(d1, t.T('Keys', 'store', (d0, S('_index'), t.T(t.BOOL, 'select', (d1, S('_index')))))))),
               ('allocation-counter-grows', t.ge(st.ghost['alloc'], pre.st.ghost['alloc']))]
        b = pre.st.ghost.get('other')
        if b is not None:
            out.append(('other-containers-unchanged', t.implies(t.ne(b, c), t.and_(
                t.eq(t.T('Fields', 'select', (H1, b)), t.T('Fields', 'select', (H0, b))),
                t.eq(t.T('Keys', 'select', (D1, b)), t.T('Keys', 'select', (D0, b)))))))
        return out

    def havoc_heap(self, eng, st):
        self.H(st)
        st.ghost['H'] = fresh('H', 'Heap')
        st.ghost['D'] = fresh('D', 'Dom')
        a2 = fresh('alloc', t.INT)
        st.assume(t.ge(a2, st.ghost['alloc']))
        st.ghost['alloc'] = a2

    # ================================================================= user-supplied functions and mappings
    def user_function(self, eng, ident, returns, args, kws, st):
        """a callable stored on the construct (decode/encode function, hash function): a total, pure function of its
        first argument (assumption E5/E6: user callbacks do not raise and have no effects)"""
        a0 = args[0] if args else NONE
        if returns == 'bytes':
            b = self.models.as_bytes(eng, a0, st)
            if b is None:
                raise OutOfReach('bytes function on %r' % (a0,))
            ln = t.app('fn_bytes_len', t.INT, ident, b.arr, b.off, b.len)
            arr = t.app('fn_bytes_arr', t.ARR, ident, b.arr, b.off, b.len)
            st.assume(t.ge(ln, t.ZERO))
            eng.assume_byte_range(st, arr, t.ZERO, ln)
            return [(st, VBytes(arr, t.ZERO, ln))]
        if returns == 'sub':
            return [(st, VSub(t.app('fn_sub', t.INT, ident), 'bound'))]
        if returns == 'nat':
            iv, ok = eng.as_int(a0, st)
            prelude.declare_fun('fn_nat', [t.INT, t.INT], t.INT)
            r = t.app('fn_nat', t.INT, ident, iv if iv is not None else t.ZERO)
            st.assume(t.ge(r, t.ZERO))
            return [(st, VInt(r))]
        return [(st, VDyn(t.app('fn_val', t.VAL, ident, eng.to_dyn(a0, st))))]

    def new_map(self, eng, st, name, values):
        return VMap(fresh('map_' + name, t.INT), values)

    def map_value(self, eng, m, valterm, st):
        if m.values == 'int':
            st.assume(t.app('(_ is VInt)', t.BOOL, valterm))
            return VInt(t.app('ival', t.INT, valterm))
        if m.values == 'sub':
            st.assume(t.app('(_ is VOpq)', t.BOOL, valterm))
            return VSub(t.app('oid', t.INT, valterm), 'case')
        return VDyn(valterm)

    def hashable(self, eng, v, st):
        if isinstance(v, VDyn):
            prelude.declare_fun('opq_hashable', [t.VAL], t.BOOL)
            return t.or_(t.not_(t.or_(t.app('(_ is VRef)', t.BOOL, v.t), t.app('(_ is VOpq)', t.BOOL, v.t))), t.app('opq_hashable', t.BOOL, v.t))
        if isinstance(v, VRef):
            return t.FALSE
        return t.TRUE

    def map_index(self, eng, m, key, st):
        out = []
        h, nh = eng.fork(st, self.hashable(eng, key, st))
        if nh is not None:
            out.extend(eng.raise_(nh, 'TypeError', origin='unhashable dict key'))
        if h is None:
            return out
        kt = eng.to_dyn(key, h)
        a, b = eng.fork(h, t.app('map_has', t.BOOL, m.ident, kt))
        if a is not None:
            out.append((a, self.map_value(eng, m, t.app('map_get', t.VAL, m.ident, kt), a)))
        if b is not None:
            out.extend(eng.raise_(b, 'KeyError', origin='key not in mapping'))
        return out

    def map_contains(self, eng, m, key, st):
        out = []
        h, nh = eng.fork(st, self.hashable(eng, key, st))
        if nh is not None:
            out.extend(eng.raise_(nh, 'TypeError', origin='unhashable dict key'))
        if h is not None:
            out.append((h, VBool(t.app('map_has', t.BOOL, m.ident, eng.to_dyn(key, h)))))
        return out

    def map_method(self, eng, m, name, args, kws, st):
        if name == 'get':
            out = []
            h, nh = eng.fork(st, self.hashable(eng, args[0], st))
            if nh is not None:
                out.extend(eng.raise_(nh, 'TypeError', origin='unhashable dict key'))
            if h is not None:
                kt = eng.to_dyn(args[0], h)
                d = args[1] if len(args) > 1 else NONE
                a, b = eng.fork(h, t.app('map_has', t.BOOL, m.ident, kt))
                if a is not None:
                    out.append((a, self.map_value(eng, m, t.app('map_get', t.VAL, m.ident, kt), a)))
                if b is not None:
                    out.append((b, d))
            return out
        if name == 'items':
            prelude.declare_fun('map_len', [t.INT], t.INT)
            prelude.declare_fun('map_key', [t.INT, t.INT], t.VAL)
            n = t.app('map_len', t.INT, m.ident)
            st.assume(t.ge(n, t.ZERO))
            if getattr(m, 'keys', 'dyn') == 'str':
                # a mapping keyed by strings (FlagsEnum.flags: keyword names): every key is a str value
                qi = t.var('mk!', t.INT)
                st.assume(t.forall([qi], t.app('(_ is VStr)', t.BOOL, t.app('map_key', t.VAL, m.ident, qi)), pats=[[t.app('map_key', t.VAL, m.ident, qi)]]))

            qk = t.var('mk2!', t.INT)
            st.assume(t.forall([qk], t.implies(t.and_(t.le(t.ZERO, qk), t.lt(qk, n)), t.app('map_has', t.BOOL, m.ident, t.app('map_key', t.VAL, m.ident, qk))),
                               pats=[[t.app('map_key', t.VAL, m.ident, qk)]]))       # iteration yields keys of the mapping (and only those)

            def at(i):
                k = t.app('map_key', t.VAL, m.ident, i)
                kv = VStr(t.app('sval', t.STR, k)) if getattr(m, 'keys', 'dyn') == 'str' else VDyn(k)
                return VTuple([kv, self.map_value_pure(m, t.app('map_get', t.VAL, m.ident, k))])
            return [(st, VIter('seq', n=n, at=at))]
        if name in ('setdefault', 'update', 'pop', 'popitem', 'clear', '__setitem__', '__delitem__'):
            # a mutating dict method on a mapping that belongs to the construct (C17: constructs are not modified by use)
            eng.frame_violations.append(('mutation of a mapping attribute of the construct through dict.%s' % name, st.clone()))
            if name == 'setdefault' and args:
                out = []
                h, nh = eng.fork(st, self.hashable(eng, args[0], st))
                if nh is not None:
                    out.extend(eng.raise_(nh, 'TypeError', origin='unhashable dict key'))
                if h is not None:
                    kt = eng.to_dyn(args[0], h)
                    d = args[1] if len(args) > 1 else NONE
                    a, b = eng.fork(h, t.app('map_has', t.BOOL, m.ident, kt))
                    if a is not None:
                        out.append((a, self.map_value(eng, m, t.app('map_get', t.VAL, m.ident, kt), a)))
                    if b is not None:
                        out.append((b, d))
                return out
            if name in ('update', 'clear'):
                return [(st, NONE)]
        raise OutOfReach('dict.%s on a construct mapping' % name)

    def map_value_pure(self, m, valterm):
        if m.values == 'int':
            return VInt(t.app('ival', t.INT, valterm))
        return VDyn(valterm)

    def fmt_field(self, eng, st, k):
        from .structmodel import SIZES
        fmt = eng.variant
        if fmt is None or not isinstance(fmt, str):
            raise OutOfReach('FormatField needs a concrete format variant')
        if k == 'fmt':
            return VStr(S(fmt))
        return VInt(I(SIZES[fmt[1]]))

    # ================================================================= heap helpers
    def H(self, st):
        if 'H' not in st.ghost:
            st.ghost['H'] = fresh('H', 'Heap')
            st.ghost['D'] = fresh('D', 'Dom')
            st.ghost['alloc'] = fresh('alloc', t.INT)
        return st.ghost['H'], st.ghost['D']

    def new_context(self, eng, st, name='context', wf=True):
        """a symbolic, well-formed context argument"""
        H, D = self.H(st)
        c = fresh(name, t.INT)
        st.assume(t.and_(t.le(t.ZERO, c), t.lt(c, st.ghost['alloc'])))
        ref = st.alloc(OContainer(c), 'container')
        if wf:
            dc = t.T('Keys', 'select', (D, c))
            for k in ('_params', '_parsing', '_building', '_sizing'):
                st.assume(t.T(t.BOOL, 'select', (dc, S(k))))
        return ref

    def hget(self, st, addr, key):
        H, D = self.H(st)
        return t.T(t.VAL, 'select', (t.T('Fields', 'select', (H, addr)), key))

    def hhas(self, st, addr, key):
        H, D = self.H(st)
        return t.T(t.BOOL, 'select', (t.T('Keys', 'select', (D, addr)), key))

    def hset(self, st, addr, key, val):
        H, D = self.H(st)
        f = t.T('Fields', 'select', (H, addr))
        d = t.T('Keys', 'select', (D, addr))
        st.ghost['H'] = t.T('Heap', 'store', (H, addr, t.T('Fields', 'store', (f, key, val))))
        st.ghost['D'] = t.T('Dom', 'store', (D, addr, t.T('Keys', 'store', (d, key, t.TRUE))))

    def key_term(self, eng, key, st):
        if isinstance(key, str):
            return S(key)
        if isinstance(key, VStr) and key.t is not None:
            return key.t
        if isinstance(key, VDyn):
            if st.known(t.app('(_ is VStr)', t.BOOL, key.t)) is True:
                return t.app('sval', t.STR, key.t)
            return None
        return None

    def dyn_key(self, eng, key, st):
        """a key of unknown type: (string payload, Bool 'is a str').  Non-string keys (None for unnamed members) are never
        present in a context / result container built by the library"""
        return t.app('sval', t.STR, key.t), t.app('(_ is VStr)', t.BOOL, key.t)

    def container_read(self, eng, ref, o, key, st, missing):
        kt = self.key_term(eng, key, st)
        if kt is None and isinstance(key, VDyn):
            kt, isstr = self.dyn_key(eng, key, st)
            has = t.and_(isstr, self.hhas(st, o.addr, kt))
        elif kt is None:
            raise OutOfReach('container key %r' % (key,))
        else:
            has = self.hhas(st, o.addr, kt)
        a, b = eng.fork(st, has)
        out = []
        if a is not None:
            out.append((a, self.from_heap(eng, a, self.hget(a, o.addr, kt))))
        if b is not None:
            out.extend(eng.raise_(b, missing, origin='missing context key %s' % (kt.smt(),)))
        return out

    def from_heap(self, eng, st, valterm):
        """a Val read from the heap; references become container refs lazily (on attribute access)"""
        return VDyn(valterm)

    def container_getattr(self, eng, ref, o, attr, st):
        if attr in ('get', 'update', 'items', 'keys', 'values', 'pop', 'copy', 'search', 'search_all'):
            return [(st, VFunc(attr, bound=ref, model=('model', lambda m, e, a, k, s, n, _attr=attr: self.container_method(e, ref, _attr, a, k, s))))]
        return self.container_read(eng, ref, o, attr, st, 'AttributeError')

    def container_getitem(self, eng, ref, o, key, st):
        return self.container_read(eng, ref, o, key, st, 'KeyError')

    def container_set(self, eng, ref, o, key, v, st, how):
        kt = self.key_term(eng, key, st)
        if kt is None and isinstance(key, VDyn):
            kt, isstr = self.dyn_key(eng, key, st)
            a, b = eng.fork(st, isstr)
            out = []
            if a is not None:
                self.hset(a, o.addr, kt, eng.to_dyn(v, a))
                out.append((a, NONE))
            if b is not None:
                out.extend(eng.raise_(b, 'Unmodelled', origin='container store with a non-string key'))
            return out
        if kt is None:
            raise OutOfReach('container store key %r' % (str(key)[:80],))
        self.hset(st, o.addr, kt, eng.to_dyn(v, st))
        return [(st, NONE)]

    def container_contains(self, eng, ref, o, item, st):
        kt = self.key_term(eng, item, st)
        if kt is None and isinstance(item, VDyn):
            kt, isstr = self.dyn_key(eng, item, st)
            return [(st, VBool(t.and_(isstr, self.hhas(st, o.addr, kt))))]
        if kt is None:
            raise OutOfReach('container membership key')
        return [(st, VBool(self.hhas(st, o.addr, kt)))]

    def container_method(self, eng, ref, name, args, kws, st):
        o = st.get(ref)
        if name == 'get':
            kt = self.key_term(eng, args[0], st)
            d = args[1] if len(args) > 1 else NONE
            if kt is None and isinstance(args[0], VDyn):
                kt, isstr = self.dyn_key(eng, args[0], st)
                has = t.and_(isstr, self.hhas(st, o.addr, kt))
            elif kt is None:
                raise OutOfReach('container.get key')
            else:
                has = self.hhas(st, o.addr, kt)
            val = t.ite(has, self.hget(st, o.addr, kt), eng.to_dyn(d, st))
            return [(st, VDyn(val))]
        if name == 'items' and not args:
            prelude.declare_fun('cont_len', ['Keys'], t.INT)
            prelude.declare_fun('cont_key', ['Keys', t.INT], t.STR)
            H, D = self.H(st)
            f, d = t.T('Fields', 'select', (H, o.addr)), t.T('Keys', 'select', (D, o.addr))
            n = t.app('cont_len', t.INT, d)
            st.assume(t.ge(n, t.ZERO))
            qc = t.var('ck2!', t.INT)
            st.assume(t.forall([qc], t.implies(t.and_(t.le(t.ZERO, qc), t.lt(qc, n)), t.T(t.BOOL, 'select', (d, t.app('cont_key', t.STR, d, qc)))),
                               pats=[[t.app('cont_key', t.STR, d, qc)]]))             # iteration yields keys that are present

            def at(i):
                k = t.app('cont_key', t.STR, d, i)
                return VTuple([VStr(k), VDyn(t.T(t.VAL, 'select', (f, k)))])
            return [(st, VIter('seq', n=n, at=at))]
        raise OutOfReach('Container.%s' % name)

    # Dyn values that are container references
    def dyn_container(self, eng, v, st):
        return st.alloc(OContainer(t.app('ref', t.INT, v.t)), 'container'), t.app('(_ is VRef)', t.BOOL, v.t)

    def dyn_getattr(self, eng, v, attr, st):
        if attr in ('decode', 'rstrip', 'startswith') or attr in ('encode', 'split', 'strip', 'replace', 'lower'):
            bytes_side = attr in ('decode', 'rstrip')
            tester = '(_ is VBytes)' if bytes_side else '(_ is VStr)'
            a, b = eng.fork(st, t.app(tester, t.BOOL, v.t))
            out = []
            if a is not None:
                if bytes_side:
                    recv = eng.dyn_bytes(v, a)
                else:
                    recv = VStr(t.app('sval', t.STR, v.t))
                out.append((a, VFunc(attr, bound=recv, model=('model', lambda m, e, ar, kw, s, n, _r=recv, _a=attr: e.call_method(_r, _a, ar, kw, s, n)))))
            if b is not None:
                out.extend(eng.raise_(b, 'AttributeError', origin='method %s of a value of another type' % attr))
            return out
        ref, isref = self.dyn_container(eng, v, st)
        a, b = eng.fork(st, isref)
        out = []
        if a is not None:
            out.extend(self.container_getattr(eng, ref, a.get(ref), attr, a))
        if b is not None:
            b2 = b.clone()
            out.extend(eng.raise_(b, 'AttributeError', origin='attribute %s of a non-container value' % attr))
        return out

    def dyn_getitem(self, eng, v, key, st):
        ref, isref = self.dyn_container(eng, v, st)
        isb = t.app('(_ is VBytes)', t.BOOL, v.t)
        out = []
        a, rest = eng.fork(st, isref)
        if a is not None:
            out.extend(self.container_getitem(eng, ref, a.get(ref), key, a))
        if rest is not None:
            b, rest2 = eng.fork(rest, isb)
            if b is not None:
                bv = eng.dyn_bytes(v, b)
                out.extend(self.models.index(eng, bv, key, b))
            if rest2 is not None:
                r2 = rest2.clone()
                out.extend(eng.raise_(rest2, 'TypeError', origin='subscript of a value of unknown type'))
                out.extend(eng.raise_(r2.clone(), 'KeyError', origin='subscript of a value of unknown type'))
                out.extend(eng.raise_(r2.clone(), 'IndexError', origin='subscript of a value of unknown type'))
                out.append((r2, VDyn(fresh('dynitem', t.VAL))))
        return out

    def dyn_setattr(self, eng, v, attr, val, st):
        ref, isref = self.dyn_container(eng, v, st)
        a, b = eng.fork(st, isref)
        out = []
        if a is not None:
            out.extend(self.container_set(eng, ref, a.get(ref), attr, val, a, 'attr'))
        if b is not None:
            out.extend(eng.raise_(b, 'AttributeError', origin='attribute store on a non-container value'))
        return out

    def dyn_setitem(self, eng, v, key, val, st):
        ref, isref = self.dyn_container(eng, v, st)
        a, b = eng.fork(st, isref)
        out = []
        if a is not None:
            out.extend(self.container_set(eng, ref, a.get(ref), key, val, a, 'item'))
        if b is not None:
            out.extend(eng.raise_(b, 'TypeError', origin='item store on a non-container value'))
        return out

    def dyn_contains(self, eng, container, item, st):
        ref, isref = self.dyn_container(eng, container, st)
        a, b = eng.fork(st, isref)
        out = []
        if a is not None:
            out.extend(self.container_contains(eng, ref, a.get(ref), item, a))
        if b is not None:
            b2 = b.clone()
            out.extend(eng.raise_(b, 'TypeError', origin='membership test on a value of unknown type'))
            out.append((b2, VBool(fresh('dynin', t.BOOL))))
        return out

    def dyn_slice(self, eng, b, lo, hi, step, st):
        isb = t.app('(_ is VBytes)', t.BOOL, b.t)
        x, y = eng.fork(st, isb)
        out = []
        if x is not None:
            bv = eng.dyn_bytes(b, x)
            out.extend(self.models.slice(eng, bv, lo, hi, step, x))
        if y is not None:
            y2 = y.clone()
            out.extend(eng.raise_(y, 'TypeError', origin='slice of a value of unknown type'))
            out.append((y2, VDyn(fresh('dynslice', t.VAL))))
        return out

    def dyn_isinstance(self, eng, v, tyname, st):
        if tyname in ('dict', 'Container'):
            return t.app('(_ is VRef)', t.BOOL, v.t)
        if tyname in ('bytearray', 'list', 'tuple', 'float', 'ListContainer', 'slice') or tyname in self.src.classes or tyname == 'io.BytesIO':
            # opaque objects: an uninterpreted test per type name
            prelude.declare_fun('is_' + tyname.replace('.', '_'), [t.VAL], t.BOOL)
            r = t.app('is_' + tyname.replace('.', '_'), t.BOOL, v.t)
            return t.and_(t.app('(_ is VOpq)', t.BOOL, v.t), r)
        return None

    def dyn_len(self, eng, v, st):
        prelude.declare_fun('dyn_len', [t.VAL], t.INT)
        prelude.declare_fun('dyn_sized', [t.VAL], t.BOOL)
        ok = t.app('dyn_sized', t.BOOL, v.t)
        a, b = eng.fork(st, ok)
        out = []
        if a is not None:
            n = t.app('dyn_len', t.INT, v.t)
            a.assume(t.ge(n, t.ZERO))
            out.append((a, VInt(n)))
        if b is not None:
            out.extend(eng.raise_(b, 'TypeError', origin='len() of a value without length'))
        return out

    # ================================================================= parameters (E5)
    def _param_const(self, eng, p, st):
        if p.const is None:
            if p.pkind in ('int', 'modulus'):
                p.const = VInt(t.var('const_%s' % p.name, t.INT))
            elif p.pkind == 'bool':
                p.const = VBool(t.var('const_%s' % p.name, t.BOOL))
            elif p.pkind == 'bytes':
                p.const = VBytes(t.var('const_%s_arr' % p.name, t.ARR), t.ZERO, t.var('const_%s_len' % p.name, t.INT))
            elif p.pkind == 'none':
                p.const = NONE
            elif p.pkind == 'str':
                p.const = VStr(t.var('const_%s' % p.name, t.STR))
            else:
                p.const = VDyn(t.var('const_%s' % p.name, t.VAL))
        return p.const

    def ctx_addr(self, eng, ctx, st):
        if isinstance(ctx, VRef):
            o = st.get(ctx)
            if isinstance(o, OContainer):
                return o.addr
        if isinstance(ctx, VDyn):
            return t.app('ref', t.INT, ctx.t)
        raise OutOfReach('context argument %r' % (ctx,))

    def call_param(self, eng, p, args, kws, st, node):
        """param(context): value of the declared kind, or KeyError/AttributeError (missing key)"""
        if len(args) < 1:
            raise OutOfReach('parameter called without context')
        H, D = self.H(st)
        c = self.ctx_addr(eng, args[0], st)
        out = []
        nc, isc = eng.fork(st, t.not_(p.callable_t))
        if nc is not None:
            out.extend(eng.raise_(nc, 'TypeError', origin='calling a non-callable parameter'))
        if isc is None:
            return out
        raises = t.app('ev_raises', t.BOOL, p.ident, H, D, c)
        if getattr(self, 'params_total', False):
            isc.assume(t.not_(raises))
        bad, good = eng.fork(isc, raises)
        if bad is not None:
            ec = t.app('ev_exc', t.INT, p.ident, H, D, c)
            bad.assume(t.or_(t.eq(ec, I(self.src.exc_code['KeyError'])), t.eq(ec, I(self.src.exc_code['AttributeError']))))
            out.append((bad, Raised(VExc(ec, NONE, origin='context expression %s: missing key' % p.name))))
        if good is not None:
            out.append((good, self.param_value(eng, p, H, D, c, good)))
        return out

    def param_value(self, eng, p, H, D, c, st):
        if p.pkind in ('int', 'modulus'):
            v = t.app('ev_int', t.INT, p.ident, H, D, c)
            self.assume_int_domain(p, v, st)
            return VInt(v)
        v = t.app('ev_val', t.VAL, p.ident, H, D, c)
        if p.pkind == 'bool':
            return VDyn(v)
        if p.pkind == 'bytes':
            st.assume(t.app('(_ is VBytes)', t.BOOL, v))
            st.assume(t.ge(t.app('blen', t.INT, v), t.ZERO))
            return VDyn(v)
        if p.pkind == 'str':
            st.assume(t.app('(_ is VStr)', t.BOOL, v))
            return VDyn(v)
        if p.pkind == 'hashable':
            st.assume(self.hashable(eng, VDyn(v), st))
            return VDyn(v)
        self.assume_param_domain(eng, p, v, st)
        return VDyn(v)

    def assume_int_domain(self, p, v, st):
        """documented exemption of C05: negative lengths/counts and moduli < 2 are outside the sizeof contract"""
        if getattr(self, 'nat_params', False):
            st.assume(t.ge(v, I(2)) if p.pkind == 'modulus' else t.ge(v, t.ZERO))

    def assume_param_domain(self, eng, p, v, st):
        """value domains of validly parameterised constructs (documented parameter types)"""
        if p.pkind == 'xorpad':
            # ProcessXor: 'integer or bytes'; an integer key is a byte value
            st.assume(t.implies(t.app('isint', t.BOOL, v), t.and_(t.le(t.ZERO, t.app('toint', t.INT, v)), t.lt(t.app('toint', t.INT, v), I(256)))))
        if p.pkind == 'membername':
            # FocusedSeq(parsebuildfrom, ...): the name selects one of the members (valid parameterisation)
            sl = getattr(self, 'current_sublist', None)
            if sl is not None:
                prelude.declare_fun('member_index', [t.INT, t.VAL], t.INT)
                w = t.app('member_index', t.INT, sl, v)
                st.assume(t.app('(_ is VStr)', t.BOOL, v))
                st.assume(t.app('truthy', t.BOOL, v))          # a member name is a non-empty string
                st.assume(t.and_(t.le(t.ZERO, w), t.lt(w, t.app('sl_len', t.INT, sl)), t.eq(t.app('sc_name', t.VAL, t.app('sl_at', t.INT, sl, w)), v)))
                # being a member's name, it is none of the structural scope entries (same hypothesis as in sub_attr 'name')
                for k in self.RESERVED:
                    st.assume(t.ne(v, t.app('VStr', t.VAL, S(k))))
        if p.pkind == 'unionfrom':
            # Union(parsefrom, ...): None, an index of a member, or the name of a member (valid parameterisation)
            sl = getattr(self, 'current_sublist', None)
            if sl is not None:
                prelude.declare_fun('member_index', [t.INT, t.VAL], t.INT)
                w = t.app('member_index', t.INT, sl, v)
                n = t.app('sl_len', t.INT, sl)
                named = t.and_(t.app('(_ is VStr)', t.BOOL, v), t.app('truthy', t.BOOL, v), t.le(t.ZERO, w), t.lt(w, n),
                               t.eq(t.app('sc_name', t.VAL, t.app('sl_at', t.INT, sl, w)), v))
                indexed = t.and_(t.app('(_ is VInt)', t.BOOL, v), t.le(t.ZERO, t.app('ival', t.INT, v)), t.lt(t.app('ival', t.INT, v), n))
                st.assume(t.or_(t.app('(_ is VNone)', t.BOOL, v), indexed, named))
        if p.pkind == 'restreamdata':
            prelude.declare_fun('is_io_BytesIO', [t.VAL], t.BOOL)
            prelude.declare_fun('is_Construct', [t.VAL], t.BOOL)
            st.assume(t.or_(t.app('(_ is VBytes)', t.BOOL, v), t.and_(t.app('(_ is VOpq)', t.BOOL, v), t.app('is_io_BytesIO', t.BOOL, v)),
                            t.and_(t.app('(_ is VOpq)', t.BOOL, v), t.app('is_Construct', t.BOOL, v))))

    def param_const(self, eng, p, st):
        c = self._param_const(eng, p, st)
        if isinstance(c, VInt) and p.pkind in ('int', 'modulus'):
            self.assume_int_domain(p, c.t, st)
        if p.pkind == 'hashable':
            st.assume(self.hashable(eng, c, st))
        if isinstance(c, VDyn):
            self.assume_param_domain(eng, p, c.t, st)
        return c

    def eval_param(self, eng, param, ctx, st):
        """model of construct.core:evaluate(param, context)"""
        if not isinstance(param, VParam):
            # a plain value: not callable
            if isinstance(param, (VInt, VBool, VNone, VBytes, VStr, VTuple, VRef)):
                return [(st, param)]
            raise OutOfReach('evaluate(%r)' % (param,))
        out = []
        if param.pkind == 'optstream':
            # None or another stream (constant or computed from the context: total either way)
            a, b = eng.fork(st, st.ghost['redirected'])
            if a is not None:
                out.append((a, a.ghost['otherstream']))
            if b is not None:
                out.append((b, NONE))
            return out
        isc, nc = eng.fork(st, param.callable_t)
        if isc is not None:
            out.extend(self.call_param(eng, param, [ctx], {}, isc, None))
        if nc is not None:
            out.append((nc, self.param_const(eng, param, nc)))
        return out

    def callable(self, eng, v, st):
        if isinstance(v, VDyn):
            prelude.declare_fun('dyn_callable', [t.VAL], t.BOOL)
            return t.app('dyn_callable', t.BOOL, v.t)
        if isinstance(v, (VSub, VObj)):
            return t.FALSE
        return None

    def param_isinstance(self, eng, v, tyname, st):
        return None

    # ================================================================= names, tables, singletons
    def global_name(self, eng, name, st):
        if name in self.extra_globals:
            g = self.extra_globals[name]
            return g(eng, st) if callable(g) else g
        if name in self.tables:
            return VFunc(name, model=('table', name))
        if name in ('this', 'obj_', 'list_', 'len_', 'sum_', 'min_', 'max_', 'abs_'):
            raise OutOfReach('expression placeholder %s' % name)
        return None

    def class_attr(self, eng, b, attr, st):
        key = '%s.%s' % (b.name, attr)
        if key in self.tables:
            return [(st, VFunc(key, model=('table', key)))]
        return None

    def obj_attr(self, eng, b, attr, st):
        return None

    def obj_getitem(self, eng, b, k, st):
        return None

    def sub_attr(self, eng, b, attr, st):
        return None

    def isinstance(self, eng, v, tyname, st):
        if isinstance(v, VObj):
            if tyname in self.src.classes and v.cls in self.src.classes:
                return Bc(self.src.is_subclass(v.cls, tyname))
            return t.FALSE
        if isinstance(v, (VInt, VBool, VNone, VBytes, VStr, VTuple)):
            return t.FALSE
        if isinstance(v, VRef):
            if tyname in self.src.classes or tyname in ('io.BytesIO',):
                o = st.get(v)
                if isinstance(o, OObject):
                    return Bc(o.cls == tyname or (o.cls in self.src.classes and self.src.is_subclass(o.cls, tyname)))
                return t.FALSE
        return None

    def call_dyn(self, eng, f, args, kws, st, node):
        """calling a value of unknown type (a user-supplied object): outside the properties (user callbacks); the result is
        unknown and any Exception may be raised"""
        prelude.declare_fun('dyn_callable', [t.VAL], t.BOOL)
        a, b = eng.fork(st, t.app('dyn_callable', t.BOOL, f.t))
        out = []
        if b is not None:
            out.extend(eng.raise_(b, 'TypeError', origin='calling a non-callable value'))
        if a is not None:
            a2 = a.clone()
            ec = fresh('user_exc', t.INT)
            a2.assume(eng.exc_sub_term(ec, 'Exception'))
            ex = VExc(ec, NONE, origin='user callable raised')
            ex.user = True
            out.append((a2, Raised(ex)))
            out.append((a, VDyn(fresh('user_result', t.VAL))))
        return out

    def call_uncontracted(self, eng, qual, selfv, args, kws, st, node):
        if qual.endswith(':HexDisplayedInteger.new'):
            # display subclass of int: modelled as its base value
            return [(st, args[0])]
        # a small helper of the repository without a contract of its own (e.g. a method a refactoring split off): its real body is
        # executed in place (loop-free, not recursive, nesting depth <= 2) - executing the code is always sound
        import ast as _ast
        if not self.src.has(qual):
            return None
        fn = self.src.find(qual)
        depth = getattr(eng, 'inline_depth', 0)
        if depth >= 2 or any(isinstance(n, (_ast.For, _ast.While, _ast.Yield, _ast.YieldFrom)) for n in _ast.walk(fn)) or \
                any(isinstance(n, _ast.Attribute) and n.attr == fn.name for n in _ast.walk(fn)):
            return None
        names = [a.arg for a in fn.args.args]
        call_args = ([selfv] if names and names[0] == 'self' and selfv is not None else []) + list(args)
        for ln in self.src.local_names(fn):
            pass
        fv = VFunc(qual, node=fn, closure={ln: UNBOUND for ln in self.src.local_names(fn)})
        eng.inline_depth = depth + 1
        try:
            return eng.call_closure(fv, call_args, kws, st)
        finally:
            eng.inline_depth = depth

    def abstract_self_call(self, eng, qual, selfv, args, kws, st, node):
        return None

    def super_call(self, eng, attr, node, st):
        raise OutOfReach('super().%s' % attr)

    def star_call(self, eng, node, st):
        return None

    def construct_class(self, eng, cls, args, kws, st, node):
        if cls.name == 'BytesIOWithOffsets':
            return self.new_offsets_stream(eng, args, kws, st)
        if cls.name == 'Container':
            return self.new_container(eng, args, kws, st)
        return None

    def new_offsets_stream(self, eng, args, kws, st):
        contents, parent, offset = args[0], args[1], args[2]
        b = self.models.as_bytes(eng, contents, st)
        if b is None:
            raise OutOfReach('BytesIOWithOffsets contents')
        off, ok = eng.as_int(offset, st)
        ref = streams.new_bytesio(eng, st, b, model='offsets', parent=parent, offset=off)
        return [(st, ref)]

    def new_container(self, eng, args, kws, st):
        H, D = self.H(st)
        r = st.ghost['alloc']
        st.ghost['alloc'] = t.add(r, t.ONE)
        f = t.T('Fields', 'select', (H, r))    # unspecified old content is overwritten key by key; presence map reset
        d = t.const_arr(t.FALSE, 'Keys')
        fields = fresh('emptyfields', 'Fields')
        if args:
            if len(args) == 1 and isinstance(args[0], VRef) and isinstance(st.get(args[0]), ODict) and st.get(args[0]).items is None:
                # a dict with computed keys: the new container holds some entries (not tracked: it is a result object)
                # its string-keyed entries are exactly the dict's entries with string keys
                fields = fresh('somefields', 'Fields')
                d = fresh('somekeys', 'Keys')
                od = st.get(args[0])
                key = t.var('ck!', t.STR)
                vk = t.app('VStr', t.VAL, key)
                st.assume(t.forall([key], t.and_(t.eq(t.T(t.BOOL, 'select', (d, key)), t.T(t.BOOL, 'select', (od.has, vk))),
                                                 t.implies(t.T(t.BOOL, 'select', (od.has, vk)), t.eq(t.T(t.VAL, 'select', (fields, key)), t.T(t.VAL, 'select', (od.get, vk))))),
                                   pats=[[t.T(t.BOOL, 'select', (d, key))], [t.T(t.VAL, 'select', (fields, key))]]))
            elif len(args) == 1 and isinstance(args[0], VRef) and isinstance(st.get(args[0]), ODict):
                for k, v in st.get(args[0]).items.items():
                    if k[0] != 'str':
                        raise OutOfReach('Container from dict with non-string key')
                    fields = t.T('Fields', 'store', (fields, S(k[1]), eng.to_dyn(v, st)))
                    d = t.T('Keys', 'store', (d, S(k[1]), t.TRUE))
            else:
                return None
        for k, v in kws.items():
            fields = t.T('Fields', 'store', (fields, S(k), eng.to_dyn(v, st)))
            d = t.T('Keys', 'store', (d, S(k), t.TRUE))
        st.ghost['H'] = t.T('Heap', 'store', (H, r, fields))
        st.ghost['D'] = t.T('Dom', 'store', (D, r, d))
        return [(st, st.alloc(OContainer(r, local=True), 'container'))]

    def builtin(self, eng, name, args, kws, st, node):
        return None

    def list_comprehension(self, eng, node, st):
        return None

    def len(self, eng, v, st):
        return None

    def to_list(self, eng, v, st, name):
        return None

    def fold(self, eng, name, gen, st):
        return None

    def iterate(self, eng, itv, st):
        return None

    def havoc_loop(self, eng, node, st, spec, names, mutated, calls_with):
        pass

    # ================================================================= bytes / str methods (E4-style assumed contracts)
    def bytes_join(self, eng, a0, st):
        """b''.join(chunks) where every chunk has the same constant length L (side obligation emitted)"""
        if isinstance(a0, VIter) and a0.what == 'gen':
            sv = builtins.gen_view(self.models, eng, a0, st)
        else:
            sv = builtins.seq_view(self.models, eng, a0, st)
        if sv is None:
            return None
        n = sv.n
        if n.op == 'int' and n.args[0] <= 64:
            parts = [self.models.as_bytes(eng, sv.at(I(j)), st) for j in range(n.args[0])]
            if all(p is not None for p in parts):
                return [(st, concat_bytes(eng, st, parts))]
            return None
        i = t.var('i!', t.INT)
        e = sv.at(i)
        eb = self.models.as_bytes(eng, e, st)
        if eb is None:
            return None
        L = self.guess_const_len(eb.len)
        if L is None:
            raise OutOfReach('join of chunks whose length is not constant')
        inr = t.and_(t.le(t.ZERO, i), t.lt(i, n))
        if not (eb.len.op == 'int'):
            eng.emit(st, '%s/join-chunks-have-length-%d' % (eng.fnname, L), t.forall([i], t.implies(inr, t.eq(eb.len, I(L)))), kind='side')
        out = []
        i0 = fresh('badchunk', t.INT)
        for cond, exc in list(getattr(sv, 'fails', [])):
            bst = st.clone()
            bst.assume(t.and_(t.le(t.ZERO, i0), t.lt(i0, n)))
            bst.assume(t.substitute(cond, {i.args[0]: i0}))
            if not bst.infeasible():
                out.append((bst, Raised(exc)))
        r = fresh('join', t.ARR)
        q = t.var('q!', t.INT)
        total = t.mul(I(L), t.imax(n, t.ZERO))
        # r[q] = chunk_(q div L)[q mod L]
        elem = t.substitute(eb.at(t.pymod(q, I(L))), {i.args[0]: t.pyfloordiv(q, I(L))})
        inr_s = {x.smt() for x in inr.args} | {inr.smt()}
        facts = [t.substitute(f, {i.args[0]: t.pyfloordiv(q, I(L))}) for f in getattr(sv, 'extra_facts', []) if f.smt() not in inr_s]
        st.assume(t.forall([q], t.implies(t.and_(t.le(t.ZERO, q), t.lt(q, total)), t.and_(t.eq(t.select(r, q), elem), *facts)),
                           pats=[[t.select(r, q)]]))
        return [(st, VBytes(r, t.ZERO, total))] + out

    def guess_const_len(self, ln):
        if ln.op == 'int':
            return ln.args[0]
        # max(min(a+L, n) - min(a, n), 0) shapes produced by slicing data[a:a+L]
        consts = []

        def walk(x):
            if x.op == 'int':
                consts.append(x.args[0])
            for y in x.args:
                if isinstance(y, t.T):
                    walk(y)
        walk(ln)
        pos = [c for c in consts if c > 0]
        return max(pos) if pos else None

    def bytes_method(self, eng, recv, name, args, kws, st):
        raise OutOfReach('bytes.%s' % name)

    def str_method(self, eng, recv, name, args, kws, st):
        return None
