"""Models of built-ins, stdlib objects (assumed contracts E1-E6) and dispatch of calls to contracts.

A CallModels instance is configured per verification run:
  stream_mode   'bytesio' (exact io.BytesIO model, E3) or 'adv' (adversarial stream: every method may raise any
                Exception subclass, read returns bytes of any length, write/seek/tell return any int)
  contracts     registry of repository functions under contract (used at call sites, never their bodies)
  ghost_mode    True when executing a ghost program (lemma): assert = obligation
"""
import ast

from . import terms as t
from .terms import I, Bc, S
from .values import *  # noqa
from .state import OutOfReach
from . import ops
from .ops import int_binop, concat_bytes

BUILTIN_FUNCS = {'len', 'isinstance', 'callable', 'bytes', 'bytearray', 'int', 'str', 'repr', 'range', 'reversed',
                 'enumerate', 'abs', 'min', 'max', 'sum', 'all', 'any', 'list', 'tuple', 'dict', 'type', 'iter', 'next',
                 'zip', 'hasattr', 'getattr', 'bool', 'id', 'hex', 'sorted', 'print', 'object', 'super', 'format', 'slice', 'open'}
BUILTIN_TYPES = {'int', 'bytes', 'bytearray', 'str', 'bool', 'dict', 'list', 'tuple', 'type', 'object', 'float', 'slice'}
MODULES = {'io', 'struct', 'itertools', 'binascii', 'collections', 'pickle', 'sys', 'os', 'hashlib', 'operator', 're'}


class CallModels:
    def __init__(self, src, contracts=None, stream_mode='bytesio', ghost_mode=False, globals_=None, interface=None):
        self.src = src
        self.contracts = contracts or {}
        self.stream_mode = stream_mode
        self.ghost_mode = ghost_mode
        self.globals = globals_ or {}
        self.interface = interface       # Interface instance (sub-construct calls, parameters, heap)
        self.this_module = 'construct.core'

    # ================================================================= names
    def global_name(self, eng, name, st):
        if name in self.globals:
            g = self.globals[name]
            return g(eng, st) if callable(g) else g
        if name in ('True', 'False', 'None'):
            return {'True': VBool(t.TRUE), 'False': VBool(t.FALSE), 'None': NONE}[name]
        if self.src.is_exc_class(name):
            return VClass(self.src.exc_canon(name))
        if name in self.src.singletons and self.interface is not None:
            r = self.interface.singleton(eng, name, st)
            if r is not None:
                return r
        if name in self.src.classes or name in ('Container', 'ListContainer'):
            return VClass(name)
        if name in BUILTIN_FUNCS or name in BUILTIN_TYPES:
            return VFunc(name, model=('builtin', name))
        if name in MODULES:
            return VModule(name)
        q = self.lookup_function(name)
        if q:
            return VFunc(name, model=('function', q))
        if self.interface is not None:
            r = self.interface.global_name(eng, name, st)
            if r is not None:
                return r
        return None

    def lookup_function(self, name):
        for mod in (self.this_module, 'construct.core', 'construct.lib.binary', 'construct.lib.py3compat', 'construct.lib.hex',
                    'construct.lib.containers', 'construct.lib.bitstream', 'construct.expr'):
            q = '%s:%s' % (mod, name)
            if self.src.has(q) and isinstance(self.src.find(q), ast.FunctionDef):
                return q
        return None

    # ================================================================= attributes
    def attr(self, eng, b, attr, st):
        if isinstance(b, VInstanceState) and attr in ('append', 'extend', 'insert', 'remove', 'pop', 'popitem', 'clear', 'update', 'setdefault', 'add', 'discard', 'sort', 'reverse'):
            # a mutating method of a list / dict / set kept on the instance: calling it changes the construct (C17)
            def mutate(m, e, a, kw, s, n, _b=b, _attr=attr):
                e.frame_violations.append(('call of %s on instance state %s.%s' % (_attr, _b.cls, _b.attr), s.clone()))
                return [(s, NONE)]
            return [(st, VFunc('%s.%s.%s' % (b.cls, b.attr, attr), model=('model', mutate)))]
        if isinstance(b, VExc):
            if attr == 'path':
                return [(st, b.path)]
            return None
        if isinstance(b, VModule):
            full = b.name + '.' + attr
            if full in ('io.BytesIO', 'struct.pack', 'struct.unpack', 'struct.calcsize', 'itertools.count', 'itertools.cycle',
                        'binascii.hexlify', 'binascii.unhexlify', 're.compile', 'struct.Struct', 'io.StringIO'):
                return [(st, VFunc(full, model=('builtin', full)))]
            if b.name == 'operator':
                return [(st, VFunc(full, model=('builtin', full)))]
            if full == 'struct.error':
                return [(st, VClass('StructError'))]
            if full in ('io.SEEK_SET', 'io.SEEK_CUR', 'io.SEEK_END'):
                return [(st, VInt(I({'SEEK_SET': 0, 'SEEK_CUR': 1, 'SEEK_END': 2}[attr])))]
            if full == 'sys.maxsize':
                return [(st, VInt(I(2 ** 63 - 1)))]
            return None
        if isinstance(b, VFunc) and b.model == ('builtin', 'int') and attr in ('to_bytes', 'from_bytes'):
            return [(st, VFunc('int.' + attr, model=('builtin', 'int.' + attr)))]
        if isinstance(b, VClass):
            q = self.src.resolve_method(b.name, attr) if b.name in self.src.classes else None
            if q:
                fn = self.src.find(q)
                if any(isinstance(d, ast.Name) and d.id == 'staticmethod' for d in fn.decorator_list):
                    return [(st, VFunc(attr, model=('function', q)))]
                return [(st, VFunc(attr, model=('classmethod', q, b.name)))]
            if self.interface is not None:
                r = self.interface.class_attr(eng, b, attr, st)
                if r is not None:
                    return r
            return None
        if isinstance(b, (VSub, VParam)) and self.interface is not None:
            return self.interface.sub_attr(eng, b, attr, st)
        if isinstance(b, VRef):
            o = st.get(b)
            if isinstance(o, OContainer) and self.interface is not None:
                return self.interface.container_getattr(eng, b, o, attr, st)
            if isinstance(o, OObject):
                if attr in o.fields:
                    return [(st, o.fields[attr])]
                q = self.src.resolve_method(o.cls, attr) if o.cls in self.src.classes else None
                if q:
                    return [(st, VFunc(attr, bound=b, model=('method', q)))]
                return None
            if isinstance(o, OStream):
                if attr in o.extra:
                    return [(st, o.extra[attr])]
                cls = o.extra.get('__class')
                if cls is not None:
                    q = self.src.resolve_method(cls, attr)
                    if q:
                        return [(st, VFunc(attr, bound=b, model=('method', q)))]
                return [(st, VFunc(attr, bound=b, model=('streammethod', attr)))]
        if isinstance(b, VDyn) and self.interface is not None:
            return self.interface.dyn_getattr(eng, b, attr, st)
        return None

    def obj_attr(self, eng, b, attr, st):
        if self.interface is not None:
            return self.interface.obj_attr(eng, b, attr, st)
        return None

    def setattr(self, eng, b, attr, v, st):
        if isinstance(b, VRef):
            o = st.get(b)
            if isinstance(o, OContainer) and self.interface is not None:
                return self.interface.container_set(eng, b, o, attr, v, st, 'attr')
            if isinstance(o, OObject):
                f = dict(o.fields)
                f[attr] = v
                st.put(b, OObject(o.cls, f))
                return [(st, NONE)]
            if isinstance(o, OStream):
                ex = dict(o.extra)
                ex[attr] = v
                st.put(b, o.replace(extra=ex))
                return [(st, NONE)]
        if isinstance(b, VObj):
            # store to an attribute of self / a construct: a frame violation unless we are in __init__
            if getattr(eng, 'allow_self_store', False):
                b.fields[attr] = v
                return [(st, NONE)]
            eng.frame_violations.append(('store to attribute %s of %s' % (attr, b.cls), st.clone()))
            return [(st, NONE)]
        if isinstance(b, VInstanceState):
            eng.frame_violations.append(('store to attribute %s of instance state %s.%s' % (attr, b.cls, b.attr), st.clone()))
            return [(st, NONE)]
        if isinstance(b, (VSub, VParam, VClass, VModule)):
            eng.frame_violations.append(('store to attribute %s of %s' % (attr, b.kind), st.clone()))
            return [(st, NONE)]
        if isinstance(b, VDyn) and self.interface is not None:
            return self.interface.dyn_setattr(eng, b, attr, v, st)
        raise OutOfReach('setattr on %r' % (b,))

    def setitem(self, eng, b, key, v, st):
        if isinstance(b, VInstanceState):
            eng.frame_violations.append(('item store into instance state %s.%s' % (b.cls, b.attr), st.clone()))
            return [(st, NONE)]
        if type(b).__name__ in ('VMap', 'VSubList'):
            # item store into a mapping / member list that belongs to the construct (C17)
            eng.frame_violations.append(('item store into a %s attribute of the construct' % ('mapping' if type(b).__name__ == 'VMap' else 'member list'), st.clone()))
            return [(st, NONE)]
        if isinstance(b, VRef):
            o = st.get(b)
            if isinstance(o, OContainer) and self.interface is not None:
                return self.interface.container_set(eng, b, o, key, v, st, 'item')
            if isinstance(o, ODict):
                if o.items is not None:
                    try:
                        items = dict(o.items)
                        items[eng.hashable(key)] = v
                        st.put(b, ODict(items))
                        return [(st, NONE)]
                    except OutOfReach:
                        o = self.symbolic_dict(eng, o, st)
                kt = eng.to_dyn(key, st)
                st.put(b, ODict(has=t.T('VMapHas', 'store', (o.has, kt, t.TRUE)), get=t.T('VMapGet', 'store', (o.get, kt, eng.to_dyn(v, st)))))
                return [(st, NONE)]
            if isinstance(o, OBytearray):
                iv, ok = eng.as_int(key, st)
                vv, okv = eng.as_int(v, st)
                if iv is None or vv is None:
                    raise OutOfReach('bytearray store')
                out = []
                inb, oob = eng.fork(st, t.and_(t.le(t.neg(o.len), iv), t.lt(iv, o.len)))
                if inb is not None:
                    idx = t.ite(t.lt(iv, t.ZERO), t.add(iv, o.len), iv) if not (iv.op == 'int' and iv.args[0] >= 0) else iv
                    okr, bad = eng.fork(inb, t.and_(t.le(t.ZERO, vv), t.lt(vv, I(256))))
                    if okr is not None:
                        okr.put(b, OBytearray(t.store(o.arr, idx, vv), o.len))
                        out.append((okr, NONE))
                    if bad is not None:
                        out.extend(eng.raise_(bad, 'ValueError', origin='byte must be in range(0, 256)'))
                if oob is not None:
                    out.extend(eng.raise_(oob, 'IndexError', origin='bytearray index out of range'))
                return out
            if isinstance(o, OList) and o.concrete:
                iv, ok = eng.as_int(key, st)
                if iv is not None and iv.op == 'int' and -len(o.items) <= iv.args[0] < len(o.items):
                    items = list(o.items)
                    items[iv.args[0]] = v
                    st.put(b, OList(items=tuple(items), cls=o.cls))
                    return [(st, NONE)]
        if isinstance(b, VDyn) and self.interface is not None:
            return self.interface.dyn_setitem(eng, b, key, v, st)
        raise OutOfReach('setitem on %r' % (b,))

    # ================================================================= indexing
    def index(self, eng, b, k, st):
        if type(b).__name__ == 'VSubList':
            # self.subcons[i]: member i of the member list (list indexing: negative indexes count from the end)
            from .constructs import VSub
            iv, ok = eng.as_int(k, st)
            if iv is None:
                raise OutOfReach('member list indexed by a non-integer')
            n = t.app('sl_len', t.INT, b.ident)
            st.assume(t.ge(n, t.ZERO))
            out = []
            good, bad = eng.fork(st, t.and_(ok, t.le(t.neg(n), iv), t.lt(iv, n)))
            if good is not None:
                idx = t.ite(t.lt(iv, t.ZERO), t.add(iv, n), iv)
                out.append((good, VSub(t.app('sl_at', t.INT, b.ident, idx), 'member')))
            if bad is not None:
                out.extend(eng.raise_(bad, 'IndexError', origin='member list index out of range'))
            return out
        if isinstance(b, VFunc) and b.model and b.model[0] == 'table':
            return self.interface.tables[b.model[1]].lookup(eng, k, st)
        if isinstance(b, VRef):
            o = st.get(b)
            if isinstance(o, OContainer) and self.interface is not None:
                return self.interface.container_getitem(eng, b, o, k, st)
            if isinstance(o, ODict):
                if o.items is not None:
                    try:
                        hk = eng.hashable(k)
                        if hk in o.items:
                            return [(st, o.items[hk])]
                        return eng.raise_(st, 'KeyError', origin='dict key')
                    except OutOfReach:
                        o = self.symbolic_dict(eng, o, st)
                kt = eng.to_dyn(k, st)
                a, c = eng.fork(st, t.T(t.BOOL, 'select', (o.has, kt)))
                out = []
                if a is not None:
                    out.append((a, VDyn(t.T(t.VAL, 'select', (o.get, kt)))))
                if c is not None:
                    out.extend(eng.raise_(c, 'KeyError', origin='dict key'))
                return out
            if isinstance(o, OList):
                if o.concrete:
                    iv, ok = eng.as_int(k, st)
                    if iv is not None and iv.op == 'int':
                        n = len(o.items)
                        if -n <= iv.args[0] < n:
                            return [(st, o.items[iv.args[0]])]
                        return eng.raise_(st, 'IndexError', origin='list index')
                    raise OutOfReach('symbolic index into concrete list')
                return self.seq_index(eng, st, k, o.len, lambda i: self.list_elem(eng, o, i), 'list')
            if isinstance(o, OBytearray):
                return self.seq_index(eng, st, k, o.len, lambda i: VInt(t.select(o.arr, i)), 'bytearray')
            if isinstance(o, OObject):
                # obj[k] on an object of a repository class: its __getitem__, through the contract
                q = self.src.resolve_method(o.cls, '__getitem__') if o.cls in self.src.classes else None
                if q is not None and q in self.contracts:
                    return self.call_contract(eng, q, b, [k if isinstance(k, VDyn) else VDyn(eng.to_dyn(k, st))], {}, st, None)
        if isinstance(b, VBytes):
            return self.seq_index(eng, st, k, b.len, lambda i: VInt(b.at(i)), 'bytes')
        if b.kind == 'map':
            return self.interface.map_index(eng, b, k, st)
        if isinstance(b, VTuple):
            iv, ok = eng.as_int(k, st)
            if iv is not None and iv.op == 'int' and -len(b.items) <= iv.args[0] < len(b.items):
                return [(st, b.items[iv.args[0]])]
            raise OutOfReach('tuple index')
        if isinstance(b, VDyn) and self.interface is not None:
            return self.interface.dyn_getitem(eng, b, k, st)
        if isinstance(b, (VObj, VSub)) and self.interface is not None:
            r = self.interface.obj_getitem(eng, b, k, st)
            if r is not None:
                return r
        raise OutOfReach('index into %r' % (b,))

    def symbolic_dict(self, eng, o, st):
        has = t.const_arr(t.FALSE, 'VMapHas')
        get = fresh('dictvals', 'VMapGet')
        for k, v in o.items.items():
            kt = eng.to_dyn(eng.from_const(k[1] if len(k) > 1 else None, st), st)
            has = t.T('VMapHas', 'store', (has, kt, t.TRUE))
            get = t.T('VMapGet', 'store', (get, kt, eng.to_dyn(v, st)))
        return ODict(has=has, get=get)

    def list_elem(self, eng, o, i):
        if o.ekind == 'int':
            return VInt(t.select(o.arr, i))
        if o.ekind == 'val':
            return VDyn(t.T(t.VAL, 'select', (o.arr, i)))
        raise OutOfReach('list element kind')

    def seq_index(self, eng, st, k, ln, elem, what):
        iv, ok = eng.as_int(k, st)
        if iv is None:
            return eng.raise_(st, 'TypeError', origin='%s indices must be integers' % what)

        def go(st1):
            out = []
            inb, oob = eng.fork(st1, t.and_(t.le(t.neg(ln), iv), t.lt(iv, ln)))
            if inb is not None:
                if iv.op == 'int':
                    idx = iv if iv.args[0] >= 0 else t.add(ln, iv)
                else:
                    k1 = inb.known(t.ge(iv, t.ZERO))
                    idx = iv if k1 else t.ite(t.lt(iv, t.ZERO), t.add(iv, ln), iv)
                out.append((inb, elem(idx)))
            if oob is not None:
                out.extend(eng.raise_(oob, 'IndexError', origin='%s index out of range' % what))
            return out
        return eng.typed(st, ok, go, 'index')

    def slice(self, eng, b, lo, hi, step, st):
        if isinstance(b, VRef):
            o = st.get(b)
            if isinstance(o, OBytearray):
                b = VBytes(o.arr, t.ZERO, o.len)
            elif isinstance(o, OList) and o.concrete:
                def conc(v):
                    if isinstance(v, VNone):
                        return None
                    iv, _ = eng.as_int(v, st)
                    if iv is None or iv.op != 'int':
                        raise OutOfReach('symbolic slice of concrete list')
                    return iv.args[0]
                return [(st, st.alloc(OList(items=tuple(o.items[conc(lo):conc(hi):conc(step)]), cls='list'), 'list'))]
        if not isinstance(b, VBytes):
            if isinstance(b, VDyn) and self.interface is not None:
                return self.interface.dyn_slice(eng, b, lo, hi, step, st)
            raise OutOfReach('slice of %r' % (b,))
        if not isinstance(step, VNone):
            sv, _ = eng.as_int(step, st)
            if sv is not None and sv.op == 'int' and sv.args[0] == -1 and isinstance(lo, VNone) and isinstance(hi, VNone):
                r = fresh('rev', t.ARR)
                i = t.var('i!', t.INT)
                st.assume(t.forall([i], t.implies(t.and_(t.le(t.ZERO, i), t.lt(i, b.len)),
                                                  t.eq(t.select(r, i), b.at(t.sub(t.sub(b.len, t.ONE), i)))), pats=[[t.select(r, i)]]))
                return [(st, VBytes(r, t.ZERO, b.len))]
            raise OutOfReach('slice step')

        def norm(v, default):
            if isinstance(v, VNone):
                return default
            iv, ok = eng.as_int(v, st)
            if iv is None or not (ok.op == 'bool' and ok.args[0]) and st.known(ok) is not True:
                raise OutOfReach('slice bound of kind %s' % v.kind)
            if iv.op == 'int':
                if iv.args[0] >= 0:
                    return t.imin(iv, b.len)
                return t.imax(t.add(b.len, iv), t.ZERO)
            k = st.known(t.ge(iv, t.ZERO))
            if k is True:
                return t.imin(iv, b.len)
            return t.ite(t.lt(iv, t.ZERO), t.imax(t.add(b.len, iv), t.ZERO), t.imin(iv, b.len))
        a = norm(lo, t.ZERO)
        z = norm(hi, b.len)
        ln = t.imax(t.sub(z, a), t.ZERO)
        return [(st, VBytes(b.arr, t.add(b.off, a), ln))]

    # ================================================================= operators
    def binop(self, eng, op, a, b, st, node):
        # string formatting / concatenation
        if isinstance(a, VStr):
            if isinstance(op, ast.Mod):
                return self.str_format(eng, a, b, st)
            if isinstance(op, ast.Add) and isinstance(b, VStr):
                if a.t is None or b.t is None:
                    return [(st, VStr(None))]
                return [(st, VStr(t.str_concat(a.t, b.t)))]
            if isinstance(op, ast.Add):
                return eng.raise_(st, 'TypeError', origin='str + non-str')
        ab = self.as_bytes(eng, a, st)
        bb = self.as_bytes(eng, b, st)
        if ab is not None and bb is not None and isinstance(op, ast.Add):
            return [(st, concat_bytes(eng, st, [ab, bb]))]
        if ab is not None and isinstance(op, ast.Mult) or bb is not None and isinstance(op, ast.Mult):
            by, cnt = (ab, b) if ab is not None else (bb, a)
            iv, ok = eng.as_int(cnt, st)
            if iv is None:
                return eng.raise_(st, 'TypeError', origin='bytes * non-int')

            def go(st1):
                if by.len.op == 'int' and by.len.args[0] == 1:
                    return [(st1, ops.repeat_byte(eng, st1, by, iv))]
                if iv.op == 'int' and by.len.op == 'int' and iv.args[0] * by.len.args[0] <= 64:
                    return [(st1, concat_bytes(eng, st1, [by] * max(iv.args[0], 0)))]
                raise OutOfReach('bytes * n for multi-byte pattern')
            return eng.typed(st, ok, go, 'bytes * count')
        if isinstance(a, VRef) and isinstance(b, VRef) and isinstance(op, ast.Add):
            oa, ob = st.get(a), st.get(b)
            if isinstance(oa, OList) and isinstance(ob, OList) and oa.concrete and ob.concrete:
                return [(st, st.alloc(OList(items=oa.items + ob.items), 'list'))]
        if isinstance(a, VRef) and isinstance(op, ast.Mult):
            oa = st.get(a)
            iv, ok = eng.as_int(b, st)
            if isinstance(oa, OList) and oa.concrete and iv is not None and iv.op == 'int':
                return [(st, st.alloc(OList(items=oa.items * iv.args[0]), 'list'))]
            if isinstance(oa, OList) and oa.concrete and len(oa.items) == 1 and iv is not None:
                # [x] * n for a symbolic n: n copies of x (none when n <= 0)
                def go_rep(st1):
                    elt = eng.to_dyn(oa.items[0], st1)
                    arr = t.T('VArr', 'constvarr', ())
                    arr._s = '((as const (Array Int Val)) %s)' % elt.smt()
                    return [(st1, st1.alloc(OList(arr=arr, ln=t.imax(iv, t.ZERO), ekind='val'), 'list'))]
                return eng.typed(st, ok, go_rep, 'list * count')
        ia, oka = eng.as_int(a, st)
        ib, okb = eng.as_int(b, st)
        if ia is not None and ib is not None:
            def go(st1):
                return int_binop(eng, op, ia, ib, st1)
            okc = t.and_(oka, okb)
            if okc.op == 'bool' and okc.args[0]:
                return go(st)
            # dynamic operands: ints, or something else (TypeError or a result the model does not know)
            x, y = eng.fork(st, okc)
            out = []
            if x is not None:
                out.extend(go(x))
            if y is not None:
                y2 = y.clone()
                out.extend(eng.raise_(y, 'TypeError', origin='operand types of %s' % type(op).__name__))
                out.append((y2, VDyn(fresh('dynop', t.VAL))))
            return out
        return None

    def as_bytes(self, eng, v, st):
        if isinstance(v, VBytes):
            return v
        if isinstance(v, VRef):
            o = st.get(v)
            if isinstance(o, OBytearray):
                return VBytes(o.arr, t.ZERO, o.len)
        return None

    def str_format(self, eng, fmt, arg, st):
        """'...' % args: total for the types modelled (P7); %d needs ints"""
        if fmt.t is not None and fmt.t.op == 'strlit':
            f = fmt.t.args[0]
            args = list(arg.items) if isinstance(arg, VTuple) else [arg]
            import re
            specs = re.findall(r'%[-0-9.]*([a-zA-Z%])', f)
            specs = [s for s in specs if s != '%']
            if len(specs) == len(args):
                conds = []
                for sp, a in zip(specs, args):
                    if sp in 'dxX':
                        iv, ok = eng.as_int(a, st)
                        conds.append(ok)
                okc = t.and_(*conds) if conds else t.TRUE
                # path-extension format used by Renamed: ' -> %s' % (name,)
                if specs == ['s'] and isinstance(args[0], VStr) and args[0].t is not None and f.endswith('%s') and f.count('%') == 1:
                    res = VStr(t.str_concat(S(f[:-2]), args[0].t))
                elif specs == ['s'] and isinstance(args[0], VDyn) and f.endswith('%s') and f.count('%') == 1:
                    from . import prelude
                    prelude.declare_fun('tostr', [t.VAL], t.STR)
                    res = VStr(t.str_concat(S(f[:-2]), t.app('tostr', t.STR, args[0].t)))
                else:
                    res = VStr(None)
                return eng.typed(st, okc, lambda st1: [(st1, res)], '%d formatting')
        return [(st, VStr(None))]

    def compare(self, eng, op, a, b, st):
        if isinstance(op, (ast.Eq, ast.NotEq)):
            c = eng.pyeq(a, b, st)
            return [(st, VBool(c if isinstance(op, ast.Eq) else t.not_(c)))]
        if isinstance(op, (ast.Is, ast.IsNot)):
            c = self.identity(eng, a, b, st)
            return [(st, VBool(c if isinstance(op, ast.Is) else t.not_(c)))]
        if isinstance(op, (ast.In, ast.NotIn)):
            r = self.contains(eng, b, a, st)
            if r is None:
                return None
            if isinstance(op, ast.In):
                return r
            return [(s, v if isinstance(v, Raised) else VBool(t.not_(v.t))) for s, v in r]
        ia, oka = eng.as_int(a, st)
        ib, okb = eng.as_int(b, st)
        if ia is not None and ib is not None:
            okc = t.and_(oka, okb)
            f = ops.CMP[type(op)]
            if okc.op == 'bool' and okc.args[0]:
                return [(st, VBool(f(ia, ib)))]
            x, y = eng.fork(st, okc)
            out = []
            if x is not None:
                out.append((x, VBool(f(ia, ib))))
            if y is not None:
                y2 = y.clone()
                out.extend(eng.raise_(y, 'TypeError', origin='ordering comparison of non-ints'))
                out.append((y2, VBool(fresh('dyncmp', t.BOOL))))
            return out
        return None

    def identity(self, eng, a, b, st):
        if isinstance(a, VNone) or isinstance(b, VNone):
            o = b if isinstance(a, VNone) else a
            if isinstance(o, VNone):
                return t.TRUE
            if isinstance(o, VDyn):
                return t.app('(_ is VNone)', t.BOOL, o.t)
            if isinstance(o, VParam):
                return t.and_(t.not_(o.callable_t), self.identity(eng, self.param_const(eng, o, st), NONE, st))
            return t.FALSE
        if a.kind == 'typeof' or b.kind == 'typeof':
            ty, other = (a, b) if a.kind == 'typeof' else (b, a)
            from . import builtins
            names = builtins.type_names(eng, other, st)
            v = ty.v
            if names == ['int']:
                # exact type: bool is not int
                if isinstance(v, VDyn):
                    return t.app('(_ is VInt)', t.BOOL, v.t)
                return Bc(isinstance(v, VInt))
            return builtins.type_test(self, eng, v, names[0], st)
        if isinstance(a, VClass) and isinstance(b, VClass):
            return Bc(a.name == b.name)
        if isinstance(a, VFunc) and isinstance(b, VFunc):
            return Bc(a.model == b.model and a.model is not None)
        if isinstance(a, VRef) and isinstance(b, VRef):
            return Bc(a.loc == b.loc)
        if isinstance(a, VBool) and isinstance(b, VBool):
            return t.eq(a.t, b.t)
        raise OutOfReach('is on %s/%s' % (a.kind, b.kind))

    def contains(self, eng, container, item, st):
        if isinstance(container, VTuple):
            return [(st, VBool(t.or_(*[eng.pyeq(item, x, st) for x in container.items])))]
        if isinstance(container, VRef):
            o = st.get(container)
            if isinstance(o, OList) and o.concrete:
                return [(st, VBool(t.or_(*[eng.pyeq(item, x, st) for x in o.items])))]
            if isinstance(o, ODict) and o.items is None:
                return [(st, VBool(t.T(t.BOOL, 'select', (o.has, eng.to_dyn(item, st)))))]
            if isinstance(o, ODict):
                try:
                    return [(st, VBool(Bc(eng.hashable(item) in o.items)))]
                except OutOfReach:
                    conds = []
                    for k in o.items:
                        kv = eng.from_const(k[1] if len(k) > 1 else None, st)
                        conds.append(eng.pyeq(item, kv, st))
                    return [(st, VBool(t.or_(*conds)))]
            if isinstance(o, OContainer) and self.interface is not None:
                return self.interface.container_contains(eng, container, o, item, st)
        if container.kind == 'map':
            return self.interface.map_contains(eng, container, item, st)
        if isinstance(container, VStr) and isinstance(item, VStr):
            if container.t is not None and item.t is not None:
                if container.t.op == 'strlit' and item.t.op == 'strlit':
                    return [(st, VBool(Bc(item.t.args[0] in container.t.args[0])))]
                return [(st, VBool(t.app('str.contains', t.BOOL, container.t, item.t)))]
        if isinstance(container, VDyn) and self.interface is not None:
            return self.interface.dyn_contains(eng, container, item, st)
        return None

    def unpack(self, eng, v, n, st):
        if isinstance(v, VTuple) and len(v.items) == n:
            return list(v.items)
        if isinstance(v, VRef):
            o = st.get(v)
            if isinstance(o, OList) and o.concrete and len(o.items) == n:
                return list(o.items)
        if isinstance(v, VStr) and v.t is not None and v.t.op == 'strlit' and len(v.t.args[0]) == n:
            return [VStr(S(c)) for c in v.t.args[0]]
        return None

    def param_const(self, eng, p, st):
        return self.interface.param_const(eng, p, st)

    # ================================================================= calls
    def call(self, eng, f, args, kws, st, node):
        if isinstance(f, VFunc):
            if f.node is not None:
                return eng.call_closure(f, args, kws, st)
            m = f.model
            if m is None:
                return None
            if m[0] == 'builtin':
                from . import builtins
                return builtins.call_builtin(self, eng, m[1], args, kws, st, node)
            if m[0] == 'function':
                return self.call_contract(eng, m[1], None, args, kws, st, node)
            if m[0] == 'method':
                if self.interface is not None:
                    r = self.interface.abstract_self_call(eng, m[1], f.bound, args, kws, st, node)
                    if r is not None:
                        return r
                return self.call_contract(eng, m[1], f.bound, args, kws, st, node)
            if m[0] == 'classmethod':
                # Class.method(obj, ...) : explicit self
                return self.call_contract(eng, m[1], args[0] if args else None, args[1:], kws, st, node, via_class=m[2])
            if m[0] == 'streammethod':
                from . import streams
                return streams.stream_method(self, eng, f.bound, m[1], args, kws, st)
            if m[0] == 'model':
                return m[1](self, eng, args, kws, st, node)
        if isinstance(f, VClass):
            from . import builtins
            return builtins.construct_class(self, eng, f, args, kws, st, node)
        if isinstance(f, VParam) and self.interface is not None:
            return self.interface.call_param(eng, f, args, kws, st, node)
        if isinstance(f, VDyn) and self.interface is not None:
            return self.interface.call_dyn(eng, f, args, kws, st, node)
        return None

    def method(self, eng, recv, name, args, kws, st, node):
        from . import builtins
        r = builtins.call_method(self, eng, recv, name, args, kws, st, node)
        if r is not None:
            return r
        # generic: attribute then call
        got = eng.getattr(recv, name, st, node)
        out = []
        for st1, fv in got:
            if isinstance(fv, Raised):
                out.append((st1, fv))
            else:
                out.extend(eng.call_value(fv, args, kws, st1, node))
        return out

    def call_contract(self, eng, qual, selfv, args, kws, st, node, via_class=None):
        c = self.contracts.get(qual)
        if c is None:
            if self.interface is not None:
                r = self.interface.call_uncontracted(eng, qual, selfv, args, kws, st, node)
                if r is not None:
                    return r
            raise OutOfReach('call to %s which has no contract' % qual)
        return c.use(eng, st, selfv, args, kws)

    def super_call(self, eng, attr, node, st):
        if self.interface is not None:
            return self.interface.super_call(eng, attr, node, st)
        raise OutOfReach('super()')

    def star_call(self, eng, node, st):
        if self.interface is not None:
            r = self.interface.star_call(eng, node, st)
            if r is not None:
                return r
        raise OutOfReach('call with * or **')

    # ================================================================= iteration / comprehensions
    def iterate(self, eng, itv, st):
        from . import builtins
        return builtins.iterate(self, eng, itv, st)

    def comprehension(self, eng, node, st, kind):
        from . import builtins
        return builtins.comprehension(self, eng, node, st, kind)

    def havoc_loop(self, eng, node, st, spec):
        from . import builtins
        return builtins.havoc_loop(self, eng, node, st, spec)
