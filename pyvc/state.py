"""Execution state of the symbolic executor: environment, path condition, object store, ghost variables."""
from . import terms as t
from .values import *  # noqa


class OutOfReach(Exception):
    """the function uses something the executor does not model: it is reported as not under proof,
    never guessed (DESIGN.md 1.2)"""


_loc = [0]


def new_loc():
    _loc[0] += 1
    return _loc[0]


class State:
    def __init__(self):
        self.env = {}
        self.pc = []
        self.pcset = set()
        self.store = {}
        self.ghost = {}
        self.log = []           # interface-call log, used to instantiate relational traits (rt, sized, ...)
        self.excstack = []      # exceptions being handled (for bare raise)
        self.notes = []

    def clone(self):
        s = State.__new__(State)
        s.env = dict(self.env)
        s.pc = list(self.pc)
        s.pcset = set(self.pcset)
        s.store = dict(self.store)
        s.ghost = dict(self.ghost)
        s.log = list(self.log)
        s.excstack = list(self.excstack)
        s.notes = list(self.notes)
        return s

    # ---- path condition
    def assume(self, cond):
        if cond.op == 'bool':
            if cond.args[0]:
                return True
            self.pc.append(cond)
            self.pcset.add(cond.smt())
            return False
        if cond.op == 'and':
            ok = True
            for c in cond.args:
                ok = self.assume(c) and ok
            return ok
        if cond.op == '=>' and self.known(cond.args[0]) is True:
            return self.assume(cond.args[1])
        k = cond.smt()
        if k in self.pcset:
            return True
        if t.not_(cond).smt() in self.pcset:
            self.pc.append(t.FALSE)
            self.pcset.add('false')
            return False
        self.pc.append(cond)
        self.pcset.add(k)
        return True

    def infeasible(self):
        return 'false' in self.pcset

    def known(self, cond):
        """True / False if decided syntactically by the path condition, else None"""
        if cond.op == 'bool':
            return cond.args[0]
        if cond.smt() in self.pcset:
            return True
        if t.not_(cond).smt() in self.pcset:
            return False
        if cond.op == 'or':
            if any(self.known(c) is True for c in cond.args):
                return True
            if all(self.known(c) is False for c in cond.args):
                return False
        if cond.op == 'and':
            if all(self.known(c) is True for c in cond.args):
                return True
            if any(self.known(c) is False for c in cond.args):
                return False
        if cond.op == 'not':
            k = self.known(cond.args[0])
            return None if k is None else (not k)
        if cond.op.startswith('(_ is ') and len(cond.args) == 1:
            # constructors of the Val datatype are disjoint: another tester already asserted of the same term decides this one
            x = cond.args[0].smt()
            for other in ('VNone', 'VInt', 'VBool', 'VBytes', 'VStr', 'VRef', 'VOpq'):
                o = '(_ is %s)' % other
                if o != cond.op and ('(%s %s)' % (o, x)) in self.pcset:
                    return False
        return None

    # ---- store
    def alloc(self, obj, okind):
        loc = new_loc()
        self.store[loc] = obj
        return VRef(loc, okind)

    def get(self, ref):
        return self.store[ref.loc]

    def put(self, ref, obj):
        self.store[ref.loc] = obj
