"""SMT prelude: the Val datatype, helper definitions and the registry of specification functions.

Specification functions are registered with their SMT definition, their dependencies and (where it exists)
a native Python twin, so that they can be differential-tested against CPython (DESIGN.md 3.4).
Only the definitions an obligation mentions (dependency closure) are printed into its query.
"""
from . import terms as t

DATATYPES = """(declare-datatypes ((Val 0)) (((VNone) (VInt (ival Int)) (VBool (bval Bool))
  (VBytes (barr (Array Int Int)) (boff Int) (blen Int)) (VStr (sval String)) (VRef (ref Int)) (VOpq (oid Int)))))
"""


class Spec:
    def __init__(self, name, smt, deps=(), py=None, kind='define', doc=''):
        self.name, self.smt, self.deps, self.py, self.kind, self.doc = name, smt, tuple(deps), py, kind, doc
        self.decl = None
        if smt.startswith('(define-fun-rec'):
            self.decl = rec_to_decl(smt)


def rec_to_decl(smt):
    """(define-fun-rec f ((a S) ...) R body)  ->  (declare-fun f (S ...) R): the function as an uninterpreted symbol"""
    assert smt.startswith('(define-fun-rec ')
    rest = smt[len('(define-fun-rec '):]
    name, rest = rest.split(' ', 1)
    # parameter list: balanced parentheses
    depth, i = 0, 0
    while True:
        if rest[i] == '(':
            depth += 1
        elif rest[i] == ')':
            depth -= 1
            if depth == 0:
                break
        i += 1
    params = rest[1:i]
    after = rest[i + 1:].lstrip()
    # return sort: an atom or a parenthesised sort
    if after[0] == '(':
        depth, j = 0, 0
        while True:
            if after[j] == '(':
                depth += 1
            elif after[j] == ')':
                depth -= 1
                if depth == 0:
                    break
            j += 1
        ret = after[:j + 1]
    else:
        ret = after.split()[0]
    sorts = []
    depth, cur = 0, ''
    for ch in params:
        if ch == '(':
            depth += 1
            if depth == 1:
                cur = ''
                continue
        if ch == ')':
            depth -= 1
            if depth == 0:
                # cur = 'name sort'
                sorts.append(cur.strip().split(' ', 1)[1])
                continue
        cur += ch
    return '(declare-fun %s (%s) %s)' % (name, ' '.join(sorts), ret)


REGISTRY = {}
ORDER = []
INSTANCE_GENERATORS = []   # functions (hyps, goal) -> extra ground hypotheses (trait instances on occurring applications)
AXIOMATIZED = {}      # function name -> (application term -> list of definitional axioms), instantiated per occurrence


def define(name, smt, deps=(), py=None, kind='define', doc=''):
    REGISTRY[name] = Spec(name, smt.strip(), deps, py, kind, doc)
    if name not in ORDER:
        ORDER.append(name)


def declare_fun(name, argsorts, ret):
    smt = '(declare-fun %s (%s) %s)' % (name, ' '.join(t.SORT_SMT.get(s, s) for s in argsorts), t.SORT_SMT.get(ret, ret))
    define(name, smt, kind='declare')


def closure(names):
    need = set()
    stack = [n for n in names if n in REGISTRY]
    while stack:
        n = stack.pop()
        if n in need:
            continue
        need.add(n)
        stack.extend(d for d in REGISTRY[n].deps if d in REGISTRY)
    return [REGISTRY[n] for n in ORDER if n in need]


# ------------------------------------------------------------------ always-available helpers on Val
define('isint', '(define-fun isint ((v Val)) Bool (or ((_ is VInt) v) ((_ is VBool) v)))')
define('toint', '(define-fun toint ((v Val)) Int (ite ((_ is VBool) v) (ite (bval v) 1 0) (ival v)))')
declare_fun('truthy_ref', [t.INT], t.BOOL)
declare_fun('truthy_opq', [t.INT], t.BOOL)
define('truthy', """(define-fun truthy ((v Val)) Bool
  (ite ((_ is VNone) v) false (ite ((_ is VInt) v) (not (= (ival v) 0)) (ite ((_ is VBool) v) (bval v)
  (ite ((_ is VBytes) v) (> (blen v) 0) (ite ((_ is VStr) v) (> (str.len (sval v)) 0)
  (ite ((_ is VRef) v) (truthy_ref (ref v)) (truthy_opq (oid v)))))))))""", deps=['truthy_ref', 'truthy_opq'])

# bytes equality on views: same length and same content
define('beq', """(define-fun-rec beq ((a (Array Int Int)) (ao Int) (b (Array Int Int)) (bo Int) (n Int)) Bool
  (ite (<= n 0) true (and (= (select a (+ ao (- n 1))) (select b (+ bo (- n 1)))) (beq a ao b bo (- n 1)))))""")
# python == on Val (structural except bytes content and int/bool mixing); refs compare by identity here,
# container equality is specified separately (C20) and used where a contract needs it
define('pyeq', """(define-fun pyeq ((x Val) (y Val)) Bool
  (ite (and (isint x) (isint y)) (= (toint x) (toint y))
  (ite (and ((_ is VBytes) x) ((_ is VBytes) y)) (and (= (blen x) (blen y)) (beq (barr x) (boff x) (barr y) (boff y) (blen x)))
  (= x y))))""", deps=['isint', 'toint', 'beq'])


def build_query(hyps, goal, extra_decls=(), get_values=None, logic='ALL', opaque=False):
    """SMT-LIB text for:  hyps |= goal   (asserts hyps and (not goal))."""
    fv = {}
    apps = set()
    for h in list(hyps) + [goal]:
        h.free_vars(fv)
        h.apps(apps)
    names = {a for a in apps if isinstance(a, str)}
    # raw terms may mention spec functions by name: scan their text
    for a in apps:
        if isinstance(a, tuple):
            txt = a[1]
            for n in REGISTRY:
                if n in txt:
                    names.add(n)
    for gen in INSTANCE_GENERATORS:
        more = gen(hyps, goal)
        if more:
            hyps = list(hyps) + more
            for h in more:
                h.free_vars(fv)
                h.apps(apps)
            names = {a for a in apps if isinstance(a, str)} | names
    # definitional axioms of array-valued helper functions (shift, awrite, ...), instantiated for the applications that occur
    extra_hyps = []
    used = [n for n in AXIOMATIZED if n in names]
    if used:
        seen = set()
        stack = list(hyps) + [goal]
        found = {}
        while stack:
            x = stack.pop()
            if id(x) in seen:
                continue
            seen.add(id(x))
            if x.op in AXIOMATIZED:
                found[x.smt()] = x
            if x.op == 'forall':
                stack.append(x.args[1])
            elif x.op not in ('int', 'bool', 'strlit', 'var', 'raw'):
                stack.extend(a for a in x.args if isinstance(a, t.T))
        have = {h.smt() for h in hyps}
        pending = list(found.values())
        done = set()
        while pending:
            x = pending.pop()
            if x.smt() in done:
                continue
            done.add(x.smt())
            if any(v.endswith('!|') or v.endswith('!') for v in x.free_vars()):
                continue
            for ax in AXIOMATIZED[x.op](x):
                if ax.smt() not in have:
                    have.add(ax.smt())
                    extra_hyps.append(ax)
        for h in extra_hyps:
            h.free_vars(fv)
            h.apps(apps)
        names = {a for a in apps if isinstance(a, str)} | names
    hyps = list(hyps) + extra_hyps
    lines = ['(set-logic %s)' % logic, '(set-option :produce-models true)', DATATYPES.strip()]
    for spec in closure(names):
        lines.append(spec.decl if (opaque and spec.decl) else spec.smt)
    for d in extra_decls:
        lines.append(d)
    for n in sorted(fv):
        lines.append('(declare-const %s %s)' % (n, t.SORT_SMT.get(fv[n], fv[n])))
    for h in hyps:
        if h.op == 'bool' and h.args[0]:
            continue
        lines.append('(assert %s)' % h.smt())
    lines.append('(assert (not %s))' % goal.smt())
    lines.append('(check-sat)')
    if get_values:
        lines.append('(get-value (%s))' % ' '.join(get_values))
    return '\n'.join(lines) + '\n'


def pre_query(ob):
    """a cheaper query whose unsatisfiability implies that of the full one: for a definitional hint (a fact that follows from the
    specification functions alone) the goal WITHOUT the path hypotheses, otherwise the query with the specification functions opaque"""
    if getattr(ob, 'kind', '') == 'hint':
        return build_query([], _generalise(ob.goal))
    return build_query(ob.hyps, ob.goal, opaque=True)


def _generalise(goal):
    """the goal with every maximal heap / record expression (store and select chains) replaced by a fresh constant of its sort, the
    same constant for the same expression: a proof of the generalised goal is a proof of the instance, and the solvers no longer
    carry the expressions through every unfolding of a specification function"""
    from . import terms as t
    memo, fresh = {}, {}

    def walk(x):
        if not isinstance(x, t.T) or x.op in ('int', 'bool', 'strlit', 'var', 'raw'):
            return x
        if x.op == 'forall':
            return x
        if id(x) in memo:
            return memo[id(x)]
        if x.op in ('store', 'select') and isinstance(x.sort, str):
            k = x.smt()
            if k not in fresh:
                fresh[k] = t.var('gen!%d' % len(fresh), x.sort)
            r = fresh[k]
        else:
            args = tuple(walk(a) if isinstance(a, t.T) else a for a in x.args)
            r = x if all(a is b for a, b in zip(args, x.args)) else t.T(x.sort, x.op, args)
        memo[id(x)] = r
        return r
    return walk(goal)


class DefInstance:
    """an instance of the defining equation of a specification function, generated mechanically from the registered definition text
    (f(a1..an) = let p1 = a1 .. pn = an in body): true by definition, so it is assumed as a hint without an obligation of its own"""

    def __init__(self, term):
        self.term = term


def _sexpr_at(text, i):
    """end index (exclusive) of the s-expression starting at text[i]"""
    while text[i].isspace():
        i += 1
    if text[i] != '(':
        j = i
        while j < len(text) and not text[j].isspace() and text[j] not in '()':
            j += 1
        return i, j
    depth, j, instr = 0, i, False
    while True:
        ch = text[j]
        if ch == '"':
            instr = not instr
        elif not instr:
            if ch == '(':
                depth += 1
            elif ch == ')':
                depth -= 1
                if depth == 0:
                    return i, j + 1
        j += 1


def definition_instance(name, args):
    from . import terms as t
    spec = REGISTRY[name]
    text = spec.smt
    head = '(define-fun-rec ' if text.startswith('(define-fun-rec ') else '(define-fun '
    assert text.startswith(head + name + ' '), name
    i = len(head) + len(name)
    a, b = _sexpr_at(text, i)
    params_text = text[a + 1:b - 1]
    params, k = [], 0
    while params_text[k:].strip():
        x, y = _sexpr_at(params_text, k)
        params.append(params_text[x + 1:y - 1].split()[0])
        k = y
    a, b2 = _sexpr_at(text, b)
    ret = text[a:b2]
    body = text[b2:].rstrip()
    assert body.endswith(')'), name
    body = body[:-1].strip()
    assert len(params) == len(args), (name, params, len(args))
    binds = t.T('', '', tuple(t.T('', p, (x,)) for p, x in zip(params, args)))
    rsort = {v: k_ for k_, v in t.SORT_SMT.items()}.get(ret, ret)
    lhs = t.T(rsort, name, tuple(args))
    rhs = t.T(rsort, 'let', (binds, t.raw(body, rsort)))
    return DefInstance(t.T(t.BOOL, '=', (lhs, rhs)))
